"""DESIGN-PHASE PROTOTYPE (not part of the framework; written against a scratch copy of the
repo with the repairs of notes/planned_repairs.diff applied at /root/scratch/repo3).
Prototype of the driver model in pure Python floats, replayed against the (repaired) implementation.
Purpose: validate bit-exact replay assumptions before writing the Gallina Driver."""
import numpy as np, sys, math, copy, struct
sys.path.insert(0,'/root/scratch/repo3')
import lbfgsb, lbfgsb.main as M, lbfgsb.bfgsmats as BM, lbfgsb.linesearch as LS
import scipy.optimize._dcsrch as DC
from lbfgsb import minimize_lbfgsb

def key(v): return np.asarray(v,dtype=np.float64).tobytes()
# ---------- recorders
class Rec: pass
def record_run(kw):
    R=Rec(); R.user=[]; R.search={}; R.dcs=[]; R.curv={}
    f=kw['fun']; g=kw['jac']
    def F(x): v=f(x); R.user.append(('f',key(x),float(v))); return v
    def G(x): v=g(x); R.user.append(('g',key(x),key(v))); return v
    o_cp=M.get_cauchy_point; o_sub=M.subspace_minimization; o_is=BM.is_update_X_and_G; o_D=DC.DCSRCH
    last={}
    def cp(x,grad,lb,ub,mats,it,ip,lg=None):
        last['x']=key(x); last['g']=key(grad); last['it']=it
        return o_cp(x,grad,lb,ub,mats,it,ip,lg)
    def sub(x,xc,*a,**k):
        xb=o_sub(x,xc,*a,**k); R.search[(last['x'],last['g'],last['it'])]=np.array(xb,dtype=float).copy(); return xb
    def isu(xk,gk,xo,go,eps=2.2e-16):
        r=o_is(xk,gk,xo,go,eps); R.curv[(key(xk),key(gk),key(xo),key(go))]=r; return r
    class D(o_D):
        def __init__(s,*a): super().__init__(*a); s.hist=[]; R.dcs.append(s.hist)
        def _iterate(s,stp,f,g,task):
            out=super()._iterate(stp,f,g,task); s.hist.append(((float(stp),float(f),float(g),bytes(task[:5])),(float(out[0]),bytes(out[3])))); return out
    M.get_cauchy_point=cp; M.subspace_minimization=sub; BM.is_update_X_and_G=isu; DC.DCSRCH=D
    try:
        kw2=dict(kw); kw2['fun']=F; kw2['jac']=G
        R.res=minimize_lbfgsb(**kw2)
    finally:
        M.get_cauchy_point=o_cp; M.subspace_minimization=o_sub; BM.is_update_X_and_G=o_is; DC.DCSRCH=o_D
    return R
# ---------- model (pure python floats; vectors are lists)
def fclip(v,l,u): 
    m = v if not (v<l) else l      # maximum(v,l) for non-nan
    return m if not (m>u) else u
def vclip(x,lb,ub): return [fclip(a,l,u) for a,l,u in zip(x,lb,ub)]
def vaxpy(x,a,d): return [xi+a*di for xi,di in zip(x,d)]
def vsub(a,b): return [p-q for p,q in zip(a,b)]
def projgr(x,g,lb,ub): return max(abs(fclip(xi-gi,l,u)-xi) for xi,gi,l,u in zip(x,g,lb,ub))
def model_run(R,kw):
    x0=[float(v) for v in kw['x0']]; b=kw['bounds']; lb=[float(v) for v in b[:,0]]; ub=[float(v) for v in b[:,1]]
    f=kw['fun']; g=kw['jac']
    maxcor=kw['maxcor']; ftol=kw['ftol']; gtol=kw['gtol']; maxiter=kw['maxiter']; maxfun=kw['maxfun']; maxls=kw['maxls']
    log=[]; sf={'x':None,'f':None,'g':None,'fu':False,'gu':False,'nfev':0,'ngev':0}
    def sf_set(p):
        if sf['x'] is None or key(p)!=sf['x']:   # array_equal == bit equal except -0/NaN (ignored in prototype)
            sf['x']=key(p); sf['fu']=False; sf['gu']=False
    def sf_fun(p):
        sf_set(p)
        if not sf['fu']:
            sf['nfev']+=1; log.append(('f',key(p))); sf['f']=float(f(np.array(p))); sf['fu']=True
        return sf['f']
    def sf_grad(p):
        sf_set(p)
        if not sf['gu']:
            sf['ngev']+=1; log.append(('g',key(p))); sf['g']=[float(v) for v in g(np.array(p))]; sf['gu']=True
        return sf['g']
    is_boxed=all(math.isfinite(v) for v in lb+ub)
    x=vclip(x0,lb,ub)
    f0=sf_fun(x); grad=sf_grad(x)
    X=[x]; G=[grad]; nit=0; task='START'; succ=False; warn=2
    dcs_i=[0]
    def line_search(x,f0,g0,d,it,cap):
        # max step
        if it==0: mx=1.0
        else:
            tmp=[((u-xi)/di if di>0 else (l-xi)/di) for xi,di,l,u in zip(x,d,lb,ub) if di!=0]
            tmp=[t for t in tmp if math.isfinite(t)]
            mx=min(1e8,min(tmp)) if tmp else 1e8
        dphi0=float(np.array(g0).dot(np.array(d)))      # dot oracle
        if it==0 and not is_boxed: stp0=min(1.0/math.sqrt(float(np.array(d).dot(np.array(d)))),mx)
        else: stp0=1.0
        hist=R.dcs[dcs_i[0]]; dcs_i[0]+=1; hi=0
        tsk=b'START'; fm=f0; dm=dphi0; best=None; bestf=f0; n=0; stp=None
        while n<cap:
            (inp,out)=hist[hi]; hi+=1
            assert inp==(stp0,fm,dm,tsk[:5]), ('dcs key mismatch',inp,(stp0,fm,dm,tsk[:5]))
            stp,tsk=out
            if tsk[:2]==b'FG':
                stp0=stp
                p=vclip(vaxpy(x,stp,d),lb,ub)
                fm=sf_fun(p); gm=sf_grad(p); dm=float(np.array(gm).dot(np.array(d)))
                if fm<bestf: bestf=fm; best=stp
            else: break
            n+=1
        else:
            tsk=b'WARNI'
        if stp is not None and (not math.isfinite(stp) or stp==0.0): return None
        if tsk[:4]!=b'CONV' and tsk[:4]!=b'WARN': return None
        return best
    while projgr(x,grad,lb,ub)>gtol and nit<maxiter and sf['nfev']<maxfun and not succ:
        f_old=f0
        xbar=[float(v) for v in R.search[(key(x),key(grad),nit)]]
        d=vsub(xbar,x)
        st=line_search(x,f0,grad,d,nit,min(maxls,maxfun-sf['nfev']))
        if st is None:
            if len(X)==1: task='ABNORMAL_TERMINATION_IN_LNSRCH'; warn=2; succ=False; break
            task='RESTART_FROM_LNSRCH'; X=[X[-1]]; G=[G[-1]]
        else:
            x=vclip(vaxpy(x,st,d),lb,ub)
            f0=sf_fun(x); grad=sf_grad(x)
            if (f_old-f0)/max(abs(f_old),abs(f0),1)<ftol:
                task='CONVERGENCE: REL_REDUCTION_OF_F_<=_FTOL'; succ=True; warn=0; break
            if R.curv[(key(x),key(grad),key(X[-1]),key(G[-1]))]:
                X.append(x); G.append(grad)
                if len(X)>maxcor+1: X.pop(0); G.pop(0)
        nit+=1
    if projgr(x,grad,lb,ub)<=gtol: task='CONVERGENCE: NORM_OF_PROJECTED_GRADIENT_<=_PGTOL'; succ=True; warn=1
    elif nit>=maxiter: task='STOP: TOTAL NO. of ITERATIONS REACHED LIMIT'; succ=True; warn=1
    elif sf['nfev']>=maxfun: task='STOP: TOTAL NO. of f AND g EVALUATIONS EXCEEDS LIMIT'; succ=True; warn=1
    sk=[vsub(X[i+1],X[i]) for i in range(len(X)-1)]; yk=[vsub(G[i+1],G[i]) for i in range(len(G)-1)]
    return dict(x=x,fun=f0,jac=grad,nfev=sf['nfev'],njev=sf['ngev'],nit=nit,message=task,success=succ,status=warn,sk=sk,yk=yk),log

rng=np.random.default_rng(21); ok=0;bad=0
for k in range(400):
    n=int(rng.integers(1,8))
    A=rng.standard_normal((n,n)); Q=A@A.T+0.1*np.eye(n); bb=rng.standard_normal(n)*3; w=float(rng.choice([0,0.5,2]))
    f=lambda x:float(0.5*x@Q@x-bb@x+w*np.sum(np.cos(3*x))); g=lambda x:Q@x-bb-3*w*np.sin(3*x)
    lb=np.where(rng.random(n)<0.2,-np.inf,-rng.random(n)*3); ub=np.where(rng.random(n)<0.2,np.inf,rng.random(n)*3)
    lo=np.where(np.isfinite(lb),lb,-3);hi=np.where(np.isfinite(ub),ub,3); x0=lo+(hi-lo)*rng.random(n)
    r=rng.random(n); x0=np.where((r<0.25)&np.isfinite(lb),lb,np.where((r>0.75)&np.isfinite(ub),ub,x0))
    kw=dict(x0=x0,fun=f,jac=g,bounds=np.array((lb,ub)).T,maxcor=int(rng.integers(1,6)),ftol=float(rng.choice([0,1e-8,1e-3])),gtol=1e-8,
            maxiter=int(rng.integers(0,25)),maxfun=int(rng.integers(1,60)),maxls=int(rng.integers(1,21)))
    R=record_run(kw)
    try:
        m,log=model_run(R,kw)
    except (AssertionError,KeyError) as e:
        bad+=1; print('REPLAY FAIL',k,repr(e)[:200]); continue
    r=R.res
    same = key(m['x'])==key(r.x) and m['fun']==r.fun and key(m['jac'])==key(r.jac) and m['nfev']==r.nfev and m['njev']==r.njev and m['nit']==r.nit and m['message']==r.message and m['success']==r.success and m['status']==r.status
    pairs = (len(m['sk'])==0 and not r.hess_inv.sk.any()) or (key(m['sk'])==key(r.hess_inv.sk) and key(m['yk'])==key(r.hess_inv.yk))
    ulog=[(a,b) for a,b,_ in R.user]
    if same and pairs and ulog==log: ok+=1
    else: bad+=1; print('MISMATCH',k,same,pairs,ulog==log,m['message'],r.message,m['nit'],r.nit,m['nfev'],r.nfev)
print('ok',ok,'bad',bad)
