(* DESIGN-PHASE PROBE: compiled with coqc 8.16.1 during design to validate feasibility; not part of the framework build. *)
From Coq Require Import Reals ZArith Lra Lia Bool.
From Coq Require PrimFloat FloatAxioms.
From Flocq Require Import Core.Core IEEE754.BinarySingleNaN.
From Flocq Require IEEE754.PrimFloat.
Module PF := Coq.Floats.PrimFloat.
Module FP := Flocq.IEEE754.PrimFloat.
Notation bf := (binary_float FloatOps.prec FloatOps.emax).
Notation flt := PF.float.

(* key : non-NaN floats into (Z * R), lexicographic; infinities at -1 / +1 *)
Definition key (b : bf) : option (Z * R) :=
  match b with
  | B754_nan => None
  | B754_infinity true => Some ((-1)%Z, 0%R)
  | B754_infinity false => Some (1%Z, 0%R)
  | _ => Some (0%Z, B2R b)
  end.
Definition klt (a b : Z * R) : Prop := (fst a < fst b)%Z \/ (fst a = fst b /\ (snd a < snd b)%R).
Definition kle (a b : Z * R) : Prop := (fst a < fst b)%Z \/ (fst a = fst b /\ (snd a <= snd b)%R).

Lemma key_fin (b : bf) : is_finite b = true -> key b = Some (0%Z, B2R b).
Proof. destruct b as [s|s| |s m e H]; simpl; try discriminate; reflexivity. Qed.

Lemma key_nan (b : bf) : key b = None <-> b = B754_nan.
Proof. destruct b as [s|[|]| |s m e H]; simpl; split; intros; try discriminate; auto. Qed.

Lemma Bltb_key (x y : bf) a b : key x = Some a -> key y = Some b -> (Bltb x y = true <-> klt a b).
Proof.
  intros Ha Hb.
  destruct (is_finite x) eqn:Fx; destruct (is_finite y) eqn:Fy.
  - rewrite (Bltb_correct _ _ x y Fx Fy).
    rewrite (key_fin _ Fx) in Ha; rewrite (key_fin _ Fy) in Hb. inversion Ha; inversion Hb; subst.
    unfold klt; simpl. destruct (Rlt_bool_spec (B2R x) (B2R y)); split; intros; try lra; try discriminate; auto.
    destruct H0 as [H0|[_ H0]]; [lia|lra].
  - destruct x as [sx|sx| |sx mx ex Hx]; destruct y as [sy|[|]| |sy my ey Hy]; try discriminate;
    simpl in Ha, Hb; inversion Ha; inversion Hb; subst; unfold Bltb, klt; simpl;
    (split; [intros H; try discriminate; try (left; lia) | intros [H|[H _]]; try lia; try reflexivity]);
    try (destruct sx; simpl in *; try discriminate; try reflexivity; try lia).
  - destruct x as [sx|[|]| |sx mx ex Hx]; destruct y as [sy|sy| |sy my ey Hy]; try discriminate;
    simpl in Ha, Hb; inversion Ha; inversion Hb; subst; unfold Bltb, klt; simpl;
    (split; [intros H; try discriminate; try (left; lia) | intros [H|[H _]]; try lia; try reflexivity]);
    try (destruct sy; simpl in *; try discriminate; try reflexivity; try lia).
  - destruct x as [sx|[|]| |sx mx ex Hx]; destruct y as [sy|[|]| |sy my ey Hy]; try discriminate;
    simpl in Ha, Hb; inversion Ha; inversion Hb; subst; unfold Bltb, klt; simpl;
    (split; [intros H; try discriminate; try (left; lia) | intros [H|[H H']]; simpl in *; try lia; try lra; try reflexivity]).
Qed.
Print Assumptions Bltb_key.
