(* DESIGN-PHASE PROBE: compiled with coqc 8.16.1 during design to validate feasibility; not part of the framework build. *)
From Coq Require Import Reals Lra List Lia.
From Coquelicot Require Import Coquelicot.
Import ListNotations.
Open Scope R_scope.

Fixpoint upd (x : list R) (i : nat) (t : R) : list R :=
  match x, i with
  | [], _ => []
  | _ :: xs, O => t :: xs
  | a :: xs, S k => a :: upd xs k t
  end.
Definition vsum (l : list R) : R := fold_right Rplus 0 l.

Lemma dplus (f g : R -> R) x df dg : is_derive f x df -> is_derive g x dg -> is_derive (fun t => f t + g t) x (df + dg).
Proof. intros; now apply @is_derive_plus. Qed.
Lemma dconst (a x : R) : is_derive (fun _ : R => a) x 0.
Proof. apply @is_derive_const. Qed.
Lemma sep_sum_derive (h h' : R -> R) :
  (forall u, is_derive h u (h' u)) ->
  forall x i, (i < length x)%nat ->
  is_derive (fun t => vsum (map h (upd x i t))) (nth i x 0) (nth i (map h' x) 0).
Proof.
  intros Hh x. induction x as [|a xs IH]; intros i Hi; simpl in Hi; [lia|].
  destruct i as [|k]; simpl.
  - apply (is_derive_ext (fun t => h t + vsum (map h xs))). { intros t; reflexivity. }
    replace (h' a) with (h' a + 0) by ring.
    apply (dplus (fun t => h t) (fun _ => vsum (map h xs))). apply Hh. apply dconst.
  - apply (is_derive_ext (fun t => h a + vsum (map h (upd xs k t)))). { intros t; reflexivity. }
    replace (nth k (map h' xs) 0) with (0 + nth k (map h' xs) 0) by ring.
    apply (dplus (fun _ => h a) (fun t => vsum (map h (upd xs k t)))). apply dconst.
    apply IH. lia.
Qed.

(* rastrigin instance *)
Definition rastrigin (x : list R) := 10 * INR (length x) + vsum (map (fun u => u*u - 10 * cos (2*PI*u)) x).
Definition rastrigin_grad (x : list R) := map (fun u => 2*u + 20*PI*sin(2*PI*u)) x.
Lemma upd_length x i t : length (upd x i t) = length x.
Proof. revert i; induction x; destruct i; simpl; auto. Qed.
Lemma rastr_ok x i : (i < length x)%nat ->
  is_derive (fun t => rastrigin (upd x i t)) (nth i x 0) (nth i (rastrigin_grad x) 0).
Proof.
  intros Hi. unfold rastrigin, rastrigin_grad.
  apply (is_derive_ext (fun t => 10 * INR (length x) + vsum (map (fun u => u*u - 10 * cos (2*PI*u)) (upd x i t)))).
  { intros t. now rewrite upd_length. }
  match goal with |- is_derive _ _ ?v => replace v with (0 + v) by ring end.
  apply (dplus (fun _ => 10 * INR (length x))). apply dconst.
  apply sep_sum_derive; auto. intros u. auto_derive. exact I. ring.
Qed.
Print Assumptions rastr_ok.
