import numpy as np, sys, copy
sys.path.insert(0,'/root/scratch/repo3')
from collections import deque
from lbfgsb.cauchy import get_cauchy_point
from lbfgsb.subspacemin import get_freev, subspace_minimization
from lbfgsb.bfgsmats import LBFGSB_MATRICES, update_lbfgs_matrices, bmv
rng=np.random.default_rng(14)
def denseB(mats,n):
    if not mats.use_factor: return mats.theta*np.eye(n)
    Minv=mats.invMfactors[0]@mats.invMfactors[1]
    return mats.theta*np.eye(n)-mats.W@np.linalg.solve(Minv,mats.W.T)
def ref_gcp(x,g,lb,ub,B):
    n=x.size
    t=np.full(n,np.inf)
    for i in range(n):
        if g[i]<0: t[i]=(x[i]-ub[i])/g[i]
        elif g[i]>0: t[i]=(x[i]-lb[i])/g[i]
    P=lambda tt: np.clip(x-tt*g,lb,ub)
    bps=sorted(set([v for v in t if v>0 and np.isfinite(v)]))
    told=0.0
    for tb in bps+[np.inf]:
        d=np.where(t>told,-g,0.0)
        z=P(told)-x
        f1=g@d+d@B@z; f2=d@B@d
        if f2<=0:
            if f1>=0: return P(told),told
            if not np.isfinite(tb): return None,None
        else:
            dt=-f1/f2
            if dt<0: return P(told),told   # already increasing
            if told+dt<tb: return P(told+dt),told+dt
        told=tb
    return P(told),told
bad=0;badc=0;badm=0;tot=0;bad9=0;bad9d=0
for k in range(12000):
    n=int(rng.integers(1,8)); m=int(rng.integers(0,5))
    A=rng.standard_normal((n,n)); Q=A@A.T+0.3*np.eye(n)
    lb=np.where(rng.random(n)<0.2,-np.inf,-rng.random(n)*2); ub=np.where(rng.random(n)<0.2,np.inf,rng.random(n)*2)
    lo=np.where(np.isfinite(lb),lb,-2);hi=np.where(np.isfinite(ub),ub,2)
    x=lo+(hi-lo)*rng.random(n); r=rng.random(n)
    x=np.where((r<0.3)&np.isfinite(lb),lb,np.where((r>0.7)&np.isfinite(ub),ub,x))
    g=rng.standard_normal(n)*3; g[rng.random(n)<0.15]=0
    mats=LBFGSB_MATRICES(n)
    if m>0:
        X=deque([rng.standard_normal(n)]);G=deque([Q@X[0]])
        for j in range(m+2):
            xn=X[-1]+rng.standard_normal(n)*0.5
            mats=update_lbfgs_matrices(xn,Q@xn,X,G,m,mats,False)
    if np.max(np.abs(np.clip(x-g,lb,ub)-x))==0: continue
    B=denseB(mats,n)
    xcp,c=get_cauchy_point(x,g,lb,ub,mats,1,-1,None)
    xr,tr=ref_gcp(x,g,lb,ub,B)
    tot+=1
    if xr is None or not np.allclose(xcp,xr,rtol=1e-7,atol=1e-9): bad+=1
    if (xcp<lb).any() or (xcp>ub).any(): bad+=1
    mod=lambda z: g@(z-x)+0.5*(z-x)@B@(z-x)
    if mod(xcp)>1e-12: badm+=1
    free=((xcp!=lb)&(xcp!=ub)).any()
    if free and mats.use_factor and not np.allclose(c,mats.W.T@(xcp-x),rtol=1e-7,atol=1e-9):
        badc+=1; np.set_printoptions(precision=17); print("CASE",k,n,m,"x",x,"g",g,"lb",lb,"ub",ub,"xcp",xcp,"c",c,"Wtz",mats.W.T@(xcp-x),"tr",tr)
    # C09
    fv,Z,Am=get_freev(xcp,lb,ub,1)
    xbar=subspace_minimization(x,xcp,fv,Z,Am,c,g,lb,ub,mats)
    if (xbar<lb).any() or (xbar>ub).any() or mod(xbar)>mod(xcp)+1e-10*(1+abs(mod(xcp))): bad9+=1
    act=np.setdiff1d(np.arange(n),fv)
    if not np.array_equal(xbar[act],xcp[act]): bad9+=1
    if g@(xbar-x)>=0: bad9d+=1
print(tot,'gcp bad',bad,'model',badm,'c',badc,'sub',bad9,'descent',bad9d)
