import numpy as np, sys
sys.path.insert(0,'/root/scratch/repo3')
from collections import deque
from lbfgsb.bfgsmats import LBFGSB_MATRICES, update_lbfgs_matrices
rng=np.random.default_rng(15)
bad=0;tot=0;rej=0;worst=0
for k in range(1500):
    n=int(rng.integers(1,13)); m=int(rng.integers(1,11)); T=int(rng.integers(1,41))
    A=rng.standard_normal((n,n)); Q=A@A.T+0.1*np.eye(n)
    noncvx=rng.random()<0.5
    gr=(lambda x:Q@x+ (3*np.sin(2*x) if noncvx else 0))
    X=deque([rng.standard_normal(n)]);G=deque([gr(X[0])])
    mats=LBFGSB_MATRICES(n); pairs=[]
    for j in range(T):
        xn=X[-1]+rng.standard_normal(n)*rng.choice([0.01,0.5,2])
        gn=gr(xn)
        s=xn-X[-1]; y=gn-G[-1]
        acc=s@y>2.2e-16*(y@y)
        Xb=[a.copy() for a in X]; Wb=mats.W.copy(); thb=mats.theta
        mats=update_lbfgs_matrices(xn,gn,X,G,m,mats,False)
        tot+=1
        if acc:
            pairs.append((s,y)); pairs=pairs[-m:]
        else:
            rej+=1
            if len(X)!=len(Xb) or not np.array_equal(mats.W,Wb) or mats.theta!=thb: bad+=1; print('reject changed')
        if len(X)-1!=len(pairs) or len(X)>m+1: bad+=1; print('len',len(X),len(pairs))
        if pairs and mats.use_factor:
            th=(pairs[-1][1]@pairs[-1][1])/(pairs[-1][0]@pairs[-1][1])
            B=th*np.eye(n)
            for s_,y_ in pairs:
                Bs=B@s_; B=B-np.outer(Bs,Bs)/(s_@Bs)+np.outer(y_,y_)/(s_@y_)
            Minv=mats.invMfactors[0]@mats.invMfactors[1]
            Bc=mats.theta*np.eye(n)-mats.W@np.linalg.solve(Minv,mats.W.T)
            err=np.max(abs(Bc-B))/np.max(abs(B)); 
            cond=np.linalg.cond(B)
            if err>1e-6*max(1,cond*1e-8): bad+=1; print('B mismatch',err,cond,n,m,len(pairs))
            worst=max(worst,err)
print(tot,rej,bad,worst)
