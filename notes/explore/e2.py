import numpy as np, sys, copy
sys.path.insert(0,'/repo')
from lbfgsb import minimize_lbfgsb, rosenbrock, rosenbrock_grad
from lbfgsb.base import projgr
# D4 restart with smaller maxiter
lb=np.array([-2.,-2.]); ub=np.array([2.,2.]); b=np.array((lb,ub)).T
x0=np.array([-1.,-1.])
r1=minimize_lbfgsb(x0=x0,fun=rosenbrock,jac=rosenbrock_grad,bounds=b,maxiter=5,ftol=0,gtol=1e-10,maxcor=3)
print('r1',r1.message,r1.nit,r1.nfev)
r2=minimize_lbfgsb(x0=r1.x,fun=rosenbrock,jac=rosenbrock_grad,bounds=b,maxiter=3,ftol=0,gtol=1e-10,checkpoint=copy.deepcopy(r1),maxcor=3)
print('D4',r2.message,r2.success,r2.nit)
# D5 restart no-iteration same pairs
r3=minimize_lbfgsb(x0=r1.x,fun=rosenbrock,jac=rosenbrock_grad,bounds=b,maxiter=5,ftol=0,gtol=1e-10,checkpoint=copy.deepcopy(r1),maxcor=3)
print('D5 sk before\n',r1.hess_inv.sk,'\nafter\n',r3.hess_inv.sk)
# D6 callback
states=[]
def cb(x,s): states.append((x.copy(),s, s.x.copy(), s.nit)); return False
r=minimize_lbfgsb(x0=x0,fun=rosenbrock,jac=rosenbrock_grad,bounds=b,maxiter=5,ftol=0,gtol=1e-10,callback=cb)
for xx,s,sx,nit in states: print('D6 nit',nit,'alias changed',not np.array_equal(s.x,sx))
# D7
ck=copy.deepcopy(r1); j0=ck.jac.copy()
r4=minimize_lbfgsb(x0=r1.x,fun=rosenbrock,jac=rosenbrock_grad,bounds=b,maxiter=8,ftol=0,gtol=1e-10,checkpoint=ck,gradient_scaler=lambda x,g,l,u:0.5)
print('D7 jac mutated',not np.array_equal(ck.jac,j0), ck.jac, j0)
# D9
def ft(): raise TypeError("boom")
try:
    minimize_lbfgsb(x0=x0,fun=rosenbrock,jac=rosenbrock_grad,bounds=b,ftarget=ft)
except Exception as e: print('D9',type(e),e)
def gt(): raise TypeError("boom2")
try:
    minimize_lbfgsb(x0=x0,fun=rosenbrock,jac=rosenbrock_grad,bounds=b,gtol=gt)
except Exception as e: print('D9b',type(e),e)
