import numpy as np
rng=np.random.default_rng(5)
def lit(v):
    v=float(v)
    if v!=v: return "nan"
    if v==float('inf'): return "infinity"
    if v==float('-inf'): return "neg_infinity"
    h=v.hex()
    return "(%s)"%h if h.startswith('-') else h
def vec(a): return "["+"; ".join(lit(v) for v in a)+"]"
cases=[]
for k in range(500):
    n=int(rng.integers(1,8))
    x=rng.standard_normal(n)*10.0**int(rng.integers(-5,5)); d=rng.standard_normal(n)*10.0**int(rng.integers(-5,5)); a=float(rng.random()*10.0**int(rng.integers(-8,3)))
    lb=np.where(rng.random(n)<0.2,-np.inf,x-abs(rng.standard_normal(n))); ub=np.where(rng.random(n)<0.2,np.inf,x+abs(rng.standard_normal(n))*1e-3)
    if rng.random()<0.1: x[0]=-0.0
    r=np.clip(x+a*d,lb,ub)
    g=rng.standard_normal(n)
    pg=float(np.max(np.abs(np.clip(x-g,lb,ub)-x)))
    cases.append("(%s, %s, %s, %s, %s, %s, %s, %s)"%(vec(x),lit(a),vec(d),vec(lb),vec(ub),vec(r),vec(g),lit(pg)))
open('t6.v','w').write("""From Coq Require Import List Floats ZArith Bool.
Import ListNotations. Open Scope float_scope.
Definition fmaxn (a b : float) := if a <? b then b else a.
Definition fminn (a b : float) := if b <? a then b else a.
Definition fclip v l u := fminn (fmaxn v l) u.
Fixpoint map3 {A B C D} (f:A->B->C->D) a b c := match a,b,c with x::a',y::b',z::c' => f x y z :: map3 f a' b' c' | _,_,_ => [] end.
Definition vaxpy x a d := map (fun p => fst p + a * snd p) (combine x d).
Definition vclip x l u := map3 fclip x l u.
Definition beq (a b : float) : bool :=
  match compare a b with FEq => Bool.eqb (get_sign a) (get_sign b) | FNotComparable => is_nan a && is_nan b | _ => false end.
Fixpoint vbeq a b := match a,b with [],[] => true | x::a',y::b' => beq x y && vbeq a' b' | _,_ => false end.
Definition projgr x g l u := fold_right fmaxn neg_infinity (map (fun p => abs (fst p - snd p)) (combine (vclip (map (fun p => fst p - snd p) (combine x g)) l u) x)).
Definition check (c : list float * float * list float * list float * list float * list float * list float * float) :=
  let '(x,a,d,l,u,r,g,pg) := c in vbeq (vclip (vaxpy x a d) l u) r && beq (projgr x g l u) pg.
Definition cases := [
"""+";\n".join(cases)+"""].
Eval vm_compute in (length cases, length (filter (fun c => negb (check c)) cases)).
""")
