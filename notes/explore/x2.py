import numpy as np, sys, copy
sys.path.insert(0,'/root/scratch/repo3')
from lbfgsb import minimize_lbfgsb
from lbfgsb.linesearch import line_search
from lbfgsb.scalar_function import ScalarFunction
rng=np.random.default_rng(12)
class Boom(Exception): pass
def mk():
    n=int(rng.integers(1,6))
    A=rng.standard_normal((n,n)); Q=A@A.T+0.1*np.eye(n); b=rng.standard_normal(n)*3
    w=float(rng.choice([0.0,0.5]))
    f=lambda x:float(0.5*x@Q@x-b@x + w*np.sum(np.cos(3*x)))
    g=lambda x:Q@x-b-3*w*np.sin(3*x)
    lb=-rng.random(n)*3; ub=rng.random(n)*3
    x0=lb+(ub-lb)*rng.random(n)
    return n,f,g,lb,ub,x0
bad=0;tot=0
for k in range(25):
    n,f,g,lb,ub,x0=mk()
    cnt={'f':0,'g':0,'cb':0,'upd':0}
    def run(fail_kind=None,fail_at=None,exc=Boom):
        c={'f':0,'g':0,'cb':0,'upd':0,'sc':0,'ft':0,'gt':0}
        def hit(kind):
            c[kind]+=1
            if kind==fail_kind and c[kind]==fail_at: raise exc("marker-%s-%d"%(kind,fail_at))
        def F(x): hit('f'); return f(x)
        def G(x): hit('g'); return g(x)
        def cb(x,s): hit('cb'); return False
        def upd(x,f0,f0o,gr,X,GG): hit('upd'); return f0,f0o,gr,GG
        def sc(*a): hit('sc'); return 2.0
        def ft(): hit('ft'); return -1e9
        def gt(): hit('gt'); return 1e-9
        try:
            r=minimize_lbfgsb(x0=x0,fun=F,jac=G,bounds=np.array((lb,ub)).T,maxiter=6,callback=cb,update_fun_def=upd,gradient_scaler=sc,ftarget=ft,gtol=gt,ftol=0)
            return ('ok',r,c)
        except BaseException as e:
            return ('exc',e,c)
    st,r,c=run()
    assert st=='ok'
    for kind in c:
        for i in range(1,c[kind]+1):
            for exc in (Boom,TypeError,IndexError,ValueError,AssertionError,ZeroDivisionError):
                tot+=1
                st2,e,c2=run(kind,i,exc)
                if not (st2=='exc' and type(e) is exc and str(e)=="marker-%s-%d"%(kind,i) and c2[kind]==i):
                    bad+=1; print('C20 bad',kind,i,exc,st2,repr(e)[:80])
print('C20',bad,tot)
