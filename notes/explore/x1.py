import numpy as np, sys, copy
sys.path.insert(0,'/root/scratch/repo3')
from lbfgsb import minimize_lbfgsb
from lbfgsb.base import projgr
rng=np.random.default_rng(11)
def bits(a): return np.asarray(a,dtype=np.float64).view(np.int64)
def beq(a,b): a=np.asarray(a,float);b=np.asarray(b,float); return a.shape==b.shape and (bits(a)==bits(b)).all()
def mkprob():
    n=int(rng.integers(1,8))
    A=rng.standard_normal((n,n)); Q=A@A.T+0.1*np.eye(n); b=rng.standard_normal(n)*3
    w=float(rng.choice([0.0,0.0,0.5,2.0]))
    f=lambda x:float(0.5*x@Q@x-b@x + w*np.sum(np.cos(3*x)))
    g=lambda x:Q@x-b-3*w*np.sin(3*x)
    kind=rng.integers(0,4,size=n)
    lb=np.where((kind==1)|(kind==3),-np.inf,-rng.random(n)*3); ub=np.where((kind==2)|(kind==3),np.inf,rng.random(n)*3)
    deg=rng.random(n)<0.1
    fin=np.isfinite(lb)&np.isfinite(ub)
    ub=np.where(deg&fin,lb,ub)
    lo=np.where(np.isfinite(lb),lb,-3); hi=np.where(np.isfinite(ub),ub,3)
    x0=lo+(hi-lo)*rng.random(n)
    r=rng.random(n); x0=np.where((r<0.25)&np.isfinite(lb),lb,np.where((r>0.75)&np.isfinite(ub),ub,x0))
    return n,f,g,lb,ub,x0
stats=dict(c05=0,c07x=0,c07pairs=0,c07nit=0,c18=0,c18n=0,c03=0,runs=0,c04=0,c02=0,c07cnt=0,msgs={})
for k in range(400):
    n,f,g,lb,ub,x0=mkprob()
    log=[];glog=[]
    def F(x):
        if (x<lb).any() or (x>ub).any(): stats['c02']+=1
        v=f(x); log.append((x.copy(),v)); return v
    def G(x): v=g(x); glog.append((x.copy(),v.copy())); return v
    snaps=[]
    def cb(x,s): snaps.append((s,copy.deepcopy(s),x.copy())); return False
    kw=dict(bounds=np.array((lb,ub)).T,ftol=float(rng.choice([0,1e-8])),gtol=1e-9,maxcor=int(rng.integers(1,6)),maxls=int(rng.integers(1,21)),maxfun=int(rng.integers(3,80)))
    K=int(rng.integers(1,15))
    r=minimize_lbfgsb(x0=x0,fun=F,jac=G,maxiter=K,callback=cb,**kw)
    stats['runs']+=1; stats['msgs'][r.message]=stats['msgs'].get(r.message,0)+1
    # C05
    if r.njev>0 and not (r.fun==f(r.x) and beq(r.jac,g(r.x))): stats['c05']+=1
    if r.nfev!=len(log) or r.njev!=len(glog): stats['c05']+=1
    # C03
    seq=[f(np.clip(x0,lb,ub))]+[s.fun for s,_,_ in snaps]+[r.fun]
    if any(seq[i+1]>seq[i] for i in range(len(seq)-1)): stats['c03']+=1
    # C04
    pg=projgr(r.x,r.jac,lb,ub)
    m=r.message
    ok= (m!='START') and (('PROJECTED' not in m) or pg<=1e-9) and (('ITERATIONS' not in m) or r.nit>=K) and (('EVALUATIONS' not in m) or r.nfev>=kw['maxfun']) and (r.success==(m!='ABNORMAL_TERMINATION_IN_LNSRCH')) and r.nfev<=max(kw['maxfun'],1)+1 and r.nit<=K
    if not ok: stats['c04']+=1; print('C04',m,r.nit,K,r.nfev,kw['maxfun'],pg)
    # C07 : snapshot vs maxiter=k run; immutability
    for (s,sc,xc) in snaps:
        stats['c07cnt']+=1
        if not (beq(s.x,sc.x) and beq(s.jac,sc.jac) and beq(s.hess_inv.sk,sc.hess_inv.sk)): stats['c07x']+=1
        rk=minimize_lbfgsb(x0=x0,fun=f,jac=g,maxiter=s.nit,**kw)
        if not (beq(rk.x,s.x) and rk.fun==s.fun and beq(rk.jac,s.jac) and rk.nfev==s.nfev and rk.njev==s.njev and rk.nit==s.nit): stats['c07nit']+=1
        if not (beq(rk.hess_inv.sk,s.hess_inv.sk) and beq(rk.hess_inv.yk,s.hess_inv.yk)): stats['c07pairs']+=1
    # C18: pairs are bit-exact diffs of logged iterates/gradients
    its=[np.clip(x0,lb,ub)]+[xc for _,_,xc in snaps]
    gd={bits(x).tobytes():v for x,v in glog}
    sk,yk=r.hess_inv.sk,r.hess_inv.yk
    stats['c18n']+=1
    okp = sk.shape[0]<=kw['maxcor']
    # find chain
    def find_chain():
        # each sk row must equal its[j]-its[i] for increasing indices consecutive in retained list
        idx=None
        m=sk.shape[0]
        if sk.size==0 or (m==1 and not sk.any() and len(its)==1): return True
        # try retained list ending anywhere
        from itertools import combinations
        L=len(its)
        # greedy backward: last retained must be some j; search
        def rec(row,j):
            if row<0: return True
            for i in range(j-1,-1,-1):
                if beq(its[j]-its[i],sk[row]):
                    ki,kj=bits(its[i]).tobytes(),bits(its[j]).tobytes()
                    if ki in gd and kj in gd and beq(gd[kj]-gd[ki],yk[row]) and rec(row-1,i): return True
            return False
        return any(rec(m-1,j) for j in range(L-1,-1,-1))
    if not (okp and find_chain() and all(sk[i]@yk[i]>0 for i in range(sk.shape[0]) if sk[i].any() or yk[i].any())): stats['c18']+=1
print(stats)
