import numpy as np, sys, copy
sys.path.insert(0,'/root/scratch/repo3')
from collections import deque
from lbfgsb import minimize_lbfgsb
from scipy.optimize import LbfgsInvHessProduct, OptimizeResult
rng=np.random.default_rng(16)
def bits(a): return np.asarray(a,float).view(np.int64)
def beq(a,b): a=np.asarray(a,float);b=np.asarray(b,float); return a.shape==b.shape and (bits(a)==bits(b)).all()
tot=0;badpairs=0;badnext=0;dropped=0;nolast=0;curv=0
for k in range(200):
    n=int(rng.integers(1,7))
    A=rng.standard_normal((n,n)); Q=A@A.T+0.1*np.eye(n); b=rng.standard_normal(n)*3
    R=np.diag(rng.random(n)*5); 
    mode=rng.choice(['rescale','reweight','adversarial'])
    lam0=0.0; lam1=float(rng.choice([0.5,3.0]))
    f1=lambda x:float(0.5*x@Q@x-b@x); g1=lambda x:Q@x-b
    if mode=='rescale': f2=lambda x:3.0*f1(x); g2=lambda x:3.0*g1(x)
    else: f2=lambda x:f1(x)+lam1*float(0.5*x@R@x); g2=lambda x:g1(x)+lam1*(R@x)
    lb=-rng.random(n)*3; ub=rng.random(n)*3; x0=lb+(ub-lb)*rng.random(n)
    ksw=int(rng.integers(1,5)); cur={'f':f1,'g':g1,'it':0}
    F=lambda x:cur['f'](x); Gf=lambda x:cur['g'](x)
    captured={}
    def upd(x,f0,f0o,gr,X,GG):
        cur['it']+=1
        if cur['it']==ksw+1:   # initial call is it==1; switch after iteration ksw
            cur['f']=f2;cur['g']=g2
            if mode=='adversarial':
                newG=deque([g2(xx)*(1 if rng.random()<0.6 else -1) for xx in X])
            else:
                newG=deque([g2(xx) for xx in X])
            captured['X']=[xx.copy() for xx in X]; captured['G']=[gg.copy() for gg in newG]; captured['x']=x.copy()
            return f2(x),f0o if mode!='rescale' else 3.0*f0o,g2(x),newG
        return f0,f0o,gr,GG
    snaps=[]
    def cb(x,s): snaps.append(copy.deepcopy(s)); return False
    kw=dict(bounds=np.array((lb,ub)).T,ftol=0,gtol=1e-12,maxcor=5)
    r=minimize_lbfgsb(x0=x0,fun=F,jac=Gf,update_fun_def=upd,callback=cb,maxiter=ksw+1,**kw)
    if 'X' not in captured or len(snaps)<ksw+1: continue
    tot+=1
    s=snaps[ksw-1]  # state after iteration ksw (the switch iteration)
    # expected retained: subsequence of captured X + new x with rewritten G
    pts=captured['X']+[captured['x']]; gs=captured['G']+[g2(captured['x'])]
    # check each pair of s equals diffs of some subsequence
    sk,yk=s.hess_inv.sk,s.hess_inv.yk
    def rec(row,j):
        if row<0: return True
        for i in range(j-1,-1,-1):
            if beq(pts[j]-pts[i],sk[row]) and beq(gs[j]-gs[i],yk[row]) and rec(row-1,i): return True
        return False
    L=len(pts)
    if sk.any():
        if not rec(sk.shape[0]-1,L-1):
            if any(rec(sk.shape[0]-1,j) for j in range(L-2,-1,-1)): nolast+=1
            else: badpairs+=1
        if sk.shape[0]<len(pts)-1: dropped+=1
        if any(sk[i]@yk[i]<=0 for i in range(sk.shape[0])): curv+=1
    # next iterate vs restart on new objective from s
    nxt=snaps[ksw].x
    z=minimize_lbfgsb(x0=s.x,fun=f2,jac=g2,checkpoint=copy.deepcopy(s),maxiter=s.nit+1,**kw)
    if not np.allclose(z.x,nxt,rtol=1e-7,atol=1e-9): badnext+=1; print(mode,np.max(abs(z.x-nxt)),sk.shape[0],len(pts)-1)
print(tot,'badpairs',badpairs,'nolast',nolast,'dropped',dropped,'curv',curv,'badnext',badnext)
