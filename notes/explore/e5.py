import numpy as np, sys
sys.path.insert(0,'/repo')
from lbfgsb import minimize_lbfgsb
from scipy.optimize import minimize
rng=np.random.default_rng(3)
agree=0;N=40; firstdiff=[]
for k in range(N):
    n=int(rng.integers(2,7))
    A=rng.standard_normal((n,n)); Q=A@A.T+0.5*np.eye(n); b=rng.standard_normal(n)*3
    f=lambda x:0.5*x@Q@x-b@x+0.1*np.sum(x**4); g=lambda x:Q@x-b+0.4*x**3
    x0=rng.standard_normal(n)*2
    m=int(rng.integers(1,9))
    P1=[];P2=[]
    def f1(x): P1.append(x.copy()); return f(x)
    def f2(x): P2.append(x.copy()); return f(x)
    minimize_lbfgsb(x0=x0,fun=f1,jac=g,maxcor=m,ftol=0,gtol=1e-10,maxiter=12)
    minimize(f2,x0,jac=g,method='L-BFGS-B',options=dict(maxcor=m,ftol=0,gtol=1e-10,maxiter=12))
    L=min(len(P1),len(P2)); 
    d=[np.max(np.abs(P1[i]-P2[i]))/(1+np.max(np.abs(P1[i]))) for i in range(L)]
    bad=[i for i,v in enumerate(d) if v>1e-6]
    firstdiff.append((bad[0] if bad else None, L, len(P1),len(P2)))
print(firstdiff)
