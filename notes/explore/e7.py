import numpy as np, sys, copy
sys.path.insert(0,'/root/scratch/repo2')
from lbfgsb import minimize_lbfgsb
rng=np.random.default_rng(5)
tot=0;bad=0;badpairs=0;ex=[]
for k in range(150):
    n=int(rng.integers(1,7))
    A=rng.standard_normal((n,n)); Q=A@A.T+0.1*np.eye(n); b=rng.standard_normal(n)*3
    w=rng.choice([0.0,0.5,2.0])
    f=lambda x:0.5*x@Q@x-b@x + w*np.sum(np.cos(3*x))
    g=lambda x:Q@x-b-3*w*np.sin(3*x)
    lb=-rng.random(n)*3; ub=rng.random(n)*3
    x0=lb+(ub-lb)*rng.random(n)
    kw=dict(fun=f,jac=g,bounds=np.array((lb,ub)).T,ftol=0,gtol=1e-10,maxcor=int(rng.integers(1,6)))
    full=minimize_lbfgsb(x0=x0,maxiter=12,**kw)
    for s in range(1,min(full.nit,11)):
        a=minimize_lbfgsb(x0=x0,maxiter=s,**kw)
        if a.message!='STOP: TOTAL NO. of ITERATIONS REACHED LIMIT': continue
        z=minimize_lbfgsb(x0=a.x,maxiter=s,checkpoint=copy.deepcopy(a),**kw)
        tot+=1
        if z.hess_inv.sk.shape!=a.hess_inv.sk.shape or not np.allclose(z.hess_inv.sk,a.hess_inv.sk,rtol=1e-6,atol=1e-9): badpairs+=1
        c=minimize_lbfgsb(x0=a.x,maxiter=s+1,checkpoint=copy.deepcopy(a),**kw)
        u=minimize_lbfgsb(x0=x0,maxiter=s+1,**kw)
        if not np.allclose(c.x,u.x,rtol=1e-6,atol=1e-8): bad+=1; ex.append((k,s,w,float(np.max(abs(c.x-u.x)))))
print(tot,bad,badpairs,ex[:8])
