import numpy as np, sys
sys.path.insert(0,'/repo')
from lbfgsb import minimize_lbfgsb
rng=np.random.default_rng(1)
N=300; oob=0; up=0; exc=0; fdexc=0
for k in range(N):
    n=int(rng.integers(1,9))
    A=rng.standard_normal((n,n)); Q=A@A.T+0.1*np.eye(n); b=rng.standard_normal(n)*3
    lb=-rng.random(n)*2; ub=rng.random(n)*2
    viol=[0]; fs=[]
    def f(x):
        if (x<lb).any() or (x>ub).any(): viol[0]+=1
        return 0.5*x@Q@x-b@x + 0.1*np.sum(np.cos(5*x))
    g=lambda x:Q@x-b-0.5*np.sin(5*x)
    x0=lb+(ub-lb)*rng.random(n)
    cbf=[]
    def cb(x,s): cbf.append(s.fun); return False
    try:
        r=minimize_lbfgsb(x0=x0,fun=f,jac=g,bounds=np.array((lb,ub)).T,ftol=0,gtol=1e-8,maxiter=200,maxls=int(rng.integers(1,6)),callback=cb)
    except Exception as e:
        exc+=1; continue
    if viol[0]: oob+=1
    seq=[f(x0)]+cbf+[r.fun]
    if any(seq[i+1]>seq[i] for i in range(len(seq)-1)): up+=1
    try:
        r=minimize_lbfgsb(x0=x0,fun=f,jac='2-point',bounds=np.array((lb,ub)).T,ftol=0,gtol=1e-6,maxiter=100)
    except ValueError as e:
        fdexc+=1
print('oob',oob,'uphill',up,'exc',exc,'fdexc',fdexc,'of',N)
