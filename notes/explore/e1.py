import numpy as np, sys
sys.path.insert(0,'/repo')
from lbfgsb import minimize_lbfgsb
from lbfgsb.base import projgr
rng=np.random.default_rng(0)
bad=0; N=200; msgs={}
for k in range(N):
    n=rng.integers(1,9)
    A=rng.standard_normal((n,n)); Q=A@A.T+0.1*np.eye(n); b=rng.standard_normal(n)*3
    f=lambda x:0.5*x@Q@x-b@x; g=lambda x:Q@x-b
    lb=-rng.random(n)*2; ub=rng.random(n)*2
    x0=np.where(rng.random(n)<0.4, lb, np.where(rng.random(n)<0.5, ub, lb+(ub-lb)*rng.random(n)))
    r=minimize_lbfgsb(x0=x0,fun=f,jac=g,bounds=np.array((lb,ub)).T,ftol=0,gtol=1e-6,maxiter=2000,maxfun=20000,maxcor=int(rng.integers(1,11)))
    pg=projgr(r.x,g(r.x),lb,ub)
    msgs[r.message]=msgs.get(r.message,0)+1
    if pg>1e-4: bad+=1
print(bad,N,msgs)
