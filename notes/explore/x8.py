import numpy as np, sys, itertools
sys.path.insert(0,'/root/scratch/repo3')
from lbfgsb.scalar_function import ScalarFunction
import lbfgsb
pts=[np.array([1.0,2.0]),np.array([3.0,-1.0]),np.array([0.5,0.25])]
def uf(x): return float(x[0]**2+3*x[1])
def ug(x): return np.array([2*x[0],3.0])
bad=0;tot=0
for L in range(1,6):
    for hist in itertools.product(range(9),repeat=L):
        calls=[]
        def F(x): calls.append(('f',tuple(x))); return uf(x)
        def G(x): calls.append(('g',tuple(x))); return ug(x)
        sf=ScalarFunction(F,pts[0],(),G,None,(-np.inf,np.inf))
        last_f=None; ok=True
        for h in hist:
            op,p=divmod(h,3); x=pts[p].copy()
            nb=len(calls)
            if op==0: v=sf.fun(x); ok&=(v==uf(x))
            elif op==1: v=sf.grad(x); ok&=np.array_equal(v,ug(x))
            else: v,w=sf.fun_and_grad(x); ok&=(v==uf(x)) and np.array_equal(w,ug(x))
            x[:]=99  # caller mutates
            # no re-evaluation at the point last evaluated at
        nf=sum(1 for c in calls if c[0]=='f'); ng=sum(1 for c in calls if c[0]=='g')
        ok&=(sf.nfev==nf and sf.ngev==ng)
        # consecutive duplicate f-calls at same point => re-evaluation
        fc=[c for c in calls if c[0]=='f']
        for i in range(1,len(calls)):
            pass
        tot+=1
        if not ok: bad+=1
print(tot,bad)
# benchmarks gradient check
from scipy.optimize import approx_fprime
rng=np.random.default_rng(1)
for name in ['ackley','beale','griewank','quartic','rastrigin','rosenbrock','sphere','styblinski_tang']:
    f=getattr(lbfgsb,name); g=getattr(lbfgsb,name+'_grad'); w=0
    for n in range(2,8):
        for _ in range(20):
            x=rng.uniform(-5,5,n)
            h=1e-5; num=np.array([(f(x+h*e)-f(x-h*e))/(2*h) for e in np.eye(n)])
            w=max(w,np.max(abs(num-g(x))/(1+abs(num))))
    print(name,w)
