import numpy as np, sys
sys.path.insert(0,'/root/scratch/repo3')
from lbfgsb.linesearch import line_search, max_allowed_steplength
from lbfgsb.scalar_function import ScalarFunction
rng=np.random.default_rng(17)
tot=0;oob=0;over=0;notdown=0;rng_bad=0;none=0
for k in range(5000):
    n=int(rng.integers(1,6))
    a=rng.standard_normal(n)*3; w=float(rng.choice([0,1,5,20])); 
    f=lambda x:float(np.sum((x-a)**2)+w*np.sum(np.sin(7*x)))
    g=lambda x:2*(x-a)+7*w*np.cos(7*x)
    lb=np.where(rng.random(n)<0.2,-np.inf,-rng.random(n)*2); ub=np.where(rng.random(n)<0.2,np.inf,rng.random(n)*2)
    lo=np.where(np.isfinite(lb),lb,-2);hi=np.where(np.isfinite(ub),ub,2)
    x0=lo+(hi-lo)*rng.random(n)
    tau=10**rng.uniform(-3,1)
    d=np.clip(x0-tau*g(x0),lb,ub)-x0
    if not d.any() or g(x0)@d>=0: continue
    pts=[]
    def F(x): pts.append(x.copy()); return f(x)
    sf=ScalarFunction(F,x0,(),g,None,(lb,ub))
    f0=sf.fun(x0); g0=sf.grad(x0); pts.clear()
    it=int(rng.choice([0,1,5])); cap=int(rng.integers(1,21))
    boxed=bool(np.isfinite(lb).all() and np.isfinite(ub).all())
    n0=sf.nfev
    st=line_search(x0,f0,g0,d,lb,ub,it,1e8,boxed,sf,1e-3,0.9,0.1,cap,-1,None)
    tot+=1
    if any((p<lb).any() or (p>ub).any() for p in pts): oob+=1
    if sf.nfev-n0>cap: over+=1
    if st is None: none+=1; continue
    mx=max_allowed_steplength(x0,d,lb,ub,1e8,it)
    if not (0<st<=mx): rng_bad+=1
    if not f(np.clip(x0+st*d,lb,ub))<f0: notdown+=1
print(tot,'oob',oob,'over',over,'range',rng_bad,'notdown',notdown,'none',none)
