import numpy as np, sys, copy
sys.path.insert(0,'/repo')
from lbfgsb import minimize_lbfgsb
rng=np.random.default_rng(2)
def same(a,b):
    ks=['x','fun','jac','nfev','njev','nit','message','success','status']
    out=[]
    for k in ks:
        va,vb=a[k],b[k]
        if isinstance(va,np.ndarray):
            if not (va.shape==vb.shape and (va.view(np.int64)==vb.view(np.int64)).all()): out.append(k)
        elif va!=vb: out.append(k)
    if not (np.array_equal(a.hess_inv.sk,b.hess_inv.sk) and np.array_equal(a.hess_inv.yk,b.hess_inv.yk)): out.append('pairs')
    return out
ident=lambda x,f0,f0o,g,X,G:(f0,f0o,g,G)
c13={}; c17={}; c04=[]
for k in range(300):
    n=int(rng.integers(1,7))
    A=rng.standard_normal((n,n)); Q=A@A.T+0.1*np.eye(n); b=rng.standard_normal(n)*3
    lb=-rng.random(n)*2; ub=rng.random(n)*2
    w=rng.random()*0.5
    f=lambda x:0.5*x@Q@x-b@x + w*np.sum(np.cos(5*x))
    g=lambda x:Q@x-b-5*w*np.sin(5*x)
    x0=lb+(ub-lb)*rng.random(n)
    kw=dict(x0=x0,bounds=np.array((lb,ub)).T,ftol=float(rng.choice([0,1e-5,1e-2])),gtol=1e-8,maxiter=int(rng.integers(0,30)),maxls=int(rng.integers(1,21)),maxfun=int(rng.integers(1,60)),maxcor=int(rng.integers(1,6)))
    ft=rng.choice([None, f(x0)-abs(f(x0))*0.3-0.1])
    r0=minimize_lbfgsb(fun=f,jac=g,ftarget=ft,**kw)
    r1=minimize_lbfgsb(fun=f,jac=g,ftarget=ft,update_fun_def=ident,**kw)
    d=same(r0,r1)
    if d: c13[tuple(d)]=c13.get(tuple(d),0)+1
    s=float(10**rng.uniform(-3,3))
    r2=minimize_lbfgsb(fun=f,jac=g,gradient_scaler=lambda *a:s,**kw)
    r3=minimize_lbfgsb(fun=lambda x:f(x)*s,jac=lambda x:g(x)*s,**kw)
    d=same(r2,r3)
    if d: c17[tuple(d)]=c17.get(tuple(d),0)+1
    # c04
    r=r0
    if r.nfev>max(kw['maxfun'],1)+1: c04.append(('nfev',r.nfev,kw['maxfun']))
    if r.message=='START': c04.append('START')
print('c13',c13); print('c17',c17); print('c04',c04[:10])
