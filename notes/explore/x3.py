import numpy as np, sys, copy, warnings
sys.path.insert(0,'/root/scratch/repo3')
from lbfgsb import minimize_lbfgsb
import lbfgsb
rng=np.random.default_rng(13)
res={'exc':0,'oob':0,'acc':0,'n':0,'cnt':0}
worst=0
for k in range(200):
    n=int(rng.integers(1,7))
    A=rng.standard_normal((n,n)); Q=A@A.T+0.5*np.eye(n); b=rng.standard_normal(n)*3
    f=lambda x:0.5*x@Q@x-b@x + 0.05*np.sum(x**4)
    g=lambda x:Q@x-b+0.2*x**3
    lb=-rng.random(n)*2; ub=rng.random(n)*2
    r=rng.random(n); x0=lb+(ub-lb)*rng.random(n); x0=np.where(r<0.3,lb,np.where(r>0.7,ub,x0))
    ex=minimize_lbfgsb(x0=x0,fun=f,jac=g,bounds=np.array((lb,ub)).T,ftol=0,gtol=1e-9,maxiter=500)
    for mode in (None,'2-point','3-point','cs'):
        calls=[0];oob=[0]
        def F(x):
            calls[0]+=1
            if (np.real(x)<lb).any() or (np.real(x)>ub).any(): oob[0]+=1
            return f(x)
        res['n']+=1
        try:
            r=minimize_lbfgsb(x0=x0,fun=F,jac=mode,bounds=np.array((lb,ub)).T,ftol=0,gtol=1e-6,maxiter=500)
        except Exception as e:
            res['exc']+=1; print(mode,repr(e)[:100]); continue
        if oob[0]: res['oob']+=1
        if r.nfev!=calls[0]: res['cnt']+=1
        d=abs(r.fun-ex.fun)/(1+abs(ex.fun)); worst=max(worst,d)
        if d>1e-5: res['acc']+=1; print(mode,d,r.message)
print(res,worst)
