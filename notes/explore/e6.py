import numpy as np, sys
sys.path.insert(0,'/repo')
from lbfgsb import minimize_lbfgsb
f=lambda x:float(x@x); g=lambda x:2*x
ident=lambda x,f0,f0o,gr,X,G:(f0,f0o,gr,G)
x0=np.array([3.,4.])
# after iteration 1 f drops; choose ftol huge so min-change fires along with target
for upd in (None,ident):
    r=minimize_lbfgsb(x0=x0,fun=f,jac=g,ftol=10.0,ftarget=24.9,update_fun_def=upd,gtol=1e-12)
    print(upd is not None, r.message, r.nit, r.fun)
