(* DESIGN-PHASE PROBE: compiled with coqc 8.16.1 during design to validate feasibility; not part of the framework build. *)
From Coq Require Import ZArith List Bool Lia.
Import ListNotations. Open Scope Z_scope.

Inductive res (A : Type) := Ok (a : A) | Raise (e : nat) | OutOfFuel.
Arguments Ok {A}. Arguments Raise {A}. Arguments OutOfFuel {A}.
Definition bind {A B} (m : res A) (f : A -> res B) : res B :=
  match m with Ok a => f a | Raise e => Raise e | OutOfFuel => OutOfFuel end.
Notation "x <- m ;; f" := (bind m (fun x => f)) (at level 61, m at next level, right associativity).

Inductive msg := START | RESTART | ABNORMAL | FTOL | TARGET | PGTOL | MAXITER | MAXFUN | CALLBACK.
Definition msg_eq_dec (a b : msg) : {a = b} + {a <> b}. Proof. decide equality. Defined.
Record st := { nit : Z; nfev : Z; succ : bool; m : msg; mem1 : bool; cbtrue : bool }.

Section D.
  (* oracles: everything numeric *)
  Variable pg_gt : Z -> Z -> bool.                 (* projgr(x_k) > gtol, as a function of (nit, nfev) - arbitrary *)
  Variable ls : Z -> Z -> Z -> res (option (Z * bool)). (* nit nfev cap -> None | Some (evals used, extra eval needed) *)
  Variable ftol_hit target_hit : Z -> Z -> bool.
  Variable cb : Z -> Z -> res bool.
  Hypothesis ls_budget : forall n f cap r, ls n f cap = Ok r -> match r with None => True | Some (k, _) => 0 <= k <= cap end.
  Variables maxiter maxfun maxls : Z.

  Definition guard (s : st) := pg_gt s.(nit) s.(nfev) && (s.(nit) <? maxiter) && (s.(nfev) <? maxfun) && negb s.(succ).

  Fixpoint loop (fuel : nat) (s : st) : res st :=
    if guard s then
      match fuel with O => OutOfFuel | S k =>
        r <- ls s.(nit) s.(nfev) (Z.min maxls (maxfun - s.(nfev))) ;;
        match r with
        | None => if s.(mem1) then Ok {| nit := s.(nit); nfev := s.(nfev); succ := false; m := ABNORMAL; mem1 := true; cbtrue := s.(cbtrue) |}
                  else loop k {| nit := s.(nit) + 1; nfev := s.(nfev); succ := s.(succ); m := RESTART; mem1 := true; cbtrue := s.(cbtrue) |}
        | Some (used, extra) =>
            let nf := s.(nfev) + used + (if extra then 1 else 0) in
            if target_hit s.(nit) nf then Ok {| nit := s.(nit); nfev := nf; succ := true; m := TARGET; mem1 := s.(mem1); cbtrue := s.(cbtrue) |}
            else if ftol_hit s.(nit) nf then Ok {| nit := s.(nit); nfev := nf; succ := true; m := FTOL; mem1 := s.(mem1); cbtrue := s.(cbtrue) |}
            else
              b <- cb s.(nit) nf ;;
              loop k {| nit := s.(nit) + 1; nfev := nf; succ := b; m := if b then CALLBACK else s.(m); mem1 := false; cbtrue := s.(cbtrue) || b |}
        end
      end
    else Ok s.

  Definition classify (s : st) : st :=
    if negb (pg_gt s.(nit) s.(nfev)) then {| nit := s.(nit); nfev := s.(nfev); succ := true; m := PGTOL; mem1 := s.(mem1); cbtrue := s.(cbtrue) |}
    else if s.(nit) >=? maxiter then {| nit := s.(nit); nfev := s.(nfev); succ := true; m := MAXITER; mem1 := s.(mem1); cbtrue := s.(cbtrue) |}
    else if s.(nfev) >=? maxfun then {| nit := s.(nit); nfev := s.(nfev); succ := true; m := MAXFUN; mem1 := s.(mem1); cbtrue := s.(cbtrue) |}
    else s.

  Definition run (nit0 nfev0 : Z) : res st :=
    s <- loop (Z.to_nat (maxiter - nit0)) {| nit := nit0; nfev := nfev0; succ := false; m := START; mem1 := true; cbtrue := false |} ;;
    Ok (classify s).

  Definition pre (s0 : st) := (s0.(m) = CALLBACK -> s0.(cbtrue) = true) /\ s0.(m) <> ABNORMAL /\
     (s0.(succ) = true -> s0.(m) = CALLBACK \/ s0.(m) = TARGET \/ s0.(m) = FTOL).
  Definition post (s0 s : st) := s0.(nit) <= s.(nit) /\ (s.(nfev) = s0.(nfev) \/ s.(nfev) <= maxfun + 1) /\
     (s.(m) = CALLBACK -> s.(cbtrue) = true) /\
     (s.(m) = ABNORMAL -> s.(succ) = false) /\
     (s.(m) <> ABNORMAL -> guard s = false) /\
     (s.(succ) = true -> s.(m) = CALLBACK \/ s.(m) = TARGET \/ s.(m) = FTOL).

  Lemma post_refl s : pre s -> guard s = false -> post s s.
  Proof. intros (H1 & H2 & H3) Hg. unfold post. repeat split; try lia; auto. congruence. Qed.

  Lemma loop_post : forall fuel s0 s, pre s0 -> loop fuel s0 = Ok s -> post s0 s.
  Proof.
    induction fuel as [|k IH]; intros s0 s Hpre; cbn [loop]; destruct (guard s0) eqn:Hg; intros H; try discriminate;
      try (inversion H; subst; now apply post_refl).
    destruct Hpre as (Hcb & Hab & Hs).
    unfold guard in Hg. apply andb_prop in Hg as [Hg Hns]. apply andb_prop in Hg as [Hg Hnf]. apply andb_prop in Hg as [Hpg Hni].
    apply Z.ltb_lt in Hnf. apply Z.ltb_lt in Hni. apply negb_true_iff in Hns.
    destruct (ls (nit s0) (nfev s0) _) as [r| |] eqn:Hls; cbn [bind] in H; try discriminate.
    pose proof (ls_budget _ _ _ _ Hls) as Hb.
    destruct r as [[used extra]|].
    - set (nf := nfev s0 + used + (if extra then 1 else 0)) in *.
      assert (Hnf' : nf <= maxfun + 1) by (subst nf; destruct extra; lia).
      destruct (target_hit _ _). { inversion H; subst; unfold post; cbn. repeat split; try lia; auto; try discriminate. intros _; unfold guard; cbn; apply andb_false_r. }
      destruct (ftol_hit _ _). { inversion H; subst; unfold post; cbn. repeat split; try lia; auto; try discriminate. intros _; unfold guard; cbn; apply andb_false_r. }
      destruct (cb _ _) as [b| |] eqn:Hc; cbn [bind] in H; try discriminate.
      apply IH in H.
      + unfold post in *; cbn in *. destruct H as (H1 & H2 & H3 & H4 & H5 & H6); repeat split; try lia; auto.
      + unfold pre; cbn. destruct b; repeat split; intros; auto; try discriminate.
        all: rewrite ?orb_true_r, ?orb_false_r; auto; try congruence.
    - destruct (mem1 s0).
      + inversion H; subst; unfold post; cbn. repeat split; try lia; auto; try discriminate. congruence.
      + apply IH in H.
        * unfold post in *; cbn in *. destruct H as (H1 & H2 & H3 & H4 & H5 & H6); repeat split; try lia; auto.
        * unfold pre; cbn. repeat split; intros; try discriminate. congruence.
  Qed.

  Theorem report_truthful nit0 nfev0 s : run nit0 nfev0 = Ok s ->
    s.(m) <> START /\ s.(m) <> RESTART /\
    (s.(m) = PGTOL -> pg_gt s.(nit) s.(nfev) = false) /\ (s.(m) = MAXITER -> s.(nit) >= maxiter) /\
    (s.(m) = MAXFUN -> s.(nfev) >= maxfun) /\ (s.(m) = CALLBACK -> s.(cbtrue) = true) /\
    (s.(succ) = false <-> s.(m) = ABNORMAL) /\ s.(nfev) <= Z.max maxfun nfev0 + 1.
  Proof.
    unfold run. destruct (loop _ _) as [s1| |] eqn:Hl; cbn [bind]; try discriminate. intros H; inversion H; subst; clear H.
    apply loop_post in Hl; [|unfold pre; cbn; repeat split; intros; discriminate].
    unfold post in Hl; cbn in Hl. destruct Hl as (H1 & H2 & H3 & H4 & H5 & H6).
    unfold classify.
    destruct (pg_gt (nit s1) (nfev s1)) eqn:Epg; cbn.
    2:{ repeat split; intros; try discriminate; auto; try lia. }
    destruct (nit s1 >=? maxiter) eqn:Eni; cbn.
    { repeat split; intros; try discriminate; auto; try lia. }
    destruct (nfev s1 >=? maxfun) eqn:Enf; cbn.
    { repeat split; intros; try discriminate; auto; try lia. }
    (* none of the three: guard false must come from succ, or ABNORMAL *)
    assert (Hcase : s1.(m) = ABNORMAL \/ s1.(succ) = true).
    { destruct (msg_eq_dec s1.(m) ABNORMAL) as [E|E]; [now left|right].
      specialize (H5 E). unfold guard in H5. rewrite Epg in H5. cbn in H5.
      destruct (nit s1 <? maxiter) eqn:A; [|lia]. destruct (nfev s1 <? maxfun) eqn:B; [|lia]. cbn in H5.
      now apply negb_false_iff in H5. }
    destruct Hcase as [E|E].
    - specialize (H4 E). repeat split; intros; try congruence; auto; try lia.
    - destruct (H6 E) as [E'|[E'|E']]; repeat split; intros; try congruence; auto; try lia.
  Qed.
End D.
Print Assumptions report_truthful.
