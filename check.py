#!/venv/bin/python
"""Entry point of the verification checks.

  check.py --setup                      translate /repo -> coq/Generated, full Coq build
  check.py Cxx --tier quick|thorough    decide property Cxx on /repo's current working tree
  check.py --replay <file>              re-run a replay file against /repo

Verdict (DESIGN section 4): exit 1 with `VIOLATION property=<id> replay=<path>` when the failing-input
search finds an input that is not a listed open finding, or when a theorem / the translator / a
correspondence no longer checks (then the line ends with no-failing-input-found unless the search
produced a concrete input).  `KNOWN-FINDING: ...` lines for listed open findings, exit 0."""
import os
import sys
import json
import argparse

sys.path.insert(0, os.path.dirname(os.path.abspath(__file__)))
from harness.common import setup_env, Failure, Coverage, Timer, write_evidence, write_replay, match_known, load_known, VERIF, seed  # noqa

setup_env()
from harness import engine, coqbuild, props  # noqa


def run_check(pid, tier):
    T = Timer()
    spec = props.PROPS[pid]
    failures = []      # concrete failing inputs
    broken = []        # proof / translator / correspondence obligations that no longer check
    known_lines = []
    # ---- 1. corpus: minimised past failures of this property, evaluated first
    corpus_cases = props.corpus(pid)
    corpus_fail = 0
    for c in corpus_cases:
        out = engine.replay(c["monitor"], c["case"])
        if out.get("fail"):
            corpus_fail += 1
            failures.append(Failure("input", out["fail"], replay=dict(monitor=c["monitor"], case=c["case"], corpus=c.get("name")), signature=out.get("signature", "")))
    # ---- 2+3. translate + build + theorems of this property
    st = coqbuild.property_status(pid)
    obligations = list(st.get("theorems", []))
    discharged = len(obligations) if st.get("ok") else 0
    if not st.get("exists"):
        obligations, discharged = [], 0   # no Coq file yet for this property (then it is not claimed in MANIFEST.json)
    elif not st.get("ok"):
        broken.append(Failure("proof", f"Coq obligations of {pid} no longer check: {json.dumps(st.get('error'), default=str)[:1500]}",
                              replay=dict(theorems=obligations, error=st.get("error")), signature=f"{pid} proof"))
    # ---- 4. correspondence runs this property rests on
    corr_stats = {}
    for cname in spec.get("corr", []):
        try:
            cf, cs = props.CORR[cname](tier)
        except Exception as e:  # noqa
            import traceback
            cf, cs = [Failure("correspondence", f"correspondence {cname} crashed: {type(e).__name__}: {e}", replay=dict(trace=traceback.format_exc()[-2000:]), signature=f"{pid} corr crash")], {}
        corr_stats[cname] = cs
        broken.extend(cf)
    # ---- 5. failing-input search on the implementation (always run)
    cov = Coverage(spec["rule"])
    fails, cov = engine.search(pid, tier, cov)
    failures.extend(fails)
    if broken and not failures and tier == "quick":
        # an obligation broke and the quick search found nothing: search again at the thorough budget
        f2, cov2 = engine.search(pid, "thorough", Coverage(spec["rule"]), sub_seed=1)
        failures.extend(f2)
        cov.extra["escalated_search_evaluations"] = cov2.evaluations
    # ---- 6. verdict
    violations = 0
    lines = []
    reported = set()
    for f in failures:
        k = match_known(pid, f)
        if k is not None:
            if k["match"] not in reported:
                reported.add(k["match"])
                known_lines.append(f"KNOWN-FINDING: property={pid} {k['what']}")
            continue
        if violations < 3:
            path = write_replay(pid, f)
            lines.append(f"{f.what}\nVIOLATION property={pid} replay={path}")
        violations += 1
    real_inputs = violations
    if broken and real_inputs == 0:
        for b in broken[:2]:
            path = write_replay(pid, b)
            lines.append(f"{b.what[:1200]}\nVIOLATION property={pid} replay={path} no-failing-input-found")
            violations += 1
    elif broken:
        for b in broken[:2]:
            lines.append(f"(also: {b.kind} obligation broken: {b.what[:300]})")
    # ---- 7. evidence
    level = spec["level"]
    coverage = cov.to_json()
    coverage.update(
        obligations=len(obligations), discharged=discharged, theorem_names=obligations,
        checker_cmd="coq_makefile -f _CoqProject -o Makefile && make -k -j16 (coqc 8.16.1, full .vo) + coqc Properties/%s.v (Print Assumptions) + grep hygiene scan" % pid,
        trusted_base=props.trusted_base(pid, st.get("axioms", [])),
        axioms_print_assumptions=st.get("axioms", []),
        correspondence=corr_stats, corpus_cases=len(corpus_cases), corpus_failing=corpus_fail,
        explanation=spec["explanation"], known_findings_reported=sorted(reported),
        exhaustive=bool(spec.get("exhaustive", False)),
    )
    write_evidence(pid, tier, level, coverage, spec["assumptions"], T(), violations)
    for ln in known_lines:
        print(ln)
    for ln in lines:
        print(ln)
    print(f"[{pid}] tier={tier} obligations={discharged}/{len(obligations)} corr={ {k: (v.get('cases') or v.get('histories') or v) for k, v in corr_stats.items()} } "
          f"search={cov.evaluations} cases, {len(cov.nontrivial)} non-trivial, violations={violations}, {T():.1f}s")
    return 1 if violations else 0


def do_replay(path):
    with open(path) as fh:
        rp = json.load(fh)
    pid = rp["property"]
    r = rp.get("replay", {})
    if "case" in r and "monitor" in r:
        out = engine.replay(r["monitor"], r["case"])
        if out.get("fail"):
            print(out["fail"])
            print(f"VIOLATION property={pid} replay={path}")
            return 1
        print(f"[{pid}] replay passes on the current tree")
        return 0
    # a broken obligation: re-run the whole quick check
    return run_check(pid, "quick")


def main():
    ap = argparse.ArgumentParser()
    ap.add_argument("pid", nargs="?")
    ap.add_argument("--tier", default=os.environ.get("VERIF_TIER", "quick"), choices=["quick", "thorough"])
    ap.add_argument("--setup", action="store_true")
    ap.add_argument("--replay")
    a = ap.parse_args()
    if a.setup:
        b = coqbuild.build(force=True)
        print("setup: coq build", "ok" if b["ok"] else "FAILED", f"{b['wall']:.1f}s", b["failed"] or "", b["hygiene"] or "", b["translator_errors"] or "")
        return 0 if b["ok"] else 1
    if a.replay:
        return do_replay(a.replay)
    if a.pid not in props.PROPS:
        print("unknown property", a.pid)
        return 2
    return run_check(a.pid, a.tier)


if __name__ == "__main__":
    sys.exit(main())
