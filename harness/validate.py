"""Validate MANIFEST.json and every evidence file against the given schemas."""
import json, os, sys, glob
import jsonschema
V = os.path.dirname(os.path.dirname(os.path.abspath(__file__)))
ok = True
man = json.load(open(os.path.join(V, "MANIFEST.json")))
try:
    jsonschema.validate(man, json.load(open("/root/.vp/MANIFEST.schema.json")))
    print("MANIFEST ok; claimed:", [c["property_id"] for c in man["checks"]])
except jsonschema.ValidationError as e:
    ok = False
    print("MANIFEST invalid:", e.message, list(e.path))
es = json.load(open("/root/.vp/EVIDENCE.schema.json"))
for f in sorted(glob.glob(os.path.join(V, "evidence", "*.json"))):
    try:
        jsonschema.validate(json.load(open(f)), es)
    except jsonschema.ValidationError as e:
        ok = False
        print(os.path.basename(f), "invalid:", e.message[:300], list(e.path))
ids = {json.loads(l)["id"] for l in open(os.path.join(V, "properties.jsonl")) if l.strip()}
cl = {c["property_id"] for c in man["checks"]}
na = {c["property_id"] for c in man.get("not_applicable", [])}
if cl | na != ids or cl & na:
    ok = False
    print("claimed + not_applicable do not partition the properties", ids - cl - na, cl & na)
sys.exit(0 if ok else 1)
