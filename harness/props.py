"""Per-property configuration: monitor module, correspondence runs, level, texts for the evidence."""
import os
import json

from harness import engine
from harness.common import VERIF

D1 = "harness.monitors.driver"
D2 = "harness.monitors.driver2"
D3 = "harness.monitors.driver3"
K = "harness.monitors.kernels"

COMMON_ASSUME = [
    "user callables are deterministic functions of their argument",
    "NumPy evaluates element-wise float64 expressions one IEEE-754 operation at a time (no fused operations across ufuncs)",
    "the Python harness (generators, recorders, comparison code) is trusted",
]

PROPS = {
    "C01": dict(monitor=D1, level="other", corr=["driver", "cauchy", "subspace"],
                rule="strictly convex box problems (qp/qp4/qpsp, cond<=1e4, n<=12, boxes finite/mixed/inf/tight, starts interior/face/vertex, maxcor 1..10) run with ftol=0, gtol=1e-6; "
                     "non-trivial = start has a variable on a bound with the gradient pushing outward and >=2 iterations; distinct by (problem seed, maxcor)",
                explanation="partial proof + exploration: Coq decides the exits of a run with ftol=0 (C01_exits: never the relative-reduction message; ABNORMAL only from a single-point memory), projgr=0 <-> KKT, and strict progress of the generalized Cauchy point at non-stationary points; convergence of the floating-point iteration itself is explored by the search, not proved",
                assumptions=COMMON_ASSUME + ["convergence in binary64 is observed on generated problems, not proved"]),
    "C02": dict(monitor=D1, level="proof", corr=["driver"],
                rule="runs over all families/boxes/gradient modes; non-trivial = some evaluated point has a coordinate exactly on a bound and >=1 iteration; distinct by (problem seed, mode)",
                explanation="theorem C02_points_in_box over the driver model for every kernel/line-search behaviour; bit-exact driver correspondence; FD stencil points observed only",
                assumptions=COMMON_ASSUME + ["SciPy's approx_derivative keeps stencil points inside the bounds it is given (observed by the search, not proved)"]),
    "C03": dict(monitor=D1, level="proof", corr=["driver:budget"],
                rule="runs with maxls 1..20 and maxfun from 1; non-trivial = >=2 iterations and a line search with >=2 trials; distinct by problem seed",
                explanation="theorem C03_monotone over the driver model; bit-exact driver correspondence",
                assumptions=COMMON_ASSUME),
    "C04": dict(monitor=D1, level="proof", corr=["driver:budget", "driver:restart"], exhaustive=False,
                rule="complete enumeration of the lattice maxiter{0,1,2,5} x maxfun{1,2,3,10} x maxls{1,2,20} x ftol x ftarget kinds x callback kinds (+ restart lattice) on several problems, plus random configurations; "
                     "every case is non-trivial; distinct by (problem, message, configuration)",
                explanation="theorem C04_report over the driver model (all oracles), generated stop tests and message table; bit-exact driver correspondence",
                assumptions=COMMON_ASSUME + ["objective values are not NaN (NaN makes every comparison false; the malformed stream is outside the theorem)"]),
    "C05": dict(monitor=D1, level="proof", corr=["driver:restart", "driver", "sf"],
                rule="runs in all gradient modes, restart chains of length 0..4, scalers; non-trivial = >=1 iteration; distinct by (problem seed, mode, chain length)",
                explanation="theorem C05_coherent over the driver model using the wrapper invariant of C15; bit-exact driver correspondence",
                assumptions=COMMON_ASSUME),
    "C06": dict(monitor=D2, level="proof", corr=["driver:restart"],
                rule="every split k of runs on smooth families, reduced maxcor, chains of restarts; non-trivial = a split with >=2 pairs in memory; distinct by problem seed",
                explanation="theorem restore_diffs (exact reconstruction of the history from its differences, any abelian group, every split, reduced maxcor) + driver correspondence on restarts; the rounding gap in binary64 is explored",
                assumptions=COMMON_ASSUME + ["'up to rounding' is compared with rtol 1e-7 while the step is macroscopic (> 1e-3 of the scale)"]),
    "C07": dict(monitor=D2, level="proof", corr=["driver:cb", "driver:restart"],
                rule="every callback state of runs: immutability, equality with the maxiter=nit run, restart continuation; non-trivial = >=2 callback states; distinct by problem seed",
                explanation="theorem C07_snapshot_is_result (prefix lemma on the driver model) + C07_callback_inert; aliasing is checked on the implementation by the harness",
                assumptions=COMMON_ASSUME),
    "C08": dict(monitor=K, level="proof", corr=["cauchy", "fcauchy", "driver:kern"],
                rule="structural patterns (position x gradient sign x side) exhaustive for n<=2 (quick) / sampled n=3, random n<=10 with 0..10 pairs; non-trivial = a variable on a bound with outward gradient and >=1 breakpoint passed",
                explanation="theorems on the exact (Q) Cauchy model: breakpoint order, on-path, pinned/feasible; tolerance correspondence with get_cauchy_point; first-local-minimiser clause checked against a dense brute-force oracle",
                assumptions=COMMON_ASSUME + ["rounding inside BLAS/LAPACK is not modelled (exact rational model, tolerance comparison)"]),
    "C09": dict(monitor=K, level="proof", corr=["subspace", "fsubspace", "driver:kern"],
                rule="same inputs as C08 pushed through get_freev + subspace_minimization; non-trivial = some but not all variables free",
                explanation="partial: structure theorems (fixed stay, feasible and maximal alpha*, conditional decrease) on the exact model; exact-minimiser link explored against a dense oracle",
                assumptions=COMMON_ASSUME),
    "C10": dict(monitor=K, level="proof", corr=["bfgs", "driver", "driver:kern"],
                rule="histories of <=40 candidate updates (convex / non-convex gradients), maxcor 1..10, n 1..12, and update sequences intercepted in real runs; non-trivial = >=2 accepted and >=1 rejected",
                explanation="memory-discipline theorems on the memory model for every history; BFGS step SPD+secant over Q; compact=dense explored against a dense recursion",
                assumptions=COMMON_ASSUME),
    "C11": dict(monitor=K, level="proof", corr=["driver:budget", "driver", "dcsrch"],
                rule="direct line_search calls on convex/oscillating objectives, caps 1..20, iteration 0/1/5; non-trivial = >=2 trial points",
                explanation="theorems over the line-search model: box / budget / strictly-downhill for every line-search routine; range clause with the bit-exact model of SciPy's DCSRCH inside (every pow behaviour); bit-exact correspondence through the driver runs (DCSRCH model running inside the driver model) and of the DCSRCH model alone on random and adversarial histories",
                assumptions=COMMON_ASSUME + ["SciPy's _dcsrch.py is modelled by hand (Model/Dcsrch.v) and tied by correspondence, not by a translator; the C library's pow(x, 2.0) is an oracle of that model"]),
    "C12": dict(monitor=D3, level="other", corr=["driver"],
                rule="unconstrained qp4/qpsp/rosen problems vs scipy L-BFGS-B (first 12 iterations, until a documented deviation or round-off) and final values on convex box problems; non-trivial = >=5 evaluation points compared",
                explanation="the reference is a compiled binary without a model: Coq pins the constants, first-step rule and theta formula regenerated from the source; agreement with the binary is exploration",
                assumptions=COMMON_ASSUME),
    "C13": dict(monitor=D2, level="proof", corr=["driver:upd"],
                rule="identity update vs none (bit equality), rescale / reweight / adversarial rewrites at iteration k; non-trivial = rewrite with >=2 pairs in memory",
                explanation="theorems filter_spec / filter_id on the memory model and C13_identity on the driver model; restart clause in exact arithmetic",
                assumptions=COMMON_ASSUME),
    "C14": dict(monitor=D3, level="other", corr=["driver:log", "driver:restart"],
                rule="all interleavings of the first L objective calls of two runs on two threads (L=5 quick, 7 thorough), random long schedules, nested runs, read-only inputs, iprint levels, double restart",
                explanation="partial: purity scan of the package (no shared mutable state written) as a generated Coq fact + the model is a pure function; threads/aliasing/logging observed on the implementation",
                assumptions=COMMON_ASSUME + ["CPython threads, in-place mutation and logging are outside the model"]),
    "C15": dict(monitor=K, level="proof", corr=["sf"], exhaustive=True,
                rule="ALL histories up to length 5 (quick) / 6 (thorough) over {fun,grad,fun_and_grad} x 3 points, with scale changes, callable and FD modes (monitor) + digest comparison with the Coq model; random histories up to 200 in every gradient mode",
                explanation="theorem C15_wrapper (all histories, by induction) + bounded-exhaustive correspondence of the model with ScalarFunction",
                assumptions=COMMON_ASSUME + ["user functions do not distinguish +0.0 from -0.0 (np.array_equal identifies them)"]),
    "C16": dict(monitor=D3, level="other", corr=["driver:fd"],
                rule="convex families and benchmarks, boxes with active bounds at start and optimum, 4 FD modes, eps / rel_step settings; non-trivial = a bound active at the returned point",
                explanation="partial: C16_no_bound_error from C02; stencil feasibility and accuracy are properties of SciPy's routine on a floating-point trajectory: explored",
                assumptions=COMMON_ASSUME),
    "C17": dict(monitor=D2, level="proof", corr=["driver:scaler"],
                rule="pairs of complete runs (scaler s vs explicitly scaled objective) compared bit-for-bit, s=10^u u in [-3,3] and the packaged scaler; non-trivial = >=2 iterations",
                explanation="theorem C17_scaler_equiv on the driver model; bit-exact driver correspondence with scalers",
                assumptions=COMMON_ASSUME),
    "C18": dict(monitor=D1, level="proof", corr=["driver", "driver:upd"],
                rule="runs (pairs vs logged iterates and user gradients, bit-exact) and random positive-curvature pair sets for the diagonal utility; non-trivial = >=2 pairs",
                explanation="theorem C18_pairs on the driver model + diag_spec; driver correspondence compares the pairs bit-for-bit",
                assumptions=COMMON_ASSUME),
    "C19": dict(monitor=K, level="proof", corr=["bench"],
                rule="8 function/gradient pairs, n 1..12, random points in [-5,5]^n away from singularities, 6th-order central differences",
                explanation="theorems over R (Coquelicot) about the gradients regenerated from benchmarks.py by the translator, every dimension",
                assumptions=COMMON_ASSUME + ["NumPy's elementary functions approximate their real counterparts"]),
    "C20": dict(monitor=D2, level="proof", corr=["driver:fault"],
                rule="every call index of every kind of user callable of each explored run x 3 exception types; non-trivial = >=10 injection points",
                explanation="theorem C20_propagation on the driver model (writer/error monad); fault-injection search on the implementation",
                assumptions=COMMON_ASSUME),
}

for _pid, _s in PROPS.items():
    engine.register(_pid, _s["monitor"], _s["rule"])


def _corr_sf(tier):
    from harness.corr import sf
    return sf.run(tier)


def _corr_missing(name):
    def f(tier):
        return [], dict(note=f"correspondence '{name}' not built yet")
    return f


CORR = {"sf": _corr_sf}
for _n in ("driver", "memory", "cauchy"):
    CORR.setdefault(_n, _corr_missing(_n))
try:
    from harness.corr import registry as _reg  # optional, fills in the correspondences that exist
    CORR.update(_reg.CORR)
except ImportError:
    pass


def corpus(pid):
    d = os.path.join(VERIF, "corpus")
    out = []
    if os.path.isdir(d):
        for f in sorted(os.listdir(d)):
            if f.startswith(pid + "_") and f.endswith(".json"):
                with open(os.path.join(d, f)) as fh:
                    c = json.load(fh)
                c["name"] = f
                out.append(c)
    return out


def trusted_base(pid, axioms):
    tb = ["Coq 8.16.1 kernel incl. vm_compute (no native_compute)", "harness/translate.py (Python ast -> Gallina, fail-closed)",
          "correspondence harness (recorders, hex float printing, digest / bit-level comparison)",
          "no Axiom/Parameter/Admitted in the development (grep on every run)"]
    if axioms:
        tb.append("standard-library axioms reported by Print Assumptions: " + ", ".join(axioms))
    else:
        tb.append("Print Assumptions: closed under the global context")
    return tb
