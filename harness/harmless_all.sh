#!/bin/bash
# behaviour-preserving edits of /repo against every quick check: which checks raise an alarm although every property still holds?
cd /verif
test -z "$(git -C /repo status --porcelain)" || { echo "/repo not clean"; exit 1; }
cp -r evidence .work/evidence_bak_h; 
for p in harmless/*.diff; do
  name=$(basename $p .diff)
  git -C /repo apply /verif/$p || { echo "$name: patch does not apply"; continue; }
  t=$(cd /repo && /venv/bin/python -m pytest -q -x -p no:cacheprovider --timeout=900 2>&1 | tail -1)
  out=$(harness/run_all.sh quick 2>&1)
  git -C /repo checkout -- .
  echo "== $name | tests: $t"
  echo "$out" | grep -E "VIOLATION" | sed 's/replay=[^ ]*//' | sort | uniq -c
  echo "$out" | grep -E "^\[C" | grep -v "violations=0" | cut -c1-160
done
rm -rf evidence; mv .work/evidence_bak_h evidence
/venv/bin/python check.py --setup > /dev/null 2>&1
echo DONE
