"""Failing-input search on the numeric kernels called directly: Cauchy point (C08), subspace step (C09),
limited-memory matrices (C10), line search (C11), function wrapper (C15), benchmark gradients (C19)."""
import itertools
from collections import deque
import numpy as np

from harness.monitors.driver import _out
from harness.runs import beq, bits

EPS = np.finfo(float).eps


# ------------------------------------------------------------------ shared synthetic kernel inputs
def kernel_input(case):
    """x, g, lb, ub, mats built from a compact JSON description (pseed, n, m, pattern)."""
    from lbfgsb.bfgsmats import LBFGSB_MATRICES, update_lbfgs_matrices

    rng = np.random.default_rng(case["pseed"])
    n, m = case["n"], case["m"]
    A = rng.standard_normal((n, n))
    Q = A @ A.T + 0.3 * np.eye(n)
    pat = case.get("pattern")
    lb = -rng.random(n) * 2 - 0.1
    ub = rng.random(n) * 2 + 0.1
    x = lb + (ub - lb) * rng.random(n)
    g = rng.standard_normal(n) * 3
    if pat is None:
        r = rng.random(n)
        lb = np.where(r < 0.2, -np.inf, lb)
        ub = np.where((r > 0.15) & (r < 0.35), np.inf, ub)
        r = rng.random(n)
        x = np.where((r < 0.3) & np.isfinite(lb), lb, np.where((r > 0.7) & np.isfinite(ub), ub, x))
        g[rng.random(n) < 0.15] = 0.0
        dg = rng.random(n) < 0.08
        fin = np.isfinite(lb)
        ub = np.where(dg & fin, lb, ub)
        x = np.where(dg & fin, lb, x)
    else:
        # pattern per variable: (position 0 lb /1 interior /2 ub /3 degenerate, gradient sign -1/0/1, side 0 finite /1 infinite-opposite)
        for i, (pos, sg, side) in enumerate(pat):
            g[i] = sg * (0.5 + abs(g[i]))
            if pos == 0:
                x[i] = lb[i]
                if side:
                    ub[i] = np.inf
            elif pos == 2:
                x[i] = ub[i]
                if side:
                    lb[i] = -np.inf
            elif pos == 3:
                ub[i] = lb[i]
                x[i] = lb[i]
            elif side:
                if sg >= 0:
                    ub[i] = np.inf
                else:
                    lb[i] = -np.inf
        if case.get("tie") and n >= 2:
            # make the first two moving variables reach their bounds at the same t
            mv = [i for i in range(n) if g[i] != 0 and np.isfinite((x[i] - (ub[i] if g[i] < 0 else lb[i])) / g[i]) and (x[i] - (ub[i] if g[i] < 0 else lb[i])) / g[i] > 0]
            if len(mv) >= 2:
                i, j = mv[0], mv[1]
                ti = (x[i] - (ub[i] if g[i] < 0 else lb[i])) / g[i]
                bj = x[j] - ti * g[j]
                if g[j] < 0:
                    ub[j] = bj
                else:
                    lb[j] = bj
    mats = LBFGSB_MATRICES(n)
    X = deque([rng.standard_normal(n)])
    G = deque([Q @ X[0]])
    if m > 0:
        for j in range(m + int(rng.integers(0, 3))):
            xn = X[-1] + rng.standard_normal(n) * 0.5
            mats = update_lbfgs_matrices(xn, Q @ xn, X, G, m, mats, False)
    return x, g, lb, ub, mats


def denseB(mats, n):
    if not mats.use_factor:
        return mats.theta * np.eye(n)
    Minv = mats.invMfactors[0] @ mats.invMfactors[1]
    return mats.theta * np.eye(n) - mats.W @ np.linalg.solve(Minv, mats.W.T)


def ref_gcp(x, g, lb, ub, B):
    """Brute-force first local minimiser of the piecewise quadratic along P(x - t g) (dense B)."""
    n = x.size
    t = np.full(n, np.inf)
    for i in range(n):
        if g[i] < 0:
            t[i] = (x[i] - ub[i]) / g[i]
        elif g[i] > 0:
            t[i] = (x[i] - lb[i]) / g[i]
    P = lambda tt: np.where(t <= tt, np.where(g < 0, ub, np.where(g > 0, lb, x)), x - tt * g) if np.isfinite(tt) else None
    bps = sorted(set(v for v in t if v > 0 and np.isfinite(v)))
    told = 0.0
    for tb in bps + [np.inf]:
        d = np.where(t > told, -g, 0.0)
        z = P(told) - x
        f1 = g @ d + d @ B @ z
        f2 = d @ B @ d
        if not d.any():
            return P(told), told
        if f2 <= 0:
            if f1 >= 0:
                return P(told), told
            if not np.isfinite(tb):
                return None, None
        else:
            dt = -f1 / f2
            if dt < 0:
                return P(told), told
            if told + dt < tb:
                return P(told + dt), told + dt
        told = tb
    return P(told), told


def _patterns(n):
    opts = [(pos, sg, side) for pos in (0, 1, 2, 3) for sg in (-1, 0, 1) for side in (0, 1)]
    return itertools.product(opts, repeat=n)


def gen_C08(tier, rng):
    nmax_ex = 2 if tier == "quick" else 3
    for n in range(1, nmax_ex + 1):
        pats = list(_patterns(n))
        if n == 3:
            idx = rng.choice(len(pats), size=4000, replace=False)
            pats = [pats[i] for i in idx]
        for pat in pats:
            for m in ((0, 2) if n > 1 else (0, 1, 2)):
                yield dict(pseed=int(rng.integers(0, 2**31 - 1)), n=n, m=m, pattern=[list(p) for p in pat], tie=bool(rng.random() < 0.3))
    N = 1500 if tier == "quick" else 30000
    for i in range(N):
        yield dict(pseed=int(rng.integers(0, 2**31 - 1)), n=int(rng.integers(1, 11)), m=int(rng.integers(0, 11)))


def eval_C08(case):
    from lbfgsb.cauchy import get_cauchy_point

    x, g, lb, ub, mats = kernel_input(case)
    n = x.size
    pg = np.max(np.abs(np.clip(x - g, lb, ub) - x))
    if pg == 0:
        return _out(None, key=None, skipped="zero projected gradient")
    B = denseB(mats, n)
    xcp, c = get_cauchy_point(x.copy(), g.copy(), lb, ub, mats, 1, -1, None)
    xr, tr = ref_gcp(x, g, lb, ub, B)
    sc = 1.0 + float(np.max(np.abs(x)))
    fail = None
    mod = lambda z: g @ (z - x) + 0.5 * (z - x) @ B @ (z - x)
    if (xcp < lb).any() or (xcp > ub).any():
        fail = "Cauchy point outside the box"
    elif xr is None:
        fail = None  # unbounded reference (cannot happen with positive-definite B)
    elif not np.allclose(xcp, xr, rtol=1e-7, atol=1e-9 * sc):
        fail = f"Cauchy point differs from the first local minimiser along the projected path by {float(np.max(np.abs(xcp - xr))):.3e} (t*={tr!r})"
    elif mod(xcp) > 1e-12 * (1 + abs(g @ g)):
        fail = f"model value at the Cauchy point {float(mod(xcp)):.3e} > model value at x"
    with np.errstate(all="ignore"):
        t = np.where(g < 0, (x - ub) / np.where(g == 0, 1, g), np.where(g > 0, (x - lb) / np.where(g == 0, 1, g), np.inf))
    if fail is None and xr is not None:
        # pinned exactly: every variable whose breakpoint was passed sits exactly on its bound
        passed = t < tr * (1 - 1e-9)
        bound = np.where(g < 0, ub, lb)
        if passed.any() and not beq(xcp[passed] + 0.0, bound[passed] + 0.0):
            fail = "a variable whose breakpoint was passed is not exactly on its bound"
    free = ((xcp != lb) & (xcp != ub)).any()
    if fail is None and free and mats.use_factor:
        want = mats.W.T @ (xcp - x)
        if not np.allclose(c, want, rtol=1e-7, atol=1e-9 * (1 + float(np.max(np.abs(want))))):
            fail = f"auxiliary vector c differs from W'(x_cp - x) by {float(np.max(np.abs(c - want))):.3e}"
    on_bound_out = bool((((x == lb) & (g > 0)) | ((x == ub) & (g < 0))).any())
    nbp = int(np.sum(np.isfinite(t) & (t > 0) & (t <= (tr if tr is not None else 0)))) if xr is not None else 0
    return _out(fail, key=case["pseed"], nontrivial=on_bound_out and nbp >= 1, sample=dict(case=case),
                signature="C08 " + (fail or "")[:30], structural=case.get("pattern") is not None, n=n, pairs=min(case["m"], 3),
                breakpoints_passed=min(nbp, 4))


def gen_C09(tier, rng):
    for c in gen_C08(tier, rng):
        yield c


def eval_C09(case):
    from lbfgsb.cauchy import get_cauchy_point
    from lbfgsb.subspacemin import get_freev, subspace_minimization

    x, g, lb, ub, mats = kernel_input(case)
    n = x.size
    pg = np.max(np.abs(np.clip(x - g, lb, ub) - x))
    if pg == 0:
        return _out(None, key=None, skipped="zero projected gradient")
    B = denseB(mats, n)
    xcp, c = get_cauchy_point(x.copy(), g.copy(), lb, ub, mats, 1, -1, None)
    fv, Z, Am = get_freev(xcp, lb, ub, 1)
    xbar = np.asarray(subspace_minimization(x.copy(), xcp.copy(), fv, Z, Am, c, g.copy(), lb, ub, mats)).ravel()
    mod = lambda z: g @ (z - x) + 0.5 * (z - x) @ B @ (z - x)
    sc = 1.0 + float(np.max(np.abs(x)))
    act = np.setdiff1d(np.arange(n), fv)
    fail = None
    if (xbar < lb).any() or (xbar > ub).any():
        fail = "subspace point outside the box"
    elif not beq(xbar[act], xcp[act]):
        fail = "a variable on a bound at the Cauchy point was moved by the subspace step"
    elif mod(xbar) > mod(xcp) + 1e-10 * (1 + abs(mod(xcp))):
        fail = f"subspace step increased the model value: {float(mod(xcp)):.6e} -> {float(mod(xbar)):.6e}"
    elif not (g @ (xbar - x) < 0):
        fail = f"search direction is not a descent direction: g.d = {float(g @ (xbar - x)):.3e} with projected gradient {float(pg):.3e}"
    if fail is None and fv.size:
        # box-truncated Newton point of the reduced model
        Zd = np.zeros((n, fv.size))
        Zd[fv, np.arange(fv.size)] = 1.0
        rh = Zd.T @ (g + B @ (xcp - x))
        dN = -np.linalg.solve(Zd.T @ B @ Zd, rh)
        with np.errstate(all="ignore"):
            steps = np.where(dN > 0, (ub - xcp)[fv] / dN, np.where(dN < 0, (lb - xcp)[fv] / dN, np.inf))
        a = min(1.0, float(np.min(steps))) if steps.size else 1.0
        want = xcp.copy()
        want[fv] = xcp[fv] + a * dN
        want = np.clip(want, lb, ub)
        cond = np.linalg.cond(Zd.T @ B @ Zd)
        if not np.allclose(xbar, want, rtol=1e-6, atol=1e-8 * sc * max(1.0, cond * 1e-6)):
            fail = f"subspace point differs from the box-truncated reduced Newton point by {float(np.max(np.abs(xbar - want))):.3e} (alpha*={a:.4g})"
    return _out(fail, key=case["pseed"], nontrivial=0 < fv.size < n, sample=dict(case=case, free=int(fv.size)),
                signature="C09 " + (fail or "")[:30], structural=case.get("pattern") is not None, n=n, pairs=min(case["m"], 3),
                free=("none" if fv.size == 0 else ("all" if fv.size == n else "some")))


# ------------------------------------------------------------------ C10
def gen_C10(tier, rng):
    N = 400 if tier == "quick" else 6000
    for i in range(N):
        yield dict(kind="hist", pseed=int(rng.integers(0, 2**31 - 1)), n=int(rng.integers(1, 13)), m=int(rng.integers(1, 11)), T=int(rng.integers(1, 41)),
                   noncvx=bool(rng.random() < 0.5))
    from harness.monitors.driver import _spec
    from harness import gen as G

    for i in range(40 if tier == "quick" else 600):
        yield dict(kind="run", spec=_spec(rng, G.CONVEX + G.NONCONVEX, nmax=10), maxcor=int(rng.integers(1, 11)), maxiter=int(rng.integers(2, 30)))


def _check_update(xn, gn, X, G, m, mats, upd, eps=2.2e-16):
    """One candidate update through the real function, compared with an independent dense recursion."""
    n = xn.size
    s = xn - X[-1]
    y = gn - G[-1]
    acc = bool(s @ y > eps * (y @ y))
    Xb = [a.copy() for a in X]
    Gb = [a.copy() for a in G]
    Wb = mats.W.copy()
    thb = mats.theta
    f0b = mats.invMfactors[0].copy()
    mats2 = upd(xn, gn, X, G, m, mats, False)
    if not acc:
        if len(X) != len(Xb) or any(not beq(a, b) for a, b in zip(X, Xb)) or any(not beq(a, b) for a, b in zip(G, Gb)):
            return mats2, acc, "a rejected pair changed the memory"
        if not beq(mats2.W, Wb) or mats2.theta != thb or not beq(mats2.invMfactors[0], f0b):
            return mats2, acc, "a rejected pair changed the matrices"
        return mats2, acc, None
    want_X = (Xb + [xn])[-(m + 1):]
    want_G = (Gb + [gn])[-(m + 1):]
    if len(X) != len(want_X) or any(not beq(a, b) for a, b in zip(X, want_X)) or any(not beq(a, b) for a, b in zip(G, want_G)):
        return mats2, acc, f"memory after an accepted update is not the previous memory plus the new point with the oldest dropped (len {len(X)}, maxcor {m})"
    return mats2, acc, None


def _check_matrix(X, G, mats, m, eps=2.2e-16):
    n = X[0].size
    pairs = [(X[i + 1] - X[i], G[i + 1] - G[i]) for i in range(len(X) - 1)]
    if len(pairs) > m:
        return f"{len(pairs)} pairs stored > maxcor {m}"
    for s_, y_ in pairs:
        if not (s_ @ y_ > eps * (y_ @ y_)):
            return "a stored pair violates the curvature condition"
    if not pairs or not mats.use_factor:
        return None
    th = (pairs[-1][1] @ pairs[-1][1]) / (pairs[-1][0] @ pairs[-1][1])
    if not np.isclose(mats.theta, th, rtol=1e-12):
        return f"theta {mats.theta!r} is not y.y/s.y of the newest pair {th!r}"
    B = th * np.eye(n)
    for s_, y_ in pairs:
        Bs = B @ s_
        B = B - np.outer(Bs, Bs) / (s_ @ Bs) + np.outer(y_, y_) / (s_ @ y_)
    Minv = mats.invMfactors[0] @ mats.invMfactors[1]
    Bc = mats.theta * np.eye(n) - mats.W @ np.linalg.solve(Minv, mats.W.T)
    cond = np.linalg.cond(B)
    err = float(np.max(np.abs(Bc - B)) / np.max(np.abs(B)))
    if err > 1e-7 * max(1.0, cond * 1e-7):
        return f"compact matrix differs from the dense BFGS recursion by {err:.3e} (cond {cond:.2e}, {len(pairs)} pairs)"
    # symmetry: of the middle matrix the package holds (as the product of its two factors), and of the dense matrix this
    # oracle forms from it - the latter through a linear solve whose own rounding error grows with cond(M^-1), so its
    # allowance does too (a fixed 1e-9 raised a false alarm on the badly scaled family: M^-1 exactly symmetric, cond 1e14)
    if not np.allclose(Minv, Minv.T, rtol=1e-10, atol=1e-12 * np.max(np.abs(Minv))):
        return "limited-memory middle matrix not symmetric"
    cM = np.linalg.cond(Minv)
    if not np.allclose(Bc, Bc.T, rtol=0.0, atol=np.max(np.abs(Bc)) * max(1e-9, 100.0 * 2.2e-16 * cM)):
        return "limited-memory matrix not symmetric"
    ev = np.linalg.eigvalsh(0.5 * (Bc + Bc.T))
    if not (ev[0] > -1e-9 * ev[-1] * max(1.0, cond * 1e-7)):
        return f"limited-memory matrix not positive definite (min eig {ev[0]:.3e})"
    if ev[0] <= 0 and cond < 1e8:
        return f"limited-memory matrix not positive definite (min eig {ev[0]:.3e})"
    sN, yN = pairs[-1]
    if not np.allclose(Bc @ sN, yN, rtol=1e-6, atol=1e-7 * (1 + np.max(np.abs(yN))) * max(1.0, cond * 1e-7)):
        return f"secant equation violated for the newest pair by {float(np.max(np.abs(Bc @ sN - yN))):.3e}"
    return None


def eval_C10(case):
    from lbfgsb.bfgsmats import LBFGSB_MATRICES, update_lbfgs_matrices

    if case["kind"] == "run":
        import lbfgsb.main as M
        from harness import gen as Gn

        P = Gn.make_problem(case["spec"])
        fails = []
        seen = dict(n=0, rej=0)
        orig = M.update_lbfgs_matrices

        def upd(xk, gk, X, G, maxcor, mats, is_force_update=False, **kw):

            def inner(xn, gn, X_, G_, m_, mats_, f_):
                return orig(xn, gn, X_, G_, m_, mats_, f_, **kw)
            mats2, acc, msg = _check_update(np.asarray(xk, float), np.asarray(gk, float), X, G, maxcor, mats, inner, eps=kw.get("eps", 2.2e-16))
            seen["n"] += 1
            seen["rej"] += 0 if acc else 1
            if msg is None and acc:
                msg = _check_matrix(list(X), list(G), mats2, maxcor)
            if msg:
                fails.append(msg)
            return mats2
        M.update_lbfgs_matrices = upd
        try:
            M.minimize_lbfgsb(x0=P.x0.copy(), fun=P.f, jac=P.g, bounds=P.bounds, maxcor=case["maxcor"], maxiter=case["maxiter"], ftol=0.0, gtol=1e-9)
        finally:
            M.update_lbfgs_matrices = orig
        return _out(fails[0] if fails else None, key=("run", case["spec"]["pseed"]), nontrivial=seen["n"] >= 3, sample=dict(case=case, updates=seen["n"], rejected=seen["rej"]),
                    signature="C10 run " + (fails[0] if fails else "")[:30], kind="run", rejected_seen=seen["rej"] > 0)
    rng = np.random.default_rng(case["pseed"])
    n, m, T = case["n"], case["m"], case["T"]
    A = rng.standard_normal((n, n))
    Q = A @ A.T + 0.1 * np.eye(n)
    gr = (lambda x: Q @ x + 3 * np.sin(2 * x)) if case["noncvx"] else (lambda x: Q @ x)
    X = deque([rng.standard_normal(n)])
    G = deque([gr(X[0])])
    mats = LBFGSB_MATRICES(n)
    fail = None
    nacc = nrej = 0
    for j in range(T):
        xn = X[-1] + rng.standard_normal(n) * rng.choice([0.01, 0.5, 2])
        gn = gr(xn)
        mats, acc, fail = _check_update(xn, gn, X, G, m, mats, update_lbfgs_matrices)
        nacc += acc
        nrej += not acc
        if fail is None:
            fail = _check_matrix(list(X), list(G), mats, m)
        if fail:
            fail = f"update {j+1}/{T}: " + fail
            break
    return _out(fail, key=("hist", case["pseed"]), nontrivial=nacc >= 2 and nrej >= 1, sample=dict(case=case, accepted=int(nacc), rejected=int(nrej)),
                signature="C10 hist " + (fail or "")[:30], kind="hist", noncvx=case["noncvx"], full=nacc > m)


# ------------------------------------------------------------------ C11
def gen_C11(tier, rng):
    N = 600 if tier == "quick" else 20000
    for i in range(N):
        yield dict(pseed=int(rng.integers(0, 2**31 - 1)), n=int(rng.integers(1, 6)), w=float(rng.choice([0, 1, 5, 20])), it=int(rng.choice([0, 1, 5])),
                   cap=int(rng.integers(1, 21)), tols=[float(v) for v in (rng.choice([1e-3, 1e-4]), rng.choice([0.9, 0.1]), rng.choice([0.1, 1e-5]))])


def eval_C11(case):
    from lbfgsb.linesearch import line_search
    from harness.runs import ref_max_step
    from lbfgsb.scalar_function import ScalarFunction

    rng = np.random.default_rng(case["pseed"])
    n, w = case["n"], case["w"]
    a = rng.standard_normal(n) * 3
    f = lambda x: float(np.sum((x - a) ** 2) + w * np.sum(np.sin(7 * x)))
    g = lambda x: 2 * (x - a) + 7 * w * np.cos(7 * x)
    lb = np.where(rng.random(n) < 0.2, -np.inf, -rng.random(n) * 2)
    ub = np.where(rng.random(n) < 0.2, np.inf, rng.random(n) * 2)
    lo = np.where(np.isfinite(lb), lb, -2)
    hi = np.where(np.isfinite(ub), ub, 2)
    x0 = lo + (hi - lo) * rng.random(n)
    r = rng.random(n)
    x0 = np.where((r < 0.2) & np.isfinite(lb), lb, np.where((r > 0.8) & np.isfinite(ub), ub, x0))
    tau = 10 ** rng.uniform(-3, 1)
    d = np.clip(x0 - tau * g(x0), lb, ub) - x0
    if not d.any() or g(x0) @ d >= 0:
        return _out(None, key=None, skipped="no descent direction")
    pts = []

    def F(x):
        pts.append(np.array(x, copy=True))
        return f(x)
    sf = ScalarFunction(F, x0, (), g, None, (lb, ub))
    f0 = sf.fun(x0)
    g0 = sf.grad(x0)
    pts.clear()
    it, cap = case["it"], case["cap"]
    boxed = bool(np.isfinite(lb).all() and np.isfinite(ub).all())
    n0, g0n = sf.nfev, sf.ngev
    st = line_search(x0, f0, g0, d, lb, ub, it, 1e8, boxed, sf, case["tols"][0], case["tols"][1], case["tols"][2], cap, -1, None)
    fail = None
    for p in pts:
        if (p < lb).any() or (p > ub).any():
            fail = "line search evaluated a point outside the box"
    if fail is None and (sf.nfev - n0 > cap or sf.ngev - g0n > cap):
        fail = f"line search used {sf.nfev - n0} evaluations > cap {cap}"
    if fail is None and st is not None:
        mx = ref_max_step(x0, d, lb, ub, 1e8, it)   # the harness's own computation; one rounding of slack on the quotient
        if not (0 < st <= mx * (1.0 + 4e-16)):
            fail = f"returned step {st!r} not in (0, {mx!r}]"
        elif not (f(np.clip(x0 + st * d, lb, ub)) < f0):
            fail = f"returned step is not strictly downhill: f0={f0!r}, f(step)={f(np.clip(x0 + st * d, lb, ub))!r}"
    return _out(fail, key=case["pseed"], nontrivial=len(pts) >= 2, sample=dict(case=case, trials=len(pts), step=st),
                signature="C11 " + (fail or "")[:30], it=it, none=st is None, trials=min(len(pts), 6), w=w)


# ------------------------------------------------------------------ C15
PTS = [np.array([1.0, 2.0]), np.array([3.0, -1.0]), np.array([0.5, 0.25])]


def _uf(x):
    return float(x[0] ** 2 + 3 * x[1] + 0.5 * x[0] * x[1])


def _ug(x):
    return np.array([2 * x[0] + 0.5 * x[1], 3.0 + 0.5 * x[0]])


def gen_C15(tier, rng):
    Lmax = 5 if tier == "quick" else 6
    # exhaustive histories, enumerated in blocks (one case = all histories sharing a 2-letter prefix)
    for L in range(1, Lmax + 1):
        if L <= 2:
            yield dict(kind="block", L=L, prefix=[])
        else:
            for pre in itertools.product(range(9), repeat=2):
                yield dict(kind="block", L=L, prefix=list(pre))
                yield dict(kind="block", L=L, prefix=list(pre), scale_at=int(rng.integers(0, L)))
    N = 300 if tier == "quick" else 4000
    for i in range(N):
        yield dict(kind="random", pseed=int(rng.integers(0, 2**31 - 1)), mode=[None, "callable", "2-point", "3-point", "cs"][int(rng.integers(0, 5))],
                   L=int(rng.integers(5, 200)))


def _run_history(hist, scale_at=None, mode="callable", pts=PTS, uf=_uf, ug=_ug, scales=(2.5,)):
    """Run one history on the real wrapper and compare every request with the single-cell reference:
    answers fresh, no objective call at the cached point when the value is there, counters = calls."""
    from lbfgsb.scalar_function import ScalarFunction

    calls = []

    def F(x):
        stencil = np.iscomplexobj(x) and bool(np.any(np.imag(x) != 0))
        calls.append(("fs" if stencil else "f", np.array(np.real(x), dtype=float, copy=True)))
        return uf(x)

    def G(x):
        calls.append(("g", np.array(x, copy=True)))
        return ug(x)
    exact = mode == "callable"
    if exact:
        sf = ScalarFunction(F, pts[0], (), G, None, (-np.inf, np.inf))
    else:
        sf = ScalarFunction(F, pts[0], (), mode, None, (-np.inf, np.inf), epsilon=None)
    s = 1.0
    cur = None
    have_f = have_g = False
    ngrad = 0
    geq = (lambda v, w: beq(v, w)) if exact else (lambda v, w: np.allclose(v, w, rtol=1e-4, atol=1e-5))
    for step, h in enumerate(hist):
        if scale_at is not None and step == scale_at:
            s = scales[0]
            sf.scaling_factor = s
        op, p = divmod(h, 3)
        x = pts[p].copy()
        if cur is None or not np.array_equal(x, cur):
            cur = pts[p].copy()
            have_f = have_g = False
        n_before = len(calls)
        if op == 0:
            v = sf.fun(x)
            okv = beq([v], [uf(pts[p]) * s])
            need_f, need_g = not have_f, False
        elif op == 1:
            v = sf.grad(x)
            okv = geq(v, ug(pts[p]) * s)
            need_g = not have_g
            need_f = (not exact) and need_g and not have_f
        else:
            v, gv = sf.fun_and_grad(x)
            okv = beq([v], [uf(pts[p]) * s]) and geq(gv, ug(pts[p]) * s)
            need_f, need_g = not have_f, not have_g
        if not okv:
            return f"step {step}: answer is not the fresh evaluation at the requested point times the scaling factor (op {op}, point {p})"
        new = calls[n_before:]
        f_at_p = sum(1 for c in new if c[0] == "f" and np.array_equal(c[1], pts[p]))
        g_calls = sum(1 for c in new if c[0] == "g")
        if need_f and f_at_p != 1:
            return f"step {step}: expected one objective evaluation at the requested point, saw {f_at_p}"
        if not need_f and f_at_p != 0:
            return f"step {step}: objective re-evaluated at the point it was last evaluated at"
        if exact and g_calls != (1 if need_g else 0):
            return f"step {step}: {g_calls} gradient calls, expected {1 if need_g else 0}"
        if exact and any(not np.array_equal(c[1], pts[p]) for c in new):
            return f"step {step}: user function called at a point other than the requested one"
        have_f = have_f or need_f
        if need_g:
            ngrad += 1
            have_g = True
        x[:] = 99.0  # the caller modifies the array it passed
    nf = sum(1 for c in calls if c[0] in ("f", "fs"))
    ng = sum(1 for c in calls if c[0] == "g")
    if sf.nfev != nf:
        return f"nfev {sf.nfev} != {nf} objective calls made"
    if exact and sf.ngev != ng:
        return f"ngev {sf.ngev} != {ng} gradient calls made"
    if sf.ngev != ngrad:
        return f"ngev {sf.ngev} != {ngrad} gradient computations expected"
    return None


def eval_C15(case):
    if case["kind"] == "block":
        L, pre = case["L"], case["prefix"]
        cnt = 0
        fail = None
        for rest in itertools.product(range(9), repeat=L - len(pre)):
            hist = tuple(pre) + rest
            cnt += 1
            msg = _run_history(hist, scale_at=case.get("scale_at"))
            if msg:
                fail = f"history {hist} (op=h//3 in fun/grad/fun_and_grad, point=h%3), scale change at {case.get('scale_at')}: {msg}"
                break
        return _out(fail, key=("block", L, tuple(pre), case.get("scale_at")), nontrivial=L >= 2, sample=dict(case=case, histories=cnt),
                    signature="C15 " + (fail.split(": ")[-1] if fail else "")[:40], kind="block", L=L, histories=cnt)
    rng = np.random.default_rng(case["pseed"])
    n = int(rng.integers(1, 5))
    pts = [rng.standard_normal(n) for _ in range(3)]
    pts.append(pts[0] * 1.0)  # an equal point held in a different array
    c = rng.standard_normal(n)
    uf = lambda x: np.sum((x - c) ** 2) + np.sum(x) ** 2
    ug = lambda x: 2 * (np.real(x) - c) + 2 * np.sum(np.real(x))
    hist = [int(v) for v in rng.integers(0, 9, size=case["L"])]
    mode = case["mode"] or "2-point"
    msg = _run_history(hist, scale_at=int(rng.integers(0, case["L"])), mode=mode, pts=pts[:3], uf=uf, ug=ug, scales=(float(10 ** rng.uniform(-2, 2)),))
    return _out(msg, key=("random", case["pseed"]), nontrivial=True, sample=dict(case=case), signature="C15 random " + (msg or "")[:40], kind="random", mode=str(mode))


# ------------------------------------------------------------------ C19
NAMES = ["ackley", "beale", "griewank", "quartic", "rastrigin", "rosenbrock", "sphere", "styblinski_tang"]


def gen_C19(tier, rng):
    reps = 12 if tier == "quick" else 200
    for nm in NAMES:
        for n in range(1, 13):
            if nm == "beale" and n != 2:
                continue
            if nm == "rosenbrock" and n < 2:
                continue
            for r in range(reps if nm != "beale" else reps * 6):
                yield dict(name=nm, n=n, pseed=int(rng.integers(0, 2**31 - 1)))


def eval_C19(case):
    import lbfgsb

    nm, n = case["name"], case["n"]
    f = getattr(lbfgsb, nm)
    g = getattr(lbfgsb, nm + "_grad")
    rng = np.random.default_rng(case["pseed"])
    for _ in range(50):
        x = rng.uniform(-5, 5, n)
        if nm == "ackley" and np.sqrt(np.sum(x * x)) < 0.5:
            continue
        if nm == "griewank" and np.min(np.abs(np.cos(x / np.sqrt(np.arange(1, n + 1))))) < 1e-2:
            continue
        if nm == "beale":
            x = rng.uniform(-3, 3, n)
        break
    fx = f(x)
    gx = np.asarray(g(x))
    fail = None
    if gx.shape != x.shape:
        fail = f"{nm}_grad returns shape {gx.shape} for x of shape {x.shape}"
    elif not (np.isscalar(fx) or np.asarray(fx).shape == ()) or np.iscomplexobj(fx):
        fail = f"{nm} does not return a real scalar"
    else:
        # 6th-order central differences
        num = np.zeros(n)
        h = 1e-2 * (1.0 + np.abs(x)) / 4.0
        for i in range(n):
            e = np.zeros(n)
            e[i] = h[i]
            num[i] = (45 * (f(x + e) - f(x - e)) - 9 * (f(x + 2 * e) - f(x - 2 * e)) + (f(x + 3 * e) - f(x - 3 * e))) / (60 * h[i])
        sc = 1.0 + np.max(np.abs(num))
        # truncation ~ h^6 f^(7)/140: generous bound for these functions, far below any wrong term
        tol = 1e-6 * sc if nm not in ("rastrigin", "ackley", "griewank") else 2e-5 * sc
        if not np.all(np.abs(num - gx) <= tol):
            i = int(np.argmax(np.abs(num - gx)))
            fail = f"{nm}_grad[{i}] = {gx[i]!r} but the numerical derivative is {num[i]!r} (n={n})"
    return _out(fail, key=(nm, n, case["pseed"]), nontrivial=n >= 2 or nm in ("sphere", "quartic", "rastrigin", "styblinski_tang", "ackley", "griewank"),
                sample=dict(case=case, x=[float(v) for v in x[:4]]), signature=f"C19 {nm}", name=nm, n=n)
