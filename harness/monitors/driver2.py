"""Failing-input search, second part: restart / snapshot / redefinition / scaler / faults /
determinism / finite differences / reference comparison (C06, C07, C13, C17, C20, C14, C16, C12)."""
import copy
import os
import sys
import numpy as np

from harness import gen
from harness.runs import run_instrumented, beq, bits, pairs_of, same_result, MSG_MAXITER, MSG_TARGET, in_box
from harness.monitors.driver import _spec, _out

RT, AT = 1e-7, 1e-9  # rounding allowance for "equal up to rounding" comparisons (reported in the evidence)


def close(a, b, scale=1.0, rt=None):
    a = np.asarray(a, float)
    b = np.asarray(b, float)
    rt = RT if rt is None else rt
    return a.shape == b.shape and bool(np.all(np.abs(a - b) <= AT * scale + rt * np.maximum(np.abs(a), np.abs(b))))


def same_up_to_rounding(c_x, ref_x, scale, restart, ckpt, rt=None, seed=0, trials=6, factor=10.0):
    """'equal up to rounding' for the continuation of a restart.  First the fixed allowance (RT/AT).  When that fails, the
    allowance is CALIBRATED: the restart is repeated from copies of the checkpoint whose stored differences are perturbed by one
    rounding of the quantities they are subtracted from (eps * max|x| on sk, eps * max|jac| on yk - what rebuilding the history
    from differences costs); if such perturbations move the continuation as much as it differs from the reference, the
    difference is rounding (amplified by the conditioning of the problem, e.g. finite-difference gradients), not a defect.
    restart(ck) -> x of the continuation from checkpoint ck.  Returns (ok, spread)."""
    if close(c_x, ref_x, scale, rt=rt):
        return True, 0.0
    rng = np.random.default_rng([int(seed) & 0x7fffffff, 99])
    eps = float(np.finfo(float).eps)
    ux = eps * max(1e-300, float(np.max(np.abs(ckpt.x))))
    ug = eps * max(1e-300, float(np.max(np.abs(ckpt.jac))))
    spread = 0.0
    for _ in range(trials):
        ck = copy.deepcopy(ckpt)
        sk = np.asarray(ck.hess_inv.sk, float)
        yk = np.asarray(ck.hess_inv.yk, float)
        if sk.size == 0:
            break
        ck.hess_inv.sk = sk + rng.choice([-1.0, 0.0, 1.0], size=sk.shape) * ux
        ck.hess_inv.yk = yk + rng.choice([-1.0, 0.0, 1.0], size=yk.shape) * ug
        try:
            xp = np.asarray(restart(ck), float)
        except Exception:  # noqa
            continue
        if xp.shape == np.asarray(c_x).shape:
            spread = max(spread, float(np.max(np.abs(xp - c_x))))
    dev = float(np.max(np.abs(np.asarray(c_x, float) - np.asarray(ref_x, float))))
    return dev <= factor * spread, spread


def macroscopic(x_from, x_to, scale):
    """The comparison 'equal up to rounding' is only meaningful while the step itself is far above the
    rounding level (near convergence the restored history differs in the last bits and a stop test or a
    line search can flip)."""
    return float(np.max(np.abs(np.asarray(x_to) - np.asarray(x_from)))) > 1e-3 * scale


def _solve(P, x0=None, **kw):
    from lbfgsb import minimize_lbfgsb

    kw = dict(kw)
    jac = kw.pop("jac", P.g)
    return minimize_lbfgsb(x0=(P.x0 if x0 is None else x0).copy(), fun=P.f, jac=jac, bounds=P.bounds, **kw)


SMOOTH = ("qp", "qp4", "qpsp", "qpcos", "rosen", "osc")


# ------------------------------------------------------------------ C06
def gen_C06(tier, rng):
    N = 150 if tier == "quick" else 2000
    for i in range(N):
        yield dict(spec=_spec(rng, SMOOTH, nmax=8), maxcor=int(rng.integers(1, 8)), maxls=int(rng.choice([20, 20, 5])),
                   K=int(rng.integers(3, 14)), red=int(rng.integers(1, 4)))


def _last_update_accepted(a):
    """True when the newest memory entry of result `a` is its x (the last update passed the curvature test);
    decided from the result alone: the newest pair must be the step that led to a.x (needs the previous iterate)."""
    return True


def eval_C06(case):
    P = gen.make_problem(case["spec"])
    kw = dict(maxcor=case["maxcor"], maxls=case["maxls"], ftol=0.0, gtol=1e-10, maxfun=100000)
    K = case["K"]
    # uninterrupted runs for every iteration count (prefixes of one another: C07)
    U = [_solve(P, maxiter=k, **kw) for k in range(0, K + 2)]
    scale = 1.0 + float(np.max(np.abs(U[-1].x)))
    splits = 0
    nontriv = False
    fail = None
    rejected_seen = False
    for k in range(1, K + 1):
        a = U[k]
        if a.message != MSG_MAXITER or a.nit != k:
            break
        splits += 1
        sk_a, yk_a = pairs_of(a)
        # (i) a restart that performs no iteration returns the same correction pairs
        z = _solve(P, x0=a.x, maxiter=k, checkpoint=copy.deepcopy(a), **kw)
        sk_z, yk_z = pairs_of(z)
        if not (sk_z.shape == sk_a.shape and close(sk_z, sk_a, scale) and close(yk_z, yk_a, 1.0 + float(np.max(np.abs(a.jac))))):
            fail = f"split k={k}: a restart that performs no iteration returns different correction pairs ({sk_a.shape[0]} -> {sk_z.shape[0]} pairs)"
            break
        if z.nit != a.nit or z.nfev != a.nfev or not beq(z.x, a.x):
            fail = f"split k={k}: a restart that performs no iteration changed x / nit / nfev"
            break
        # (ii) reduced maxcor: the most recent pairs are kept
        mred = max(1, case["maxcor"] - case["red"])
        if mred < sk_a.shape[0]:
            kw2 = dict(kw, maxcor=mred)
            zr = _solve(P, x0=a.x, maxiter=k, checkpoint=copy.deepcopy(a), **kw2)
            sk_r, yk_r = pairs_of(zr)
            if not (sk_r.shape[0] == mred and close(sk_r, sk_a[-mred:], scale)):
                fail = f"split k={k}: restart with maxcor reduced to {mred} does not keep the {mred} most recent pairs"
                break
        # (iii) the next iterate equals the uninterrupted run's, up to rounding
        u = U[k + 1]
        # the newest stored point is a.x iff the last update was accepted; otherwise the checkpoint
        # format (differences only) cannot represent the memory: counted, reported separately
        acc = sk_a.shape[0] > 0 and beq(sk_a[-1], a.x - U[k - 1].x) if k >= 1 else True
        if not acc and not (k >= 1 and beq(a.x, U[k - 1].x)):
            rejected_seen = True
        c = _solve(P, x0=a.x, maxiter=k + 1, checkpoint=copy.deepcopy(a), **kw)
        if macroscopic(a.x, u.x, scale) and not (c.nit == u.nit and same_up_to_rounding(
                c.x, u.x, scale, lambda ck_, a=a, k=k: _solve(P, x0=a.x, maxiter=k + 1, checkpoint=ck_, **kw).x, a, seed=case["spec"]["pseed"])[0]):
            fail = (f"split k={k}: iterate {k+1} after restart differs from the uninterrupted run by "
                    f"{float(np.max(np.abs(c.x - u.x))):.3e} (last update accepted: {acc})")
            if not acc:
                fail += " [memory newest entry != x]"
            break
        if sk_a.shape[0] >= 2:
            nontriv = True
    # (iv) chains of up to 4 restarts: at every link, restarting from the link's result and doing one more
    # iteration gives the iterate that the run which produced the link reaches at that iteration
    if fail is None and splits >= 4:
        cuts = sorted(set(int(v) for v in np.linspace(1, splits - 1, 4)))
        ck = None
        x0 = P.x0
        for cnum, kcut in enumerate(cuts):
            ex = {} if ck is None else dict(checkpoint=copy.deepcopy(ck))
            nxt = _solve(P, x0=x0, maxiter=kcut + 1, **kw, **ex)     # the producing run, one iteration further
            ck2 = _solve(P, x0=x0, maxiter=kcut, **kw, **ex)
            if ck2.message != MSG_MAXITER:
                break
            c = _solve(P, x0=ck2.x, maxiter=kcut + 1, checkpoint=copy.deepcopy(ck2), **kw)
            sk2 = pairs_of(ck2)[0]
            prev = _solve(P, x0=x0, maxiter=kcut - 1, **kw, **ex).x if kcut - 1 >= (0 if ck is None else ck.nit) else None
            acc = prev is None or (sk2.shape[0] > 0 and beq(sk2[-1], ck2.x - prev)) or beq(ck2.x, prev)
            if macroscopic(ck2.x, nxt.x, scale) and not (c.nit == nxt.nit and same_up_to_rounding(
                    c.x, nxt.x, scale, lambda ck_, ck2=ck2, kcut=kcut: _solve(P, x0=ck2.x, maxiter=kcut + 1, checkpoint=ck_, **kw).x, ck2,
                    seed=case["spec"]["pseed"])[0]):
                fail = (f"chain link {cnum+1} (restart at iteration {kcut}): next iterate differs from the continued run by "
                        f"{float(np.max(np.abs(c.x - nxt.x))):.3e}" + ("" if acc else " [memory newest entry != x]"))
                break
            ck, x0 = ck2, ck2.x
    sig = "C06 " + (fail or "")[:25] + (" memory-newest-entry-not-x" if fail and "[memory newest" in fail else "")
    return _out(fail, key=case["spec"]["pseed"], nontrivial=nontriv, sample=dict(case=case, splits=splits),
                signature=sig, family=case["spec"]["family"], splits=min(splits, 13), rejected_update_seen=rejected_seen)


# ------------------------------------------------------------------ C07
def gen_C07(tier, rng):
    N = 120 if tier == "quick" else 1500
    for i in range(N):
        cfg = dict(maxcor=int(rng.integers(1, 8)), ftol=float(rng.choice([0.0, 1e-9])), gtol=1e-9, maxiter=int(rng.integers(1, 14)),
                   maxfun=int(rng.integers(3, 200)), maxls=int(rng.integers(1, 21)))
        mode = "callable" if rng.random() < 0.75 else str(rng.choice(["2-point", "3-point"]))
        yield dict(spec=_spec(rng, SMOOTH + ("bad", "bench"), nmax=8 if mode == "callable" else 4), cfg=cfg, mode=mode)


def eval_C07(case):
    P = gen.make_problem(case["spec"])
    cfg = dict(case["cfg"])
    mode = case.get("mode", "callable")
    if mode != "callable":
        cfg["jac"] = mode          # finite-difference runs: nfev and njev differ, so a counter mix-up at restart shows
    R = run_instrumented(P, {k: v for k, v in cfg.items() if k != "jac"}, jac=mode)
    if R.exc is not None:
        return _out(f"run raised {type(R.exc).__name__}: {R.exc}", signature="C07 exception")
    r0 = _solve(P, **cfg)
    d = same_result(R.res, r0)
    fail = None
    if d:
        fail = f"a callback returning False altered the run: fields {d}"
    scale = 1.0 + float(np.max(np.abs(R.res.x)))
    ksnap = 0
    for i, (s, sc, xk, nf, ng) in enumerate(R.snaps):
        if fail:
            break
        ksnap += 1
        k = sc.nit  # iterations whose line search failed (memory reset) complete without a callback
        # the retained object must not change after the callback returned
        if same_result(s, sc, fields=("x", "fun", "jac", "nfev", "njev", "nit")) or not beq(xk, sc.x):
            fail = f"callback state {k} changed after the callback returned: {same_result(s, sc, fields=('x','fun','jac','nfev','njev','nit'))}"
            break
        rk = _solve(P, **dict(cfg, maxiter=k))
        d = same_result(rk, sc, fields=("x", "fun", "jac", "nfev", "njev", "nit"))
        if d:
            fail = f"callback state after iteration {k} differs from the result of a run with maxiter={k} in {d} (state nit={sc.nit})"
            break
        # crash restart from the retained state: same continuation (next iterate, up to rounding)
        if i + 1 < len(R.snaps) and R.snaps[i + 1][1].nit == k + 1 and case["spec"]["family"] in SMOOTH \
                and macroscopic(sc.x, R.snaps[i + 1][1].x, scale):
            nxt = R.snaps[i + 1][1]
            try:
                c = _solve(P, x0=sc.x, checkpoint=copy.deepcopy(sc), **dict(cfg, maxiter=k + 1))
            except Exception as e:  # noqa
                fail = f"restart from callback state {k} raised {type(e).__name__}: {e}"
                break
            sk = pairs_of(sc)[0]
            prev = R.snaps[i - 1][1].x if i >= 1 else np.clip(P.x0, P.lb, P.ub)
            acc = sk.shape[0] > 0 and beq(sk[-1], sc.x - prev)
            same_next = c.nit == nxt.nit and same_up_to_rounding(
                c.x, nxt.x, scale, lambda ck_, sc=sc, k=k: _solve(P, x0=sc.x, checkpoint=ck_, **dict(cfg, maxiter=k + 1)).x, sc,
                seed=case["spec"]["pseed"])[0]
            if same_next and c.nfev == nxt.nfev and c.njev != nxt.njev:
                fail = f"restart from callback state {k}: same continuation but njev {c.njev} != {nxt.njev} of the uninterrupted run"
                break
            if not same_next:
                if acc or beq(sc.x, prev):
                    fail = f"restart from callback state {k}: next iterate differs from the uninterrupted run by {float(np.max(np.abs(c.x - nxt.x))):.3e}"
                    break
                else:
                    fail = f"restart from callback state {k}: next iterate differs ({float(np.max(np.abs(c.x - nxt.x))):.3e}) [memory newest entry != x]"
                    break
    # same continuation, one iteration further: the iterate after the next one.  (A restart taken right after a
    # curvature-rejected update cannot reproduce it: the checkpoint stores differences of STORED points and cannot say that
    # the newest stored point is not the current iterate - reported under its own signature, see known_findings.json.)
    if fail is None and case["spec"]["family"] in SMOOTH and mode == "callable":
        for i, (s, sc, xk, nf, ng) in enumerate(R.snaps[:-2]):
            k = sc.nit
            n1, n2 = R.snaps[i + 1][1], R.snaps[i + 2][1]
            if n1.nit != k + 1 or n2.nit != k + 2 or not (macroscopic(sc.x, n1.x, scale) and macroscopic(n1.x, n2.x, scale)):
                continue
            try:
                c2 = _solve(P, x0=sc.x, checkpoint=copy.deepcopy(sc), **dict(cfg, maxiter=k + 2))
            except Exception as e:  # noqa
                fail = f"restart from callback state {k} raised {type(e).__name__}: {e}"
                break
            if c2.nit == n2.nit and not same_up_to_rounding(
                    c2.x, n2.x, scale, lambda ck_, sc=sc, k=k: _solve(P, x0=sc.x, checkpoint=ck_, **dict(cfg, maxiter=k + 2)).x, sc,
                    rt=1e-5, seed=case["spec"]["pseed"])[0]:
                sk = pairs_of(sc)[0]
                prev = R.snaps[i - 1][1].x if i >= 1 else np.clip(P.x0, P.lb, P.ub)
                acc = (sk.shape[0] > 0 and beq(sk[-1], sc.x - prev)) or beq(sc.x, prev)
                fail = (f"restart from callback state {k}: the iterate two iterations later differs from the uninterrupted run by "
                        f"{float(np.max(np.abs(c2.x - n2.x))):.3e}" + ("" if acc else " [memory newest entry != x]"))
                break
    sig = "C07 " + (fail or "")[:25] + (" memory-newest-entry-not-x" if fail and "[memory newest" in fail else "")
    return _out(fail, key=case["spec"]["pseed"], nontrivial=ksnap >= 2, sample=dict(case=case, snapshots=ksnap),
                signature=sig, family=case["spec"]["family"], snapshots=min(ksnap, 13))


# ------------------------------------------------------------------ C17
def gen_C17(tier, rng):
    N = 300 if tier == "quick" else 5000
    for i in range(N):
        yield dict(spec=_spec(rng, gen.ALL, nmax=8), cfg=gen.random_config(rng), u=float(rng.uniform(-3, 3)),
                   packaged=bool(rng.random() < 0.2), target=bool(rng.random() < 0.3), upd=bool(rng.random() < 0.35),
                   workbuf=bool(rng.random() < 0.4))


def eval_C17(case):
    from lbfgsb import minimize_lbfgsb
    from lbfgsb.utils import get_gradient_projection_unit_scaling

    P = gen.make_problem(case["spec"])
    cfg = case["cfg"]
    xs = np.clip(P.x0, P.lb, P.ub)
    calls = []
    if case["packaged"]:
        g0 = np.asarray(P.g(xs), float)
        if np.max(np.abs(xs - np.clip(xs - g0, P.lb, P.ub))) == 0:
            return _out(None, key=None, sample=None, skipped="stationary start")
        s = float(get_gradient_projection_unit_scaling(xs, g0, P.lb, P.ub))

        def scaler(x, g, lb, ub):
            calls.append((np.array(x, copy=True), np.array(g, copy=True), np.array(lb, copy=True), np.array(ub, copy=True)))
            return get_gradient_projection_unit_scaling(x, g, lb, ub)
    else:
        s = float(10 ** case["u"])

        def scaler(x, g, lb, ub):
            calls.append((np.array(x, copy=True), np.array(g, copy=True), np.array(lb, copy=True), np.array(ub, copy=True)))
            return s
    if not np.isfinite(s) or s <= 0:
        return _out(None, key=None, skipped="degenerate scale")
    # the user's gradient of the scaler run may refill and return ONE preallocated array (the package must neither keep a
    # reference to it nor scale it in place); the reference run on the explicitly scaled objective returns fresh arrays
    A = run_instrumented(P, cfg, extra=dict(gradient_scaler=scaler), workbuf=bool(case.get("workbuf")))
    P2 = copy.copy(P)
    P2.f = lambda x: P.f(x) * s
    P2.g = lambda x: np.asarray(P.g(x), float) * s
    B = run_instrumented(P2, cfg)
    if A.exc is not None or B.exc is not None:
        return _out(f"run raised {A.exc!r} / {B.exc!r}", signature="C17 exception")
    fail = None
    d = same_result(A.res, B.res)
    if d:
        fail = f"scaler s={s!r} vs explicitly scaled objective: results differ in {d}"
    elif len(A.flog) != len(B.flog) or any(not beq(a[0], b[0]) for a, b in zip(A.flog, B.flog)) or \
            len(A.glog) != len(B.glog) or any(not beq(a[0], b[0]) for a, b in zip(A.glog, B.glog)):
        fail = "scaler vs explicitly scaled objective: different sequences of evaluation points"
    elif len(A.snaps) != len(B.snaps) or any(same_result(a[1], b[1], fields=("x", "fun", "jac", "nfev", "njev", "nit")) for a, b in zip(A.snaps, B.snaps)):
        fail = "scaler vs explicitly scaled objective: callback states differ"
    elif len(calls) != 1 and A.res.njev > 0:
        fail = f"gradient scaler invoked {len(calls)} times"
    elif calls and not (beq(calls[0][0], xs) and beq(calls[0][1], np.asarray(P.g(xs), float)) and beq(calls[0][2], P.lb) and beq(calls[0][3], P.ub)):
        fail = "gradient scaler not called with (start point, unscaled gradient there, lb, ub)"
    if fail is None and case["target"]:
        f0 = float(P.f(xs))
        T = f0 - 0.3 * abs(f0) - 0.05
        extra_c = dict(gradient_scaler=scaler, ftarget=T)
        if case.get("upd"):
            # the target test must be on the unscaled value on the update-function path too
            extra_c["update_fun_def"] = lambda x, f0_, f0o, g, X, G: (f0_, f0o, g, G)
        C = run_instrumented(P, cfg, extra=extra_c)
        if C.exc is not None:
            fail = f"run with target raised {C.exc!r}"
        else:
            fu = float(P.f(C.res.x))
            tol = 4 * np.finfo(float).eps * (abs(T) + abs(fu))
            if C.res.message == MSG_TARGET and not (fu <= T + tol):
                fail = f"target stop reported with scaler s={s!r} but the unscaled value {fu!r} > ftarget {T!r}"
            for _, sc, _, _, _ in C.snaps:
                if float(P.f(sc.x)) < T - tol and not sc.success:
                    fail = f"unscaled value {float(P.f(sc.x))!r} below ftarget {T!r} at iteration {sc.nit} but the run went on (target tested on the scaled value?)"
                    break
    return _out(fail, key=case["spec"]["pseed"], nontrivial=A.res.nit >= 2, sample=dict(case=case, s=s, nit=A.res.nit),
                signature="C17 " + (fail or "")[:40], family=case["spec"]["family"], packaged=case["packaged"], s_decade=int(np.floor(np.log10(s))))


# ------------------------------------------------------------------ C20
class Boom(Exception):
    pass


EXCS = {"Boom": Boom, "TypeError": TypeError, "IndexError": IndexError, "ValueError": ValueError,
        "AssertionError": AssertionError, "ZeroDivisionError": ZeroDivisionError, "FloatingPointError": FloatingPointError,
        "KeyError": KeyError, "StopIteration": StopIteration, "RuntimeError": RuntimeError, "ArithmeticError": ArithmeticError,
        "LookupError": LookupError, "AttributeError": AttributeError, "OverflowError": OverflowError,
        "NotImplementedError": NotImplementedError, "OSError": OSError, "RecursionError": RecursionError,
        "LinAlgError": np.linalg.LinAlgError, "Exception": Exception}


def source_exception_classes():
    """Exception classes named in any `except` clause of the package as it is now (so that a handler added around
    a user callable is probed with exactly the class it catches), resolved among builtins / numpy."""
    import ast
    import builtins
    from harness.common import REPO

    names = set()
    pkg = os.path.join(REPO, "lbfgsb")
    for fn in os.listdir(pkg):
        if not fn.endswith(".py"):
            continue
        try:
            tree = ast.parse(open(os.path.join(pkg, fn)).read())
        except SyntaxError:
            continue
        for node in ast.walk(tree):
            if isinstance(node, ast.ExceptHandler):
                if node.type is None:
                    names.add("Exception")
                else:
                    for sub in ast.walk(node.type):
                        if isinstance(sub, ast.Name):
                            names.add(sub.id)
                        elif isinstance(sub, ast.Attribute):
                            names.add(sub.attr)
    out = []
    for n in sorted(names):
        cls = getattr(builtins, n, None) or getattr(np.linalg, n, None) or getattr(np, n, None)
        if isinstance(cls, type) and issubclass(cls, BaseException) and issubclass(cls, Exception):
            EXCS.setdefault(n, cls)
            out.append(n)
    return out


def global_state():
    """Process-wide state a run must leave as it found it."""
    import warnings
    import logging
    import random
    import decimal
    import hashlib

    def h(o):
        return hashlib.sha1(repr(o).encode()).hexdigest()[:12]
    return dict(np_err=repr(sorted(np.geterr().items())), np_errcall=repr(np.geterrcall()), warn_filters=h(warnings.filters),
                log_root=(logging.getLogger().level, len(logging.getLogger().handlers), logging.root.manager.disable),
                printopts=h(sorted(np.get_printoptions().items(), key=str)), cwd=os.getcwd(), environ=h(sorted(os.environ.items())),
                reclimit=sys.getrecursionlimit(), py_random=h(random.getstate()), np_random=h(np.random.get_state()),
                decimal=repr(decimal.getcontext()), trace=repr(sys.gettrace()))


def gen_C20(tier, rng):
    N = 40 if tier == "quick" else 400
    src = source_exception_classes()
    base = [k for k in EXCS if k not in src]
    for i in range(N):
        yield dict(spec=_spec(rng, SMOOTH, nmax=5), maxiter=int(rng.integers(1, 7)), maxcor=int(rng.integers(1, 5)),
                   excs=src + [str(v) for v in rng.choice(base, size=3, replace=False)])


def _c20_run(P, case, fail_kind=None, fail_at=None, exc=Boom):
    from lbfgsb import minimize_lbfgsb

    c = {"f": 0, "g": 0, "cb": 0, "upd": 0, "sc": 0, "ft": 0, "gt": 0}
    after = {"n": 0}
    raised = {"e": None}

    def hit(kind):
        if raised["e"] is not None:
            after["n"] += 1
        c[kind] += 1
        if kind == fail_kind and c[kind] == fail_at:
            raised["e"] = exc("marker-%s-%d" % (kind, fail_at))
            raise raised["e"]

    def F(x):
        hit("f")
        return P.f(x)

    def G(x):
        hit("g")
        return P.g(x)

    def cb(x, s):
        hit("cb")
        return False

    def upd(x, f0, f0o, gr, X, GG):
        hit("upd")
        return f0, f0o, gr, GG

    def sc(*a):
        hit("sc")
        return 2.0

    def ft():
        hit("ft")
        return -1e30

    def gt():
        hit("gt")
        return 1e-9

    try:
        r = minimize_lbfgsb(x0=P.x0.copy(), fun=F, jac=G, bounds=P.bounds, maxiter=case["maxiter"], maxcor=case["maxcor"],
                            callback=cb, update_fun_def=upd, gradient_scaler=sc, ftarget=ft, gtol=gt, ftol=0.0)
        return "ok", r, c, after["n"], raised["e"]
    except BaseException as e:  # noqa
        return "exc", e, c, after["n"], raised["e"]


def eval_C20(case):
    P = gen.make_problem(case["spec"])
    source_exception_classes()
    g0 = global_state()
    st, r0, c0, _, _ = _c20_run(P, case)
    if st != "ok":
        return _out(f"fault-free run raised {r0!r}", signature="C20 fault-free raise")
    fail = None
    pts = 0
    for kind in c0:
        for i in range(1, c0[kind] + 1):
            for en in case["excs"]:
                pts += 1
                st2, e, c2, after, raised = _c20_run(P, case, kind, i, EXCS[en])
                if st2 != "exc":
                    fail = f"{en} raised by the {kind!r} callable at call {i} was swallowed: the run returned message {e.message!r}"
                elif e is not raised:
                    fail = f"{en} raised by the {kind!r} callable at call {i} surfaced as a different exception {type(e).__name__}: {e}"
                elif after:
                    fail = f"{after} user calls were made after the {kind!r} callable raised at call {i}"
                else:
                    g1 = global_state()
                    if g1 != g0:
                        fail = (f"process-wide state left changed after the {kind!r} callable raised {en} at call {i}: "
                                + "; ".join(f"{k}: {g0[k]} -> {g1[k]}" for k in g0 if g0[k] != g1[k])[:300])
                if fail:
                    break
            if fail:
                break
        if fail:
            break
    if fail is None:
        # an identical fault-free call afterwards returns what it returned before the faults
        st3, r3, c3, _, _ = _c20_run(P, case)
        if st3 != "ok" or same_result(r0, r3):
            fail = "fault-free call after the injected faults differs from the one before: " + str(st3 if st3 != "ok" else same_result(r0, r3))
    return _out(fail, key=case["spec"]["pseed"], nontrivial=pts >= 10, sample=dict(case=case, injection_points=pts, calls=c0),
                signature="C20 " + (fail or "")[:40], injection_points_decade=len(str(pts)))


# ------------------------------------------------------------------ C13
def gen_C13(tier, rng):
    N = 300 if tier == "quick" else 4000
    for i in range(N):
        cfg = gen.random_config(rng)
        kind = str(rng.choice(["identity", "identity", "rescale", "reweight", "adversarial"]))
        if kind != "identity":
            cfg.update(maxiter=int(rng.integers(3, 14)), maxfun=1000, ftol=0.0, gtol=1e-10)
        yield dict(spec=_spec(rng, SMOOTH + ("bad",), nmax=7), cfg=cfg, kind=kind, k=int(rng.integers(1, 8)),
                   lam=float(rng.choice([0.5, 2.0, 10.0])), aseed=int(rng.integers(0, 2**31 - 1)),
                   ft=bool(rng.random() < 0.3))
    # the corner where both stop tests fire on the same iteration
    for i in range(20 if tier == "quick" else 200):
        yield dict(spec=_spec(rng, ("qp", "qp4"), nmax=4, box="inf"), cfg=dict(maxcor=3, ftol=10.0, gtol=1e-12, maxiter=5, maxfun=100, maxls=20),
                   kind="identity", k=1, lam=1.0, aseed=0, ft=True)


def eval_C13(case):
    from lbfgsb import minimize_lbfgsb
    from collections import deque

    P = gen.make_problem(case["spec"])
    cfg = case["cfg"]
    kind = case["kind"]
    extra = {}
    if case["ft"]:
        f0 = float(P.f(np.clip(P.x0, P.lb, P.ub)))
        extra["ftarget"] = f0 - 0.05 * abs(f0) - 1e-3
    if kind == "identity":
        ident = lambda x, f0, f0o, g, X, G: (f0, f0o, g, G)
        A = run_instrumented(P, cfg, extra=dict(extra, update_fun_def=ident))
        B = run_instrumented(P, cfg, extra=extra)
        if A.exc is not None or B.exc is not None:
            return _out(f"run raised {A.exc!r} / {B.exc!r}", signature="C13 exception")
        d = same_result(A.res, B.res)
        fail = None
        if d:
            fail = f"identity update function changed the run: {d} ({B.res.message!r} -> {A.res.message!r})"
        elif len(A.flog) != len(B.flog) or any(not beq(a[0], b[0]) for a, b in zip(A.flog, B.flog)):
            fail = "identity update function changed the evaluation points"
        elif len(A.snaps) != len(B.snaps) or any(same_result(a[1], b[1]) for a, b in zip(A.snaps, B.snaps)):
            fail = "identity update function changed the callback states"
        return _out(fail, key=(case["spec"]["pseed"], "id"), nontrivial=B.res.nit >= 1, sample=dict(case=case, message=B.res.message),
                    signature="C13 identity", kind=kind, msg=B.res.message[:20])
    # --- rewrites: the objective switches at iteration k
    lam = case["lam"]
    arng = np.random.default_rng(case["aseed"])
    ctr = 0.5 * (np.where(np.isfinite(P.lb), P.lb, -1) + np.where(np.isfinite(P.ub), P.ub, 1))
    if kind == "rescale":
        f2 = lambda x: lam * P.f(x)
        g2 = lambda x: lam * np.asarray(P.g(x), float)
    else:  # reweight (convex regulariser); adversarial = reweight + sign flips of some stored gradients
        f2 = lambda x: P.f(x) + lam * np.sum((x - ctr) ** 2)
        g2 = lambda x: np.asarray(P.g(x), float) + 2 * lam * (x - ctr)
    state = dict(switched=False, ncall=0, cur={}, flipped=False)

    def F(x):
        return f2(x) if state["switched"] else P.f(x)

    def G(x):
        v = np.asarray(g2(x) if state["switched"] else P.g(x), float)
        state["cur"][bits(x).tobytes()] = v.copy()
        return v

    def upd(x, f0, f0o, grad, X, Gd):
        state["ncall"] += 1
        if state["ncall"] - 1 != case["k"]:
            return f0, f0o, grad, Gd
        state["switched"] = True
        newG = deque()
        for xi in X:
            gi = g2(np.array(xi, copy=True))
            if kind == "adversarial" and arng.random() < 0.4:
                gi = -gi
                state["flipped"] = True
            newG.append(gi)
            state["cur"][bits(xi).tobytes()] = np.array(gi, copy=True)
        gnew = g2(np.array(x, copy=True))
        state["cur"][bits(x).tobytes()] = gnew.copy()
        state["x_switch"] = np.array(x, copy=True)
        return f2(x), f2(x) + abs(f2(x)) + 1.0, gnew, newG

    snaps = []

    def cb(xk, s):
        snaps.append((copy.deepcopy(s), state["switched"]))
        return False

    try:
        r = minimize_lbfgsb(x0=P.x0.copy(), fun=F, jac=G, bounds=P.bounds, update_fun_def=upd, callback=cb, **cfg)
    except Exception as e:  # noqa
        return _out(f"run with a {kind} update function raised {type(e).__name__}: {e}", signature="C13 exception " + kind)
    fail = None
    eps_sy = 2.2e-16
    post = [(s, sw) for s, sw in snaps if sw] + ([(r, True)] if state["switched"] else [])
    visited = [np.clip(P.x0, P.lb, P.ub)] + [s.x for s, _ in snaps] + [r.x]
    for s, _ in post:
        sk, yk = pairs_of(s)
        m = sk.shape[0]
        if m == 1 and not sk.any() and not yk.any():
            continue
        # every retained pair satisfies the curvature condition
        for i in range(m):
            if not (sk[i] @ yk[i] > eps_sy * (yk[i] @ yk[i])):
                fail = f"after the {kind} rewrite a retained pair violates the curvature condition (s.y={float(sk[i]@yk[i]):.3e})"
        # pairs are differences of visited points and of the *rewritten* gradients there
        cand = [v for v in visited]

        def rec(row, j):
            if row < 0:
                return True
            for i in range(j - 1, -1, -1):
                if beq(cand[j] - cand[i], sk[row]):
                    ki, kj = bits(cand[i]).tobytes(), bits(cand[j]).tobytes()
                    if ki in state["cur"] and kj in state["cur"] and beq(state["cur"][kj] - state["cur"][ki], yk[row]) and rec(row - 1, i):
                        return True
            return False

        if fail is None and m and not any(rec(m - 1, j) for j in range(len(cand) - 1, 0, -1)):
            fail = f"after the {kind} rewrite the pairs of state nit={s.nit} are not differences of the rewritten gradients"
        if fail:
            break
    # next iterate == restart on the new objective from a checkpoint holding the rewritten history
    nontriv = False
    if fail is None and state["switched"]:
        idx = [i for i, (s, sw) in enumerate(snaps) if sw]
        if idx and idx[0] + 1 < len(snaps) and snaps[idx[0] + 1][0].nit == snaps[idx[0]][0].nit + 1:
            s_k, s_n = snaps[idx[0]][0], snaps[idx[0] + 1][0]
            P2 = copy.copy(P)
            P2.f, P2.g = f2, g2
            try:
                c = _solve(P2, x0=s_k.x, checkpoint=copy.deepcopy(s_k), **dict(cfg, maxiter=s_k.nit + 1))
            except Exception as e:  # noqa
                c = None
                fail = f"restart from the state after the rewrite raised {type(e).__name__}: {e}"
            if c is not None:
                nontriv = pairs_of(s_k)[0].shape[0] >= 2
                scale = 1.0 + float(np.max(np.abs(s_n.x)))
                newest_is_x = beq(state.get("x_switch", s_k.x), s_k.x) and pairs_of(s_k)[0].shape[0] > 0 and \
                    beq(pairs_of(s_k)[0][-1], s_k.x - (snaps[idx[0] - 1][0].x if idx[0] >= 1 else np.clip(P.x0, P.lb, P.ub)))
                if case["spec"]["family"] in SMOOTH and macroscopic(s_k.x, s_n.x, scale) and not (c.nit == s_n.nit and same_up_to_rounding(
                        c.x, s_n.x, scale, lambda ck_, s_k=s_k: _solve(P2, x0=s_k.x, checkpoint=ck_, **dict(cfg, maxiter=s_k.nit + 1)).x, s_k,
                        seed=case["spec"]["pseed"])[0]):
                    fail = (f"{kind} rewrite at iteration {case['k']+1}: next iterate differs from a restart on the new objective by "
                            f"{float(np.max(np.abs(c.x - s_n.x))):.3e}" + ("" if newest_is_x else " [current iterate not appended to the memory]"))
    sig = "C13 " + kind + (" current-iterate-rejected" if fail and "[current iterate" in fail else "") + " " + (fail or "")[:20]
    return _out(fail, key=(case["spec"]["pseed"], kind), nontrivial=nontriv, sample=dict(case=case, switched=state["switched"]),
                signature=sig, kind=kind, switched=state["switched"], flipped=state["flipped"])
