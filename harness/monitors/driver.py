"""Failing-input search for the properties observed on whole runs of minimize_lbfgsb.
Each monitor has  gen_<id>(tier, rng) -> iterable of JSON case dicts  and
eval_<id>(case) -> dict(fail=None|str, key, nontrivial, tags, sample, signature)."""
import copy
import numpy as np

from harness import gen
from harness.runs import (
    run_instrumented, c02_pred, c03_pred, c04_pred, c05_pred, c18_pred, beq, bits, pairs_of, same_result,
    MSG_MAXITER, MSG_ABNORMAL, MSG_PGTOL, MSG_TARGET, MSG_FTOL, MSG_CALLBACK, MSG_MAXFUN,
)

EPS = np.finfo(float).eps


def _spec(rng, fams, nmax=12, **over):
    return dict(family=str(rng.choice(fams)), pseed=int(rng.integers(0, 2**31 - 1)), nmax=nmax, **over)


def _out(fail=None, key=None, nontrivial=False, sample=None, signature="", **tags):
    return dict(fail=fail, key=key, nontrivial=nontrivial, sample=sample, signature=signature, tags=tags)


# ------------------------------------------------------------------ C01
def gen_C01(tier, rng):
    N = 300 if tier == "quick" else 6000
    for i in range(N):
        yield dict(spec=_spec(rng, gen.CONVEX), maxcor=int(rng.integers(1, 11)))
    if tier != "quick":
        # all activity patterns for n <= 3: every coordinate at lb / interior / at ub at the start
        import itertools

        for n in (1, 2, 3):
            for pat in itertools.product((0, 1, 2), repeat=n):
                for rep in range(3):
                    yield dict(spec=_spec(rng, gen.CONVEX, n=n, box="finite"), maxcor=int(rng.integers(1, 6)), pattern=list(pat))


def eval_C01(case):
    from lbfgsb import minimize_lbfgsb
    from harness.runs import ref_projgr as projgr   # the harness's own implementation, not the package's

    P = gen.make_problem(case["spec"])
    x0 = P.x0.copy()
    if case.get("pattern"):
        for i, k in enumerate(case["pattern"]):
            x0[i] = P.lb[i] if k == 0 else (P.ub[i] if k == 2 else 0.5 * (P.lb[i] + P.ub[i]))
    gtol = 1e-6
    r = minimize_lbfgsb(x0=x0, fun=P.f, jac=P.g, bounds=P.bounds, maxcor=case["maxcor"], ftol=0.0, gtol=gtol,
                        maxiter=20000, maxfun=200000)
    gx = np.asarray(P.g(r.x), dtype=float)
    pg = float(projgr(r.x, gx, P.lb, P.ub))
    # floating-point resolution of the objective: a decrease below eps*|f| is invisible to the
    # line search, which for curvature L corresponds to a gradient of about sqrt(2 L eps |f|)
    L = float(np.linalg.eigvalsh(P.extra["H"])[-1])
    if case["spec"]["family"] == "qp4":
        L += 12.0 * P.extra["w"] * float(np.max((r.x - P.extra["c"]) ** 2))
    elif case["spec"]["family"] == "qpsp":
        L += 0.25 * P.extra["w"] * P.extra["om"] ** 2
    fabs = abs(float(P.f(r.x))) + float(np.abs(P.extra["b"]) @ np.abs(r.x)) + 1.0
    tol = max(10 * gtol, 100.0 * np.sqrt(2 * L * EPS * fabs))
    active_out = bool((((x0 == P.lb) & (P.g(x0) > 0)) | ((x0 == P.ub) & (P.g(x0) < 0))).any())
    fail = None
    if not (pg <= tol):
        fail = f"projected gradient {pg:.3e} > {tol:.3e} at the returned point, message {r.message!r}, nit {r.nit}, nfev {r.nfev}"
    return _out(fail, key=(case["spec"]["pseed"], case["maxcor"]), nontrivial=active_out and r.nit >= 2,
                sample=dict(case=case, n=P.n, message=r.message, nit=r.nit, pg=pg, tol=tol),
                signature=f"C01 message={r.message}", family=case["spec"]["family"], box=P.extra["box"],
                start=P.extra["start"], msg=r.message[:14], ratio_decade=int(np.floor(np.log10(max(pg / tol, 1e-9)))))


# ------------------------------------------------------------------ C02
MODES = ("callable", "callable", "callable", None, "2-point", "3-point", "cs")


def gen_C02(tier, rng):
    N = 400 if tier == "quick" else 8000
    for i in range(N):
        mode = MODES[int(rng.integers(0, len(MODES)))]
        fams = gen.ALL if mode != "cs" else ("qp", "qp4", "qpcos", "osc", "bad")
        cfg = gen.random_config(rng)
        if mode != "callable":
            cfg["maxiter"] = min(cfg["maxiter"], 12)
        yield dict(spec=_spec(rng, fams, nmax=10 if mode == "callable" else 6), cfg=cfg, mode=mode)


def eval_C02(case):
    P = gen.make_problem(case["spec"])
    mode = case["mode"]
    R = run_instrumented(P, case["cfg"], jac=mode)
    if R.exc is not None:
        return _out(f"run raised {type(R.exc).__name__}: {R.exc}", key=None, signature="C02 exception " + type(R.exc).__name__)
    # complex-step stencil points: the real part must be in the box
    if mode == "cs":
        R.flog = [(np.real(x), v) for x, v in R.flog]
    fail = c02_pred(R, P)
    clipped = any(((x == P.lb) | (x == P.ub)).any() for x, _ in R.flog[1:])
    return _out(fail, key=(case["spec"]["pseed"], str(mode)), nontrivial=clipped and R.res.nit >= 1,
                sample=dict(case=case, n=P.n, evaluations=len(R.flog), nit=R.res.nit),
                signature="C02 " + (fail or "")[:40], mode=str(mode), family=case["spec"]["family"], box=P.extra["box"])


# ------------------------------------------------------------------ C03
def gen_C03(tier, rng):
    N = 400 if tier == "quick" else 8000
    for i in range(N):
        cfg = gen.random_config(rng)
        cfg["maxls"] = int(rng.integers(1, 21)) if rng.random() < 0.5 else int(rng.integers(1, 4))
        yield dict(spec=_spec(rng, gen.CONVEX + gen.NONCONVEX, nmax=8), cfg=cfg)
    if tier != "quick":
        for j in range(30):
            sp = _spec(rng, gen.NONCONVEX + ("qp",), nmax=6)
            for mf in range(1, 41):
                yield dict(spec=sp, cfg=dict(maxcor=5, ftol=0.0, gtol=1e-9, maxiter=40, maxfun=mf, maxls=int(rng.integers(1, 21))))


def eval_C03(case):
    P = gen.make_problem(case["spec"])
    R = run_instrumented(P, case["cfg"])
    if R.exc is not None:
        return _out(f"run raised {type(R.exc).__name__}: {R.exc}", signature="C03 exception")
    fstart = P.f(np.clip(P.x0, P.lb, P.ub))
    fail = c03_pred(R, P, fstart)
    return _out(fail, key=case["spec"]["pseed"], nontrivial=R.res.nit >= 2 and len(R.flog) > R.res.nit + 2,
                sample=dict(case=case, fseq=[float(fstart)] + [float(sc.fun) for _, sc, _, _, _ in R.snaps][:6]),
                signature="C03 " + (fail or "")[:30], family=case["spec"]["family"], maxls_le3=case["cfg"]["maxls"] <= 3,
                msg=R.res.message[:14])


# ------------------------------------------------------------------ C04
def _ft_kinds(P, rng_u):
    f0 = float(P.f(np.clip(P.x0, P.lb, P.ub)))
    return {"none": None, "reached_at_x0": f0 + 1.0, "mid": f0 - 0.3 * abs(f0) - 0.05, "far": f0 - 1e6}


def gen_C04(tier, rng):
    # complete enumeration of the configuration lattice on a few problems
    nprob = 6 if tier == "quick" else 60
    for j in range(nprob):
        sp = _spec(rng, ("qp", "qpcos", "rosen", "osc", "qp4", "bad"), nmax=5)
        for maxiter in (0, 1, 2, 5):
            for maxfun in (1, 2, 3, 10):
                for maxls in (1, 2, 20):
                    for ftol in (0.0, 1e-2, 10.0):
                        for ft in ("none", "reached_at_x0", "mid", "callable_mid"):
                            for cbk in ("none", "record", "stop1", "stop2"):
                                yield dict(spec=sp, cfg=dict(maxcor=3, ftol=ftol, gtol=1e-6, maxiter=maxiter, maxfun=maxfun, maxls=maxls),
                                           ft=ft, cb=cbk, restart="none")
        # restarts: checkpoint from a short run, then every (maxiter, maxfun) incl. below the checkpoint's
        for k0 in (1, 3):
            for maxiter in (0, 1, 2, 3, 5):
                for maxfun in (1, 3, 10, 30):
                    for ft in ("none", "reached_at_x0", "mid"):
                        for gt in ("float", "callable"):
                            yield dict(spec=sp, cfg=dict(maxcor=3, ftol=0.0, gtol=1e-6, maxiter=maxiter, maxfun=maxfun, maxls=20),
                                       ft=ft, cb="record", restart=k0, gt=gt)
    N = 200 if tier == "quick" else 4000
    for i in range(N):
        yield dict(spec=_spec(rng, gen.ALL, nmax=8), cfg=gen.random_config(rng), ft=str(rng.choice(["none", "mid", "callable_mid"])),
                   cb=str(rng.choice(["none", "record", "stop2"])), restart="none")


def eval_C04(case):
    from lbfgsb import minimize_lbfgsb

    P = gen.make_problem(case["spec"])
    cfg = dict(case["cfg"])
    kinds = _ft_kinds(P, None)
    calls = {"ft": 0, "gt": 0}
    ftv = kinds[case["ft"].replace("callable_", "")]
    extra = {}
    if case["ft"].startswith("callable_"):
        def ft():
            calls["ft"] += 1
            return ftv
        extra["ftarget"] = ft
    elif ftv is not None:
        extra["ftarget"] = ftv
    if case.get("gt") == "callable":
        def gt():
            calls["gt"] += 1
            return cfg["gtol"]
        extra["gtol"] = gt
    nit0, n0, nfev0 = 0, 1, 0
    ck = None
    if case["restart"] != "none":
        ck = minimize_lbfgsb(x0=P.x0.copy(), fun=P.f, jac=P.g, bounds=P.bounds, maxcor=3, ftol=0.0, gtol=1e-12,
                             maxiter=int(case["restart"]), maxfun=1000)
        nit0, n0, nfev0 = ck.nit, ck.nfev, ck.nfev
        extra["checkpoint"] = copy.deepcopy(ck)
    cbk = case["cb"]
    stop_at = {"stop1": 1, "stop2": 2}.get(cbk)
    Pr = P
    if ck is not None:
        Pr = copy.copy(P)
        Pr.x0 = ck.x.copy()
    R = run_instrumented(Pr, {k: v for k, v in cfg.items() if not (k == "gtol" and "gtol" in extra)}, stop_at=stop_at,
                         use_callback=cbk != "none", extra=extra)
    if R.exc is not None:
        return _out(f"run raised {type(R.exc).__name__}: {R.exc}", signature="C04 exception " + type(R.exc).__name__)
    fail = c04_pred(R, Pr, cfg, nit0=nit0, n0=n0, ftarget_val=ftv)
    if fail is None and case["ft"].startswith("callable_") and calls["ft"] != 1:
        fail = f"callable ftarget invoked {calls['ft']} times"
    if fail is None and case.get("gt") == "callable" and calls["gt"] != 1:
        fail = f"callable gtol invoked {calls['gt']} times"
    if fail is None and R.res.message == MSG_FTOL:
        prev = [sc.fun for _, sc, _, _, _ in R.snaps]
        if cbk == "record" and ck is None:
            fo = prev[-1] if prev else float(P.f(np.clip(P.x0, P.lb, P.ub)))
            if not ((fo - R.res.fun) / max(abs(fo), abs(R.res.fun), 1) < cfg["ftol"]):
                fail = "FTOL message but the relative reduction test does not hold for the last two values"
    m = R.res.message
    return _out(fail, key=(case["spec"]["pseed"], m, case["ft"], cbk, str(case["restart"]), cfg["maxiter"], cfg["maxfun"], cfg["maxls"], cfg["ftol"]),
                nontrivial=True, sample=dict(case=case, message=m, nit=R.res.nit, nfev=R.res.nfev),
                signature=f"C04 {fail or ''}"[:60] + f" restart={case['restart']} ft={case['ft']}",
                msg=m[:20], restart=str(case["restart"]), ft=case["ft"], cb=cbk)


# ------------------------------------------------------------------ C05
def gen_C05(tier, rng):
    N = 300 if tier == "quick" else 5000
    for i in range(N):
        mode = MODES[int(rng.integers(0, len(MODES) - 1))]
        cfg = gen.random_config(rng)
        if mode != "callable":
            cfg["maxiter"] = min(cfg["maxiter"], 10)
        yield dict(spec=_spec(rng, gen.ALL, nmax=8 if mode == "callable" else 5), cfg=cfg, mode=mode,
                   chain=[int(v) for v in rng.integers(1, 6, size=int(rng.integers(0, 5)))],
                   scaler=(float(10 ** rng.uniform(-3, 3)) if rng.random() < 0.25 else None), scribble=bool(rng.random() < 0.3),
                   workbuf=bool(mode == "callable" and rng.random() < 0.4))


def eval_C05(case):
    P = gen.make_problem(case["spec"])
    mode = case["mode"]
    cg = mode == "callable"
    s = case.get("scaler")
    chain = case["chain"] if s is None else []  # restart + scaler is outside the statement's coherent use (DESIGN C05)
    cfg = dict(case["cfg"])
    extra = {}
    if s is not None:
        extra["gradient_scaler"] = lambda x, g, lb, ub: s
    ck = None
    nf0 = nj0 = 0
    Pr = P
    total_iters = 0
    for stage in range(len(chain) + 1):
        c = dict(cfg)
        if stage < len(chain):
            total_iters += chain[stage]
            c["maxiter"] = total_iters
            c["maxfun"] = 100000
        else:
            c["maxiter"] = max(cfg["maxiter"], total_iters) if chain else cfg["maxiter"]
        ex = dict(extra)
        if ck is not None:
            ex["checkpoint"] = copy.deepcopy(ck)
        R = run_instrumented(Pr, c, jac=mode, extra=ex, scribble=case.get("scribble", False), workbuf=case.get("workbuf", False))
        if R.exc is not None:
            return _out(f"run raised {type(R.exc).__name__}: {R.exc}", signature="C05 exception " + type(R.exc).__name__)
        fail = c05_pred(R, P, scale=s or 1.0, nfev0=nf0, njev0=nj0, callable_grad=cg)
        if fail:
            fail = f"stage {stage} of restart chain {chain}: " + fail
            break
        ck = R.res
        nf0, nj0 = ck.nfev, ck.njev
        Pr = copy.copy(P)
        Pr.x0 = ck.x.copy()
    return _out(fail, key=(case["spec"]["pseed"], str(mode), len(chain)), nontrivial=R.res is not None and R.res.nit >= 1,
                sample=dict(case=case), signature="C05 " + (fail or "")[:50], mode=str(mode), chain_len=len(chain), scaler=s is not None,
                scribble=case.get("scribble", False), workbuf=case.get("workbuf", False))


# ------------------------------------------------------------------ C18
def gen_C18(tier, rng):
    N = 300 if tier == "quick" else 5000
    for i in range(N):
        yield dict(kind="run", spec=_spec(rng, gen.CONVEX + gen.NONCONVEX, nmax=8), cfg=gen.random_config(rng),
                   scaler=(float(10 ** rng.uniform(-2, 2)) if rng.random() < 0.2 else None))
    # a pair rejected by the curvature test followed by a failed line search (memory reboot) followed by accepted pairs: the
    # rebooted history must restart from the last STORED point and ITS gradient (non-convex objectives, tiny line-search budget)
    for i in range(200 if tier == "quick" else 3000):
        cfg = gen.random_config(rng)
        cfg.update(maxls=int(rng.integers(1, 3)), maxiter=int(rng.integers(8, 30)), maxfun=int(rng.integers(40, 200)), maxcor=int(rng.integers(2, 7)))
        yield dict(kind="run", spec=_spec(rng, gen.NONCONVEX, nmax=6), cfg=cfg, scaler=None)
    # directed: as soon as an update is rejected (the number of pairs did not grow), the objective makes the NEXT line search fail
    # (huge values at its trial points), which triggers the memory reboot with more than one stored point
    for i in range(150 if tier == "quick" else 2000):
        cfg = gen.random_config(rng)
        cfg.update(maxls=int(rng.integers(1, 4)), maxiter=int(rng.integers(8, 30)), maxfun=int(rng.integers(60, 300)), maxcor=int(rng.integers(2, 7)),
                   ftol=0.0, gtol=1e-10)
        yield dict(kind="reboot", spec=_spec(rng, gen.NONCONVEX, nmax=6), cfg=cfg, scaler=None)
    M = 150 if tier == "quick" else 3000
    for i in range(M):
        yield dict(kind="diag", n=int(rng.integers(1, 31)), m=int(rng.integers(1, 13)), pseed=int(rng.integers(0, 2**31 - 1)))
    # runs with objective redefinitions (the quantifier of C18 includes them): pairs checked by the C13 monitor
    from harness.monitors import driver2
    for c13 in driver2.gen_C13("quick", rng):
        if c13["kind"] in ("adversarial", "reweight", "rescale"):
            yield dict(kind="redefinition", c13=c13)


def eval_C18(case):
    if case["kind"] == "redefinition":
        from harness.monitors import driver2
        out = driver2.eval_C13(case["c13"])
        out["key"] = ("redef",) + tuple(out["key"]) if isinstance(out.get("key"), (tuple, list)) else out.get("key")
        out.setdefault("tags", {})["kind"] = "redefinition"
        return out
    if case["kind"] == "diag":
        from scipy.optimize import LbfgsInvHessProduct
        from lbfgsb.utils import extract_hess_inv_diag

        rng = np.random.default_rng(case["pseed"])
        n, m = case["n"], case["m"]
        A = rng.standard_normal((n, n))
        H = A @ A.T + 0.5 * np.eye(n)
        sk = rng.standard_normal((m, n))
        yk = sk @ H  # positive curvature: s.y = s'Hs > 0
        op = LbfgsInvHessProduct(sk, yk)
        d = extract_hess_inv_diag(op)
        ref = np.diag(op.todense())
        # exact definition: i-th entry of the operator applied to e_i
        ex = np.array([op.matvec(np.eye(n)[i])[i] for i in range(n)])
        fail = None
        if d.shape != (n,):
            fail = f"diagonal has shape {d.shape}, expected ({n},)"
        elif not beq(d, ex):
            fail = "diagonal is not bit-equal to [matvec(e_i)_i]"
        elif not np.allclose(d, ref, rtol=1e-8, atol=1e-10 * np.max(np.abs(ref))):
            fail = f"diagonal differs from todense() diagonal by {np.max(np.abs(d - ref)):.3e}"
        return _out(fail, key=("diag", case["pseed"]), nontrivial=m >= 2 and n >= 2, sample=case, signature="C18 diag", kind="diag")
    P = gen.make_problem(case["spec"])
    s = case.get("scaler")
    extra = {"gradient_scaler": (lambda x, g, lb, ub: s)} if s is not None else None
    on_state = None
    if case["kind"] == "reboot":
        # objective that sabotages exactly one line search: the one that follows the first rejected update
        import copy as _copy
        st = dict(prev_pairs=0, window=0, used=False)
        P0 = P
        P = _copy.copy(P0)

        def f_sab(x):
            if st["window"] > 0:
                st["window"] -= 1
                return float(P0.f(x)) + 1e6 * (1.0 + abs(float(P0.f(x))))
            return P0.f(x)
        P.f = f_sab

        def on_state(state):
            m = pairs_of(state)[0]
            npairs = 0 if (m.shape[0] == 1 and not m.any()) else m.shape[0]
            if not st["used"] and npairs >= 1 and npairs == st["prev_pairs"] and npairs < case["cfg"]["maxcor"]:
                st["window"], st["used"] = case["cfg"]["maxls"], True
            st["prev_pairs"] = npairs
    R = run_instrumented(P, case["cfg"], extra=extra, on_state=on_state)
    if R.exc is not None:
        if case["kind"] == "reboot" and type(R.exc).__name__ == "LinAlgError":
            return _out(None, key=None, skipped="linear algebra failure on a sabotaged non-convex run")
        return _out(f"run raised {type(R.exc).__name__}: {R.exc}", signature="C18 exception")
    fail = c18_pred(R, P, case["cfg"], scale=s or 1.0)
    npairs = pairs_of(R.res)[0].shape[0]
    return _out(fail, key=("run", case["spec"]["pseed"]), nontrivial=npairs >= 2,
                sample=dict(case=case, npairs=int(npairs), nit=R.res.nit), signature="C18 " + (fail or "")[:40],
                kind=case["kind"], family=case["spec"]["family"], full_memory=npairs == case["cfg"]["maxcor"],
                sabotage_used=bool(case["kind"] == "reboot" and st["used"]))
