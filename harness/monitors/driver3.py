"""Failing-input search: determinism / isolation (C14), finite differences (C16), reference comparison (C12)."""
import copy
import itertools
import threading
import logging
import io
import numpy as np

from harness import gen
from harness.runs import run_instrumented, beq, bits, pairs_of, same_result, in_box
from harness.monitors.driver import _spec, _out
from harness.monitors.driver2 import SMOOTH, _solve

EPS = np.finfo(float).eps


# ------------------------------------------------------------------ C14
def gen_C14(tier, rng):
    L = 5 if tier == "quick" else 7
    npairs = 4 if tier == "quick" else 8
    for j in range(npairs):
        a = _spec(rng, SMOOTH, nmax=5)
        b = _spec(rng, SMOOTH, nmax=5)
        scheds = list(itertools.combinations(range(2 * L), L))  # which of the first 2L gated calls go to run A
        for sc in scheds:
            yield dict(kind="interleave", a=a, b=b, L=L, sched=list(sc))
        for q in range(20 if tier == "quick" else 100):
            yield dict(kind="interleave", a=a, b=b, L=40, sched=sorted(int(v) for v in rng.choice(80, size=40, replace=False)))
    N = 60 if tier == "quick" else 600
    for i in range(N):
        yield dict(kind=str(rng.choice(["nested", "readonly", "iprint", "twice", "before", "iprint_upd", "iprint_upd"])), spec=_spec(rng, SMOOTH + ("bad",), nmax=6),
                   adv=dict(adv_at=int(rng.integers(1, 6)), adv_mask=int(rng.integers(1, 255)), adv_drop=False),
                   cfg=gen.random_config(rng), iprint=int(rng.choice([-1, 0, 1, 50, 99, 100, 101])), s=float(10 ** rng.uniform(-2, 2)))


def _interleave(case):
    """Two optimisations on two threads, gated at every objective call by the given schedule."""
    PA, PB = gen.make_problem(case["a"]), gen.make_problem(case["b"])
    cfg = dict(maxcor=4, ftol=0.0, gtol=1e-9, maxiter=8, maxfun=60, maxls=10)
    soloA, soloB = _solve(PA, **cfg), _solve(PB, **cfg)
    order = ["A" if i in set(case["sched"]) else "B" for i in range(2 * case["L"])]
    cond = threading.Condition()
    st = dict(pos=0, done=set())

    def gate(who):
        with cond:
            while True:
                if st["pos"] >= len(order):
                    return
                other = "B" if who == "A" else "A"
                if order[st["pos"]] == who:
                    st["pos"] += 1
                    cond.notify_all()
                    return
                if other in st["done"]:
                    # the other run has finished: skip its remaining slots
                    st["pos"] += 1
                    continue
                cond.wait(timeout=5.0)

    out = {}

    def work(who, P):
        def F(x):
            gate(who)
            return P.f(x)
        try:
            from lbfgsb import minimize_lbfgsb

            out[who] = minimize_lbfgsb(x0=P.x0.copy(), fun=F, jac=P.g, bounds=P.bounds, **cfg)
        except Exception as e:  # noqa
            out[who] = e
        with cond:
            st["done"].add(who)
            cond.notify_all()

    ta = threading.Thread(target=work, args=("A", PA))
    tb = threading.Thread(target=work, args=("B", PB))
    ta.start(); tb.start(); ta.join(60); tb.join(60)
    for who, solo in (("A", soloA), ("B", soloB)):
        r = out.get(who)
        if r is None or isinstance(r, Exception):
            return f"run {who} interleaved with another optimisation failed: {r!r}"
        d = same_result(r, solo)
        if d:
            return f"run {who} interleaved with another optimisation (schedule {case['sched'][:10]}..) differs from its solo result in {d}"
    return None


def eval_C14(case):
    from lbfgsb import minimize_lbfgsb

    kind = case["kind"]
    if kind == "interleave":
        fail = _interleave(case)
        return _out(fail, key=("il", case["a"]["pseed"], tuple(case["sched"])), nontrivial=True, sample=dict(kind=kind, L=case["L"], sched=case["sched"][:12]),
                    signature="C14 interleave", kind=kind, exhaustive_prefix=case["L"] <= 7)
    P = gen.make_problem(case["spec"])
    cfg = case["cfg"]
    base = _solve(P, **cfg)
    fail = None
    if kind == "nested":
        P2 = gen.make_problem(dict(case["spec"], pseed=case["spec"]["pseed"] ^ 12345))
        inner = []

        def F(x):
            if len(inner) < 3:
                inner.append(_solve(P2, maxiter=3, maxcor=2))
            return P.f(x)
        r = minimize_lbfgsb(x0=P.x0.copy(), fun=F, jac=P.g, bounds=P.bounds, **cfg)
        d = same_result(r, base)
        if d:
            fail = f"a run with optimisations nested inside its objective differs from the plain run in {d}"
        elif inner and same_result(inner[0], _solve(P2, maxiter=3, maxcor=2)):
            fail = "a nested optimisation differs from the same call made alone"
    elif kind == "before":
        P2 = gen.make_problem(dict(case["spec"], pseed=case["spec"]["pseed"] ^ 999))
        try:
            _solve(P2, maxiter=4, maxls=1, maxfun=3)
        except Exception:
            pass
        r = _solve(P, **cfg)
        d = same_result(r, base)
        if d:
            fail = f"two calls with equal arguments differ in {d} (another run in between)"
    elif kind == "readonly":
        x0 = P.x0.copy(); b = P.bounds.copy()
        x0.setflags(write=False); b.setflags(write=False)
        hx, hb = bits(x0).tobytes(), bits(b).tobytes()
        try:
            r = minimize_lbfgsb(x0=x0, fun=P.f, jac=P.g, bounds=b, **cfg)
        except Exception as e:  # noqa
            r = None
            fail = f"read-only x0/bounds rejected: {type(e).__name__}: {e}"
        if r is not None:
            if bits(x0).tobytes() != hx or bits(b).tobytes() != hb:
                fail = "x0 or bounds modified by the call"
            elif same_result(r, base):
                fail = f"read-only inputs change the result: {same_result(r, base)}"
            elif r.nit >= 1:
                # restart from a read-only checkpoint, with a scaler (in-place scaling site)
                ck = copy.deepcopy(r)
                for a in (ck.x, ck.jac, ck.hess_inv.sk, ck.hess_inv.yk):
                    a.setflags(write=False)
                snap = copy.deepcopy(ck)
                try:
                    r2 = minimize_lbfgsb(x0=ck.x, fun=P.f, jac=P.g, bounds=b, checkpoint=ck, gradient_scaler=lambda *a: case["s"],
                                         **dict(cfg, maxiter=cfg["maxiter"] + 3))
                except Exception as e:  # noqa
                    fail = f"read-only checkpoint rejected: {type(e).__name__}: {e}"
                if fail is None and (same_result(ck, snap) or ck.message != snap.message):
                    fail = f"checkpoint object modified by the restart: {same_result(ck, snap)}"
    elif kind == "twice":
        ck = _solve(P, **dict(cfg, maxiter=max(2, cfg["maxiter"] // 2), maxfun=1000))
        snap = copy.deepcopy(ck)
        ex = dict(gradient_scaler=lambda *a: case["s"]) if case["s"] > 1 else {}
        kw = dict(cfg, maxiter=cfg["maxiter"] + 4, maxfun=2000)
        r1 = _solve(P, x0=ck.x, checkpoint=ck, **kw, **ex)
        r2 = _solve(P, x0=ck.x, checkpoint=ck, **kw, **ex)
        if same_result(r1, r2):
            fail = f"restarting twice from the same checkpoint object gives different results: {same_result(r1, r2)}"
        elif same_result(ck, snap):
            fail = f"checkpoint object modified by the restart: {same_result(ck, snap)}"
    elif kind == "iprint_upd":
        # the same with an update function that rewrites the stored gradients (pairs then fail the curvature test and are
        # filtered): logging options must not decide what is filtered
        from harness.corr import driver as CD
        desc = dict(spec=case["spec"], cfg=dict(cfg, maxiter=max(8, cfg.get("maxiter", 8))), opts=dict(upd="adversarial", ft="none", gt="float", cb="none", **case.get("adv", {})))
        lg = logging.getLogger("verif-c14u")
        lg.handlers[:] = [logging.StreamHandler(io.StringIO())]
        lg.setLevel(logging.INFO)
        lg.propagate = False
        outs = []
        for logger, ipr in ((None, -1), (lg, -1), (lg, case["iprint"]), (None, case["iprint"])):
            _, kw = CD.make_kw(desc)
            kw.update(iprint=ipr, logger=logger)
            try:
                outs.append(("ok", minimize_lbfgsb(**kw)))
            except Exception as e:  # noqa
                outs.append(("raise", f"{type(e).__name__}: {e}"))
        base = outs[0][1] if outs[0][0] == "ok" else base
        for (k_, o_), lab in zip(outs[1:], ("logger set, iprint -1", f"logger set, iprint {case['iprint']}", f"no logger, iprint {case['iprint']}")):
            if k_ != outs[0][0]:
                fail = f"with an update function: {lab}: run {'raised ' + str(o_) if k_ == 'raise' else 'returned'} while the run without logger {'raised ' + str(outs[0][1]) if outs[0][0] == 'raise' else 'returned'}"
                break
            if k_ == "ok" and same_result(o_, outs[0][1]):
                fail = f"with an update function: {lab} changes the numerical output: {same_result(o_, outs[0][1])}"
                break
    elif kind == "iprint":
        lg = logging.getLogger("verif-c14")
        lg.handlers[:] = [logging.StreamHandler(io.StringIO())]
        lg.setLevel(logging.INFO)
        lg.propagate = False
        for logger in (None, lg):
            r = _solve(P, iprint=case["iprint"], logger=logger, **cfg)
            d = same_result(r, base)
            if d:
                fail = f"iprint={case['iprint']} logger={'set' if logger else None} changes the numerical output: {d}"
                break
    return _out(fail, key=(kind, case["spec"]["pseed"]), nontrivial=base.nit >= 1, sample=dict(kind=kind, spec=case["spec"]),
                signature="C14 " + kind + " " + (fail or "")[:30], kind=kind)


# ------------------------------------------------------------------ C16
FD = (None, "2-point", "3-point", "cs")


def gen_C16(tier, rng):
    N = 200 if tier == "quick" else 3000
    for i in range(N):
        mode = FD[int(rng.integers(0, 4))]
        fams = ("qp", "qp4", "bench") if mode == "cs" else ("qp", "qp4", "qpsp", "bench")
        yield dict(spec=_spec(rng, fams, nmax=6, box=str(rng.choice(["tight", "finite", "mixed"])), start=str(rng.choice(["face", "vertex", "interior"]))),
                   mode=mode, eps=float(rng.choice([1e-8, 1e-6])), rel=(None if rng.random() < 0.6 else 1e-7), maxcor=int(rng.integers(1, 8)),
                   shift=bool(rng.random() < 0.3))


def _shifted(P, pseed):
    """The same problem in coordinates of large magnitude (x = z + shift, |shift| ~ 1e4..1e5 on some coordinates) with narrow,
    non-degenerate intervals there: the relative size of an interval says nothing about whether a variable is fixed."""
    rng = np.random.default_rng([int(pseed) & 0x7fffffff, 1616])
    sh = rng.choice([0.0, 101325.0, -20000.0], size=P.n)
    P2 = copy.copy(P)
    f0, g0 = P.f, P.g
    lb, ub = P.lb.copy(), P.ub.copy()
    big = sh != 0
    # narrow the shifted coordinates to a width in (0.05, 0.8) around the start, keeping lb < ub
    w = 0.05 + 0.75 * rng.random(P.n)
    x0 = np.clip(P.x0, np.where(np.isfinite(lb), lb, -1e3), np.where(np.isfinite(ub), ub, 1e3))
    lo = np.where(big, x0 - w * rng.random(P.n), lb)
    hi = np.where(big, lo + w, ub)
    P2.lb, P2.ub = lo + sh, hi + sh
    P2.x0 = np.clip(x0, lo, hi) + sh
    P2.f = lambda x: f0(np.asarray(x) - sh)
    P2.g = lambda x: g0(np.asarray(x) - sh)
    return P2


def eval_C16(case):
    from lbfgsb import minimize_lbfgsb
    from harness.runs import ref_projgr as projgr   # the harness's own implementation, not the package's

    P = gen.make_problem(case["spec"])
    if case.get("shift") and case["mode"] != "cs":
        P = _shifted(P, case["spec"]["pseed"])
    if P.spec.get("bench") is None and case["spec"]["family"] == "bench" and not P.convex:
        pass
    mode = case["mode"]
    pts = []

    def F(x):
        pts.append(np.array(np.real(x), dtype=float, copy=True))
        return P.f(x)
    kw = dict(maxcor=case["maxcor"], ftol=1e-12, gtol=1e-5, maxiter=300, maxfun=20000)
    try:
        r = minimize_lbfgsb(x0=P.x0.copy(), fun=F, jac=mode, bounds=P.bounds, eps=case["eps"], finite_diff_rel_step=case["rel"], **kw)
    except Exception as e:  # noqa
        return _out(f"jac={mode!r} raised {type(e).__name__}: {e}", key=None, signature="C16 exception " + type(e).__name__, mode=str(mode))
    fail = None
    for x in pts:
        if not in_box(x, P.lb, P.ub):
            i = int(np.argmax((x < P.lb) | (x > P.ub)))
            fail = f"jac={mode!r}: objective evaluated outside the box, x[{i}]={float(x[i]).hex()} bounds [{float(P.lb[i]).hex()}, {float(P.ub[i]).hex()}]"
            break
    if fail is None and r.nfev != len(pts):
        fail = f"jac={mode!r}: nfev {r.nfev} != {len(pts)} objective evaluations made (stencil points included)"
    active_end = bool(((r.x == P.lb) | (r.x == P.ub)).any())
    if fail is None and mode != "cs":
        # a variable that is NOT fixed (lb < ub) cannot have a finite-difference derivative that is exactly 0 where the true
        # derivative is sizeable (its two stencil values would have to be equal bit for bit)
        ge = np.asarray(P.g(r.x), float)
        gj = np.asarray(r.jac, float)
        hh = (case["eps"] if mode is None else (case["rel"] or (EPS ** 0.5 if mode == "2-point" else EPS ** (1 / 3)))) * (np.maximum(1.0, np.abs(r.x)) if mode is not None else 1.0)
        big = (P.lb < P.ub) & (gj == 0.0) & (np.abs(ge) > 1e-3 * (1.0 + float(np.max(np.abs(ge))))) & (np.abs(ge) * hh > 1e-9 * (1.0 + abs(float(r.fun))))
        if big.any():
            i = int(np.argmax(big))
            fail = (f"jac={mode!r}: the finite-difference derivative of variable {i} (bounds [{P.lb[i]!r}, {P.ub[i]!r}], not fixed) is exactly 0 "
                    f"while the exact derivative there is {ge[i]:.3e}")
    if fail is None and P.convex:
        e = _solve(P, **kw)
        # step actually used by the scheme
        h = case["eps"] if mode is None else (case["rel"] or (EPS ** 0.5 if mode == "2-point" else (EPS ** (1 / 3) if mode == "3-point" else EPS ** 0.5)))
        h = h * (1.0 + float(np.max(np.abs(e.x)))) if mode is not None else h
        fe, ff = float(P.f(e.x)), float(P.f(r.x))
        gs = 1.0 + float(np.max(np.abs(P.g(e.x))))
        # first-order accuracy of forward differences, second order for 3-point/cs; plus the solver tolerance
        err = (1e3 * h if mode in (None, "2-point") else 1e3 * h * h) * gs * (1.0 + abs(fe)) + 1e-3 * kw["gtol"] * gs + 1e-7 * (1 + abs(fe))
        if not (abs(ff - fe) <= max(err, 1e-6 * (1 + abs(fe)))):
            fail = f"jac={mode!r}: objective {ff!r} differs from the exact-gradient solution {fe!r} by {abs(ff-fe):.3e} > {max(err, 1e-6*(1+abs(fe))):.3e}"
    return _out(fail, key=(case["spec"]["pseed"], str(mode)), nontrivial=active_end and r.nit >= 1,
                sample=dict(case=case, nfev=r.nfev, message=r.message), signature="C16 " + (fail or "")[:40],
                mode=str(mode), family=case["spec"]["family"], box=P.extra["box"], start=P.extra["start"], active_at_end=active_end)


# ------------------------------------------------------------------ C12
def gen_C12(tier, rng):
    N = 60 if tier == "quick" else 800
    for i in range(N):
        yield dict(kind="unconstrained", spec=_spec(rng, ("qp4", "qpsp", "rosen"), nmax=8, box="inf"), maxcor=int(rng.integers(1, 9)))
    M = 60 if tier == "quick" else 800
    for i in range(M):
        yield dict(kind="box", spec=_spec(rng, gen.CONVEX, nmax=10), maxcor=int(rng.integers(1, 11)))


def eval_C12(case):
    from lbfgsb import minimize_lbfgsb
    from scipy.optimize import minimize
    import lbfgsb.main as M
    import lbfgsb.linesearch as LS

    P = gen.make_problem(case["spec"])
    m = case["maxcor"]
    if case["kind"] == "box":
        a = minimize_lbfgsb(x0=P.x0.copy(), fun=P.f, jac=P.g, bounds=P.bounds, maxcor=m, ftol=0.0, gtol=1e-7, maxiter=20000, maxfun=200000)
        bnds = [(None if not np.isfinite(l) else l, None if not np.isfinite(u) else u) for l, u in zip(P.lb, P.ub)]
        b = minimize(P.f, P.x0.copy(), jac=P.g, method="L-BFGS-B", bounds=bnds, options=dict(maxcor=m, ftol=0.0, gtol=1e-7, maxiter=20000, maxfun=200000))
        fa, fb = float(P.f(a.x)), float(b.fun)
        sc = 1.0 + abs(fb) + float(np.abs(P.extra["b"]) @ np.abs(b.x))
        fail = None
        if not (abs(fa - fb) <= 1e-7 * sc):
            fail = f"optimal value {fa!r} differs from the reference implementation's {fb!r} on a convex box problem"
        return _out(fail, key=("box", case["spec"]["pseed"]), nontrivial=bool(((b.x == P.lb) | (b.x == P.ub)).any()), sample=dict(case=case, f=fa, f_ref=fb),
                    signature="C12 box value", kind="box", family=case["spec"]["family"])
    # --- unconstrained: sequences of evaluation points over the first 12 iterations
    P1, P2 = [], []
    info = dict(dev=None)
    o_ls = M.line_search

    def ls(x0, f0, g0, d, lb, ub, it, mx, boxed, sf, *a, **k):
        n0 = len(P1)
        stp = o_ls(x0, f0, g0, d, lb, ub, it, mx, boxed, sf, *a, **k)
        if info["dev"] is None:
            trials = P1[n0:]
            if it == 0:
                if np.sqrt(d @ d) <= 1.0:
                    info["dev"] = (n0, "unit first step for a short gradient")
                else:
                    cap = np.clip(x0 + 1.0 * d, lb, ub)
                    for idx, t in enumerate(trials):
                        if beq(t, cap):
                            info["dev"] = (n0 + idx, "first-iteration step cap")
                            break
            if info["dev"] is None:
                if stp is None:
                    info["dev"] = (n0, "line search failed")
                elif trials and not beq(np.clip(x0 + stp * d, lb, ub), trials[-1]):
                    info["dev"] = (len(P1), "lowest trial accepted instead of the last")
        return stp

    def f1(x):
        P1.append(np.array(x, copy=True)); return P.f(x)

    def f2(x):
        P2.append(np.array(x, copy=True)); return P.f(x)
    M.line_search = ls
    try:
        minimize_lbfgsb(x0=P.x0.copy(), fun=f1, jac=P.g, maxcor=m, ftol=0.0, gtol=1e-10, maxiter=12)
    finally:
        M.line_search = o_ls
    minimize(f2, P.x0.copy(), jac=P.g, method="L-BFGS-B", options=dict(maxcor=m, ftol=0.0, gtol=1e-10, maxiter=12))
    L = min(len(P1), len(P2))
    if info["dev"] is not None:
        L = min(L, info["dev"][0])
    fail = None
    compared = 0
    fprev = None
    for i in range(L):
        fi = float(P.f(P1[i]))
        if fprev is not None and abs(fprev - fi) <= 1e-11 * (1 + abs(fi)):
            break  # round-off regime
        fprev = fi
        sc = 1.0 + float(np.max(np.abs(P1[i])))
        if not np.all(np.abs(P1[i] - P2[i]) <= 1e-7 * sc):
            fail = f"evaluation point #{i} differs from the reference implementation by {float(np.max(np.abs(P1[i]-P2[i]))):.3e}"
            break
        compared += 1
    return _out(fail, key=("unc", case["spec"]["pseed"]), nontrivial=compared >= 5, sample=dict(case=case, compared=compared, deviation=info["dev"]),
                signature="C12 sequence", kind="unconstrained", family=case["spec"]["family"], compared_bucket=min(compared // 4, 5),
                deviation=str(info["dev"][1]) if info["dev"] else "none")
