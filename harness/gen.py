"""Problem / configuration generators. Every problem is rebuilt from a small JSON spec
(family, pseed, optional overrides), so that a replay file is self-contained."""
import zlib
import numpy as np

CONVEX = ("qp", "qp4", "qpsp")
NONCONVEX = ("qpcos", "osc", "rosen", "bad")
BENCH = ("bench",)
ALL = CONVEX + NONCONVEX + BENCH


class Problem:
    def __init__(self, spec, n, f, g, lb, ub, x0, convex, extra=None):
        self.spec = spec
        self.n = n
        self.f = f
        self.g = g
        self.lb = lb
        self.ub = ub
        self.x0 = x0
        self.convex = convex
        self.extra = extra or {}

    @property
    def bounds(self):
        return np.array((self.lb, self.ub)).T

    def kw(self):
        return dict(x0=self.x0.copy(), fun=self.f, jac=self.g, bounds=self.bounds)


def _rng(spec):
    return np.random.default_rng([int(spec["pseed"]), zlib.crc32(spec["family"].encode())])


def _spd(rng, n, cond):
    """Random SPD matrix with prescribed condition number."""
    A = rng.standard_normal((n, n))
    Qm, _ = np.linalg.qr(A)
    if n == 1:
        ev = np.array([1.0])
    else:
        ev = np.exp(np.linspace(0.0, np.log(cond), n))
        ev = ev[rng.permutation(n)]
    H = (Qm * ev) @ Qm.T
    return 0.5 * (H + H.T)


def _box(rng, n, center, kind=None):
    """Boxes of every kind: finite / one-sided / infinite / degenerate sides."""
    lb = center - rng.random(n) * 2.0 - 0.05
    ub = center + rng.random(n) * 2.0 + 0.05
    kind = kind or rng.choice(["finite", "mixed", "mixed", "inf", "tight"])
    if kind == "inf":
        lb[:] = -np.inf
        ub[:] = np.inf
    elif kind == "mixed":
        r = rng.random(n)
        lb = np.where(r < 0.25, -np.inf, lb)
        ub = np.where((r > 0.2) & (r < 0.45), np.inf, ub)
        dg = rng.random(n) < 0.12
        mid = np.where(np.isfinite(lb), lb, np.where(np.isfinite(ub), ub, 0.0))
        lb = np.where(dg, mid, lb)
        ub = np.where(dg, mid, ub)
    elif kind == "tight":
        # the unconstrained minimiser is (mostly) outside: many active bounds at the optimum
        sh = rng.choice([-1.0, 1.0], n) * (1.0 + rng.random(n))
        lb = center + sh - rng.random(n) * 0.7
        ub = lb + rng.random(n) * 1.2 + 0.01
    return lb, ub, str(kind)


def _start(rng, lb, ub, kind=None):
    n = lb.size
    lo = np.where(np.isfinite(lb), lb, np.where(np.isfinite(ub), ub - 3.0, -3.0))
    hi = np.where(np.isfinite(ub), ub, np.where(np.isfinite(lb), lb + 3.0, 3.0))
    x0 = lo + (hi - lo) * rng.random(n)
    kind = kind or rng.choice(["interior", "face", "vertex"])
    if kind == "face":
        r = rng.random(n)
        x0 = np.where((r < 0.3) & np.isfinite(lb), lb, np.where((r > 0.7) & np.isfinite(ub), ub, x0))
    elif kind == "vertex":
        r = rng.random(n)
        x0 = np.where(np.isfinite(lb) & ((r < 0.5) | ~np.isfinite(ub)), lb, np.where(np.isfinite(ub), ub, x0))
    return np.clip(x0, lb, ub), str(kind)


def make_problem(spec):
    fam = spec["family"]
    rng = _rng(spec)
    nmax = int(spec.get("nmax", 12))
    n = int(spec.get("n") or rng.integers(1, nmax + 1))
    extra = {}
    if fam in ("qp", "qp4", "qpsp", "qpcos", "bad"):
        cond = float(10 ** rng.uniform(0, 4))
        H = _spd(rng, n, cond)
        xs = rng.standard_normal(n) * 2.0
        b = H @ xs
        if fam == "bad":
            sc = 10 ** rng.uniform(-3, 3, n)
            H = (H * sc).T * sc
            b = b * sc
            xs = np.linalg.solve(H, b)
        w = float(rng.choice([0.1, 0.5, 2.0]))
        om = float(rng.choice([3.0, 5.0]))
        c = rng.standard_normal(n)
        if fam in ("qp", "bad"):
            f = lambda x: 0.5 * x @ H @ x - b @ x
            g = lambda x: H @ x - b
        elif fam == "qp4":
            f = lambda x: 0.5 * x @ H @ x - b @ x + w * np.sum((x - c) ** 4)
            g = lambda x: H @ x - b + 4.0 * w * (x - c) ** 3
        elif fam == "qpsp":
            f = lambda x: 0.5 * x @ H @ x - b @ x + w * np.sum(np.logaddexp(0.0, om * (x - c)))
            g = lambda x: H @ x - b + w * om * 0.5 * (1.0 + np.tanh(0.5 * om * (x - c)))
        else:
            f = lambda x: 0.5 * x @ H @ x - b @ x + w * np.sum(np.cos(om * x))
            g = lambda x: H @ x - b - om * w * np.sin(om * x)
        lb, ub, bk = _box(rng, n, xs, spec.get("box"))
        convex = fam != "qpcos"
        extra = dict(cond=cond, box=bk, H=H, b=b, w=w, c=c, om=om)
    elif fam == "osc":
        a = rng.uniform(0.05, 0.5, n)
        om = rng.uniform(2.0, 9.0, n)
        ph = rng.uniform(0, 6.28, n)
        f = lambda x: np.sum(a * x * x + np.sin(om * x + ph))
        g = lambda x: 2.0 * a * x + om * np.cos(om * x + ph)
        lb, ub, bk = _box(rng, n, np.zeros(n), spec.get("box"))
        convex = False
        extra = dict(box=bk)
    elif fam == "rosen":
        n = int(spec.get("n") or rng.integers(2, 9))
        from lbfgsb import rosenbrock, rosenbrock_grad

        f = lambda x: rosenbrock(x)
        g = lambda x: rosenbrock_grad(x)
        lb, ub, bk = _box(rng, n, np.ones(n), spec.get("box"))
        convex = False
        extra = dict(box=bk)
    elif fam == "bench":
        import lbfgsb

        names = ["ackley", "beale", "griewank", "quartic", "rastrigin", "rosenbrock", "sphere", "styblinski_tang"]
        nm = spec.get("bench") or str(rng.choice(names))
        if nm == "beale":
            n = 2
        elif nm == "rosenbrock":
            n = max(n, 2)
        fn = getattr(lbfgsb, nm)
        gn = getattr(lbfgsb, nm + "_grad")
        f = lambda x: fn(x)
        g = lambda x: np.asarray(gn(x), dtype=float)
        lb, ub, bk = _box(rng, n, rng.uniform(-1, 1, n), spec.get("box") or str(rng.choice(["finite", "mixed", "tight"])))
        if nm == "ackley":
            # keep away from the singularity at the origin
            lb = np.where(np.isfinite(lb), np.maximum(lb, 0.2), 0.2)
            ub = np.maximum(np.where(np.isfinite(ub), ub, 4.0), lb + 0.5)
        convex = nm in ("sphere", "quartic")
        extra = dict(box=bk, bench=nm)
    else:
        raise ValueError(fam)
    x0, sk = _start(rng, lb, ub, spec.get("start"))
    extra["start"] = sk
    return Problem(dict(spec), n, f, g, np.asarray(lb, float), np.asarray(ub, float), x0, convex, extra)


def problems(rng, families, count, nmax=12, **over):
    """Yield `count` problems; pseed values are drawn from the single check PRNG."""
    for _ in range(count):
        fam = str(rng.choice(families))
        spec = dict(family=fam, pseed=int(rng.integers(0, 2**31 - 1)), nmax=nmax, **over)
        yield make_problem(spec)


def random_config(rng, small=True):
    """Solver configuration (budgets, tolerances); small budgets keep runs short."""
    return dict(
        maxcor=int(rng.integers(1, 11)),
        ftol=float(rng.choice([0.0, 1e-10, 1e-5, 1e-2])),
        gtol=float(rng.choice([1e-8, 1e-5, 1e-2])),
        maxiter=int(rng.integers(0, 30 if small else 200)),
        maxfun=int(rng.integers(1, 80 if small else 2000)),
        maxls=int(rng.integers(1, 21)),
    )
