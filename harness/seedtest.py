"""Run registered checks against a seeded change: apply <dir>/patch.diff to /repo, run the demonstration
(expects failure), run the quick checks of the given properties, revert. Prints a summary line per check.
usage: seedtest.py <seed dir> <pid>[,<pid>...] [--tier quick|thorough]"""
import os, sys, subprocess, json, time

V = os.path.dirname(os.path.dirname(os.path.abspath(__file__)))


def sh(cmd, **kw):
    return subprocess.run(cmd, shell=True, stdout=subprocess.PIPE, stderr=subprocess.STDOUT, text=True, **kw)


def main():
    d = os.path.abspath(sys.argv[1])
    pids = sys.argv[2].split(",")
    tier = sys.argv[4] if len(sys.argv) > 4 and sys.argv[3] == "--tier" else "quick"
    assert sh("git -C /repo status --porcelain").stdout.strip() == "", "/repo is not clean"
    out = {}
    import shutil, tempfile
    bak = tempfile.mkdtemp(prefix="evbak", dir=os.path.join(V, ".work"))
    shutil.copytree(os.path.join(V, "evidence"), os.path.join(bak, "evidence"))
    shutil.copytree(os.path.join(V, "replays"), os.path.join(bak, "replays")) if os.path.isdir(os.path.join(V, "replays")) else None
    try:
        r = sh(f"git -C /repo apply {d}/patch.diff")
        assert r.returncode == 0, r.stdout
        t = sh("cd /repo && /venv/bin/python -m pytest -q -x -p no:cacheprovider --timeout=900 2>&1 | tail -1")
        out["tests"] = t.stdout.strip()
        demo = [f for f in os.listdir(d) if f.startswith("demo")]
        if demo:
            r = sh(f"cd /repo && PYTHONPATH=/repo timeout 600 /venv/bin/python {d}/{demo[0]} 2>&1 | tail -3")
            out["demo_with_patch"] = r.stdout.strip()[-300:]
        for pid in pids:
            t0 = time.time()
            r = sh(f"cd {V} && timeout 3000 /venv/bin/python check.py {pid} --tier {tier}")
            viol = [l for l in r.stdout.splitlines() if l.startswith("VIOLATION")]
            out[pid] = dict(exit=r.returncode, violations=viol[:3], wall=round(time.time() - t0, 1),
                            what=[l for l in r.stdout.splitlines() if l and not l.startswith("VIOLATION") and not l.startswith("[")][:3])
    finally:
        sh("git -C /repo checkout -- . && git -C /repo clean -fdq")
        # evidence and replays written against the seeded tree are not evidence about /repo
        shutil.rmtree(os.path.join(V, "evidence")); shutil.copytree(os.path.join(bak, "evidence"), os.path.join(V, "evidence"))
        if os.path.isdir(os.path.join(bak, "replays")):
            shutil.rmtree(os.path.join(V, "replays"), ignore_errors=True); shutil.copytree(os.path.join(bak, "replays"), os.path.join(V, "replays"))
        shutil.rmtree(bak, ignore_errors=True)
        sh(f"cd {V} && timeout 3000 /venv/bin/python check.py --setup")   # regenerate the model from the restored tree
    print(json.dumps(out, indent=1)[:4000])


if __name__ == "__main__":
    main()
