"""Run registered checks against a seeded change: apply <dir>/patch.diff to /repo, run the demonstration
(expects failure), run the quick checks of the given properties, revert. Prints a summary line per check.
usage: seedtest.py <seed dir> <pid>[,<pid>...] [--tier quick|thorough]"""
import os, sys, subprocess, json, time

V = os.path.dirname(os.path.dirname(os.path.abspath(__file__)))


def sh(cmd, **kw):
    return subprocess.run(cmd, shell=True, stdout=subprocess.PIPE, stderr=subprocess.STDOUT, text=True, **kw)


def main():
    d = os.path.abspath(sys.argv[1])
    pids = sys.argv[2].split(",")
    tier = sys.argv[4] if len(sys.argv) > 4 and sys.argv[3] == "--tier" else "quick"
    assert sh("git -C /repo status --porcelain").stdout.strip() == "", "/repo is not clean"
    out = {}
    import shutil, tempfile
    bak = tempfile.mkdtemp(prefix="evbak", dir=os.path.join(V, ".work"))
    shutil.copytree(os.path.join(V, "evidence"), os.path.join(bak, "evidence"))
    shutil.copytree(os.path.join(V, "replays"), os.path.join(bak, "replays")) if os.path.isdir(os.path.join(V, "replays")) else None
    try:
        r = sh(f"git -C /repo apply {d}/patch.diff")
        assert r.returncode == 0, r.stdout
        t = sh("cd /repo && /venv/bin/python -m pytest -q -x -p no:cacheprovider --timeout=900 2>&1 | tail -1")
        out["tests"] = t.stdout.strip()
        demo = [f for f in os.listdir(d) if f.startswith("demo")]
        if demo:
            r = sh(f"cd /repo && PYTHONPATH=/repo timeout 600 /venv/bin/python {d}/{demo[0]} > /verif/.work/demo.out 2>&1; echo rc=$?; tail -3 /verif/.work/demo.out")
            o_ = r.stdout.strip(); out["demo_with_patch"] = o_.split("\n")[0] + " | " + o_[-300:]
        for pid in pids:
            t0 = time.time()
            r = sh(f"cd {V} && timeout 3000 /venv/bin/python check.py {pid} --tier {tier}")
            viol = [l for l in r.stdout.splitlines() if l.startswith("VIOLATION")]
            how = {}
            try:
                ev = json.load(open(os.path.join(V, "evidence", pid + ".json")))
                cov = ev.get("coverage", ev)
                how["proof_obligations_broken"] = int(cov.get("obligations", 0)) - int(cov.get("discharged", 0))
                bad = {}
                for cn, cs in (cov.get("correspondence") or {}).items():
                    if isinstance(cs, dict) and not cs:
                        bad[cn] = "raised (source guard of the instrumented copy, or crash): reported as a broken correspondence"
                    elif isinstance(cs, dict):
                        n = cs.get("cases", cs.get("histories"))
                        if "agree" in cs and n is not None and cs["agree"] != n:
                            bad[cn] = f"{n - cs['agree']}/{n} runs disagree"
                        elif cs.get("disagreements"):
                            bad[cn] = f"{cs['disagreements']} disagreements"
                for l_ in r.stdout.splitlines():
                    if "correspondence obligation broken:" in l_ and not bad:
                        bad["(reported)"] = l_.split("correspondence obligation broken:", 1)[1].strip(" )")[:200]
                how["correspondence_broken"] = bad
                how["failing_inputs_found_by_search"] = int(ev.get("violations", 0)) if "violations" in ev else None
            except Exception as e:  # noqa
                how["error"] = str(e)
            no_input = any("no-failing-input-found" in v for v in viol)
            out[pid] = dict(exit=r.returncode, violations=viol[:3], wall=round(time.time() - t0, 1), how=how, no_failing_input_found=no_input,
                            what=[l for l in r.stdout.splitlines() if l and not l.startswith("VIOLATION") and not l.startswith("[")][:3])
    finally:
        sh("git -C /repo checkout -- . && git -C /repo clean -fdq")
        # evidence and replays written against the seeded tree are not evidence about /repo
        shutil.rmtree(os.path.join(V, "evidence")); shutil.copytree(os.path.join(bak, "evidence"), os.path.join(V, "evidence"))
        if os.path.isdir(os.path.join(bak, "replays")):
            shutil.rmtree(os.path.join(V, "replays"), ignore_errors=True); shutil.copytree(os.path.join(bak, "replays"), os.path.join(V, "replays"))
        shutil.rmtree(bak, ignore_errors=True)
        sh(f"cd {V} && timeout 3000 /venv/bin/python check.py --setup")   # regenerate the model from the restored tree
    demo = [f for f in os.listdir(d) if f.startswith("demo")]
    if demo:
        r = sh(f"cd /repo && PYTHONPATH=/repo timeout 600 /venv/bin/python {d}/{demo[0]} > /verif/.work/demo.out 2>&1; echo rc=$?; tail -2 /verif/.work/demo.out")
        o_ = r.stdout.strip(); out["demo_without_patch"] = o_.split("\n")[0] + " | " + o_[-200:]
    # meta.json: which property the change breaks, what it needs to manifest, what was run and what caught it
    agent = {}
    if os.path.exists(os.path.join(d, "meta_agent.json")):
        try:
            agent = json.load(open(os.path.join(d, "meta_agent.json")))
        except Exception:
            agent = {}
    meta_p = os.path.join(d, "meta.json")
    meta = json.load(open(meta_p)) if os.path.exists(meta_p) else {}
    meta.update(
        property=agent.get("property") or meta.get("property") or os.path.basename(d).split("-")[0],
        change=agent.get("change") or agent.get("summary") or agent.get("description") or agent.get("what") or meta.get("change", ""),
        needs_to_manifest=agent.get("needs") or agent.get("needs_to_manifest") or agent.get("trigger") or meta.get("needs_to_manifest", ""),
        files=agent.get("files") or meta.get("files", []),
        origin="written by a sub-agent that saw only the property text and a scratch worktree of /repo; confirmed here",
    )
    ran = meta.setdefault("ran", {})
    ran["existing test suite with the change applied"] = out.get("tests")
    ran["demo.py with the change applied (expected to fail)"] = out.get("demo_with_patch")
    ran["demo.py on the unchanged tree (expected to pass)"] = out.get("demo_without_patch")
    checks = meta.setdefault("checks", {})
    for pid in pids:
        o = out[pid]
        checks[pid + ":" + tier] = dict(command=f"python check.py {pid} --tier {tier}", exit=o["exit"], violation_lines=len(o["violations"]),
                                        reported=[w[:300] for w in o["what"]], wall_s=o["wall"], detected=bool(o["exit"] != 0 and o["violations"]),
                                        how=o.get("how"), violation_without_concrete_input=o.get("no_failing_input_found"))
    meta["caught_by"] = sorted(k for k, v in checks.items() if v.get("detected"))
    with open(meta_p, "w") as fh:
        json.dump(meta, fh, indent=1)
        fh.write("\n")
    print(json.dumps(out, indent=1)[:4000])


if __name__ == "__main__":
    main()
