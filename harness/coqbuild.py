"""Build of the Coq development (full .vo, never -vos), hygiene scan, per-property status,
and evaluation of generated case files with vm_compute."""
import os
import re
import sys
import fcntl
import hashlib
import subprocess
import time

from harness.common import VERIF, WORK

COQ = os.path.join(VERIF, "coq")
FORBIDDEN = re.compile(r"\b(Admitted|admit|Axiom|Axioms|Parameter|Parameters|Conjecture|Conjectures|Unset\s+Guard|bypass_check|Admit\s+Obligations|Unset\s+Positivity|Unset\s+Universe)\b|type-in-type|impredicative-set")


def _strip_comments(src):
    out, depth, i = [], 0, 0
    while i < len(src):
        if src.startswith("(*", i):
            depth += 1
            i += 2
        elif src.startswith("*)", i) and depth:
            depth -= 1
            i += 2
        else:
            if depth == 0:
                out.append(src[i])
            i += 1
    return "".join(out)


def project_files():
    files = []
    with open(os.path.join(COQ, "_CoqProject")) as fh:
        for line in fh:
            line = line.strip()
            if line.endswith(".v"):
                files.append(line)
    return files


def hygiene():
    """No Admitted/admit/Axiom/Parameter/... anywhere in the development (comments ignored).
    `Variable`/`Hypothesis` are allowed inside sections only."""
    bad = []
    for f in project_files():
        p = os.path.join(COQ, f)
        if not os.path.exists(p):
            continue
        src = _strip_comments(open(p).read())
        for m in FORBIDDEN.finditer(src):
            bad.append(f"{f}: {m.group(0)}")
        depth = 0
        for line in src.splitlines():
            s = line.strip()
            if re.match(r"^(Section|Module)\b", s) and not re.match(r"^Module\s+\w+\s*:=", s):
                depth += 1
            elif re.match(r"^End\b", s):
                depth -= 1
            elif depth <= 0 and re.match(r"^(Variable|Variables|Hypothesis|Hypotheses|Context)\b", s):
                bad.append(f"{f}: {s[:40]} outside a section")
    return bad


def dependencies():
    """file -> project files it depends on (from coqdep)."""
    files = project_files()
    p = subprocess.run(["coqdep", "-Q", ".", "LBFGSB"] + files, cwd=COQ, stdout=subprocess.PIPE, stderr=subprocess.DEVNULL, text=True)
    deps = {f: [] for f in files}
    for line in p.stdout.splitlines():
        if ":" not in line:
            continue
        lhs, rhs = line.split(":", 1)
        tgt = [t for t in lhs.split() if t.endswith(".vo")]
        if not tgt:
            continue
        f = tgt[0][:-3] + ".v"
        f = f[2:] if f.startswith("./") else f
        for d in rhs.split():
            if d.endswith(".vo"):
                d = d[:-3] + ".v"
                d = d[2:] if d.startswith("./") else d
                if d in deps and f in deps and d != f:
                    deps[f].append(d)
    return deps


class Lock:
    def __enter__(self):
        os.makedirs(WORK, exist_ok=True)
        self.fh = open(os.path.join(WORK, "coq.lock"), "w")
        fcntl.flock(self.fh, fcntl.LOCK_EX)
        return self

    def __exit__(self, *a):
        fcntl.flock(self.fh, fcntl.LOCK_UN)
        self.fh.close()


_BUILD = None


def build(force=False, jobs=16, timeout=3000):
    """Regenerate the translated files, then `make -k`. Returns dict(ok, failed={file: error}, log)."""
    global _BUILD
    if _BUILD is not None and not force:
        return _BUILD
    from harness import translate

    t0 = time.time()
    with Lock():
        terr = translate.generate()  # rewrites coq/Generated/*.v only when their content changes
        subprocess.run(["coq_makefile", "-f", "_CoqProject", "-o", "Makefile"], cwd=COQ, check=True, stdout=subprocess.DEVNULL, stderr=subprocess.DEVNULL)
        p = subprocess.run(["timeout", str(timeout), "make", "-k", f"-j{jobs}"], cwd=COQ, stdout=subprocess.PIPE, stderr=subprocess.STDOUT, text=True)
        log = p.stdout
    failed = {}
    for m in re.finditer(r'File "\./([^"]+)", line (\d+), characters [^\n]*\n((?:(?!File ")[^\n]*\n){0,12})', log):
        f, line, msg = m.group(1), m.group(2), m.group(3)
        if "Error" in msg and f not in failed:
            failed[f] = f"line {line}: " + " ".join(msg.split())[:400]
    # a file whose dependency failed keeps its old .vo: remove it and report the file as not compiled
    if failed:
        deps = dependencies()
        changed = True
        while changed:
            changed = False
            for f, ds in deps.items():
                if f not in failed and any(d in failed for d in ds):
                    failed[f] = "not compiled (a dependency failed: %s)" % ", ".join(d for d in ds if d in failed)[:200]
                    changed = True
                    try:
                        os.remove(os.path.join(COQ, f[:-2] + ".vo"))
                    except OSError:
                        pass
    missing = [f for f in project_files() if not os.path.exists(os.path.join(COQ, f[:-2] + ".vo"))]
    for f in missing:
        failed.setdefault(f, "not compiled (a dependency failed)")
    hyg = hygiene()
    _BUILD = dict(ok=p.returncode == 0 and not failed and not hyg and not terr, failed=failed, log=log, hygiene=hyg,
                  translator_errors=terr, wall=time.time() - t0)
    with open(os.path.join(WORK, "coq_build.log"), "w") as fh:
        fh.write(log)
    return _BUILD


def assumptions_of(prop_file):
    """Parse the Print Assumptions output recorded when Properties/<file> was compiled (from the build log);
    if the file was up to date, recompile it alone to get the output."""
    p = subprocess.run(["timeout", "600", "coqc", "-Q", ".", "LBFGSB", "-w", "-notation-overridden", prop_file], cwd=COQ,
                       stdout=subprocess.PIPE, stderr=subprocess.STDOUT, text=True)
    out = p.stdout
    axioms = set()
    closed = 0
    for blk in re.split(r"\n(?=Closed under|Axioms:)", "\n" + out):
        if blk.startswith("Closed under"):
            closed += 1
        elif blk.startswith("Axioms:"):
            # one entry per axiom: its name at column 0 (the type may follow on indented lines); stop at compiler chatter
            for line in blk[len("Axioms:"):].split("\n"):
                if line.startswith(("File ", "Warning", "[")) or line.startswith("value "):
                    break
                m = re.match(r"^([A-Za-z_][\w.']*)", line)
                if m:
                    axioms.add(m.group(1))
    return dict(ok=p.returncode == 0, axioms=sorted(axioms), closed=closed, raw=out[-3000:])


def theorems_in(prop_file):
    src = _strip_comments(open(os.path.join(COQ, prop_file)).read())
    return re.findall(r"^\s*(?:Theorem|Lemma|Example|Corollary)\s+([\w']+)", src, re.M)


def property_files(pid):
    """Properties/<pid>.v and Properties/<pid>_<part>.v, in project order."""
    return [f for f in project_files() if re.match(r"Properties/%s(_\w+)?\.v$" % re.escape(pid), f)]


def property_status(pid, files=None):
    """Obligations of a property = the theorems of its property files (which only restate lemmas of Proofs/).
    discharged = all of them iff every file (hence everything it depends on) compiled."""
    b = build()
    pfs = property_files(pid)
    if not pfs:
        return dict(exists=False, ok=False, theorems=[], axioms=[], error=f"Properties/{pid}.v missing")
    ths = [t for pf in pfs for t in theorems_in(pf)]
    bad = [pf for pf in pfs if pf in b["failed"]]
    if bad or b["hygiene"]:   # a failed translation makes its Generated file (and all dependents) fail
        culprit = {f: e for f, e in b["failed"].items() if not f.startswith("Properties/") or f in pfs}
        return dict(exists=True, ok=False, theorems=ths, axioms=[], error=dict(failed=culprit, hygiene=b["hygiene"], translator=b["translator_errors"]))
    axioms, closed, ok, raw = set(), 0, True, ""
    for pf in pfs:
        a = assumptions_of(pf)
        axioms.update(a["axioms"])
        closed += a["closed"]
        ok = ok and a["ok"]
        raw += a["raw"] if not a["ok"] else ""
    return dict(exists=True, ok=ok, theorems=ths, axioms=sorted(axioms), closed=closed, error=None if ok else raw)


def run_cases(name, body, timeout=1200):
    """Write coq/Cases/<name>.v with the given body, compile it, return (ok, list of printed results).
    Every `Eval vm_compute in e.` prints `= v : T`; the values are returned as raw strings."""
    d = os.path.join(COQ, "Cases")
    os.makedirs(d, exist_ok=True)
    path = os.path.join(d, name + ".v")
    with open(path, "w") as fh:
        fh.write(body)
    cmd = "ulimit -s unlimited 2>/dev/null; exec timeout %d coqc -Q . LBFGSB -w -notation-overridden Cases/%s.v" % (timeout, name)
    p = subprocess.run(["bash", "-c", cmd], cwd=COQ, stdout=subprocess.PIPE, stderr=subprocess.STDOUT, text=True)
    out = p.stdout
    vals = [" ".join(m.group(1).split()) for m in re.finditer(r"^\s*= (.*?)\n\s*: ", out, re.M | re.S)]
    for ext in (".vo", ".vok", ".vos", ".glob"):
        try:
            os.remove(os.path.join(d, name + ext))
        except OSError:
            pass
    try:
        os.remove(os.path.join(d, "." + name + ".aux"))
    except OSError:
        pass
    return p.returncode == 0, vals, out


def parse_zlist(s):
    return [int(x) for x in re.findall(r"-?\d+", s.replace("%Z", ""))]
