#!/bin/bash
# run every claimed check at one tier, sequentially (each check uses all cores); prints one line per property
tier=${1:-quick}
cd /verif
rc=0
for p in $(/venv/bin/python -c "import json;print(' '.join(c['property_id'] for c in json.load(open('MANIFEST.json'))['checks']))"); do
  out=$(/venv/bin/python check.py $p --tier $tier 2>&1 | grep -v "WARNING conda")
  e=$?
  echo "$out" | grep -E "^\[|VIOLATION|KNOWN-FINDING" | cut -c1-400
  if echo "$out" | grep -q "^VIOLATION"; then rc=1; fi
done
exit $rc
