#!/usr/bin/env python
"""Fail-closed translator  lbfgsb/benchmarks.py  ->  Bench.v  (Gallina over R).

Only a whitelisted subset of Python/NumPy is understood (see BenchLib.v for the
target vector language).  Anything else raises ``Unsupported`` naming the
function and the offending AST node: the translator never guesses.

    generate(src_path, out_path) -> list of error strings ([] on success)
    validate(src_path)           -> list of error strings ([] on success)

``validate`` evaluates the translator's intermediate representation with Python
floats, using list primitives that mirror the Coq definitions of BenchLib.v
(NOT NumPy), and compares with the functions of the module at ``src_path`` on
random points for n = 0..8 (n = 0 only where the real function does not raise).
This guards against a mis-reading of NumPy slicing / broadcasting.

Float literals are read as the decimal rational written in the source text
(0.2 -> 1/5), obtained with ast.get_source_segment + decimal.Decimal; the
property is about the real-number meaning of the formulas.

Types of the IR:  'S' real scalar, 'V' 1-D real vector, 'N' natural number
(an array size).  An 'N' used in real arithmetic is coerced with INR.
"""
from __future__ import annotations

import ast
import decimal
import hashlib
import importlib.util
import math
import os
import random
import sys
from fractions import Fraction

DEFAULT_SRC = "/repo/lbfgsb/benchmarks.py"

EXPECTED = [
    "ackley", "beale", "griewank", "quartic",
    "rastrigin", "rosenbrock", "sphere", "styblinski_tang",
]

# identifiers a Python local may not use (they mean something in the output)
RESERVED = {
    "u_", "map", "map2", "vsum", "vprod", "arange", "zeros", "acc_init",
    "acc_tail", "upd", "tl", "removelast", "length", "INR", "IZR", "PI", "R",
    "Rsqr", "Ropp", "Rplus", "Rminus", "Rmult", "Rdiv", "sqrt", "exp", "cos",
    "sin", "pow", "list", "nat", "fun", "let", "in", "match", "with", "end",
    "forall", "exists", "Definition", "Lemma", "Theorem", "Fixpoint", "if",
    "then", "else", "as", "return", "Type", "Prop", "Set", "fix", "cofix",
    "at", "using", "where", "for", "nth", "fold_right", "repeat", "seq",
}

UFUNCS = {"square": "Rsqr", "sqrt": "sqrt", "exp": "exp", "cos": "cos", "sin": "sin"}
BINOPS = {ast.Add: "+", ast.Sub: "-", ast.Mult: "*", ast.Div: "/"}
RNAMES = {"+": "Rplus", "-": "Rminus", "*": "Rmult", "/": "Rdiv"}


class Unsupported(Exception):
    def __init__(self, fname, node, why):
        self.fname, self.node, self.why = fname, node, why
        where = ""
        if isinstance(node, ast.AST):
            where = " at line %s: %s" % (getattr(node, "lineno", "?"), ast.dump(node)[:300])
        super().__init__("[%s] unsupported: %s%s" % (fname, why, where))


# --------------------------------------------------------------------------
# Python AST -> IR
# IR nodes are tuples (kind, type, *args).


def ty(e):
    return e[1]


class FunTranslator:
    def __init__(self, fdef: ast.FunctionDef, src: str):
        self.f = fdef
        self.src = src
        self.name = fdef.name
        self.env = {}          # python name -> type
        self.accs = set()      # names bound to a fresh zero array (accumulators)
        self.lets = []         # [(name, ir)]
        self.ret = None

    def fail(self, node, why):
        raise Unsupported(self.name, node, why)

    # ---- helpers
    def to_real(self, e):
        return ("inr", "S", e) if ty(e) == "N" else e

    def nat_literal_exponent(self, node):
        """exponent must be a literal non-negative integer (2, 2.0, ...)"""
        if isinstance(node, ast.Constant) and type(node.value) in (int, float):
            v = node.value
            if type(v) is float and (not math.isfinite(v) or v != int(v)):
                self.fail(node, "exponent is not an integer literal")
            k = int(v)
            if 0 <= k <= 64:
                return k
        self.fail(node, "exponent must be a literal integer in 0..64")

    def is_np(self, node, attr=None):
        return (isinstance(node, ast.Attribute) and isinstance(node.value, ast.Name)
                and node.value.id == "np" and (attr is None or node.attr == attr))

    # ---- expressions
    def expr(self, n):
        if isinstance(n, ast.Constant):
            v = n.value
            if type(v) is int:
                return ("lit", "S", Fraction(v), repr(v))
            if type(v) is float and math.isfinite(v):
                # the DECIMAL rational written in the source text (0.2 -> 1/5)
                text = ast.get_source_segment(self.src, n)
                try:
                    fr = Fraction(decimal.Decimal(text))
                except (decimal.InvalidOperation, TypeError, ValueError):
                    self.fail(n, "cannot read the literal text %r as a decimal" % (text,))
                if float(fr) != v:
                    self.fail(n, "literal text %r does not denote the parsed float" % (text,))
                return ("lit", "S", fr, text)
            self.fail(n, "constant of unsupported type")
        if isinstance(n, ast.Name):
            if n.id in self.accs:
                self.fail(n, "accumulator array used inside an expression (aliasing)")
            if n.id not in self.env:
                self.fail(n, "unknown name")
            return ("var", self.env[n.id], n.id)
        if isinstance(n, ast.Attribute):
            if self.is_np(n, "pi"):
                return ("pi", "S")
            if n.attr == "size":
                v = self.expr(n.value)
                if ty(v) != "V":
                    self.fail(n, ".size of a non-vector")
                return ("size", "N", v)
            self.fail(n, "attribute")
        if isinstance(n, ast.UnaryOp):
            if not isinstance(n.op, ast.USub):
                self.fail(n, "unary operator")
            a = self.to_real(self.expr(n.operand))
            return ("sneg", "S", a) if ty(a) == "S" else ("vneg", "V", a)
        if isinstance(n, ast.BinOp):
            if isinstance(n.op, ast.Pow):
                return self.power(n, n.left, n.right)
            if type(n.op) not in BINOPS:
                self.fail(n, "binary operator")
            op = BINOPS[type(n.op)]
            a = self.to_real(self.expr(n.left))
            b = self.to_real(self.expr(n.right))
            return self.binop(op, a, b)
        if isinstance(n, ast.Subscript):
            v = self.expr(n.value)
            if ty(v) != "V":
                self.fail(n, "subscript of a non-vector")
            return (self.slice_kind(n), "V", v)
        if isinstance(n, ast.Call):
            return self.call(n)
        self.fail(n, "expression")

    def binop(self, op, a, b):
        ta, tb = ty(a), ty(b)
        if (ta, tb) == ("S", "S"):
            return ("sbin", "S", op, a, b)
        if (ta, tb) == ("V", "V"):
            return ("vv", "V", op, a, b)
        if (ta, tb) == ("S", "V"):
            return ("sv", "V", op, a, b)
        return ("vs", "V", op, a, b)

    def power(self, n, base, expo):
        k = self.nat_literal_exponent(expo)
        a = self.to_real(self.expr(base))
        return ("spow", "S", a, k) if ty(a) == "S" else ("vpow", "V", a, k)

    def slice_kind(self, n):
        s = n.slice
        if isinstance(s, ast.Slice) and s.step is None:
            lo, up = s.lower, s.upper
            if (isinstance(lo, ast.Constant) and type(lo.value) is int and lo.value == 1
                    and up is None):
                return "tl"
            if (lo is None and isinstance(up, ast.UnaryOp) and isinstance(up.op, ast.USub)
                    and isinstance(up.operand, ast.Constant)
                    and type(up.operand.value) is int and up.operand.value == 1):
                return "init"
        self.fail(n, "only the slices [1:] and [:-1] are supported")

    def call(self, n):
        if n.keywords:
            self.fail(n, "keyword arguments")
        f = n.func
        # method  <vector>.sum()
        if isinstance(f, ast.Attribute) and f.attr == "sum" and not self.is_np(f):
            if n.args:
                self.fail(n, ".sum() with arguments")
            v = self.expr(f.value)
            if ty(v) != "V":
                self.fail(n, ".sum() of a non-vector")
            return ("sum", "S", v)
        if not self.is_np(f):
            self.fail(n, "call")
        name, args = f.attr, n.args
        if name == "asarray":
            if len(args) != 1:
                self.fail(n, "np.asarray arity")
            v = self.expr(args[0])
            if ty(v) != "V":
                self.fail(n, "np.asarray of a non-vector")
            return v
        if name in UFUNCS:
            if len(args) != 1:
                self.fail(n, "ufunc arity")
            a = self.to_real(self.expr(args[0]))
            return ("sfun", "S", name, a) if ty(a) == "S" else ("vfun", "V", name, a)
        if name == "power":
            if len(args) != 2:
                self.fail(n, "np.power arity")
            return self.power(n, args[0], args[1])
        if name == "prod":
            if len(args) != 1:
                self.fail(n, "np.prod arity")
            v = self.expr(args[0])
            if ty(v) != "V":
                self.fail(n, "np.prod of a non-vector")
            return ("prod", "S", v)
        if name == "arange":
            # exactly  np.arange(1, <N> + 1)
            ok = (len(args) == 2 and isinstance(args[0], ast.Constant)
                  and type(args[0].value) is int and args[0].value == 1
                  and isinstance(args[1], ast.BinOp) and isinstance(args[1].op, ast.Add)
                  and isinstance(args[1].right, ast.Constant)
                  and type(args[1].right.value) is int and args[1].right.value == 1)
            if not ok:
                self.fail(n, "only np.arange(1, <size> + 1) is supported")
            m = self.expr(args[1].left)
            if ty(m) != "N":
                self.fail(n, "np.arange bound is not an array size")
            return ("arange", "V", m)
        if name == "zeros_like":
            if len(args) != 1:
                self.fail(n, "np.zeros_like arity")
            v = self.expr(args[0])
            if ty(v) != "V":
                self.fail(n, "np.zeros_like of a non-vector")
            return ("zeros", "V", ("size", "N", v))
        if name == "zeros":
            if len(args) != 1:
                self.fail(n, "np.zeros arity")
            m = self.expr(args[0])
            if ty(m) != "N":
                self.fail(n, "np.zeros of something that is not an array size")
            return ("zeros", "V", m)
        self.fail(n, "numpy function np.%s" % name)

    # ---- statements
    def check_name(self, node, name):
        if name in RESERVED or name.startswith("_") or not name.isidentifier() \
                or not name.isascii():
            self.fail(node, "local name %r is reserved" % name)

    def run(self):
        fd = self.f
        a = fd.args
        if (len(a.args) != 1 or a.posonlyargs or a.kwonlyargs or a.vararg or a.kwarg
                or a.defaults or a.kw_defaults or fd.decorator_list):
            self.fail(fd, "signature must be exactly (x)")
        self.arg = a.args[0].arg
        self.check_name(fd, self.arg)
        self.env[self.arg] = "V"
        body = list(fd.body)
        if body and isinstance(body[0], ast.Expr) and isinstance(body[0].value, ast.Constant) \
                and isinstance(body[0].value.value, str):
            body = body[1:]
        if not body or not isinstance(body[-1], ast.Return) or body[-1].value is None:
            self.fail(fd, "function must end with `return <expr>`")
        for st in body[:-1]:
            self.stmt(st)
        r = body[-1].value
        if isinstance(r, ast.Name) and r.id in self.accs:
            self.ret = ("var", "V", r.id)
        else:
            self.ret = self.expr(r)
        want = "V" if self.name.endswith("_grad") else "S"
        if ty(self.ret) != want:
            self.fail(body[-1], "return type %s, expected %s" % (ty(self.ret), want))
        return self

    def stmt(self, st):
        if isinstance(st, ast.Assign):
            if len(st.targets) != 1 or not isinstance(st.targets[0], ast.Name):
                self.fail(st, "assignment target")
            name = st.targets[0].id
            self.check_name(st, name)
            if name in self.accs:
                self.fail(st, "re-assignment of an accumulator")
            e = self.expr(st.value)
            if e == ("var", "V", name):      # x = np.asarray(x)
                return
            if name == self.arg:
                self.fail(st, "re-assignment of the argument")
            if name in self.env:
                self.fail(st, "re-assignment of a local")
            self.env[name] = ty(e)
            if e[0] == "zeros":
                self.accs.add(name)
            self.lets.append((name, e))
            return
        if isinstance(st, ast.AugAssign):
            t = st.target
            if not (isinstance(st.op, ast.Add) and isinstance(t, ast.Subscript)
                    and isinstance(t.value, ast.Name) and t.value.id in self.accs):
                self.fail(st, "only `<zeros-array>[1:] += e` / `[:-1] += e`")
            kind = self.slice_kind(t)
            e = self.expr(st.value)
            if ty(e) != "V":
                self.fail(st, "accumulated value must be a vector")
            g = t.value.id
            self.lets.append((g, ("acc_tail" if kind == "tl" else "acc_init", "V",
                                  ("var", "V", g), e)))
            return
        self.fail(st, "statement")


# --------------------------------------------------------------------------
# IR -> Gallina


def coq_lit(fr: Fraction, text: str) -> str:
    if fr.denominator == 1:
        return "%d" % fr.numerator
    return "(%d / %d (* %s *))" % (fr.numerator, fr.denominator, text)


def coq(e) -> str:
    k = e[0]
    if k == "lit":
        return coq_lit(e[2], e[3])
    if k == "pi":
        return "PI"
    if k == "var":
        return e[2]
    if k == "inr":
        return "(INR %s)" % coq(e[2])
    if k == "size":
        return "(length %s)" % coq(e[2])
    if k == "sneg":
        return "(- %s)" % coq(e[2])
    if k == "vneg":
        return "(map Ropp %s)" % coq(e[2])
    if k == "sbin":
        return "(%s %s %s)" % (coq(e[3]), e[2], coq(e[4]))
    if k == "vv":
        return "(map2 %s %s %s)" % (RNAMES[e[2]], coq(e[3]), coq(e[4]))
    if k == "sv":
        return "(map (fun u_ => %s %s u_) %s)" % (coq(e[3]), e[2], coq(e[4]))
    if k == "vs":
        return "(map (fun u_ => u_ %s %s) %s)" % (e[2], coq(e[4]), coq(e[3]))
    if k == "sfun":
        return "(%s %s)" % (UFUNCS[e[2]], coq(e[3]))
    if k == "vfun":
        return "(map %s %s)" % (UFUNCS[e[2]], coq(e[3]))
    if k == "spow":
        return "(%s ^ %d)" % (coq(e[2]), e[3])
    if k == "vpow":
        return "(map (fun u_ => u_ ^ %d) %s)" % (e[3], coq(e[2]))
    if k == "sum":
        return "(vsum %s)" % coq(e[2])
    if k == "prod":
        return "(vprod %s)" % coq(e[2])
    if k == "tl":
        return "(tl %s)" % coq(e[2])
    if k == "init":
        return "(removelast %s)" % coq(e[2])
    if k == "arange":
        return "(arange %s)" % coq(e[2])
    if k == "zeros":
        return "(zeros %s)" % coq(e[2])
    if k in ("acc_init", "acc_tail"):
        return "(%s %s %s)" % (k, coq(e[2]), coq(e[3]))
    raise AssertionError("IR node %r" % (k,))


def coq_def(ft: FunTranslator) -> str:
    rty = "list R" if ft.name.endswith("_grad") else "R"
    out = ["Definition %s (%s : list R) : %s :=" % (ft.name, ft.arg, rty)]
    for name, e in ft.lets:
        out.append("  let %s := %s in" % (name, coq(e)))
    out.append("  %s." % coq(ft.ret))
    return "\n".join(out)


# --------------------------------------------------------------------------
# IR -> Python closure.  List primitives mirror BenchLib.v, not NumPy.

PYOPS = {"+": lambda a, b: a + b, "-": lambda a, b: a - b,
         "*": lambda a, b: a * b, "/": lambda a, b: a / b}
PYFUN = {"square": lambda a: a * a, "sqrt": math.sqrt, "exp": math.exp,
         "cos": math.cos, "sin": math.sin}


def _map2(f, a, b):
    return [f(u, v) for u, v in zip(a, b)]       # truncating, like map2


def _fold_right(f, z, l):
    acc = z
    for u in reversed(l):
        acc = f(u, acc)
    return acc


def ev(e, env):
    k = e[0]
    if k == "lit":
        return float(e[2])            # correctly rounded = the Python float literal
    if k == "pi":
        return math.pi
    if k == "var":
        return env[e[2]]
    if k == "inr":
        return float(ev(e[2], env))
    if k == "size":
        return len(ev(e[2], env))
    if k == "sneg":
        return -ev(e[2], env)
    if k == "vneg":
        return [-u for u in ev(e[2], env)]
    if k == "sbin":
        return PYOPS[e[2]](ev(e[3], env), ev(e[4], env))
    if k == "vv":
        return _map2(PYOPS[e[2]], ev(e[3], env), ev(e[4], env))
    if k == "sv":
        s = ev(e[3], env)
        return [PYOPS[e[2]](s, u) for u in ev(e[4], env)]
    if k == "vs":
        s = ev(e[4], env)
        return [PYOPS[e[2]](u, s) for u in ev(e[3], env)]
    if k == "sfun":
        return PYFUN[e[2]](ev(e[3], env))
    if k == "vfun":
        return [PYFUN[e[2]](u) for u in ev(e[3], env)]
    if k == "spow":
        return ev(e[2], env) ** e[3]
    if k == "vpow":
        return [u ** e[3] for u in ev(e[2], env)]
    if k == "sum":
        return _fold_right(lambda a, b: a + b, 0.0, ev(e[2], env))
    if k == "prod":
        return _fold_right(lambda a, b: a * b, 1.0, ev(e[2], env))
    if k == "tl":
        return ev(e[2], env)[1:]
    if k == "init":                  # removelast
        return ev(e[2], env)[:-1]
    if k == "arange":                # map INR (seq 1 n)
        return [float(j) for j in range(1, ev(e[2], env) + 1)]
    if k == "zeros":
        return [0.0] * ev(e[2], env)
    if k == "acc_init":              # map2 Rplus g (e ++ [0])
        return _map2(PYOPS["+"], ev(e[2], env), ev(e[3], env) + [0.0])
    if k == "acc_tail":              # map2 Rplus g (0 :: e)
        return _map2(PYOPS["+"], ev(e[2], env), [0.0] + ev(e[3], env))
    raise AssertionError("IR node %r" % (k,))


def closure(ft: FunTranslator):
    def f(xs):
        env = {ft.arg: [float(u) for u in xs]}
        for name, e in ft.lets:
            env[name] = ev(e, env)
        return ev(ft.ret, env)
    return f


# --------------------------------------------------------------------------
# module level


def translate_module(src_path):
    """-> (dict name -> FunTranslator, sha256 hex).  Raises Unsupported."""
    with open(src_path, "rb") as fh:
        raw = fh.read()
    text = raw.decode("utf-8")
    tree = ast.parse(text, filename=src_path)
    funs = {}
    for i, st in enumerate(tree.body):
        if i == 0 and isinstance(st, ast.Expr) and isinstance(st.value, ast.Constant) \
                and isinstance(st.value.value, str):
            continue
        if isinstance(st, ast.Import):
            if [(al.name, al.asname) for al in st.names] == [("numpy", "np")]:
                continue
            raise Unsupported("<module>", st, "import")
        if isinstance(st, ast.ImportFrom):
            if st.module == "lbfgsb.types" and st.level == 0 and \
                    [(al.name, al.asname) for al in st.names] == [("NDArrayFloat", None)]:
                continue
            raise Unsupported("<module>", st, "import")
        if isinstance(st, ast.FunctionDef):
            if st.name in funs:
                raise Unsupported("<module>", st, "function defined twice")
            funs[st.name] = FunTranslator(st, text).run()
            continue
        raise Unsupported("<module>", st, "module-level statement")
    want = sorted(EXPECTED + [n + "_grad" for n in EXPECTED])
    if sorted(funs) != want:
        raise Unsupported(
            "<module>", None,
            "set of functions differs from the 8 proved pairs: extra %s, missing %s"
            % (sorted(set(funs) - set(want)), sorted(set(want) - set(funs))))
    return funs, hashlib.sha256(raw).hexdigest()


def render(funs, sha, src_path):
    out = [
        "(* Bench.v -- GENERATED by translate_bench.py; do not edit.",
        "   source: %s" % src_path,
        "   Float literals are read as the DECIMAL rationals written in the source. *)",
        "From Coq Require Import Reals List.",
        "From LBFGSB Require Import Model.BenchLib.",
        "Import ListNotations.",
        "Open Scope R_scope.",
        "",
    ]
    for n in EXPECTED:
        out.append(coq_def(funs[n]))
        out.append("")
        out.append(coq_def(funs[n + "_grad"]))
        out.append("")
    return "\n".join(out)


def generate(src_path=DEFAULT_SRC, out_path="Bench.v"):
    try:
        funs, sha = translate_module(src_path)
        text = render(funs, sha, src_path)
    except (Unsupported, SyntaxError, OSError, UnicodeDecodeError) as ex:
        # fail closed: never leave a stale Bench.v behind
        try:
            os.remove(out_path)
        except OSError:
            pass
        return ["%s: %s" % (type(ex).__name__, ex)]
    with open(out_path, "w") as fh:
        fh.write(text)
    return []


def _close(a, b, rtol):
    if not (math.isfinite(a) and math.isfinite(b)):
        return False
    return abs(a - b) <= rtol * max(1.0, abs(a), abs(b))


def validate(src_path=DEFAULT_SRC, trials=25, rtol=1e-12, seed=20261001):
    import numpy as np
    try:
        funs, _ = translate_module(src_path)
    except (Unsupported, SyntaxError, OSError, UnicodeDecodeError) as ex:
        return ["%s: %s" % (type(ex).__name__, ex)]
    spec = importlib.util.spec_from_file_location("_bench_under_test", src_path)
    mod = importlib.util.module_from_spec(spec)
    try:
        spec.loader.exec_module(mod)
    except Exception as ex:  # noqa: BLE001
        return ["cannot import %s: %r" % (src_path, ex)]
    rng = random.Random(seed)
    errs = []
    for name in EXPECTED:
        for fn in (name, name + "_grad"):
            real, model = getattr(mod, fn), closure(funs[fn])
            checked = 0
            for n in range(0, 9):
                for _ in range(trials if n else 1):
                    xs = [rng.uniform(-3.0, 3.0) for _ in range(n)]
                    try:
                        with np.errstate(all="raise"):
                            want = real(np.array(xs, dtype=float))
                    except Exception as ex:  # noqa: BLE001
                        if n == 0:
                            continue      # e.g. ackley divides by the size
                        errs.append("%s: real function raised %r at %r" % (fn, ex, xs))
                        break
                    try:
                        got = model(xs)
                    except Exception as ex:  # noqa: BLE001
                        errs.append("%s: model raised %r at %r" % (fn, ex, xs))
                        break
                    if fn.endswith("_grad"):
                        want = np.asarray(want)
                        if want.shape != (n,) or len(got) != n:
                            errs.append("%s: shape %r / model length %d for n=%d"
                                        % (fn, want.shape, len(got), n))
                            break
                        scale = max([1.0] + [abs(float(w)) for w in want])
                        bad = [j for j in range(n)
                               if not (math.isfinite(got[j])
                                       and abs(got[j] - float(want[j])) <= rtol * scale)]
                        if bad:
                            errs.append("%s: mismatch at %r: model %r, real %r"
                                        % (fn, xs, got, want.tolist()))
                            break
                    else:
                        if np.ndim(want) != 0 or not _close(float(want), got, rtol):
                            errs.append("%s: mismatch at %r: model %r, real %r"
                                        % (fn, xs, got, want))
                            break
                    checked += 1
            if checked < 8 * trials and not any(e.startswith(fn + ":") for e in errs):
                errs.append("%s: only %d points checked" % (fn, checked))
    return errs


def main(argv):
    src = argv[1] if len(argv) > 1 else DEFAULT_SRC
    out = argv[2] if len(argv) > 2 else "Bench.v"
    errs = generate(src, out)
    if not errs:
        errs = validate(src)
        if errs:                      # fail closed
            os.remove(out)
    for e in errs:
        print("ERROR", e)
    print("translate_bench: %s" % ("FAILED" if errs else "ok -> %s" % out))
    return 1 if errs else 0


if __name__ == "__main__":
    sys.exit(main(sys.argv))
