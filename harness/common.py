"""Shared plumbing of the checks: environment, evidence, verdicts, known findings."""
import os
import sys
import json
import time
import hashlib

VERIF = os.path.dirname(os.path.dirname(os.path.abspath(__file__)))
REPO = os.environ.get("LBFGSB_REPO", "/repo")
WORK = os.path.join(VERIF, ".work")


def setup_env():
    """Make sure the package under test is imported from the repo working tree."""
    os.environ.setdefault("PYTHONHASHSEED", "0")
    os.environ["LBFGSB_VERIF"] = "1"
    os.environ.setdefault("OMP_NUM_THREADS", "1")
    os.environ.setdefault("OPENBLAS_NUM_THREADS", "1")
    os.environ.setdefault("MKL_NUM_THREADS", "1")
    if REPO in sys.path:
        sys.path.remove(REPO)
    sys.path.insert(0, REPO)
    for k in [k for k in sys.modules if k == "lbfgsb" or k.startswith("lbfgsb.")]:
        del sys.modules[k]
    import lbfgsb  # noqa

    assert os.path.abspath(lbfgsb.__file__).startswith(os.path.abspath(REPO)), lbfgsb.__file__
    os.makedirs(WORK, exist_ok=True)
    quiet()


def seed():
    try:
        return int(os.environ.get("VERIF_SEED", "0"))
    except ValueError:
        return 0


def hexf(v):
    return float(v).hex()


def hexv(a):
    import numpy as np

    return [float(v).hex() for v in np.asarray(a, dtype=float).ravel()]


def unhexv(l):
    import numpy as np

    return np.array([float.fromhex(s) for s in l], dtype=float)


class Failure:
    """A concrete failing input (or a broken obligation) found by a check."""

    def __init__(self, kind, what, replay=None, signature=None):
        self.kind = kind  # 'input' | 'proof' | 'correspondence' | 'translator'
        self.what = what
        self.replay = replay or {}
        self.signature = signature or ""

    def to_json(self):
        return {"kind": self.kind, "what": self.what, "signature": self.signature, "replay": self.replay}


def load_known():
    with open(os.path.join(VERIF, "known_findings.json")) as fh:
        return json.load(fh)


def match_known(pid, failure):
    """An open finding matches on its 'match' string being contained in the failure signature."""
    for e in load_known().get("open", []):
        props = [e.get("property")] + list(e.get("also", []))
        if pid in props and e.get("match") and e["match"] in failure.signature:
            return e
    return None


def write_replay(pid, failure):
    d = os.path.join(VERIF, "replays")
    os.makedirs(d, exist_ok=True)
    body = json.dumps({"property": pid, **failure.to_json()}, indent=1, sort_keys=True, default=str)
    h = hashlib.sha1(body.encode()).hexdigest()[:10]
    p = os.path.join(d, f"{pid}-{h}.json")
    with open(p, "w") as fh:
        fh.write(body)
    return p


def write_evidence(pid, tier, level, coverage, assumptions, wall, violations):
    d = os.path.join(VERIF, "evidence")
    os.makedirs(d, exist_ok=True)
    ev = {
        "property_id": pid,
        "tier": tier,
        "seed": seed(),
        "level": level,
        "coverage": coverage,
        "assumptions": assumptions,
        "wall_s": round(wall, 2),
        "violations": violations,
    }
    with open(os.path.join(d, f"{pid}.json"), "w") as fh:
        json.dump(ev, fh, indent=1, default=str)
        fh.write("\n")


class Timer:
    def __init__(self):
        self.t0 = time.time()

    def __call__(self):
        return time.time() - self.t0


class Coverage:
    """Measured coverage of one check run (becomes evidence.coverage)."""

    def __init__(self, rule):
        self.rule = rule
        self.evaluations = 0
        self.nontrivial = set()
        self.samples = []
        self.hist = {}
        self.extra = {}

    def case(self, key=None, nontrivial=False, sample=None, **tags):
        self.evaluations += 1
        if nontrivial and key is not None:
            self.nontrivial.add(key)
        if sample is not None and len(self.samples) < 5:
            self.samples.append(sample)
        for k, v in tags.items():
            kk = f"{k}={v}"
            self.hist[kk] = self.hist.get(kk, 0) + 1

    def to_json(self):
        d = dict(
            evaluations=self.evaluations,
            distinct_nontrivial=len(self.nontrivial),
            rule=self.rule,
            samples=self.samples,
            input_distribution=dict(sorted(self.hist.items())),
        )
        d.update(self.extra)
        return d


def quiet():
    import warnings

    warnings.filterwarnings("ignore")
    try:
        import numpy as np

        np.seterr(all="ignore")
    except Exception:
        pass
