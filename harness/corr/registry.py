"""Correspondence runs available to the checks (name -> run(tier) -> (failures, stats))."""


def _driver(focus=None):
    def f(tier):
        from harness.corr import driver
        return driver.run(tier, focus)
    return f


CORR = {"driver": _driver()}
for _f in ("fault", "restart", "scaler", "upd", "cb", "budget"):
    CORR["driver:" + _f] = _driver(_f)
