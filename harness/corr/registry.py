"""Correspondence runs available to the checks (name -> run(tier) -> (failures, stats))."""


def _driver(focus=None):
    def f(tier):
        from harness.corr import driver
        return driver.run(tier, focus)
    return f


CORR = {"driver": _driver()}
for _f in ("fault", "restart", "scaler", "upd", "cb", "budget", "fd", "log", "kern"):
    CORR["driver:" + _f] = _driver(_f)


def _bench(tier):
    """Translator validation for benchmarks.py: the intermediate representation the Coq text is printed from is
    evaluated in Python floats (Coq list semantics) and compared with the real functions."""
    import os
    from harness import translate_bench as tb
    from harness.common import Failure, REPO
    trials = 25 if tier == "quick" else 400
    errs = tb.validate(os.path.join(REPO, "lbfgsb", "benchmarks.py"), trials=trials)
    fails = [Failure("translator", "benchmarks translator disagrees with the real function: " + e, signature="C19 translator") for e in errs[:3]]
    return fails, dict(functions=16, trials_per_function_and_dimension=trials, dimensions="0..8", rtol=1e-12, disagreements=len(errs))


CORR["bench"] = _bench


def _wrap_agent(modname, label):
    """Correspondence modules written as stand-alone scripts: run(tier, seed, coq_dir) -> (list of dict, stats)."""
    def f(tier):
        import importlib
        import json
        from harness.common import Failure, seed
        from harness import coqbuild
        mod = importlib.import_module(modname)
        import inspect
        kw = dict(verbose=False) if 'verbose' in inspect.signature(mod.run).parameters else {}
        fails, stats = mod.run(tier, seed=seed(), coq_dir=coqbuild.COQ, **kw)
        out = []
        for d in fails[:3]:
            kind = "input" if "oracle" in str(d.get("kind", "")) else "correspondence"
            out.append(Failure(kind, f"{label}: {d.get('kind')}: " + json.dumps({k: v for k, v in d.items() if k != 'kind'}, default=str)[:900],
                               replay=dict(module=modname, failure=json.loads(json.dumps(d, default=str))), signature=f"{label} {d.get('kind')}"))
        return out, stats
    return f


CORR["bfgs"] = _wrap_agent("harness.corr.bfgs", "BFGS matrix model vs update_lbfgs_matrices")
CORR["cauchy"] = _wrap_agent("harness.corr.cauchy", "Cauchy-point model vs get_cauchy_point")
CORR["subspace"] = _wrap_agent("harness.corr.subspace", "subspace-step model vs get_freev + subspace_minimization")
CORR["dcsrch"] = _wrap_agent("harness.corr.dcsrch", "DCSRCH model vs scipy.optimize._dcsrch.DCSRCH")
CORR["fcauchy"] = _wrap_agent("harness.corr.fcauchy", "binary64 Cauchy-point model vs get_cauchy_point (bit-exact)")
CORR["fsubspace"] = _wrap_agent("harness.corr.fsubspace", "binary64 subspace-step model vs get_freev + subspace_minimization (bit-exact)")
