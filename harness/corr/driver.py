"""Bit-exact correspondence between the Gallina driver model (coq/Model/Driver.v) and
lbfgsb.minimize_lbfgsb: the implementation runs under recorders (installed by rebinding module
attributes), the recorded oracle tables and user-visible events are written to coq/Cases/*.v, the
model is evaluated there by vm_compute and compares its own trace and result with the recorded
ones (DriverCheck.check_run).  One integer per case comes back: 0 = reproduced."""
import copy
import os
import subprocess
import numpy as np

from harness import gen, coqbuild
from harness.common import Failure, seed
from harness.runs import bits

MSGS = {
    "START": "MStart", "RESTART_FROM_LNSRCH": "MRestart", "ABNORMAL_TERMINATION_IN_LNSRCH": "MAbnormal",
    "CONVERGENCE: REL_REDUCTION_OF_F_<=_FTOL": "MFtol", "CONVERGENCE: F_<=_TARGET": "MTarget",
    "CONVERGENCE: NORM_OF_PROJECTED_GRADIENT_<=_PGTOL": "MPgtol", "STOP: TOTAL NO. of ITERATIONS REACHED LIMIT": "MMaxiter",
    "STOP: TOTAL NO. of f AND g EVALUATIONS EXCEEDS LIMIT": "MMaxfun", "STOP: USER CALLBACK": "MCallback",
}


class Unsupported(Exception):
    pass


KERN = {"on": False}   # focus 'kern': record the linear-algebra answers of the kernels from instrumented copies of their source


class Marker(Exception):
    pass


def cf(v):
    v = float(v)
    if v != v:
        return "nan"
    if v == float("inf"):
        return "infinity"
    if v == float("-inf"):
        return "neg_infinity"
    return f"({v.hex()})%float"


def cz(v):
    return f"({int(v)})"


def cstr(s):
    return '"' + str(s).replace('"', '""') + '"'


class Case:
    """Collects what one run produced and renders it as a Coq module."""

    def __init__(self):
        self.vecs = {}
        self.vdefs = []
        self.events = []
        self.uf, self.ug, self.search, self.dcs, self.dots, self.cb, self.upd = [], [], [], [], {}, [], []
        self.kern_gcp, self.kern_sub, self.kern_mismatch = [], [], 0   # per-iteration linear-algebra answers (focus 'kern')
        self.dcs_objs = []   # (parameters, calls) of every DCSRCH object of the run, for the traced replay (pow table)
        self.scaler = None
        self.ft = self.gt = None
        self.sten, self.fdest = [], []

    def v(self, a):
        a = np.ascontiguousarray(np.asarray(a, dtype=np.float64)).ravel()
        k = a.tobytes()
        if k not in self.vecs:
            name = f"v{len(self.vecs)}"
            self.vecs[k] = name
            self.vdefs.append(f"Definition {name} : vec := [" + "; ".join(cf(x) for x in a) + "].")
        return self.vecs[k]

    def vl(self, L):
        return "[" + "; ".join(self.v(a) for a in L) + "]"

    def res(self, r, conv):
        if r[0] == "ok":
            return f"(Ok {conv(r[1])})"
        return f"(Raise ({cstr(r[1])}, {cstr(r[2])}))"

    def result(self, s):
        if s.message not in MSGS:
            raise Unsupported(f"message {s.message!r} has no model counterpart")
        sk = np.atleast_2d(np.asarray(s.hess_inv.sk, dtype=float))
        yk = np.atleast_2d(np.asarray(s.hess_inv.yk, dtype=float))
        if sk.size == 0:
            sk = yk = np.zeros((0, 1))
        return ("(mkres %s %s %s %s %s %s %s %s %s %s %s)" % (
            self.v(s.x), cf(s.fun), self.v(s.jac), cz(s.nfev), cz(s.njev), cz(s.nit), cz(s.status), MSGS[s.message],
            "true" if s.success else "false", self.vl(list(sk)), self.vl(list(yk))))

    def dot(self, a, b):
        a = np.ascontiguousarray(a, dtype=float)
        b = np.ascontiguousarray(b, dtype=float)
        key = (self.v(a), self.v(b))
        if key not in self.dots:
            self.dots[key] = float(a.dot(b))


def record(kw, opts=None):
    """Run minimize_lbfgsb(**kw) under recorders. kw['fun'], kw['jac'] are plain callables.
    Returns (Case, outcome) with outcome = ('ok', result) or ('raise', cls, msg)."""
    import lbfgsb.main as M
    import lbfgsb.bfgsmats as BM
    import scipy.optimize._dcsrch as DC

    C = Case()
    f, g = kw["fun"], kw["jac"]

    def exc_of(e):
        return ("raise", type(e).__name__, str(e))

    def F(x):
        try:
            v = f(x)
        except Exception as e:  # noqa
            C.uf.append((C.v(x), exc_of(e)))
            C.events.append(f"EvF {C.v(x)} {C.res(exc_of(e), cf)}")
            raise
        r = ("ok", float(v))
        C.uf.append((C.v(x), r))
        C.events.append(f"EvF {C.v(x)} {C.res(r, cf)}")
        return v

    def G(x):
        try:
            v = g(x)
        except Exception as e:  # noqa
            C.ug.append((C.v(x), exc_of(e)))
            C.events.append(f"EvG {C.v(x)} {C.res(exc_of(e), C.v)}")
            raise
        r = ("ok", np.array(v, dtype=float, copy=True))
        C.ug.append((C.v(x), r))
        C.events.append(f"EvG {C.v(x)} {C.res(r, C.v)}")
        return v

    kw2 = dict(kw)
    fd = not callable(kw.get("jac"))
    kw2["fun"], kw2["jac"] = F, (kw.get("jac") if fd else G)
    import lbfgsb.scalar_function as SFM
    o_ad = SFM.approx_derivative

    def ad(fun, x0, f0=None, **opts):
        n0 = len(C.uf)
        try:
            gest = o_ad(fun, x0, f0=f0, **opts)
        finally:
            # the stencil points visited (when the objective raises at one of them the list ends there)
            pts = [k for k, _ in C.uf[n0:]]
            C.sten.append((C.v(x0), "[" + "; ".join(pts) + "]"))
        # the estimate the wrapper keeps: derivative of a variable fixed by lb == ub reported as 0
        lb_, ub_ = opts["bounds"]
        gk = np.array(gest, dtype=float, copy=True)
        gk[np.broadcast_to(np.equal(lb_, ub_), gk.shape)] = 0.0
        C.fdest.append(((C.v(x0), cf(f0)), ("ok", gk)))
        return gest
    SFM.approx_derivative = ad
    if kw.get("callback") is not None:
        ucb = kw["callback"]

        def cb(xk, s):
            sc = copy.deepcopy(s)
            try:
                ret = ucb(xk, s)
            except Exception as e:  # noqa
                C.cb.append((sc.nit, exc_of(e)))
                C.events.append(f"EvCb {C.result(sc)} {C.res(exc_of(e), str)}")
                raise
            r = ("ok", "true" if ret else "false")
            C.cb.append((sc.nit, r))
            C.events.append(f"EvCb {C.result(sc)} {C.res(r, str)}")
            return ret
        kw2["callback"] = cb
    if kw.get("gradient_scaler") is not None:
        usc = kw["gradient_scaler"]

        def sc_(x, gr, lb, ub):
            args = (C.v(x), C.v(gr), C.v(lb), C.v(ub))
            try:
                ret = usc(x, gr, lb, ub)
            except Exception as e:  # noqa
                C.scaler = exc_of(e)
                C.events.append("EvScaler %s %s %s %s %s" % (*args, C.res(C.scaler, cf)))
                raise
            C.scaler = ("ok", float(ret))
            C.events.append("EvScaler %s %s %s %s %s" % (*args, C.res(C.scaler, cf)))
            return ret
        kw2["gradient_scaler"] = sc_
    if kw.get("update_fun_def") is not None:
        uupd = kw["update_fun_def"]

        def upd(x, f0, f0o, gr, X, Gd):
            args = "%s %s %s %s %s %s" % (C.v(x), cf(f0), cf(f0o), C.v(gr), C.vl(list(X)), C.vl(list(Gd)))
            key = (C.v(x), cf(f0))
            try:
                ret = uupd(x, f0, f0o, gr, X, Gd)
            except Exception as e:  # noqa
                C.upd.append((key, exc_of(e)))
                C.events.append(f"EvUpd {args} {C.res(exc_of(e), str)}")
                raise
            r = ("ok", "(%s, %s, %s, %s)" % (cf(ret[0]), cf(ret[1]), C.v(ret[2]), C.vl(list(ret[3]))))
            C.upd.append((key, r))
            C.events.append(f"EvUpd {args} {C.res(r, str)}")
            return ret
        kw2["update_fun_def"] = upd
    for nm, tag in (("ftarget", "Ft"), ("gtol", "Gt")):
        if callable(kw.get(nm)):
            u = kw[nm]

            def wrap(u=u, tag=tag):
                try:
                    ret = u()
                except Exception as e:  # noqa
                    setattr(C, tag.lower(), exc_of(e))
                    C.events.append(f"Ev{tag} {C.res(exc_of(e), cf)}")
                    raise
                setattr(C, tag.lower(), ("ok", float(ret)))
                C.events.append(f"Ev{tag} {C.res(('ok', float(ret)), cf)}")
                return ret
            kw2[nm] = wrap

    o_cp, o_sub, o_ls, o_is, o_D = M.get_cauchy_point, M.subspace_minimization, M.line_search, BM.is_update_X_and_G, DC.DCSRCH
    last = {}

    def cp(x, grad, lb, ub, mats, it, *a, **k):
        last["key"] = (C.v(x), C.v(grad), int(it))
        # the pairs the matrices in use were built from (none before the first accepted update / after a reset)
        if getattr(mats, "use_factor", False):
            last["SY"] = (C.vl(list(np.asarray(mats.S, float).T)), C.vl(list(np.asarray(mats.Y, float).T)))
        else:
            last["SY"] = ("[]", "[]")
        last["it"] = int(it)
        if KERN["on"] and getattr(mats, "use_factor", False):
            # theta = y.y / s.y of the newest pair of the history the matrices were built from (update_lbfgs_matrices): the two
            # dot products, for the model's mats_params (the same NumPy operation on the same vectors)
            S_, Y_ = np.asarray(mats.S, float), np.asarray(mats.Y, float)
            C.dot(Y_[:, -1].copy(), Y_[:, -1].copy())
            C.dot(S_[:, -1].copy(), Y_[:, -1].copy())
        out = o_cp(x, grad, lb, ub, mats, it, *a, **k)
        if KERN["on"]:
            from harness.corr import fcauchy as FC
            f_i, rec, _ = FC.instrumented()
            rec.log = []
            with np.errstate(all="ignore"):
                out_i = f_i(x, grad, lb, ub, mats, it, *a, **k)
            if not (FC.same_bits(out_i[0], out[0]) and FC.same_bits(out_i[1], out[1])):
                C.kern_mismatch += 1
            C.kern_gcp.append((int(it), list(rec.log)))
        return out

    def sub(x, xc, *a, **k):
        xb = o_sub(x, xc, *a, **k)
        if KERN["on"]:
            from harness.corr import fsubspace as FS
            f_i, rec = FS.instrumented()
            rec.reset()
            with np.errstate(all="ignore"):
                xb_i = f_i(x, xc, *a, **k)
            if not FS.same_bits(xb_i, xb):
                C.kern_mismatch += 1
            C.kern_sub.append((last.get("it", -1), list(rec.log), int(np.asarray(x).size)))
        C.search.append((last["key"], "(%s, %s, %s)" % (C.v(np.asarray(xb, dtype=float).ravel()), last["SY"][0], last["SY"][1])))
        return xb

    def isu(xk, gk, xo, go, eps=2.2e-16):
        yk = gk - go
        C.dot(xk - xo, yk)
        C.dot(yk, yk)
        return o_is(xk, gk, xo, go, eps)

    class D(o_D):
        def __init__(s, phi, derphi, ftol, gtol, xtol, stpmin, stpmax):
            super().__init__(phi, derphi, ftol, gtol, xtol, stpmin, stpmax)
            s._h = []
            s._mx = float(stpmax)
            s._calls = []
            C.dcs_objs.append(((float(ftol), float(gtol), float(xtol), float(stpmax)), s._calls))

        def _iterate(s, stp, fv, gv, task):
            out = super()._iterate(stp, fv, gv, task)
            s._h.append((float(stp), float(fv), float(gv)))
            t = bytes(out[3])
            s._calls.append((float(stp), float(fv), float(gv), float(out[0]), t))
            tk = "TFG" if t[:2] == b"FG" else ("TConv" if t[:4] == b"CONV" else ("TWarn" if t[:4] == b"WARN" else "TErr"))
            hist = "[" + "; ".join("(%s, %s, %s)" % (cf(a), cf(b), cf(c)) for a, b, c in s._h) + "]"
            C.dcs.append(f"(({cf(s._mx)}, {hist}), ({cf(out[0])}, {tk}))")
            return out

    def ls(x0, f0, g0, d, lb, ub, it, mx, boxed, sf, *a, **k):
        C.dot(g0, d)
        C.dot(d, d)
        o_fg = sf.fun_and_grad

        def fg(x):
            r = o_fg(x)
            C.dot(r[1], d)
            return r
        sf.fun_and_grad = fg
        try:
            return o_ls(x0, f0, g0, d, lb, ub, it, mx, boxed, sf, *a, **k)
        finally:
            del sf.fun_and_grad

    M.get_cauchy_point, M.subspace_minimization, M.line_search, BM.is_update_X_and_G, DC.DCSRCH = cp, sub, ls, isu, D
    try:
        try:
            r = M.minimize_lbfgsb(**kw2)
            outcome = ("ok", r)
        except Unsupported:
            raise
        except Exception as e:  # noqa
            outcome = exc_of(e)
            C.exc_obj = e
    finally:
        M.get_cauchy_point, M.subspace_minimization, M.line_search, BM.is_update_X_and_G, DC.DCSRCH = o_cp, o_sub, o_ls, o_is, o_D
        SFM.approx_derivative = o_ad
    C.fd = fd
    return C, outcome


def render(name, C, kw, outcome, ckpt=None):
    """Coq module text for one recorded run."""
    b = np.asarray(kw["bounds"], dtype=float)
    lb, ub = b[:, 0], b[:, 1]
    L = [f"Module {name}."]
    ck = "None"
    if ckpt is not None:
        ck = f"(Some {C.result(ckpt)})"
    expected = f"(Ok {C.result(outcome[1])})" if outcome[0] == "ok" else f"(Raise ({cstr(outcome[1])}, {cstr(outcome[2])}))"
    ft = kw.get("ftarget")
    ftc = "None" if ft is None else ("(Some TolCall)" if callable(ft) else f"(Some (TolConst {cf(ft)}))")
    gt = kw.get("gtol", 1e-5)
    gtc = "TolCall" if callable(gt) else f"(TolConst {cf(gt)})"
    x0n, lbn, ubn = C.v(kw["x0"]), C.v(lb), C.v(ub)
    cfg = ("(mkcfg %s %s %s %s %s %s %s %s %s %s %s %s %s %s %s %s)" % (
        x0n, lbn, ubn, cz(kw.get("maxcor", 10)), ftc, cf(kw.get("ftol", 1e-5)), gtc, cz(kw.get("maxiter", 50)),
        cz(kw.get("maxfun", 15000)), cz(kw.get("maxls", 20)), cf(kw.get("max_steplength", 1e8)), cf(kw.get("ftol_linesearch", 1e-3)),
        cf(kw.get("gtol_linesearch", 0.9)), cf(kw.get("xtol_linesearch", 0.1)), cf(kw.get("eps_SY", 2.2e-16)), ck))
    # the model's objective / gradient are FUNCTIONS of the point: a recorded run in which the same point got two different
    # answers (a fault injected by call index at a point evaluated before) cannot be expressed - skipped and counted; such runs
    # are covered on the implementation by the C20 search
    for tab, conv in ((C.uf, cf), (C.ug, C.v)):
        seen = {}
        for k, r in tab:
            rr = C.res(r, conv)
            if seen.setdefault(k, rr) != rr:
                raise Unsupported("user callable answered differently at the same point")
    ufs = "[" + "; ".join(f"({k}, {C.res(r, cf)})" for k, r in C.uf) + "]"
    ugs = "[" + "; ".join(f"({k}, {C.res(r, C.v)})" for k, r in C.ug) + "]"
    srch = "[" + "; ".join(f"(({k[0]}, {k[1]}, {cz(k[2])}), {v})" for k, v in C.search) + "]"
    dots = "[" + "; ".join(f"(({a}, {b_}), {cf(v)})" for (a, b_), v in C.dots.items()) + "]"
    cbs = "[" + "; ".join(f"({cz(k)}, {C.res(r, str)})" for k, r in C.cb) + "]"
    upds = "[" + "; ".join(f"(({k[0]}, {k[1]}), {C.res(r, str)})" for k, r in C.upd) + "]"
    stens = "[" + "; ".join(f"({k}, {v})" for k, v in C.sten) + "]"
    fdes = "[" + "; ".join(f"(({k[0]}, {k[1]}), {C.res(r, C.v)})" for k, r in C.fdest) + "]"
    fdpart = f"true (mk_sten {stens}) (mk_fdest {fdes})" if getattr(C, "fd", False) else "false (fun _ => []) (fun _ _ _ => miss)"
    user = "(mkuser (mk_uf %s) (mk_ug %s) %s %s %s %s %s " % (
        ufs, ugs,
        f"(Some (mk_cb {cbs}))" if kw.get("callback") is not None else "None",
        f"(Some (mk_upd {upds}))" if kw.get("update_fun_def") is not None else "None",
        ("(Some (fun _ _ _ _ => %s))" % (C.res(C.scaler, cf) if C.scaler else "miss")) if kw.get("gradient_scaler") is not None else "None",
        C.res(C.ft, cf) if C.ft else "miss", C.res(C.gt, cf) if C.gt else "miss") + fdpart + ")"
    # the line-search routine is the DCSRCH model; the values of the C library's pow(x, 2.0) inside dcstep come from a traced
    # replay of every DCSRCH object of the run (harness/corr/dcsrch.py)
    from harness.corr import dcsrch as DCS
    pw, seen = [], set()
    for par, calls in C.dcs_objs:
        log, ok = DCS.traced_replay(par, calls)
        if not ok:
            pw.append("(nan, nan)")   # the traced replay disagrees with the native run: the conformance check will say so
        for a, b_ in log:
            k = (a.hex() if a == a else "nan")
            if k not in seen:
                seen.add(k)
                pw.append(f"({cf(a)}, {cf(b_)})")
    # vector definitions are complete only now (rendering above may have added some)
    body = list(C.vdefs)
    body.append(f"Definition dcs_answers : list ((float * list (float * float * float)) * (float * task)) := [{'; '.join(C.dcs)}].")
    if KERN["on"]:
        from harness.corr import fcauchy as FC, fsubspace as FS
        if C.kern_mismatch:
            raise RuntimeError("an instrumented copy of get_cauchy_point / subspace_minimization did not reproduce the real function bit for bit")
        tg = []
        for it, log in C.kern_gcp:
            tabs = {"WTd": [], "dd": [], "pMp": [], "wMc": [], "wMv": []}
            for kind, ins, res in log:
                if kind == "WTd":
                    tabs[kind].append("(%s, %s)" % (FC.vlit(ins[0]), FC.vlit(res)))
                elif kind in ("dd", "pMp"):
                    tabs[kind].append("(%s, %s)" % (FC.vlit(ins[0]), FC.lit(res)))
                else:
                    tabs[kind].append("(%s, %s, %s)" % (FC.vlit(ins[0]), FC.vlit(ins[1]), FC.lit(res)))
            tg.append("(%s, (FCauchy.table_oracles [%s] [%s] [%s] [%s] [%s])%%float)" % (cz(it), "; ".join(tabs["WTd"]), "; ".join(tabs["dd"]), "; ".join(tabs["pMp"]),
                                                                       "; ".join(tabs["wMc"]), "; ".join(tabs["wMv"])))
        ts = []
        for it, log, n in C.kern_sub:
            tWc, tcorr = [], []
            for kind, ins, res in log:
                if kind == "Wc":
                    tWc.append("(%s, %s)" % (FS.vlit(ins[0]), FS.vlit(res)))
                else:
                    tcorr.append("(%s, %s, %s)" % (FS.mlit(ins[0], n), FS.vlit(ins[1]), FS.vlit(res)))
            ts.append("(%s, (FSubspace.table_sub_oracles [%s] [%s])%%float)" % (cz(it), "; ".join(tWc), "; ".join(tcorr)))
        body.append("Definition blas_answers : DriverKern.blas := DriverKern.mk_blas [%s] [%s]." % ("; ".join(tg), "; ".join(ts)))
        body.append(f"Definition out : Z := check_run_kern [{'; '.join(pw)}] dcs_answers {user} blas_answers (mk_dot {dots}) {cfg} {expected} [{'; '.join(C.events)}].")
        L.extend(body)
        L.append(f"End {name}.")
        return "\n".join(L)
    body.append(f"Definition out : Z := check_run_dcs [{'; '.join(pw)}] dcs_answers {user} (mk_search {srch}) (mk_dot {dots}) {cfg} {expected} [{'; '.join(C.events)}].")
    L.extend(body)
    L.append(f"End {name}.")
    return "\n".join(L)


HEADER = """From Coq Require Import List ZArith Bool String Floats.PrimFloat.
From LBFGSB Require Model.DriverKern Model.FCauchy Model.FSubspace.
From LBFGSB Require Import Base.Res Model.SF Model.FloatVec Model.Driver Model.DriverCheck.
Import ListNotations.
Open Scope Z_scope.
Open Scope string_scope.
"""


def evaluate(texts, tag, shard=25, procs=16):
    """Evaluate rendered cases in Coq, in parallel shards. Returns list of ints (None when a shard failed)."""
    d = os.path.join(coqbuild.COQ, "Cases")
    os.makedirs(d, exist_ok=True)
    names = []
    for i in range(0, len(texts), shard):
        nm = f"{tag}_{i // shard}"
        chunk = texts[i:i + shard]
        mods = [f"K{j}" for j in range(len(chunk))]
        body = HEADER + "\n".join(chunk) + "\nEval vm_compute in [" + "; ".join(f"K{j}.out" for j in range(len(chunk))) + "].\n"
        with open(os.path.join(d, nm + ".v"), "w") as fh:
            fh.write(body)
        names.append((nm, len(chunk)))
    procs_l = []
    results = []
    import concurrent.futures as cfut

    def one(nm):
        cmd = f"ulimit -s unlimited 2>/dev/null; exec timeout 1200 coqc -Q . LBFGSB -w -notation-overridden Cases/{nm}.v"
        p = subprocess.run(["bash", "-c", cmd], cwd=coqbuild.COQ, stdout=subprocess.PIPE, stderr=subprocess.STDOUT, text=True)
        for ext in (".vo", ".vok", ".vos", ".glob"):
            try:
                os.remove(os.path.join(d, nm + ext))
            except OSError:
                pass
        try:
            os.remove(os.path.join(d, "." + nm + ".aux"))
        except OSError:
            pass
        return p.returncode, p.stdout
    with cfut.ThreadPoolExecutor(max_workers=procs) as ex:
        outs = list(ex.map(one, [n for n, _ in names]))
    errors = []
    for (nm, cnt), (rc, out) in zip(names, outs):
        import re
        m = re.search(r"=\s*\[(.*?)\]\s*:\s*list Z", out, re.S)
        if rc != 0 or not m:
            results.extend([None] * cnt)
            errors.append(f"{nm}: " + out[-500:])
        else:
            vals = coqbuild.parse_zlist(m.group(1))
            results.extend(vals if len(vals) == cnt else [None] * cnt)
            try:
                os.remove(os.path.join(d, nm + ".v"))
            except OSError:
                pass
    return results, errors


FIELDS = {1: "x", 2: "fun", 3: "jac", 4: "nfev", 5: "njev", 6: "nit", 7: "status", 8: "message", 9: "success", 10: "sk", 11: "yk",
          20: "outcome kind (value vs exception)", 21: "exception type/message", 30: "model out of fuel"}


def describe(code):
    if code is None:
        return "the case did not evaluate in Coq"
    if code == 40:
        return "the real DCSRCH (SciPy) answered differently from the DCSRCH model (Model/Dcsrch.v) on a line search of this run"
    if code >= 1000:
        return f"user-visible event #{code - 1000} differs (or the traces have different lengths)"
    return "result field differs: " + FIELDS.get(code, str(code))


# ----------------------------------------------------------------------------- case generation
def make_kw(desc):
    """Keyword arguments of one run from a JSON description (problem spec + configuration + options)."""
    P = gen.make_problem(desc["spec"])
    kw = dict(x0=P.x0.copy(), fun=P.f, jac=P.g, bounds=P.bounds)
    kw.update(desc["cfg"])
    o = desc.get("opts", {})
    if o.get("fd"):
        kw["jac"] = None if o["fd"] == "None" else o["fd"]
    if o.get("iprint") is not None:
        # logging configuration: the model has no such input, so the run must not depend on it
        import logging
        lg = logging.getLogger("verif.sink")
        if not lg.handlers:
            lg.addHandler(logging.NullHandler())
            lg.propagate = False
        lg.setLevel(logging.DEBUG)
        kw["iprint"] = int(o["iprint"])
        if o.get("logger", True):
            kw["logger"] = lg
    fs = float(P.f(np.clip(P.x0, P.lb, P.ub)))
    if o.get("ft") == "mid":
        kw["ftarget"] = fs - 0.3 * abs(fs) - 0.05
    elif o.get("ft") == "x0":
        kw["ftarget"] = fs + 1.0
    elif o.get("ft") == "callable":
        v = fs - 0.3 * abs(fs) - 0.05
        kw["ftarget"] = lambda: v
    if o.get("gt") == "callable":
        gv = kw["gtol"]
        kw["gtol"] = lambda: gv
    if o.get("cb") in ("record", "stop2"):
        n = {"k": 0}

        def cb(xk, s):
            n["k"] += 1
            return o["cb"] == "stop2" and n["k"] == 2
        kw["callback"] = cb
    if o.get("scaler") is not None:
        sv = float(o["scaler"])
        kw["gradient_scaler"] = lambda x, g, lb, ub: sv
    if o.get("upd") == "identity":
        kw["update_fun_def"] = lambda x, f0, f0o, g, X, G: (f0, f0o, g, G)
    elif o.get("upd") == "rescale":
        from collections import deque
        st = {"n": 0, "on": False}
        lam = 2.0
        f_, g_ = kw["fun"], kw["jac"]
        kw["fun"] = lambda x: (lam if st["on"] else 1.0) * f_(x)
        kw["jac"] = lambda x: (lam if st["on"] else 1.0) * np.asarray(g_(x), float)

        def upd(x, f0, f0o, g, X, G):
            st["n"] += 1
            if st["n"] == 3 and not st["on"]:
                st["on"] = True
                return lam * f0, lam * f0o, lam * g, deque([lam * gi for gi in G])
            return f0, f0o, g, G
        kw["update_fun_def"] = upd
    if o.get("upd") == "adversarial":
        from collections import deque
        st = {"n": 0}
        at, mask, drop = o.get("adv_at", 3), o.get("adv_mask", 5), o.get("adv_drop", False)

        def upd_adv(x, f0, f0o, g, X, G):
            st["n"] += 1
            if st["n"] == at:
                # arbitrary rewrite of the stored gradients: breaks the curvature of a subset of pairs
                G2 = deque([(-1.0 if (mask >> (i % 8)) & 1 else 1.0) * np.asarray(gi, float) for i, gi in enumerate(G)])
                return (f0 - (1e9 if drop else 0.0)), f0o, g, G2
            return f0, f0o, g, G
        kw["update_fun_def"] = upd_adv
    if o.get("fault") is not None:
        kind, at, en = o["fault"]
        cnt = {"k": 0}
        excs = {"Marker": Marker, "TypeError": TypeError, "ValueError": ValueError, "IndexError": IndexError}
        tgt = {"f": "fun", "g": "jac", "cb": "callback", "upd": "update_fun_def", "sc": "gradient_scaler", "ft": "ftarget", "gt": "gtol"}[kind]
        if kind == "cb" and kw.get(tgt) is None:
            kw[tgt] = lambda xk, s: False
        if kind == "upd" and kw.get(tgt) is None:
            kw[tgt] = lambda x, f0, f0o, g, X, G: (f0, f0o, g, G)
        if kind == "sc" and kw.get(tgt) is None:
            kw[tgt] = lambda x, g, lb, ub: 2.0
        if kind == "ft" and not callable(kw.get(tgt)):
            fv = kw.get(tgt)
            fv = -1e300 if fv is None else fv
            kw[tgt] = lambda: fv
        if kind == "gt" and not callable(kw.get(tgt)):
            gv0 = kw.get(tgt, 1e-5)
            kw[tgt] = lambda: gv0
        base = kw[tgt]

        def faulty(*a):
            cnt["k"] += 1
            if cnt["k"] == at:
                raise excs[en](f"fault-{kind}-{at}")
            return base(*a)
        kw[tgt] = faulty
    if o.get("sabotage") and callable(kw.get("jac")) and kw.get("update_fun_def") is None and kw.get("gradient_scaler") is None:
        # directed scenario (memory reboot with more than one stored point): a first pass finds the first iteration whose update
        # is rejected by the curvature test (the pair count does not grow) and the number of objective calls made by then; in the
        # run that is recorded the objective returns huge values on the next maxls calls, so that exactly that line search fails.
        # The answers depend on the call index, not only on the point: recordings in which a point got two answers are skipped.
        from lbfgsb import minimize_lbfgsb
        probe = dict(calls=0, at=None, prev=0)
        f_plain = kw["fun"]

        def f_count(x):
            probe["calls"] += 1
            return f_plain(x)

        def cb_probe(xk, st_):
            sk_ = np.asarray(st_.hess_inv.sk)
            m_ = 0 if (sk_.shape[0] == 1 and not sk_.any()) else sk_.shape[0]
            if probe["at"] is None and m_ >= 1 and m_ == probe["prev"] and m_ < kw.get("maxcor", 10):
                probe["at"] = probe["calls"]
            probe["prev"] = m_
            return False
        try:
            minimize_lbfgsb(**dict({k_: v_ for k_, v_ in kw.items() if k_ not in ("callback", "fun")}, fun=f_count, callback=cb_probe))
        except Exception:  # noqa
            pass
        if probe["at"] is not None:
            win = (probe["at"], probe["at"] + int(kw.get("maxls", 20)))
            cnt2 = {"k": 0}

            def f_sab(x):
                cnt2["k"] += 1
                v = f_plain(x)
                if win[0] < cnt2["k"] <= win[1]:
                    return float(v) + 1e6 * (1.0 + abs(float(v)))
                return v
            kw["fun"] = f_sab
    return P, kw


def gen_descs(tier, rng, focus=None):
    """Run descriptions. focus biases the options towards what a property rests on:
    'fault' (a raising callable in every run), 'restart', 'scaler', 'upd', 'cb', 'budget' (tiny maxiter/maxfun/maxls)."""
    N = 300 if tier == "quick" else 3000
    for i in range(N):
        fam = str(rng.choice(gen.ALL))
        spec = dict(family=fam, pseed=int(rng.integers(0, 2**31 - 1)), nmax=8)
        cfg = gen.random_config(rng)
        if rng.random() < 0.3 or focus == "budget":
            cfg.update(maxls=int(rng.integers(1, 4)))
        if focus == "budget":
            cfg.update(maxiter=int(rng.integers(0, 6)), maxfun=int(rng.integers(1, 12)))
        if rng.random() < 0.2:
            cfg.update(max_steplength=float(rng.choice([1e8, 2.0])), ftol_linesearch=1e-4, gtol_linesearch=0.5)
        opts = dict(ft=str(rng.choice(["none", "none", "none", "mid", "x0", "callable"])), gt=str(rng.choice(["float", "float", "callable"])),
                    cb=str(rng.choice(["none", "record", "record", "stop2"])))
        if focus == "cb":
            opts["cb"] = str(rng.choice(["record", "record", "stop2"]))
        r = rng.random()
        mixed = focus in (None, "kern", "log")
        if focus == "scaler" or (mixed and r < 0.15):
            opts["scaler"] = float(10 ** rng.uniform(-3, 3))
        elif focus == "upd" or (mixed and r < 0.4):
            opts["upd"] = str(rng.choice(["identity", "rescale", "adversarial", "adversarial"]))
            if opts["upd"] == "adversarial":
                opts.update(adv_at=int(rng.integers(1, 7)), adv_mask=int(rng.integers(1, 255)), adv_drop=bool(rng.random() < 0.3))
                if opts["adv_drop"]:
                    opts["ft"] = "mid"
                cfg.update(maxiter=int(rng.integers(3, 30)), maxfun=int(rng.integers(20, 80)))
        elif focus == "fault" or (focus is None and r < 0.5):
            kind = str(rng.choice(["f", "g", "f", "g", "cb", "upd", "sc", "ft", "gt"]))
            opts["fault"] = [kind, int(rng.integers(1, 12)) if kind in ("f", "g") else int(rng.integers(1, 4)) if kind in ("cb", "upd") else 1,
                             str(rng.choice(["Marker", "TypeError", "ValueError", "IndexError"]))]
            if focus == "fault":
                opts["ft"] = str(rng.choice(["none", "none", "callable"]))
                cfg.update(maxiter=int(rng.integers(3, 30)), maxfun=int(rng.integers(10, 80)))
        if focus == "log" or rng.random() < 0.15:
            opts["iprint"] = int(rng.choice([-1, 0, 1, 50, 99, 100, 101]))
            opts["logger"] = bool(rng.random() < 0.8)
        if focus == "fd" or (focus is None and rng.random() < 0.12):
            opts["fd"] = str(rng.choice(["2-point", "3-point", "None"]))
            opts.pop("upd", None)
            if opts.get("fault") and opts["fault"][0] == "g":
                opts["fault"][0] = "f"
            cfg.update(maxiter=min(cfg["maxiter"], 8))
            spec["nmax"] = 5
        if mixed and fam in gen.NONCONVEX and "upd" not in opts and "scaler" not in opts and "fault" not in opts and rng.random() < 0.5:
            opts["sabotage"] = True
            cfg.update(maxls=int(rng.integers(1, 4)), maxiter=int(rng.integers(8, 25)), maxfun=int(rng.integers(60, 200)), ftol=0.0)
        restart = int(rng.integers(1, 5)) if (rng.random() < 0.25 or focus == "restart") else 0
        d = dict(spec=spec, cfg=cfg, opts=opts, restart=restart, red=int(rng.integers(0, 3)))
        if restart and rng.random() < 0.4:
            d["ck_counters"] = [int(rng.integers(0, 9)), int(rng.integers(0, 9))]   # any counters are a legitimate checkpoint
        if restart and rng.random() < 0.08:
            d["x0_off"] = [float(rng.choice([0.5, -0.25, 1e-9]))]   # x0 differs from checkpoint.x: the package raises ValueError
        yield d


def build_case(desc, name):
    """Record the run described by desc; returns (coq_text or None, info dict)."""
    from lbfgsb import minimize_lbfgsb

    P, kw = make_kw(desc)
    ck = None
    if desc.get("restart"):
        # a checkpoint produced by a plain first leg
        first = dict(x0=P.x0.copy(), fun=P.f, jac=P.g, bounds=P.bounds, maxcor=desc["cfg"]["maxcor"], ftol=0.0, gtol=1e-12,
                     maxiter=desc["restart"], maxfun=1000, maxls=desc["cfg"]["maxls"])
        if not callable(kw.get("jac")):
            first["jac"] = kw.get("jac")          # finite-difference checkpoint: nfev and njev differ
        ck = minimize_lbfgsb(**first)
        if desc.get("ck_counters"):
            ck.nfev, ck.njev = int(ck.nfev + desc["ck_counters"][0]), int(ck.njev + desc["ck_counters"][1])
        kw["x0"] = ck.x.copy()
        kw["checkpoint"] = copy.deepcopy(ck)
        if desc.get("red"):
            kw["maxcor"] = max(1, kw["maxcor"] - desc["red"])
        if desc.get("x0_off"):
            kw["x0"] = kw["x0"] + np.asarray(desc["x0_off"], dtype=float)[: kw["x0"].size].sum() * np.eye(kw["x0"].size)[0]
    C, outcome = record(kw)
    txt = render(name, C, kw, outcome, ckpt=ck)
    info = dict(events=len(C.events), line_searches=len(C.dcs_objs), dcsrch_calls=sum(len(c) for _, c in C.dcs_objs), outcome=outcome[0], message=(outcome[1].message if outcome[0] == "ok" else outcome[1]),
                nit=(outcome[1].nit if outcome[0] == "ok" else None))
    return txt, info


def run(tier, focus=None):
    import zlib
    rng = np.random.default_rng([seed(), 777, zlib.crc32((focus or "").encode())])
    KERN["on"] = (focus == "kern")
    descs = list(gen_descs(tier, rng, focus))
    texts, infos, kept = [], [], []
    skipped = 0
    for i, d in enumerate(descs):
        try:
            t, info = build_case(d, f"K{len(texts) % 25}")
        except Unsupported as e:
            skipped += 1
            continue
        texts.append(t)
        infos.append(info)
        kept.append(d)
    codes, errors = evaluate(texts, "drv_" + (focus or "all"))
    failures = []
    hist = {}
    for d, info, code in zip(kept, infos, codes):
        k = f"{info['outcome']}:{str(info['message'])[:24]}"
        hist[k] = hist.get(k, 0) + 1
        if code != 0 and len(failures) < 3:
            failures.append(Failure("correspondence", f"driver model and minimize_lbfgsb disagree: {describe(code)} on run {d}",
                                    replay=dict(desc=d, code=code, errors=errors[:1]), signature="driver corr"))
    stats = dict(focus=focus or "mixed", cases=len(texts), agree=sum(1 for c in codes if c == 0), skipped=skipped, outcome_distribution=hist,
                 options=dict(restart=sum(1 for d in kept if d.get("restart")), scaler=sum(1 for d in kept if d["opts"].get("scaler") is not None),
                              update_fun=sum(1 for d in kept if d["opts"].get("upd")), fault=sum(1 for d in kept if d["opts"].get("fault")),
                              callback=sum(1 for d in kept if d["opts"].get("cb") != "none")),
                 raised=sum(1 for i_ in infos if i_["outcome"] != "ok"),
                 line_search_routine="DCSRCH model (Model/Dcsrch.v) runs inside the driver model; pow(x,2.0) values from a traced replay",
                 line_searches=sum(i_["line_searches"] for i_ in infos), dcsrch_calls=sum(i_["dcsrch_calls"] for i_ in infos))
    return failures, stats
