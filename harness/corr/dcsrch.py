"""Bit-exact correspondence between the Coq model Dcsrch.v and scipy.optimize._dcsrch.DCSRCH.

The REAL class is driven with synthetic phi / dphi; every `_iterate` call (inputs and outputs) is recorded
as float.hex().  For each history a Coq case evaluates `run_dcsrch` on every prefix by vm_compute and compares
stp' bit for bit (IEEE ==, or both NaN) and the full task.

`(theta / s) ** 2` in dcstep is libm pow(x, 2.0) (not correctly rounded), an oracle [sq] of the model.  Its
values are recorded from the real code by a traced replay: the same `_iterate` / `dcstep` source is executed a
second time on a tracing float (module attribute `np` of scipy.optimize._dcsrch replaced by a shim) and every
output of the traced replay is required to be bit-identical to the native run.  Each case is evaluated twice:
with the recorded pow table ([sq_table]) and with x * x ([sq_mul]).

run(tier, seed=0, coq_dir=...) -> (failures, stats);  quick = 600 histories, thorough = 10000.
"""
import math
import os
import random
import re
import subprocess
import sys
import warnings
from concurrent.futures import ThreadPoolExecutor

import numpy as np
import scipy.optimize._dcsrch as D

HERE = os.path.join(os.path.dirname(os.path.dirname(os.path.dirname(os.path.abspath(__file__)))), "coq")
WORK = os.path.join(os.path.dirname(HERE), ".work")
F64 = np.float64

TASK_CODE = {
    b"FG": 0,
    b"CONVERGENCE": 1,
    b"WARNING: ROUNDING ERRORS PREVENT PROGRESS": 2,
    b"WARNING: XTOL TEST SATISFIED": 3,
    b"WARNING: STP = STPMAX": 4,
    b"WARNING: STP = STPMIN": 5,
    b"ERROR: STP .LT. STPMIN": 10,
    b"ERROR: STP .GT. STPMAX": 11,
    b"ERROR: INITIAL G .GE. ZERO": 12,
    b"ERROR: FTOL .LT. ZERO": 13,
    b"ERROR: GTOL .LT. ZERO": 14,
    b"ERROR: XTOL .LT. ZERO": 15,
    b"ERROR: STPMIN .LT. ZERO": 16,
    b"ERROR: STPMAX .LT. STPMIN": 17,
}
CODE_NAME = {0: "FG", 1: "CONV", 2: "WARN_ROUNDING", 3: "WARN_XTOL", 4: "WARN_STPMAX", 5: "WARN_STPMIN",
             10: "ERR_STP_LT_STPMIN", 11: "ERR_STP_GT_STPMAX", 12: "ERR_INIT_G", 13: "ERR_FTOL", 14: "ERR_GTOL",
             15: "ERR_XTOL", 16: "ERR_STPMIN", 17: "ERR_STPMAX_LT_STPMIN"}


def bits_same(a, b):
    a = float(a)
    b = float(b)
    return (a == b) or (a != a and b != b)


# ---------------------------------------------------------------------------------------------------
# traced replay: records libm pow(x, 2.0) as used by the real source
# ---------------------------------------------------------------------------------------------------
def _val(x):
    return x.v if isinstance(x, TF) else F64(x)


class TF:
    """binary64 value with IEEE (np.float64) arithmetic that records every `** 2`."""
    __slots__ = ("v",)
    __array_ufunc__ = None
    log = None

    def __init__(self, v):
        self.v = F64(v)

    def __add__(s, o): return TF(s.v + _val(o))
    def __radd__(s, o): return TF(_val(o) + s.v)
    def __sub__(s, o): return TF(s.v - _val(o))
    def __rsub__(s, o): return TF(_val(o) - s.v)
    def __mul__(s, o): return TF(s.v * _val(o))
    def __rmul__(s, o): return TF(_val(o) * s.v)
    def __truediv__(s, o): return TF(s.v / _val(o))
    def __rtruediv__(s, o): return TF(_val(o) / s.v)
    def __neg__(s): return TF(-s.v)
    def __abs__(s): return TF(abs(s.v))
    def __lt__(s, o): return bool(s.v < _val(o))
    def __le__(s, o): return bool(s.v <= _val(o))
    def __gt__(s, o): return bool(s.v > _val(o))
    def __ge__(s, o): return bool(s.v >= _val(o))
    def __eq__(s, o): return bool(s.v == _val(o))
    def __ne__(s, o): return bool(s.v != _val(o))
    __hash__ = None

    def __pow__(s, o):
        assert o == 2 and not isinstance(o, TF)
        r = s.v ** 2            # np.float64.__pow__ -> npy_pow -> libm pow, as in the native run
        TF.log.append((float(s.v), float(r)))
        return TF(r)


class _Shim:
    errstate = np.errstate

    @staticmethod
    def sign(x): return TF(np.sign(_val(x)))

    @staticmethod
    def sqrt(x): return TF(np.sqrt(_val(x)))

    @staticmethod
    def clip(x, lo, hi): return TF(np.clip(_val(x), _val(lo), _val(hi)))

    @staticmethod
    def isfinite(x): return np.isfinite(_val(x))


def traced_replay(par, calls):
    """replay the recorded inputs through the real source on tracing floats; returns (pow log, ok)"""
    ftol, gtol, xtol, stpmax = par
    TF.log = []
    saved = D.np
    D.np = _Shim
    ok = True
    try:
        with np.errstate(all="ignore"):
            obj = D.DCSRCH(None, None, TF(ftol), TF(gtol), TF(xtol), TF(0.0), TF(stpmax))
            task = b"START"
            for (stp, f, g, ostp, otask) in calls:
                r = obj._iterate(TF(stp), TF(f), TF(g), task)
                if not bits_same(_val(r[0]), ostp) or r[3] != otask:
                    ok = False
                    break
                task = b"FG"
    finally:
        D.np = saved
    return TF.log, ok


# ---------------------------------------------------------------------------------------------------
# synthetic line functions
# ---------------------------------------------------------------------------------------------------
SPECIALS = [0.0, -0.0, math.inf, -math.inf, math.nan, 1e308, -1e308, 1.7e308, 5e-324, -5e-324, 1e-300, 1.0, -1.0]


def logu(rng, lo, hi):
    return 10.0 ** rng.uniform(lo, hi)


def make_function(rng, fam):
    """returns (phi, dphi) on np.float64, evaluated with IEEE semantics"""
    S = logu(rng, -3, 3)
    if fam == "scaled":
        S = logu(rng, -150, 150) if rng.random() < 0.7 else logu(rng, -300, 300)
    g0 = -logu(rng, -2, 2)
    f0 = rng.uniform(-10, 10) * logu(rng, -2, 2)
    if fam in ("quad", "scaled"):
        c = logu(rng, -3, 3)
        return (lambda a: F64(S) * (F64(f0) + F64(g0) * a + F64(0.5 * c) * a * a),
                lambda a: F64(S) * (F64(g0) + F64(c) * a))
    if fam == "cubic":
        c = rng.uniform(-1, 1) * logu(rng, -2, 2)
        r = rng.uniform(-1, 1) * logu(rng, -3, 2)
        return (lambda a: F64(S) * (F64(f0) + F64(g0) * a + F64(c) * a * a + F64(r) * a * a * a),
                lambda a: F64(S) * (F64(g0) + F64(2 * c) * a + F64(3 * r) * a * a))
    if fam == "osc":
        A = logu(rng, -2, 1.5)
        B = logu(rng, -2, 1.5)
        w = logu(rng, -1, 2.5)
        w2 = logu(rng, -1, 2.5)
        ph = rng.uniform(0, 6.3)
        # slope at 0 forced negative
        lin = g0 - A * w * math.cos(ph)
        return (lambda a: F64(S) * (F64(f0) + F64(lin) * a + F64(A) * np.sin(F64(w) * a + F64(ph)) + F64(B) * np.cos(F64(w2) * a)),
                lambda a: F64(S) * (F64(lin) + F64(A * w) * np.cos(F64(w) * a + F64(ph)) - F64(B * w2) * np.sin(F64(w2) * a)))
    if fam == "mono":      # decreasing everywhere: minimum beyond stpmax
        k = rng.choice([0, 1, 2])
        if k == 0:
            return (lambda a: F64(S) * (F64(f0) + F64(g0) * a), lambda a: F64(S) * F64(g0) + F64(0.0) * a)
        if k == 1:
            return (lambda a: F64(S) * (F64(f0) - np.log1p(a)), lambda a: -F64(S) / (F64(1.0) + a))
        return (lambda a: F64(S) * np.exp(-a / F64(1e3)), lambda a: -F64(S / 1e3) * np.exp(-a / F64(1e3)))
    if fam == "steep":     # minimiser extremely close to 0
        K = logu(rng, 3, 12)
        return (lambda a: F64(S) * (F64(f0) + F64(g0) * a + F64(K) * a * a),
                lambda a: F64(S) * (F64(g0) + F64(2 * K) * a))
    if fam == "kink":      # non-smooth
        t = logu(rng, -6, 0)
        k = logu(rng, -1, 3)
        return (lambda a: F64(S) * (F64(f0) + np.maximum(F64(g0) * a, F64(g0 * t) + F64(k) * (a - F64(t)))),
                lambda a: F64(S) * (F64(g0) if a < t else F64(k)))
    if fam == "noisy":     # rounding-level or gross noise in f and g
        c = logu(rng, -2, 2)
        eps = logu(rng, -17, -1)
        nr = random.Random(rng.random())
        return (lambda a: F64(S) * (F64(f0) + F64(g0) * a + F64(0.5 * c) * a * a + F64(eps * nr.uniform(-1, 1))),
                lambda a: F64(S) * (F64(g0) + F64(c) * a + F64(eps * nr.uniform(-1, 1))))
    if fam == "flat":
        d = logu(rng, -320, -290) if rng.random() < 0.5 else logu(rng, -30, -14)
        return (lambda a: F64(f0) + F64(-d) * a + F64(d) * a * a, lambda a: F64(-d) + F64(2 * d) * a)
    if fam == "up":        # every trial is worse than the start although the slope is negative
        k = logu(rng, -3, 3)
        return (lambda a: F64(f0) + (F64(k) * a if a > 0 else F64(0.0)), lambda a: F64(g0))
    if fam == "huge":      # near the overflow threshold: inf / inf inside dcstep
        H = rng.choice([1e307, 1e308, 1.7e308, 1e300])
        sg = rng.choice([-1.0, 1.0])
        w = logu(rng, -1, 2)
        return (lambda a: F64(sg * H) * np.cos(F64(w) * a) if a > 0 else F64(-sg * H * rng.choice([1.0, 0.5, 1e-5])),
                lambda a: F64(g0) * F64(rng.choice([1.0, 1e300, 1e-300])) * np.cos(F64(w) * a))
    raise ValueError(fam)


FAMILIES = ["quad", "cubic", "osc", "scaled", "mono", "steep", "kink", "noisy", "flat", "up", "huge", "adv", "errs"]
WEIGHTS = [14, 12, 16, 8, 7, 6, 6, 8, 3, 5, 4, 8, 3]


def pick_params(rng):
    ftol = rng.choice([1e-3, 1e-4])
    gtol = rng.choice([0.9, 0.5, 0.1])
    xtol = rng.choice([0.1, 1e-8])
    k = rng.randrange(4)
    stpmax = [1.0, 2.0, 1e8, logu(rng, -6, 10)][k]
    return ftol, gtol, xtol, stpmax


def first_step(rng, stpmax):
    """client rule: 1.0, or min(1 / ||d||, stpmax) on the first outer iteration of an unboxed problem"""
    if rng.random() < 0.5:
        return 1.0
    nd = logu(rng, -4, 4)
    return float(min(F64(1.0) / np.sqrt(F64(nd * nd)), stpmax))


def conv(x, mode):
    """type of the values handed to the class: np.float64 (client) or Python float"""
    return float(x) if mode == "py" else F64(x)


# histories (parameters and inputs, as hex) on which libm's pow(x, 2.0) differs from x * x AND the difference
# reaches the returned step (found by search_pow.py on glibc 2.36); replayed through the real class like the others
FIXED = [
(('0x1.a36e2eb1c432dp-14', '0x1.999999999999ap-4', '0x1.5798ee2308c3ap-27', '0x1.7d78400000000p+26'), [('0x1.866985d5f092ep+5', '-0x1.de4d31879bd65p-5', '-0x1.07c9725d48eeep+3'), ('0x1.866985d5f092ep+5', '-0x1.2fe13ef49fc72p+8', '-0x1.0d4f62a8e1c21p+2')]),
(('0x1.0624dd2f1a9fcp-10', '0x1.0000000000000p-1', '0x1.5798ee2308c3ap-27', '0x1.0000000000000p+1'), [('0x1.fd1c8928fa3e9p-7', '0x1.a35ed492f4ba9p-14', '-0x1.6cb6e2457643ap-11'), ('0x1.fd1c8928fa3e9p-7', '0x1.4547bd6f820eap-12', '0x1.c6c6223bceb67p-6')]),
(('0x1.0624dd2f1a9fcp-10', '0x1.999999999999ap-4', '0x1.5798ee2308c3ap-27', '0x1.0000000000000p+0'), [('0x1.0000000000000p+0', '-0x1.c61c01e7e825dp+10', '-0x1.b37dfa9afb45fp-3'), ('0x1.0000000000000p+0', '-0x1.b11a3540d081ap+10', '0x1.5089a9f02101dp+7')]),
(('0x1.a36e2eb1c432dp-14', '0x1.0000000000000p-1', '0x1.999999999999ap-4', '0x1.7d78400000000p+26'), [('0x1.4603e6cf9547ap+6', '-0x1.f054aa7d4d676p-9', '-0x1.2fb3c0ce928b7p-5'), ('0x1.4603e6cf9547ap+6', '0x1.4236837f958ecp+5', '0x1.06875d4ad3f14p+0')]),
(('0x1.0624dd2f1a9fcp-10', '0x1.0000000000000p-1', '0x1.5798ee2308c3ap-27', '0x1.0000000000000p+0'), [('0x1.0000000000000p+0', '0x1.eea75b99bed5bp-399', '-0x1.013e9f2631e6fp-411'), ('0x1.0000000000000p+0', '0x1.f36ea0b59307fp-399', '0x1.33d3c43358f35p-404')]),
(('0x1.0624dd2f1a9fcp-10', '0x1.0000000000000p-1', '0x1.999999999999ap-4', '0x1.9868bb7117b7bp+7'), [('0x1.0000000000000p+0', '0x1.1e292b3f9162dp-9', '-0x1.7754bdbfae295p-11'), ('0x1.0000000000000p+0', '0x1.a97bc8c89f20bp-10', '-0x1.a80af234c0d51p-12')]),
(('0x1.0624dd2f1a9fcp-10', '0x1.ccccccccccccdp-1', '0x1.5798ee2308c3ap-27', '0x1.7d78400000000p+26'), [('0x1.0000000000000p+0', '-0x1.367a89906f2d9p+9', '-0x1.74d323bab256ep+5'), ('0x1.0000000000000p+0', '0x1.b5ed1c829db82p+6', '0x1.72ba931e0bd1bp+9'), ('0x1.f4843cd71e47ap-7', '-0x1.365347be6c837p+9', '0x1.72ba931e0bd1bp+9')]),
(('0x1.0624dd2f1a9fcp-10', '0x1.0000000000000p-1', '0x1.999999999999ap-4', '0x1.7d78400000000p+26'), [('0x1.0000000000000p+0', '0x1.70a3a709da45cp+14', '-0x1.4fcf87e98ba3fp+12'), ('0x1.0000000000000p+0', '0x1.721f7438ed931p+14', '0x1.059de54cf282ap+7'), ('0x1.4da5cb585a1b1p-2', '0x1.70beb4573fdebp+14', '0x1.059de54cf282ap+7')]),
]


def fixed_history(k, cov):
    par = tuple(float.fromhex(x) for x in FIXED[k][0])
    obj = D.DCSRCH(None, None, par[0], par[1], par[2], 0.0, par[3])
    task = b"START"
    calls = []
    for t in FIXED[k][1]:
        stp, f, g = (F64(float.fromhex(x)) for x in t)
        with np.errstate(all="ignore"):
            o = obj._iterate(stp, f, g, task)
        calls.append((float(stp), float(f), float(g), float(o[0]), o[3]))
        cov.hit(("task", TASK_CODE[o[3]]))
        task = b"FG"
    return dict(par=par, calls=calls, fam="fixed_pow", mode="np", note="")


class CaseCount:
    def __init__(self):
        self.c = {}

    def hit(self, k):
        self.c[k] = self.c.get(k, 0) + 1


def gen_history(rng, cov):
    """drive the real class; returns dict(par, calls=[(stp,f,g,ostp,otask)], fam, mode, note)"""
    fam = rng.choices(FAMILIES, WEIGHTS)[0]
    mode = "py" if rng.random() < 0.15 else "np"
    ftol, gtol, xtol, stpmax = pick_params(rng)
    note = ""
    if fam == "errs":
        w = rng.randrange(8)
        if w == 0: ftol = -ftol
        if w == 1: gtol = -gtol
        if w == 2: xtol = -xtol
        if w == 3: stpmax = -stpmax
        if w == 4: stpmax = math.nan
        if w == 5: ftol, gtol = -ftol, -gtol
    par = (ftol, gtol, xtol, stpmax)
    obj = D.DCSRCH(None, None, ftol, gtol, xtol, 0.0, stpmax)
    calls = []
    maxit = rng.choice([30, 30, 30, 12, 45])
    extra = rng.choice([0, 0, 1, 2])

    if fam == "adv":
        pool = lambda: rng.choice(SPECIALS) if rng.random() < 0.25 else rng.uniform(-1, 1) * logu(rng, -8, 8)
        stp = first_step(rng, stpmax) if rng.random() < 0.8 else pool()
        f, g = pool(), (-abs(pool()) if rng.random() < 0.9 else pool())
        phi = dphi = None
        chained = rng.random() < 0.6
    else:
        if fam == "errs":
            phi, dphi = make_function(rng, "quad")
        else:
            phi, dphi = make_function(rng, fam)
        stp = first_step(rng, stpmax)
        if fam == "errs" and rng.random() < 0.4:
            stp = rng.choice([-1.0, 2 * abs(stpmax) + 1, math.nan, 0.0])
        with np.errstate(all="ignore"):
            f, g = phi(F64(0.0)), dphi(F64(0.0))
        if fam == "errs" and rng.random() < 0.3:
            g = -g
        chained = True

    task = b"START"
    done = 0
    for it in range(maxit + extra):
        a_stp, a_f, a_g = conv(stp, mode), conv(f, mode), conv(g, mode)
        pre = (obj.fx, obj.finit, obj.gtest) if task != b"START" else None
        try:
            with np.errstate(all="ignore"):
                o = obj._iterate(a_stp, a_f, a_g, task)
        except (ZeroDivisionError, OverflowError) as e:
            note = type(e).__name__
            break
        otask = o[3]
        ostp = float(o[0])
        if task != b"START" and otask == b"FG":
            cov.hit(("state", "stage%d_%s" % (obj.stage, "bracketed" if obj.brackt else "open")))
            with np.errstate(all="ignore"):
                if obj.stage == 1 and pre is not None and a_f <= pre[0] and a_f > pre[1] + a_stp * pre[2]:
                    cov.hit(("state", "modified_function_step"))
        calls.append((float(a_stp), float(a_f), float(a_g), ostp, otask))
        cov.hit(("task", TASK_CODE[otask]))
        if otask[:5] == b"ERROR":
            break
        if otask[:2] != b"FG":
            done += 1
            if done > extra:
                break
        task = b"FG"
        # next inputs
        if fam == "adv":
            stp = ostp if (chained or rng.random() < 0.5) else pool()
            f, g = pool(), pool()
        else:
            stp = ostp
            with np.errstate(all="ignore"):
                f, g = phi(F64(stp)), dphi(F64(stp))
            if done and rng.random() < 0.5:          # calls after a terminal answer: perturbed values
                f = f + F64(rng.uniform(-1, 1))
    return dict(par=par, calls=calls, fam=fam, mode=mode, note=note)


def install_dcstep_recorder(cov):
    orig = D.dcstep

    def rec(stx, fx, dx, sty, fy, dy, stp, fp, dp, brackt, stpmin, stpmax):
        with np.errstate(all="ignore"):
            v = lambda x: _val(x)
            sgnd = np.sign(v(dp)) * np.sign(v(dx))
            if v(fp) > v(fx): k = "case1"
            elif sgnd < 0: k = "case2"
            elif abs(v(dp)) < abs(v(dx)): k = "case3_brackt" if brackt else "case3_open"
            else: k = "case4_brackt" if brackt else "case4_open"
        cov.hit(("dcstep", k))
        return orig(stx, fx, dx, sty, fy, dy, stp, fp, dp, brackt, stpmin, stpmax)
    D.dcstep = rec
    return orig


# ---------------------------------------------------------------------------------------------------
# Coq case files
# ---------------------------------------------------------------------------------------------------
def lit(x):
    x = float(x)
    if x != x:
        return "nan"
    if x == math.inf:
        return "infinity"
    if x == -math.inf:
        return "neg_infinity"
    h = x.hex()
    return "(%s)" % h if h.startswith("-") else h


def coq_case(i, hist, table):
    par = hist["par"]
    calls = hist["calls"]
    h = "; ".join("(%s, %s, %s)" % (lit(s), lit(f), lit(g)) for (s, f, g, _, _) in calls)
    e = "; ".join("(%s, %d%%nat)" % (lit(os_), TASK_CODE[ot]) for (_, _, _, os_, ot) in calls)
    t = "; ".join("(%s, %s)" % (lit(a), lit(b)) for (a, b) in table)
    q = "(%s, %s, %s, %s)" % tuple(lit(x) for x in par)
    return ("Definition h%d : list triple := [%s].\nDefinition e%d : list (float * nat) := [%s].\n"
            "Definition t%d : list (float * float) := [%s].\n"
            "Eval vm_compute in (%d%%nat, check_history (sq_table t%d) %s h%d e%d, check_history sq_mul %s h%d e%d).\n"
            % (i, h, i, e, i, t, i, i, q, i, i, q, i, i))


HEADER = ("From Coq Require Import List Floats.PrimFloat.\nFrom LBFGSB Require Import Model.Dcsrch.\n"
          "Import ListNotations.\nLocal Open Scope float_scope.\n")
LINE = re.compile(r"=\s*\(\s*(\d+)(?:%nat)?\s*,\s*(\d+)(?:%nat)?\s*,\s*(\d+)(?:%nat)?\s*\)")


def run_coq(path, coq_dir):
    p = subprocess.run(["timeout", "1500", "coqc", "-Q", coq_dir, "LBFGSB", path], capture_output=True, text=True)
    out = re.sub(r"\s+", " ", p.stdout)
    return p.returncode, [tuple(map(int, m.groups())) for m in LINE.finditer(out)], p.stderr


def ensure_model(coq_dir):
    vo = os.path.join(coq_dir, "Model", "Dcsrch.vo")
    v = os.path.join(coq_dir, "Model", "Dcsrch.v")
    if not os.path.exists(vo) or os.path.getmtime(vo) < os.path.getmtime(v):
        subprocess.run(["timeout", "600", "coqc", "-Q", coq_dir, "LBFGSB", v], check=True)


def _cleanup_cases(case_dir, failures):
    """case files are kept only when something disagreed (they are the replay)"""
    import shutil
    if not failures:
        shutil.rmtree(case_dir, ignore_errors=True)


def run(tier="quick", seed=0, coq_dir=HERE, case_dir=None, per_file=300, jobs=None):
    n = {"quick": 600, "thorough": 10000}[tier] if isinstance(tier, str) else int(tier)
    rng = random.Random(seed)
    cov = CaseCount()
    warnings.simplefilter("ignore")
    ensure_model(coq_dir)
    case_dir = case_dir or os.path.join(WORK, "dcsrch_cases_%s_%d" % (tier, seed))
    os.makedirs(case_dir, exist_ok=True)
    for fn in os.listdir(case_dir):
        os.remove(os.path.join(case_dir, fn))

    orig_dcstep = install_dcstep_recorder(cov)
    hists, tables, failures = [], [], []
    stats = dict(histories=0, calls=0, pow_calls=0, pow_misrounded=0, histories_with_misrounded_pow=0,
                 py_mode_exceptions={}, trace_mismatch=0, families={}, modes={})
    try:
        for k in range(len(FIXED)):
            hists.append(fixed_history(k, cov))
        while len(hists) < n:
            hst = gen_history(rng, cov)
            if hst["note"]:
                stats["py_mode_exceptions"][hst["note"]] = stats["py_mode_exceptions"].get(hst["note"], 0) + 1
            if not hst["calls"]:
                continue
            hists.append(hst)
    finally:
        D.dcstep = orig_dcstep
    for i, hst in enumerate(hists):
        log, ok = traced_replay(hst["par"], hst["calls"])
        if not ok:
            stats["trace_mismatch"] += 1
            failures.append(dict(history=i, kind="traced replay differs from native run", **hst))
        tab, seen = [], set()
        mis = 0
        for (a, b) in log:
            k = (a.hex() if a == a else "nan")
            if a == a and b != a * a and not (b != b):
                mis += 1
            if k not in seen:
                seen.add(k)
                tab.append((a, b))
        tables.append(tab)
        stats["pow_calls"] += len(log)
        stats["pow_misrounded"] += mis
        stats["histories_with_misrounded_pow"] += 1 if mis else 0
        hst["misrounded"] = mis
        stats["calls"] += len(hst["calls"])
        stats["families"][hst["fam"]] = stats["families"].get(hst["fam"], 0) + 1
        stats["modes"][hst["mode"]] = stats["modes"].get(hst["mode"], 0) + 1
    stats["histories"] = len(hists)

    files = []
    for k in range(0, len(hists), per_file):
        path = os.path.join(case_dir, "dcsrch_cases_%03d.v" % (k // per_file))
        with open(path, "w") as fh:
            fh.write(HEADER)
            for i in range(k, min(k + per_file, len(hists))):
                fh.write(coq_case(i, hists[i], tables[i]))
        files.append(path)
    jobs = jobs or min(16, os.cpu_count() or 4)
    with ThreadPoolExecutor(jobs) as ex:
        results = list(ex.map(lambda p: run_coq(p, coq_dir), files))
    seen_ids = set()
    dis_tab = dis_mul = 0
    mul_unexplained = 0
    for path, (rc, lines, err) in zip(files, results):
        if rc != 0:
            failures.append(dict(kind="coqc failed", file=path, stderr=err[-2000:]))
        for (i, dt, dm) in lines:
            seen_ids.add(i)
            if dt:
                dis_tab += 1
                failures.append(dict(history=i, kind="model (pow table) differs from DCSRCH", positions=dt, **hists[i]))
            if dm:
                dis_mul += 1
                if not hists[i]["misrounded"]:
                    mul_unexplained += 1
                    failures.append(dict(history=i, kind="model (x*x) differs from DCSRCH without a misrounded pow",
                                         positions=dm, **hists[i]))
    missing = [i for i in range(len(hists)) if i not in seen_ids]
    if missing:
        failures.append(dict(kind="no Coq output line", histories=missing[:20], count=len(missing)))
    stats["coq_files"] = len(files)
    stats["output_lines"] = len(seen_ids)
    stats["disagreements"] = dis_tab
    stats["disagreements_sq_mul_instance"] = dis_mul
    stats["sq_mul_disagreements_without_misrounded_pow"] = mul_unexplained
    stats["task_counts"] = {CODE_NAME[k[1]]: v for k, v in sorted(cov.c.items(), key=str) if k[0] == "task"}
    kinds = {"FG": 0, "CONV": 0, "WARN": 0, "ERROR": 0}
    for k, v in stats["task_counts"].items():
        kinds["ERROR" if k.startswith("ERR") else "WARN" if k.startswith("WARN") else k] += v
    stats["task_kind_counts"] = kinds
    stats["state_coverage"] = {k[1]: v for k, v in sorted(cov.c.items(), key=str) if k[0] == "state"}
    stats["dcstep_cases"] = {k[1]: v for k, v in sorted(cov.c.items(), key=str) if k[0] == "dcstep"}
    nan_steps = sum(1 for h in hists for c in h["calls"] if c[3] != c[3] and c[4] == b"FG")
    nan_steps_clean = sum(1 for h in hists if h["fam"] != "adv"
                          for c in h["calls"] if c[3] != c[3] and c[4] == b"FG" and c[0] == c[0] and
                          math.isfinite(c[1]) and math.isfinite(c[2]))
    out_of_range = sum(1 for h in hists for c in h["calls"]
                       if c[4][:5] != b"ERROR" and c[3] == c[3] and not (0.0 <= c[3] <= h["par"][3])
                       and c[4] == b"FG")
    stats["FG_steps_NaN"] = nan_steps
    stats["FG_steps_NaN_with_finite_inputs"] = nan_steps_clean
    stats["FG_steps_nonNaN_outside_range"] = out_of_range
    _cleanup_cases(case_dir, failures)
    return failures, stats


if __name__ == "__main__":
    tier = sys.argv[1] if len(sys.argv) > 1 else "quick"
    seed = int(sys.argv[2]) if len(sys.argv) > 2 else 0
    fails, st = run(tier, seed)
    import json
    print(json.dumps(st, indent=1, default=str))
    print("FAILURES:", len(fails))
    for f in fails[:10]:
        print({k: (v if k != "calls" else [(float(a).hex(), float(b).hex(), float(c).hex(), float(d).hex(), e) for a, b, c, d, e in v]) for k, v in f.items()})
