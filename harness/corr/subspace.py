"""C09 correspondence: the exact rational model (Subspace.v) against the real
lbfgsb.subspacemin.get_freev / subspace_minimization.

    run(tier, seed=0, coq_dir=...) -> (failures: list[dict], stats: dict)

Every case is produced by the REAL pipeline of main.py:
    X, G deques -> lbfgsb.bfgsmats.update_lbfgs_matrices  (0..4 correction pairs, positive curvature)
    -> lbfgsb.cauchy.get_cauchy_point -> lbfgsb.subspacemin.get_freev -> subspace_minimization.
The float vectors x_cp, c, W, theta coming out of the real routines are converted EXACTLY to rationals and are the
model's input; the middle matrix M is the exact inverse (fractions) of [[-D, L^T], [L, theta S^T S]] and is verified
inside Coq (build_Minv from S, Y, theta; Minv*M == I == M*Minv), not trusted.

Compared: free set (equal), hit coordinate (equal; skipped when the model's branching margin is tiny),
alpha* and x_bar (|diff| <= 1e-9 (1+|v|)).  The line printed by Coq also carries the TEST `H d_hat == - r_hat`
evaluated exactly on the model's own output, and the status of the solver/certificate.

check_against_oracle(case): float oracle (dense reduced Hessian, numpy solve), model value before/after,
descent of x_bar - x; used as failing-input search for n <= 10.
"""
import ast
import itertools
import os
import re
import shutil
import subprocess
import tempfile
import time
from collections import deque
from concurrent.futures import ThreadPoolExecutor
from fractions import Fraction
from math import gcd

import numpy as np

HERE = os.path.join(os.path.dirname(os.path.dirname(os.path.dirname(os.path.abspath(__file__)))), "coq")
MODEL_MODULE = os.environ.get("C09_MODEL_MODULE", "Model.Subspace")  # e.g. "Model.Subspace" once integrated
CASES_PER_FILE = 150
TOL = 1e-9
MARGIN = 1e-9          # relative margin under which a branch of the model is 'ambiguous under rounding'
HINT_FROM_M = 3        # memories with at least this many pairs: the small system is solved here and only CHECKED in Coq
COND_MAX = 1e6         # beyond this condition number of the small system a 1e-9 comparison is meaningless


# ----------------------------------------------------------------------------------------------
# exact helpers
# ----------------------------------------------------------------------------------------------
def F(v):
    return Fraction(float(v))          # exact: every finite double is a rational


def frac_inverse(Mx):
    """Exact inverse (fractions) by Gauss-Jordan; None when singular."""
    k = len(Mx)
    a = [list(row) + [Fraction(int(i == j)) for j in range(k)] for i, row in enumerate(Mx)]
    for col in range(k):
        piv = next((r for r in range(col, k) if a[r][col] != 0), None)
        if piv is None:
            return None
        a[col], a[piv] = a[piv], a[col]
        p = a[col][col]
        a[col] = [v / p for v in a[col]]
        for r in range(k):
            if r != col and a[r][col] != 0:
                f = a[r][col]
                a[r] = [v - f * w for v, w in zip(a[r], a[col])]
    return [row[k:] for row in a]


def exact_Minv(theta, S, Y):
    """[[-D, L^T], [L, theta S^T S]] from exact S, Y (n x m lists of Fractions): mirrors bfgsmats.py."""
    n, m = len(S), len(S[0])
    STY = [[sum(S[r][i] * Y[r][j] for r in range(n)) for j in range(m)] for i in range(m)]
    STS = [[sum(S[r][i] * S[r][j] for r in range(n)) for j in range(m)] for i in range(m)]
    top = [[(-STY[i][i] if i == j else Fraction(0)) for j in range(m)] + [(STY[j][i] if j > i else Fraction(0)) for j in range(m)] for i in range(m)]
    bot = [[(STY[i][j] if i > j else Fraction(0)) for j in range(m)] + [theta * STS[i][j] for j in range(m)] for i in range(m)]
    return top + bot


def frac_solve(Nx, rhs):
    k = len(Nx)
    a = [list(row) + [b] for row, b in zip(Nx, rhs)]
    for col in range(k):
        piv = next((r for r in range(col, k) if a[r][col] != 0), None)
        if piv is None:
            return None
        a[col], a[piv] = a[piv], a[col]
        p = a[col][col]
        a[col] = [v / p for v in a[col]]
        for r in range(k):
            if r != col and a[r][col] != 0:
                f = a[r][col]
                a[r] = [v - f * w for v, w in zip(a[r], a[col])]
    return [row[k] for row in a]


def exact_small_solution(ex, free):
    """v with (I - 1/theta M A A^T) v = M A r_hat, in fractions: a HINT for the model, which accepts it only
    after checking the certificate exactly (large memories: Gaussian elimination inside vm_compute is slow)."""
    th, M, W = ex["theta"], ex["M"], ex["W"]
    k = len(M)
    n = len(ex["x"])
    Mc = [sum(M[i][j] * ex["c"][j] for j in range(k)) for i in range(k)]
    r = [ex["g"][i] + th * (ex["xc"][i] - ex["x"][i]) - sum(W[i][j] * Mc[j] for j in range(k)) for i in range(n)]
    rhat = [r[i] for i in free]
    ZtW = [W[i] for i in free]
    v0 = [sum(ZtW[a][j] * rhat[a] for a in range(len(free))) for j in range(k)]
    rhs = [sum(M[i][j] * v0[j] for j in range(k)) for i in range(k)]
    AAt = [[sum(ZtW[a][i] * ZtW[a][j] for a in range(len(free))) for j in range(k)] for i in range(k)]
    N = [[Fraction(int(i == j)) - sum(M[i][l] * AAt[l][j] for l in range(k)) / th for j in range(k)] for i in range(k)]
    return frac_solve(N, rhs)


# ----------------------------------------------------------------------------------------------
# Coq text
# ----------------------------------------------------------------------------------------------
def q(v):
    v = Fraction(v)
    return "(%d # %d)" % (v.numerator, v.denominator)


def common_den(vals):
    d = 1
    for v in vals:
        d = d * v.denominator // gcd(d, v.denominator)
    return d


def qlist(vs, den=None):
    """all entries written over one common denominator (unreduced): the model's sums then keep that denominator
    instead of multiplying denominators (speed of vm_compute only; the value is the same rational)"""
    vs = [Fraction(v) for v in vs]
    if den is None:
        den = common_den(vs)
    return "[" + "; ".join("(%d # %d)" % (v.numerator * (den // v.denominator), den) for v in vs) + "]"


def qmat(rows):
    rows = [[Fraction(v) for v in r] for r in rows]
    den = common_den([v for r in rows for v in r])
    return "[" + "; ".join(qlist(r, den) for r in rows) + "]"


def blist(bs):
    return "[" + "; ".join("None" if b is None else "Some " + q(b) for b in bs) + "]"


def coq_case(ex):
    inp = "(mkInput %s %s %s %s %s %s %s %s %s)" % (
        qlist(ex["x"]), qlist(ex["xc"]), qlist(ex["g"]), blist(ex["lb"]), blist(ex["ub"]), q(ex["theta"]),
        qmat(ex["W"]), qmat(ex["M"]), qlist(ex["c"]))
    hint = "None" if ex.get("hint") is None else "(Some %s)" % qlist(ex["hint"])
    return "Eval vm_compute in (report %s %s %d %s %s)." % (hint, inp, ex["m"], qmat(ex["S"]), qmat(ex["Y"]))


HEADER = """From Coq Require Import List QArith.
From LBFGSB Require Import %s.
Import ListNotations.
Open Scope Q_scope.
Set Printing Depth 1000000.
Set Printing Width 1000000.
"""


def parse_value(s):
    s = re.sub(r"%(Z|positive|nat|Q)", "", s)
    s = s.replace(";", ",").replace("true", "True").replace("false", "False")
    # Some X -> SOME(X) with X a parenthesised group or a number; then SOME(..) -> [..]
    out = []
    i = 0
    while i < len(s):
        if s.startswith("Some", i):
            j = i + 4
            while s[j] == " ":
                j += 1
            if s[j] == "(":
                depth, k = 0, j
                while True:
                    if s[k] == "(":
                        depth += 1
                    elif s[k] == ")":
                        depth -= 1
                        if depth == 0:
                            break
                    k += 1
                out.append("[" + s[j:k + 1] + "]")
                i = k + 1
            else:
                k = j
                while k < len(s) and s[k].isdigit():
                    k += 1
                out.append("[" + s[j:k] + "]")
                i = k
        else:
            out.append(s[i])
            i += 1
    return ast.literal_eval("".join(out))


def unlimbs(ls):
    return sum(int(l) << (60 * i) for i, l in enumerate(ls))


def frac(p):
    """(negative, limbs of |num|, limbs of den) as printed by Subspace.qpair -> Fraction"""
    neg, nl, dl = p
    n = unlimbs(nl)
    return Fraction(-n if neg else n, unlimbs(dl))


def run_coq_files(bodies, coq_dir, jobs=8, timeout=1500):
    """Compile the case files in parallel; returns list of (ok, [values], raw) per file."""
    tmp = tempfile.mkdtemp(prefix="c09cases_", dir=os.path.join(os.path.dirname(HERE), ".work"))
    paths = []
    for k, body in enumerate(bodies):
        pth = os.path.join(tmp, "C09_cases_%d.v" % k)
        with open(pth, "w") as fh:
            fh.write(body)
        paths.append(pth)

    def one(pth):
        cmd = "ulimit -s unlimited 2>/dev/null; exec timeout %d coqc -Q %s LBFGSB -w -notation-overridden %s" % (timeout, coq_dir, pth)
        p = subprocess.run(["bash", "-c", cmd], cwd=tmp, stdout=subprocess.PIPE, stderr=subprocess.STDOUT, text=True)
        out = p.stdout
        vals = [" ".join(m.group(1).split()) for m in re.finditer(r"^\s*= (.*?)\n\s*: ", out, re.M | re.S)]
        return p.returncode == 0, vals, out

    with ThreadPoolExecutor(max_workers=jobs) as ex:
        res = list(ex.map(one, paths))
    keep = os.environ.get("C09_KEEP_CASES")
    if keep:
        os.makedirs(keep, exist_ok=True)
        for pth in paths:
            shutil.copy(pth, keep)
    shutil.rmtree(tmp, ignore_errors=True)
    return res


# ----------------------------------------------------------------------------------------------
# the real code, with recorders (module attributes only; the repository is not modified)
# ----------------------------------------------------------------------------------------------
class _NPProxy:
    """stands for the name `np` inside lbfgsb.subspacemin: records the argument/result of np.nanmin"""

    def __init__(self, rec):
        self._rec = rec

    def __getattr__(self, name):
        return getattr(np, name)

    def nanmin(self, a, *args, **kw):
        r = np.nanmin(a, *args, **kw)
        # the source passes the scalar 1.0 when dHat has no non-zero component
        self._rec["ratios"] = np.array(a, dtype=float, copy=True).ravel() if np.ndim(a) > 0 else np.zeros(0)
        self._rec["nanmin"] = float(r)
        return r


def build_mats(Xs, Gs, maxcor):
    """As main.py does: first point stored, every further point through update_lbfgs_matrices."""
    from lbfgsb.bfgsmats import LBFGSB_MATRICES, update_lbfgs_matrices

    n = len(Xs[0])
    mats = LBFGSB_MATRICES(n)
    X, G = deque(), deque()
    X.append(np.array(Xs[0], dtype=float))
    G.append(np.array(Gs[0], dtype=float))
    for xk, gk in zip(Xs[1:], Gs[1:]):
        mats = update_lbfgs_matrices(np.array(xk, dtype=float).copy(), np.array(gk, dtype=float), X, G, maxcor, mats, False, 2.2e-16)
    return mats, X, G


def run_real(case):
    """Runs the real pipeline on a case; returns a dict with the float results and the recorded alpha*/ratios,
    or None when the matrices cannot be built (Cholesky failure etc.)."""
    import lbfgsb.subspacemin as SM
    from lbfgsb.cauchy import get_cauchy_point

    try:
        with np.errstate(all="ignore"):
            mats, X, G = build_mats(case["X"], case["G"], case["maxcor"])
    except Exception as e:  # numpy.linalg.LinAlgError: not positive definite
        return dict(error="mats: %s" % type(e).__name__)
    x = np.array(X[-1], dtype=float)
    g = np.array(G[-1], dtype=float)
    lb = np.array(case["lb"], dtype=float)
    ub = np.array(case["ub"], dtype=float)
    try:
        with np.errstate(all="ignore"):
            x_cp, c = get_cauchy_point(x, g, lb, ub, mats, 1, -1, None)
    except Exception as e:  # the Cauchy routine is C08's subject: such inputs are not usable here
        return dict(error="cauchy: %s: %s" % (type(e).__name__, e))
    if not (np.all(np.isfinite(x_cp)) and np.all(np.isfinite(c))):
        return dict(error="cauchy: non-finite x_cp or c")
    x_cp = np.array(x_cp, dtype=float)
    c = np.array(c, dtype=float)
    free_vars, Z, A = SM.get_freev(x_cp, lb, ub, 1)
    rec = {}
    mins = []

    def rec_min(*a, **kw):
        r = min(*a, **kw)
        mins.append(float(r))
        return r

    SM.np = _NPProxy(rec)
    SM.min = rec_min
    try:
        with np.errstate(all="ignore"):
            xbar = SM.subspace_minimization(x, x_cp.copy(), free_vars, Z, A, c.copy(), g, lb, ub, mats)
    except Exception as e:
        return dict(error="subspace_minimization: %s: %s" % (type(e).__name__, e), mats=mats, x=x, g=g, lb=lb, ub=ub, x_cp=x_cp, c=c, free=list(map(int, free_vars)))
    finally:
        SM.np = np
        del SM.min
    alpha = mins[-1] if mins else rec.get("nanmin", 1.0)
    return dict(mats=mats, x=x, g=g, lb=lb, ub=ub, x_cp=x_cp, c=c, free=[int(i) for i in free_vars], xbar=np.array(xbar, dtype=float),
                alpha=float(alpha), ratios=rec.get("ratios"), alpha_recorded=bool(mins), nanmin=rec.get("nanmin"))


def exact_inputs(real):
    """The model's input: exact rationals of the floats the real routine receives."""
    mats = real["mats"]
    n = len(real["x"])
    ex = dict(x=[F(v) for v in real["x"]], xc=[F(v) for v in real["x_cp"]], g=[F(v) for v in real["g"]],
              lb=[None if np.isinf(v) else F(v) for v in real["lb"]], ub=[None if np.isinf(v) else F(v) for v in real["ub"]],
              theta=F(mats.theta), c=[F(v) for v in real["c"]], W=[[F(v) for v in row] for row in np.atleast_2d(mats.W)])
    if mats.use_factor:
        S = [[F(v) for v in row] for row in mats.S]
        Y = [[F(v) for v in row] for row in mats.Y]
        m = len(S[0])
        Minv = exact_Minv(ex["theta"], S, Y)
        M = frac_inverse(Minv)
        if M is None:
            return None
        ex.update(m=m, S=S, Y=Y, M=M, Minv=Minv)
        if m >= HINT_FROM_M and real.get("free"):
            ex["hint"] = exact_small_solution(ex, real["free"])
    else:
        ex.update(m=0, S=[[] for _ in range(n)], Y=[[] for _ in range(n)], M=[[Fraction(0)]], Minv=None)
    return ex


def check_M_against_code(real, ex, rng):
    """exact M against bfgsmats: D, L, S^T S blocks of the code and M v against bmv(invMfactors, v)."""
    from lbfgsb.bfgsmats import bmv

    mats = real["mats"]
    if not mats.use_factor:
        return None
    m = ex["m"]
    Minv_f = np.array([[float(v) for v in row] for row in ex["Minv"]])
    code = np.block([[-mats.D, mats.L.T], [mats.L, mats.theta * (mats.S.T @ mats.S)]])
    if not np.allclose(Minv_f, code, rtol=1e-13, atol=0):
        return "exact Minv differs from [[-D, L^T],[L, theta S^T S]] of bfgsmats"
    Mf = np.array([[float(v) for v in row] for row in ex["M"]])
    v = rng.integers(-16, 17, 2 * m) / 16.0
    with np.errstate(all="ignore"):
        p = bmv(mats.invMfactors, v)
    cond = np.linalg.cond(code)
    err = np.max(np.abs(Mf @ v - p))
    if not (err <= 1e-12 * cond * (1 + np.max(np.abs(p)))):
        return "M v differs from bmv(invMfactors, v): err=%g cond=%g" % (err, cond)
    return None


# ----------------------------------------------------------------------------------------------
# case generation
# ----------------------------------------------------------------------------------------------
def sixteenths(rng, lo, hi, size=None):
    return rng.integers(int(lo * 16), int(hi * 16) + 1, size) / 16.0


def gen_case(rng, n, m, pattern=None):
    """A feasible x, a box, a gradient and a history of m+1 points of a convex quadratic (positive curvature).
    pattern: per coordinate 'F' (free at the Cauchy point), 'L', 'U' (on the lower / upper bound) - a wish; the realised
    partition is whatever the real Cauchy routine produces."""
    # SPD integer matrix, diagonally dominant
    off = rng.integers(-1, 2, (n, n))
    off = np.triu(off, 1)
    off = off + off.T
    Qm = off + np.diag(np.abs(off).sum(axis=1) + rng.integers(1, 5, n))
    Qm = Qm.astype(float)
    lb = np.empty(n)
    ub = np.empty(n)
    x = np.empty(n)
    g = np.empty(n)
    for i in range(n):
        want = pattern[i] if pattern is not None else rng.choice(["F", "L", "U", "R"])
        lo = sixteenths(rng, -3, 0)
        hi = lo + sixteenths(rng, 0.25, 4)
        style = rng.integers(0, 3)
        if want == "F":
            fstyle = rng.integers(0, 6)
            xi = sixteenths(rng, -2, 2)
            gi = sixteenths(rng, -2, 2)
            if fstyle == 0:
                lo, hi = -np.inf, np.inf
            elif fstyle == 1:
                lo, hi = (lo - 64, np.inf) if rng.integers(0, 2) else (-np.inf, hi + 64)
            elif fstyle == 2:
                lo, hi = lo - 64, hi + 64
            else:
                # a box close to x: the variable may stay free at the Cauchy point and then stop the subspace step
                lo = xi - sixteenths(rng, 0.0625, 1.0)
                hi = xi + sixteenths(rng, 0.0625, 1.0)
                if fstyle == 5:
                    gi = sixteenths(rng, -0.25, 0.25)
                if rng.integers(0, 4) == 0:
                    if rng.integers(0, 2):
                        lo = -np.inf
                    else:
                        hi = np.inf
        elif want in "LU":
            if style == 0:                      # already on the bound, gradient pushes outwards
                xi = lo if want == "L" else hi
                gi = sixteenths(rng, 0.0625, 2) * (1 if want == "L" else -1)
            else:                               # interior, small gap in the direction of -g: reached as a breakpoint
                gap = sixteenths(rng, 0.0625, 0.25)
                gi = sixteenths(rng, 1, 4) * (1 if want == "L" else -1)
                if want == "L":
                    xi = lo + gap
                    hi = max(hi, xi + 0.0625)
                else:
                    xi = hi - gap
                    lo = min(lo, xi - 0.0625)
            if rng.integers(0, 4) == 0:         # the other side unbounded
                if want == "L":
                    hi = np.inf
                else:
                    lo = -np.inf
        else:                                   # 'R': anything
            xi = lo + sixteenths(rng, 0, 16) / 16.0 * 0  # placeholder, fixed below
            xi = float(np.clip(sixteenths(rng, -3, 4), lo, hi))
            gi = sixteenths(rng, -3, 3)
            if rng.integers(0, 5) == 0:
                hi = np.inf
            if rng.integers(0, 5) == 0:
                lo = -np.inf
        lb[i], ub[i], x[i], g[i] = lo, hi, xi, gi
    if not np.any(g != 0):
        g[rng.integers(0, n)] = 1.0
    b = g - Qm @ x
    # history: m earlier points inside the box (finite parts), all different from their successor
    Xs = [x]
    for _ in range(m):
        for _try in range(50):
            step = sixteenths(rng, -1, 1, n)
            if np.any(step != 0):
                break
        else:
            step = np.ones(n) / 16.0
        xp = np.clip(Xs[0] - step, np.where(np.isinf(lb), -64, lb), np.where(np.isinf(ub), 64, ub))
        if np.all(xp == Xs[0]):
            xp = Xs[0] - np.abs(step) * np.where(Xs[0] - np.abs(step) >= np.where(np.isinf(lb), -64, lb), 1, -1)
        Xs.insert(0, xp)
    Gs = [Qm @ xx + b for xx in Xs]
    maxcor = int(rng.choice([max(m, 1), 5, 10])) if m > 0 else 5
    return dict(n=n, m=m, X=[list(map(float, xx)) for xx in Xs], G=[list(map(float, gg)) for gg in Gs],
                lb=list(map(float, lb)), ub=list(map(float, ub)), maxcor=maxcor)


def tighten(case, real, rng, offgrid=False):
    """Second pass: put a bound of a free variable strictly between x_cp[i] and the x_bar[i] just computed (on the
    2^-4 grid if a grid point lies there, else 2^-8), so that the subspace step gets truncated.  Returns a new case
    or None.  The caller re-runs the real pipeline on it (the partition may change; whatever comes out is a case)."""
    if "xbar" not in real or not real["free"]:
        return None
    x, xc, xb = real["x"], real["x_cp"], real["xbar"]
    order = list(real["free"])
    rng.shuffle(order)
    for i in order:
        lo, hi = sorted((xc[i], xb[i]))
        if hi - lo <= 1e-4 or not (np.isfinite(lo) and np.isfinite(hi)) or hi - lo > 1e6:
            continue                        # (a bound closer than that to x_cp only produces 'ambiguous' cases)
        if offgrid:
            # a bound that is an arbitrary double (53 significant bits): only then can x_cp + alpha* d overshoot the
            # bound by rounding, which is what the final np.clip of the source repairs
            b = float(xc[i] + rng.uniform(0.05, 0.95) * (xb[i] - xc[i]))
            ok = (b >= x[i] and b < case["ub"][i]) if xb[i] > xc[i] else (b <= x[i] and b > case["lb"][i])
            if ok and b != xc[i]:
                new = dict(case)
                new["lb"], new["ub"] = list(case["lb"]), list(case["ub"])
                if xb[i] > xc[i]:
                    new["ub"][i] = b
                else:
                    new["lb"][i] = b
                return new
            continue
        for grid in (16.0, 256.0):
            k0, k1 = int(np.floor(lo * grid)) + 1, int(np.ceil(hi * grid)) + (1 if rng.integers(0, 4) == 0 else 0)
            if k1 - k0 > 64:
                ks = rng.integers(k0, k1, 64)
            else:
                ks = np.arange(k0, k1)
            vals = [k / grid for k in ks if lo < k / grid <= hi and k / grid != xc[i]]
            if xb[i] > xc[i]:
                vals = [v for v in vals if v >= x[i] and v < case["ub"][i]]
            else:
                vals = [v for v in vals if v <= x[i] and v > case["lb"][i]]
            if vals:
                b = float(vals[int(rng.integers(0, len(vals)))])
                new = dict(case)
                new["lb"], new["ub"] = list(case["lb"]), list(case["ub"])
                if xb[i] > xc[i]:
                    new["ub"][i] = b
                else:
                    new["lb"][i] = b
                return new
    return None


def partition_of(real):
    out = []
    for i in range(len(real["x"])):
        if i in real["free"]:
            out.append("F")
        elif real["x_cp"][i] == real["lb"][i]:
            out.append("L")
        else:
            out.append("U")
    return "".join(out)


def make_cases(tier, seed):
    """Returns (list of (case, real, exact), coverage stats)."""
    rng = np.random.default_rng(1000 + seed)
    nmax = 3 if tier == "quick" else 4
    mems = [0, 1, 2] if tier == "quick" else [0, 1, 2, 3, 4]
    reps = 2 if tier == "quick" else 3
    nrand = 150 if tier == "quick" else 700
    cases = []
    cover = dict(wanted=0, realised=0, missing=[], rejected_generation=0, singular_Minv=0)

    def attempt(n, m, pattern):
        case = gen_case(rng, n, m, pattern)
        real = run_real(case)
        if real is not None and "error" not in real and rng.integers(0, 2) == 0:
            c2 = tighten(case, real, rng, offgrid=(rng.integers(0, 4) == 0))
            if c2 is not None:
                r2 = run_real(c2)
                if r2 is not None and "error" not in r2:
                    case, real = c2, r2
                    cover["tightened"] = cover.get("tightened", 0) + 1
        if real is None or "error" in real and "xbar" not in real and "x_cp" not in real:
            cover["rejected_generation"] += 1
            if real and real["error"].startswith("cauchy"):
                cover["cauchy_unusable"] = cover.get("cauchy_unusable", 0) + 1
                cover.setdefault("cauchy_unusable_example", dict(error=real["error"], case=case))
            return None
        if "error" in real:
            return case, real, None
        ex = exact_inputs(real)
        if ex is None:
            cover["singular_Minv"] += 1
            return None
        return case, real, ex

    for n in range(1, nmax + 1):
        for pattern in itertools.product("FLU", repeat=n):
            pattern = "".join(pattern)
            for m in mems:
                got = 0
                cover["wanted"] += 1
                for _try in range(400):
                    r = attempt(n, m, pattern)
                    if r is None:
                        continue
                    case, real, ex = r
                    if "error" not in real and partition_of(real) != pattern:
                        continue
                    case["label"] = "n=%d m=%d partition=%s #%d" % (n, m, pattern, got)
                    cases.append((case, real, ex))
                    got += 1
                    if got >= reps:
                        break
                if got:
                    cover["realised"] += 1
                else:
                    cover["missing"].append("n=%d m=%d %s" % (n, m, pattern))
    for k in range(nrand):
        n = int(rng.integers(1, 9))
        m = int(rng.integers(0, 5))
        r = None
        for _try in range(50):
            r = attempt(n, m, None)
            if r is not None:
                break
        if r is None:
            continue
        case, real, ex = r
        case["label"] = "random n=%d m=%d #%d" % (n, m, k)
        cases.append((case, real, ex))
    return cases, cover


# ----------------------------------------------------------------------------------------------
# comparison
# ----------------------------------------------------------------------------------------------
def small_system_cond(real):
    mats = real["mats"]
    if not mats.use_factor or not real["free"]:
        return 1.0
    Zw = mats.W[real["free"], :]
    code = np.block([[-mats.D, mats.L.T], [mats.L, mats.theta * (mats.S.T @ mats.S)]])
    K = code - (Zw.T @ Zw) / mats.theta
    with np.errstate(all="ignore"):
        return float(max(np.linalg.cond(K), np.linalg.cond(code)))


def compare(case, real, ex, val, stats):
    """val: parsed Coq report. Returns list of failure dicts."""
    fails = []

    def fail(what, **kw):
        d = dict(kind="correspondence", what=what, label=case.get("label"), case=case)
        d.update(kw)
        fails.append(d)

    status, mok, newton_ok, free, hit, alpha, xbar, cands, dhat = val
    if not mok:
        fail("Coq could not verify the middle matrix: build_Minv(S,Y,theta) * M != I")
        return fails
    if status != 0:
        stats["model_error_value"] += 1
        fail("the model returned the error value %s (1 = singular small system, 2 = certificate failed)" % status)
        return fails
    if not newton_ok:
        fail("TEST H d_hat == - r_hat failed on the model's own output")
    stats["newton_test_ok"] += int(bool(newton_ok))
    # free set: EQUAL
    if list(free) != list(real["free"]):
        fail("free set differs", model=list(free), code=list(real["free"]))
        return fails
    stats["free_equal"] += 1
    alpha_m = frac(alpha)
    xbar_m = [frac(p) for p in xbar]
    hit_m = hit[0] if hit else None
    cand_m = [frac(c[0]) if c else None for c in cands]
    n = len(xbar_m)
    if not real["free"]:
        # early return: x_bar is x_cp itself
        if not all(float(xbar_m[i]) == real["xbar"][i] for i in range(n)):
            fail("no free variable: x_bar differs from x_cp", model=[float(v) for v in xbar_m], code=list(real["xbar"]))
        stats["none_free"] += 1
        return fails
    cond = small_system_cond(real)
    if not np.isfinite(cond) or cond > COND_MAX:
        stats["skipped_ill_conditioned"] += 1
        return fails
    # a free coordinate within 1e-6 (relative) of one of its bounds: its candidate ratio gap/d is a quotient of two
    # quantities at rounding-noise level whenever d is small too, so alpha* itself is decided by rounding
    dh = [frac(p) for p in dhat]
    for k, i in enumerate(real["free"]):
        for bnd in (ex["lb"][i], ex["ub"][i]):
            if bnd is not None and abs(float(bnd - ex["xc"][i])) <= 1e-6 * (1 + abs(float(bnd))):
                stats["ambiguous_near_bound_skipped"] += 1
                return fails
    # alpha*, x_bar within tolerance
    a_code = real["alpha"]
    if not abs(float(alpha_m) - a_code) <= TOL * (1 + abs(float(alpha_m))):
        fail("alpha* differs", model=float(alpha_m), code=a_code, cond=cond)
    bad = [i for i in range(n) if not abs(float(xbar_m[i]) - real["xbar"][i]) <= TOL * (1 + abs(float(xbar_m[i])))]
    if bad:
        fail("x_bar differs at coordinates %s" % bad, model=[float(v) for v in xbar_m], code=[float(v) for v in real["xbar"]], cond=cond)
    stats["alpha_xbar_compared"] += 1
    # hit coordinate: EQUAL unless the model's branching margin is tiny
    finite = sorted(c for c in cand_m if c is not None)
    ambiguous = False
    if finite:
        first = float(finite[0])
        if abs(first - 1.0) <= MARGIN:                       # on the edge between 'truncated' and 'full step'
            ambiguous = True
        if len(finite) > 1 and first <= 1 + MARGIN and float(finite[1] - finite[0]) <= MARGIN * (1 + abs(first)):
            ambiguous = True                                 # two candidate ratios nearly equal
    if ambiguous:
        stats["hit_ambiguous_skipped"] += 1
        return fails
    ratios = real["ratios"]
    hit_c = None
    nz = [k for k in range(len(dh)) if dh[k] != 0]
    if ratios is not None and real["nanmin"] is not None and real["nanmin"] <= 1.0 and ratios.size > 0:
        if ratios.size == len(nz):
            hit_c = real["free"][nz[int(np.argmin(ratios))]]
        else:
            stats["hit_unmappable"] += 1
            return fails
    if hit_c != hit_m:
        fail("hit coordinate differs", model=hit_m, code=hit_c, cands=[None if c is None else float(c) for c in cand_m])
    else:
        stats["hit_equal"] += 1
        if hit_m is not None:
            stats["hit_some"] += 1
            # the hit coordinate of the code's x_bar sits on its bound up to rounding
            b = ex["ub"][hit_m] if dh[real["free"].index(hit_m)] > 0 else ex["lb"][hit_m]
            if not abs(real["xbar"][hit_m] - float(b)) <= 1e-12 * (1 + abs(float(b))):
                fail("the code's x_bar is not on the bound at the hit coordinate", coord=hit_m, code=float(real["xbar"][hit_m]), bound=float(b))
    return fails


# ----------------------------------------------------------------------------------------------
# float oracle
# ----------------------------------------------------------------------------------------------
def projected_gradient_norm(x, g, lb, ub):
    p = np.clip(x - g, lb, ub) - x
    return float(np.max(np.abs(p))) if p.size else 0.0


def check_against_oracle(case, real=None):
    """Float oracle for one case; returns a list of failure dicts (empty = fine), or None if the case is unusable."""
    if real is None:
        real = run_real(case)
    if real is None or "mats" not in real:
        return None
    fails = []

    def fail(what, **kw):
        d = dict(kind="oracle", what=what, label=case.get("label"), case=case)
        d.update(kw)
        fails.append(d)

    if "error" in real:
        fail("the code raised: " + real["error"])
        return fails
    mats = real["mats"]
    x, g, lb, ub, xc, xbar = real["x"], real["g"], real["lb"], real["ub"], real["x_cp"], real["xbar"]
    n = x.size
    if mats.use_factor:
        code = np.block([[-mats.D, mats.L.T], [mats.L, mats.theta * (mats.S.T @ mats.S)]])
        with np.errstate(all="ignore"):
            condM = np.linalg.cond(code)
        if not np.isfinite(condM) or condM > 1e8:
            return None
        B = mats.theta * np.eye(n) - mats.W @ np.linalg.solve(code, mats.W.T)
    else:
        B = mats.theta * np.eye(n)
    B = (B + B.T) / 2
    eig = np.linalg.eigvalsh(B)
    if eig[0] <= 1e-8 * max(1.0, eig[-1]):
        return None                                # B not safely positive definite in floats: out of scope of the oracle

    def mval(p):
        s = p - x
        return float(g @ s + 0.5 * s @ B @ s)

    free = [i for i in range(n) if xc[i] != lb[i] and xc[i] != ub[i]]
    if free != real["free"]:
        fail("free set of the code differs from {i | x_cp[i] != lb[i], x_cp[i] != ub[i]}", code=real["free"], oracle=free)
    # feasibility, fixed variables
    if np.any(xbar < lb) or np.any(xbar > ub):
        fail("x_bar is infeasible", xbar=list(map(float, xbar)))
    for i in range(n):
        if i not in free and xbar[i] != xc[i]:
            fail("variable %d is on a bound at x_cp but moved" % i, xc=float(xc[i]), xbar=float(xbar[i]))
    # oracle direction on the free variables
    if free:
        H = B[np.ix_(free, free)]
        r = (g + B @ (xc - x))[free]
        if np.linalg.cond(H) < 1e8:
            d = -np.linalg.solve(H, r)
            alpha = 1.0
            for k, i in enumerate(free):
                if d[k] > 0 and np.isfinite(ub[i]):
                    alpha = min(alpha, (ub[i] - xc[i]) / d[k])
                elif d[k] < 0 and np.isfinite(lb[i]):
                    alpha = min(alpha, (lb[i] - xc[i]) / d[k])
            xo = xc.copy()
            xo[free] += alpha * d
            scale = 1 + np.max(np.abs(xo))
            if not np.max(np.abs(xo - xbar)) <= 1e-7 * scale * max(1.0, np.linalg.cond(H) * 1e-3):
                fail("x_bar differs from the oracle x_cp + alpha Z (-(Z^T B Z)^-1 r)", code=list(map(float, xbar)), oracle=list(map(float, xo)),
                     alpha_code=real["alpha"], alpha_oracle=float(alpha))
    # the model value must not increase
    m_cp, m_bar = mval(xc), mval(xbar)
    if not m_bar <= m_cp + 1e-10 * (1 + abs(m_cp)):
        fail("the quadratic model increases from x_cp to x_bar", m_cp=m_cp, m_bar=m_bar)
    # descent
    if projected_gradient_norm(x, g, lb, ub) > 0:
        gd = float(g @ (xbar - x))
        if not gd < 0:
            # only a finding when the Cauchy point itself decreased the model (C08's business otherwise)
            fail("x_bar - x is not a descent direction although the projected gradient is non-zero", gd=gd, m_cp=m_cp, m_bar=m_bar)
    return fails


def oracle_search(tier, seed, stats):
    rng = np.random.default_rng(777 + seed)
    N = 300 if tier == "quick" else 2500
    fails = []
    for k in range(N):
        n = int(rng.integers(1, 11))
        m = int(rng.integers(0, 5))
        case = gen_case(rng, n, m, None)
        case["label"] = "oracle n=%d m=%d #%d" % (n, m, k)
        real = run_real(case)
        if real is not None and "error" not in real and k % 2 == 0:
            c2 = tighten(case, real, rng, offgrid=(k % 4 == 0))
            if c2 is not None:
                c2["label"] = case["label"] + " tightened"
                case, real = c2, None
        if real is not None and "error" in real and real["error"].startswith("cauchy"):
            stats["oracle_unusable"] += 1
            continue
        r = check_against_oracle(case, real)
        if r is None:
            stats["oracle_unusable"] += 1
            continue
        stats["oracle_cases"] += 1
        if r and len(fails) < 5:
            fails.extend(r[:2])
        stats["oracle_failures"] += int(bool(r))
    return fails


# ----------------------------------------------------------------------------------------------
def run(tier="quick", seed=0, coq_dir=None, jobs=8):
    t0 = time.time()
    coq_dir = coq_dir or HERE
    stats = dict(tier=tier, cases=0, files=0, free_equal=0, none_free=0, alpha_xbar_compared=0, hit_equal=0, hit_some=0,
                 hit_ambiguous_skipped=0, ambiguous_near_bound_skipped=0, hit_unmappable=0, skipped_ill_conditioned=0, model_error_value=0, newton_test_ok=0,
                 code_raised=0, M_checked_against_bmv=0, disagreements=0, oracle_cases=0, oracle_unusable=0, oracle_failures=0)
    failures = []
    cases, cover = make_cases(tier, seed)
    stats["coverage"] = cover
    if cover["missing"]:
        failures.append(dict(kind="coverage", what="partitions never realised by the real Cauchy routine: %s" % cover["missing"][:10]))
    rng = np.random.default_rng(5 + seed)
    usable = []
    for case, real, ex in cases:
        if "error" in real:
            stats["code_raised"] += 1
            if len(failures) < 10:
                failures.append(dict(kind="input", what="the code raised: " + real["error"], label=case.get("label"), case=case))
            continue
        msg = check_M_against_code(real, ex, rng)
        if real["mats"].use_factor:
            stats["M_checked_against_bmv"] += 1
        if msg:
            failures.append(dict(kind="correspondence", what=msg, label=case.get("label"), case=case))
            continue
        usable.append((case, real, ex))
    stats["cases"] = len(usable)
    parts = {}
    for c, _, _ in usable:
        key = c["label"].split("#")[0].strip()
        parts[key] = parts.get(key, 0) + 1
    stats["distinct_partition_memory_combinations"] = len([k for k in parts if k.startswith("n=")])
    header = HEADER % MODEL_MODULE
    # <= CASES_PER_FILE cases per file, at least `jobs` files, cases dealt round-robin (the expensive ones are the
    # large memories, which come in runs)
    nfiles = max(jobs, -(-len(usable) // CASES_PER_FILE)) if usable else 0
    groups = [list(range(k, len(usable), nfiles)) for k in range(nfiles)]
    groups = [g for g in groups if g]
    bodies = [header + "\n".join(coq_case(usable[i][2]) for i in g) + "\n" for g in groups]
    stats["files"] = len(bodies)
    tc = time.time()
    res = run_coq_files(bodies, coq_dir, jobs=jobs)
    stats["coq_seconds"] = round(time.time() - tc, 1)
    vals = [None] * len(usable)
    for k, (ok, v, out) in enumerate(res):
        nexp = len(groups[k])
        if not ok or len(v) != nexp:
            failures.append(dict(kind="correspondence", what="case file %d did not evaluate (%d of %d values): %s" % (k, len(v), nexp, out[-800:])))
        else:
            for i, vv in zip(groups[k], v):
                vals[i] = vv
    for (case, real, ex), v in zip(usable, vals):
        if v is None:
            continue
        try:
            val = parse_value(v)
        except Exception as e:  # pragma: no cover
            failures.append(dict(kind="correspondence", what="cannot parse the Coq output: %s: %s" % (e, v[:300])))
            continue
        f = compare(case, real, ex, val, stats)
        if f:
            stats["disagreements"] += 1
            if len(failures) < 12:
                failures.extend(f[:2])
    failures.extend(oracle_search(tier, seed, stats))
    stats["seconds"] = round(time.time() - t0, 1)
    return failures, stats


if __name__ == "__main__":
    import argparse
    import json

    ap = argparse.ArgumentParser()
    ap.add_argument("--tier", default="quick")
    ap.add_argument("--seed", type=int, default=0)
    ap.add_argument("--coq-dir", default=HERE)
    a = ap.parse_args()
    import lbfgsb

    print("lbfgsb from", os.path.dirname(lbfgsb.__file__))
    fl, st = run(a.tier, a.seed, a.coq_dir)
    print(json.dumps(st, indent=1, default=str))
    for f in fl[:12]:
        f = dict(f)
        print("FAILURE:", json.dumps(f, default=lambda o: o.tolist() if hasattr(o, "tolist") else str(o))[:3000])
    print("failures: %d" % len(fl))
