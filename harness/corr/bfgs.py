"""C10, matrix half: correspondence between the exact Gallina model Bfgs.v and the real
lbfgsb.bfgsmats.update_lbfgs_matrices / bmv, plus a pure-float oracle used as failing-input
search.

run(tier, seed=0, coq_dir=...) -> (failures, stats)

Correspondence (Coq side, exact rationals)
  Histories of candidate updates (x_k, g_k) on the grid 2^-4 Z^n are fed to the real
  update_lbfgs_matrices exactly as main.py does (first point appended to the deques, then
  update_lbfgs_matrices(x.copy(), grad, X, G, maxcor, mats, is_force_update=False, eps=eps_SY,
  is_check_factorization=False)).  After EVERY call (accepted or rejected) a case records the
  deques X, G, mats.theta, mats.W, use_factor and the matrix M whose columns are
  bmv(mats.invMfactors, e_j).  The generated files Cases/C10mat_cases_*.v hand these numbers
  (binary64 -> Q exactly) to BfgsCheck.check, which recomputes theta, W, Minv from the same
  X, G with the model, inverts Minv exactly, verifies the inverse by multiplication, compares
  with tolerance 1e-9*(1+|v|), and evaluates compact_B == dense_bfgs exactly in Q.  That
  evaluation is a TEST of the executable path (it is reported as such in the stats); the
  corresponding theorems are BfgsProofs.compact_eq_dense_m1 and, for any number of pairs,
  BfgsGeneral.compact_eq_dense.  One output line per case; see BfgsCheck.v for the bit mask.

Oracle (numpy only)
  check_against_oracle(case): independent dense BFGS recursion vs theta*I - W M W^T from the
  real matrices, symmetry, eigenvalues > 0, secant residual; relative tolerance 1e-8.  Used on
  every correspondence case and on a separate search with n <= 12, up to 40 updates,
  off-grid data.
"""
import os
import re
import sys
import time
import subprocess
from collections import deque
from concurrent.futures import ThreadPoolExecutor
from fractions import Fraction

import numpy as np

HERE = os.path.join(os.path.dirname(os.path.dirname(os.path.dirname(os.path.abspath(__file__)))), "coq")
EPS_SY = 2.2e-16          # main.py default eps_SY
GRID = 16.0               # all correspondence data are multiples of 2^-4
M_EXACT_MAX = 4           # exact inverse / exact compact=dense only for m <= 4 stored pairs
CASES_PER_FILE = 100
BITS = {1: "theta", 2: "W", 4: "exact inverse of Minv", 8: "M (bmv columns)",
        16: "compact_B == dense_bfgs (exact evaluation, TEST)", 32: "use_factor",
        64: "implementation's theta I - W M W^T vs model dense BFGS", 128: "Minv_model * M_impl vs I"}


def _bfgsmats():
    import lbfgsb.bfgsmats as bm
    return bm


# ------------------------------------------------------------------ histories

def _grid(v):
    return np.round(np.asarray(v, dtype=float) * GRID) / GRID


class Objective:
    """Gradient of 1/2 x'Ax + b'x + sum_i c_i cos(w_i x_i); A positive definite (convex=True)
    or indefinite; with c <> 0 the function is non-convex in both cases."""

    def __init__(self, rng, n, convex, on_grid):
        q = rng.integers(-3, 4, size=(n, n)) / 2.0
        if convex:
            self.A = q.T @ q + np.eye(n) * rng.integers(1, 4)
        else:
            a = rng.integers(-4, 5, size=(n, n)) / 2.0
            self.A = (a + a.T) / 2.0
        self.b = rng.integers(-8, 9, size=n) / 4.0
        self.c = rng.integers(0, 3, size=n) * (0.0 if convex and rng.random() < 0.5 else 1.0)
        self.w = rng.integers(1, 4, size=n).astype(float)
        self.on_grid = on_grid

    def grad(self, x):
        g = self.A @ x + self.b - self.c * self.w * np.sin(self.w * x)
        return _grid(g) if self.on_grid else g


def gen_history(rng, n, nupd, convex, on_grid=True):
    """nupd + 1 points (x_k, g_k): the first one starts the memory, the others are candidates."""
    obj = Objective(rng, n, convex, on_grid)
    x = rng.integers(-32, 33, size=n) / GRID
    pts = [(x.copy(), obj.grad(x))]
    for _ in range(nupd):
        r = rng.random()
        if r < 0.05:
            step = np.zeros(n)                                  # s = 0: rejected
        elif r < 0.20:
            step = rng.integers(-2, 3, size=n) / GRID           # tiny step
        elif r < 0.60 and convex:
            step = -_grid(0.25 * pts[-1][1] / (1.0 + np.abs(pts[-1][1]).max() / 4.0))  # descent-like
        else:
            step = rng.integers(-24, 25, size=n) / GRID
        if not on_grid:
            step = step + rng.normal(size=n) * 0.1
        x = x + step
        if on_grid:
            x = _grid(x)
        pts.append((x.copy(), obj.grad(x)))
    return pts


def run_history(pts, maxcor):
    """Feed the points to the real code as main.py does; one snapshot per call."""
    bm = _bfgsmats()
    n = pts[0][0].size
    mats = bm.LBFGSB_MATRICES(n)
    X, G = deque(), deque()
    X.append(np.copy(pts[0][0]))
    G.append(pts[0][1])
    snaps = []
    for x, grad in pts[1:]:
        lenb = len(X)
        last_before = X[-1]
        err = None
        try:
            mats = bm.update_lbfgs_matrices(
                x.copy(), grad, X, G, maxcor, mats,
                is_force_update=False, eps=EPS_SY, is_check_factorization=False,
            )
        except Exception as e:                      # e.g. LinAlgError from the Cholesky step
            err = f"{type(e).__name__}: {e}"
        accepted = not (len(X) == lenb and X[-1] is last_before)
        snap = dict(n=n, maxcor=maxcor, X=[np.array(v, dtype=float) for v in X],
                    G=[np.array(v, dtype=float) for v in G], accepted=accepted, error=err,
                    theta=float(mats.theta), W=np.array(mats.W, dtype=float),
                    use_factor=bool(mats.use_factor))
        m = len(X) - 1
        if err is None and mats.use_factor:
            k = mats.invMfactors[0].shape[0]
            M = np.zeros((k, k))
            for j in range(k):
                e = np.zeros(k)
                e[j] = 1.0
                M[:, j] = bm.bmv(mats.invMfactors, e)
            snap["M"] = M
        else:
            snap["M"] = np.zeros((0, 0))
        snap["m"] = m
        snaps.append(snap)
        if err is not None:
            break
    return snaps


# ------------------------------------------------------------------ float oracle

def dense_bfgs_float(theta, S, Y, n):
    B = theta * np.eye(n)
    for s, y in zip(S, Y):
        Bs = B @ s
        B = B - np.outer(Bs, Bs) / (s @ Bs) + np.outer(y, y) / (y @ s)
    return B


def check_against_oracle(case, rtol=1e-8):
    """Independent dense BFGS recursion in numpy against theta I - W M W^T of the real
    matrices; returns the list of violated properties (empty = fine)."""
    n = case["n"]
    X, G = case["X"], case["G"]
    out = []
    if case.get("error"):
        return [f"exception in update_lbfgs_matrices: {case['error']}"]
    S = [X[i + 1] - X[i] for i in range(len(X) - 1)]
    Y = [G[i + 1] - G[i] for i in range(len(G) - 1)]
    m = len(S)
    if len(X) != len(G) or m > case["maxcor"]:
        out.append(f"memory size: len(X)={len(X)} len(G)={len(G)} maxcor={case['maxcor']}")
    for i, (s, y) in enumerate(zip(S, Y)):
        if not s @ y > EPS_SY * (y @ y):
            out.append(f"stored pair {i} violates the curvature condition")
    if m == 0:
        if case["use_factor"] or case["theta"] != 1.0:
            out.append("no pair stored but matrices are not the initial ones")
        return out
    if not case["use_factor"]:
        return out + ["pairs stored but use_factor is False"]
    theta, W, M = case["theta"], case["W"], case["M"]
    th_ref = (Y[-1] @ Y[-1]) / (S[-1] @ Y[-1])
    if abs(theta - th_ref) > rtol * abs(th_ref):
        out.append(f"theta {theta!r} vs y.y/s.y of the newest pair {th_ref!r}")
    if W.shape != (n, 2 * m) or M.shape != (2 * m, 2 * m):
        return out + [f"shapes W{W.shape} M{M.shape} for n={n} m={m}"]
    Bc = theta * np.eye(n) - W @ M @ W.T
    Bd = dense_bfgs_float(th_ref, S, Y, n)
    scale = max(1.0, np.abs(Bd).max())
    if np.abs(Bc - Bd).max() > rtol * scale:
        out.append(f"compact vs dense BFGS: max abs diff {np.abs(Bc - Bd).max():.3e} (scale {scale:.3e})")
    if np.abs(Bc - Bc.T).max() > rtol * scale:
        out.append(f"not symmetric: {np.abs(Bc - Bc.T).max():.3e}")
    ev = np.linalg.eigvalsh((Bc + Bc.T) / 2)
    if not ev.min() > 0:
        out.append(f"not positive definite: min eigenvalue {ev.min():.3e}")
    res = np.abs(Bc @ S[-1] - Y[-1]).max()
    if res > rtol * scale * max(1.0, np.abs(S[-1]).max()):
        out.append(f"secant equation: |B s - y| = {res:.3e}")
    return out


# ------------------------------------------------------------------ Coq case files

def qlit(v):
    f = Fraction(float(v))
    return f"({f.numerator} # {f.denominator})"


def qvec(v):
    return "[" + "; ".join(qlit(a) for a in v) + "]"


def qmat(rows):
    return "[" + ";\n      ".join(qvec(r) for r in rows) + "]"


def case_to_coq(idx, c):
    Wcols = c["W"].T if c["use_factor"] else np.zeros((0, c["n"]))
    exact = "true" if c["m"] <= M_EXACT_MAX else "false"
    return (
        f"Definition c{idx} : case := {{|\n"
        f"  k_n := {c['n']};\n"
        f"  k_X := {qmat(c['X'])};\n"
        f"  k_G := {qmat(c['G'])};\n"
        f"  k_theta := {qlit(c['theta'])};\n"
        f"  k_W := {qmat(Wcols)};\n"
        f"  k_M := {qmat(c['M'])};\n"
        f"  k_use_factor := {'true' if c['use_factor'] else 'false'};\n"
        f"  k_exact := {exact} |}}.\n"
        f"Eval vm_compute in (({idx})%Z, check c{idx}).\n"
    )


HEADER = """(* generated by corr_bfgs.py -- do not edit *)
From Coq Require Import QArith List ZArith.
Import ListNotations.
From LBFGSB Require Import Model.Bfgs Model.BfgsCheck.
Open Scope Q_scope.
"""

RES = re.compile(r"=\s*\(\s*(\d+)%Z\s*,\s*(\d+)%Z\s*\)")


def ensure_built(coq_dir):
    return  # the development is built by harness/coqbuild.py
    for f in ("Bfgs", "BfgsCheck"):
        vo, v = os.path.join(coq_dir, f + ".vo"), os.path.join(coq_dir, f + ".v")
        if not os.path.exists(vo) or os.path.getmtime(vo) < os.path.getmtime(v):
            subprocess.run(["timeout", "600", "coqc", "-Q", ".", "LBFGSB", f + ".v"], cwd=coq_dir, check=True)


def run_coq_file(coq_dir, path, timeout=1500):
    t0 = time.time()
    p = subprocess.run(["timeout", str(timeout), "coqc", "-Q", coq_dir, "LBFGSB", path],
                       cwd=coq_dir, stdout=subprocess.PIPE, stderr=subprocess.PIPE, text=True)
    return p.returncode, p.stdout, p.stderr, time.time() - t0


def coq_check(cases, coq_dir, jobs=8):
    """cases: list of (global index, case).  Returns {index: code}; code None = no answer."""
    ensure_built(coq_dir)
    cdir = os.path.join(coq_dir, "Cases")
    os.makedirs(cdir, exist_ok=True)
    for f in os.listdir(cdir):
        if f.startswith("C10mat_cases_"):
            os.remove(os.path.join(cdir, f))
    files = []
    nfiles = max(1, -(-len(cases) // CASES_PER_FILE), min(jobs, -(-len(cases) // 20)))
    for k in range(nfiles):                      # round-robin: files of similar cost
        path = os.path.join(cdir, f"C10mat_cases_{k:03d}.v")
        with open(path, "w") as fh:
            fh.write(HEADER)
            for idx, c in cases[k::nfiles]:
                fh.write(case_to_coq(idx, c))
        files.append(path)
    codes, problems, times = {}, [], []
    with ThreadPoolExecutor(max_workers=jobs) as ex:
        for path, (rc, out, err, dt) in zip(files, ex.map(lambda p: run_coq_file(coq_dir, p), files)):
            times.append(dt)
            for a, b in RES.findall(out):
                codes[int(a)] = int(b)
            if rc != 0:
                problems.append(dict(file=path, returncode=rc, stderr=err[-2000:]))
    return codes, problems, files, times


# ------------------------------------------------------------------ entry point

def _snap_summary(c):
    return dict(n=c["n"], maxcor=c["maxcor"], m=c["m"], accepted=c["accepted"], theta=c["theta"],
                X=[v.tolist() for v in c["X"]], G=[v.tolist() for v in c["G"]])


def run(tier="quick", seed=0, coq_dir=None, jobs=8):
    coq_dir = os.path.abspath(coq_dir or HERE)
    thorough = tier == "thorough"
    nhist = 90 if thorough else 24
    nupd_max = 40 if thorough else 12
    nsearch = 600 if thorough else 100
    rng = np.random.default_rng(1000003 * seed + (7 if thorough else 3))
    t0 = time.time()
    failures = []
    cases = []
    hist_stats = dict(histories=0, updates=0, accepted=0, rejected=0, exceptions=0,
                      rejected_identical_to_previous_case=0)
    m_hist = {}
    for h in range(nhist):
        n = int(rng.integers(1, 7))
        # two thirds of the histories keep m <= 4 so that every snapshot gets the exact part
        maxcor = int(rng.integers(1, 5)) if h % 3 else int(rng.integers(1, 11))
        nupd = int(rng.integers(max(2, nupd_max // 2), nupd_max + 1))
        convex = bool(h % 2)
        pts = gen_history(rng, n, nupd, convex, on_grid=True)
        snaps = run_history(pts, maxcor)
        hist_stats["histories"] += 1
        for k, c in enumerate(snaps):
            c["history"], c["step"], c["convex"] = h, k, convex
            hist_stats["updates"] += 1
            hist_stats["accepted" if c["accepted"] else "rejected"] += 1
            if c["error"]:
                hist_stats["exceptions"] += 1
                failures.append(dict(kind="exception", detail=c["error"], case=_snap_summary(c)))
                continue
            # a rejected candidate must leave the memory and the matrices untouched (same
            # numbers as before); the Coq check of such a snapshot would be the previous
            # case verbatim, so it is not sent again
            if not c["accepted"] and k > 0 and not snaps[k - 1]["error"]:
                p = snaps[k - 1]
                same = (p["theta"] == c["theta"] and p["use_factor"] == c["use_factor"]
                        and np.array_equal(p["W"], c["W"]) and np.array_equal(p["M"], c["M"])
                        and len(p["X"]) == len(c["X"]) and len(p["G"]) == len(c["G"])
                        and all(np.array_equal(a, b) for a, b in zip(p["X"], c["X"]))
                        and all(np.array_equal(a, b) for a, b in zip(p["G"], c["G"])))
                if same:
                    hist_stats["rejected_identical_to_previous_case"] += 1
                    continue
                failures.append(dict(kind="rejected update changed the memory or the matrices", case=_snap_summary(c)))
            bad = check_against_oracle(c)
            if bad:
                failures.append(dict(kind="oracle (correspondence history)", detail=bad, case=_snap_summary(c)))
            m_hist[c["m"]] = m_hist.get(c["m"], 0) + 1
            cases.append((len(cases), c))
    codes, problems, files, times = coq_check(cases, coq_dir, jobs=jobs)
    for pr in problems:
        failures.append(dict(kind="coqc failed", **pr))
    n_exact = n_test_m2 = n_proved_m1 = 0
    for idx, c in cases:
        code = codes.get(idx)
        if code is None:
            failures.append(dict(kind="no answer from Coq", index=idx, case=_snap_summary(c)))
            continue
        if c["m"] >= 1 and c["m"] <= M_EXACT_MAX:
            n_exact += 1
            if c["m"] >= 2:
                n_test_m2 += 1
            else:
                n_proved_m1 += 1
        if code != 0:
            what = [BITS[b] for b in BITS if code & b]
            failures.append(dict(kind="model/implementation disagreement", code=code, what=what,
                                 index=idx, case=_snap_summary(c)))
    # ---------------- failing-input search with the float oracle, larger n, off-grid data
    search = dict(histories=0, updates=0, accepted=0, rejected=0, violations=0)
    for h in range(nsearch):
        n = int(rng.integers(1, 13))
        maxcor = int(rng.integers(1, 11))
        nupd = int(rng.integers(5, 41))
        pts = gen_history(rng, n, nupd, convex=bool(h % 2), on_grid=bool(h % 4 == 0))
        snaps = run_history(pts, maxcor)
        search["histories"] += 1
        for k, c in enumerate(snaps):
            search["updates"] += 1
            search["accepted" if c["accepted"] else "rejected"] += 1
            bad = check_against_oracle(c)
            if bad:
                search["violations"] += 1
                failures.append(dict(kind="oracle (search)", detail=bad, case=_snap_summary(c)))
    stats = dict(
        tier=tier, seed=seed, correspondence=hist_stats, cases=len(cases), coq_files=len(files),
        coq_answers=len(codes), coq_disagreements=sum(1 for v in codes.values() if v != 0),
        stored_pairs_histogram=dict(sorted(m_hist.items())),
        exact_part_cases=n_exact,
        compact_eq_dense_exact_evaluation_TEST_m1_cases=n_proved_m1,
        compact_eq_dense_exact_evaluation_TEST_m_ge_2_cases=n_test_m2,
        coq_seconds_per_file=[round(t, 1) for t in times],
        oracle_search=search, seconds=round(time.time() - t0, 1),
        note="compact_B == dense_bfgs on these histories is a TEST (exact evaluation in Q); the theorems are "
             "BfgsProofs.compact_eq_dense_m1 (m = 1) and BfgsGeneral.compact_eq_dense (any m)",
    )
    return failures, stats


if __name__ == "__main__":
    import json
    import argparse
    ap = argparse.ArgumentParser()
    ap.add_argument("--tier", default="quick", choices=["quick", "thorough"])
    ap.add_argument("--seed", type=int, default=0)
    ap.add_argument("--coq-dir", default=HERE)
    ap.add_argument("--jobs", type=int, default=8)
    ap.add_argument("--show", type=int, default=5, help="failures to print")
    a = ap.parse_args()
    import lbfgsb
    print("lbfgsb from", os.path.dirname(lbfgsb.__file__))
    fails, st = run(a.tier, a.seed, a.coq_dir, a.jobs)
    print(json.dumps(st, indent=1))
    kinds = {}
    for f in fails:
        key = f["kind"] + (" " + ",".join(f["what"]) if "what" in f else "")
        kinds[key] = kinds.get(key, 0) + 1
    print("failures:", len(fails), json.dumps(kinds, indent=1))
    for f in fails[:a.show]:
        print(json.dumps(f, default=str)[:3000])
    sys.exit(1 if fails else 0)
