"""C15 correspondence: the wrapper model (coq/Model/SF.v, instance SFInst.v) against the real
lbfgsb.scalar_function.ScalarFunction on ALL histories up to a length (bounded-exhaustive),
compared through per-bucket digests computed inside Coq (vm_compute) and here."""
import itertools
import numpy as np

from harness import coqbuild
from harness.common import Failure

MOD = 2 ** 63


def mix(h, x):
    return (h * 1000003 + x + 12345) % MOD


PT = {0: 2, 1: 5, 2: 9}


def uf_i(p):
    return 7 * p * p + 3 * p + 1


def ug_i(p):
    return 14 * p + 3


def digest_hist(hist, fdmode):
    """Digest of one history on the real wrapper (mirrors SFInst.digest_hist)."""
    import lbfgsb.scalar_function as SFM

    events = []

    def F(x):
        p = int(round(float(x[0])))
        events.append((5, p))
        return float(uf_i(p))

    def G(x):
        p = int(round(float(x[0])))
        events.append((6, p))
        return np.array([float(ug_i(p))])

    if fdmode:
        sf = SFM.ScalarFunction(F, np.array([2.0]), (), "2-point", None, (-np.inf, np.inf))
    else:
        sf = SFM.ScalarFunction(F, np.array([2.0]), (), G, None, (-np.inf, np.inf))
    h = 17
    for c in hist:
        if c >= 9:
            sf.scaling_factor = float(c - 9 + 2)
            h = mix(h, 4)
            continue
        op, p = divmod(c, 3)
        x = np.array([float(PT[p])])
        if op == 0:
            v = sf.fun(x)
            h = mix(mix(h, 1), int(v))
        elif op == 1:
            g = sf.grad(x)
            h = mix(mix(h, 2), int(g[0]))
        else:
            v, g = sf.fun_and_grad(x)
            h = mix(mix(mix(h, 3), int(v)), int(g[0]))
        x[0] = -77.0  # the caller modifies the array it passed
    for a, b in events:
        h = mix(mix(h, a), b)
    return mix(mix(h, sf.nfev), sf.ngev)


def _fake_approx_derivative(fun, x0, f0=None, **kw):
    """Stand-in for SciPy's differencing routine with the model's stencil [x+10, x+20] and estimate."""
    vals = [fun(x0 + 10.0), fun(x0 + 20.0)]
    return np.array([f0 + 1000.0 * float(x0[0]) + sum(vals)])


def run(tier):
    """Returns (failures, stats)."""
    import lbfgsb.scalar_function as SFM

    configs = []  # (fdmode, alphabet, prefix_len, tail_len)
    if tier == "quick":
        configs = [(False, list(range(9)), 1, 4), (False, list(range(11)), 1, 3), (True, list(range(9)), 1, 3), (True, list(range(11)), 1, 2)]
    else:
        configs = [(False, list(range(9)), 2, 4), (False, list(range(11)), 1, 4), (True, list(range(9)), 1, 4), (True, list(range(11)), 1, 3)]
    body = ["From Coq Require Import List ZArith.", "From LBFGSB Require Import Base.Res Model.SF Model.SFInst.", "Import ListNotations.", "Open Scope Z_scope.", ""]
    plan = []
    for fd, alpha, pl, tl in configs:
        prefixes = list(itertools.product(alpha, repeat=pl))
        al = "[" + "; ".join(str(a) for a in alpha) + "]"
        # all lengths up to pl+tl: shorter histories are covered by tails of length < tl
        for t in range(0, tl + 1):
            body.append("Eval vm_compute in (map (fun pre => bucket %s %s pre %d) [%s])." % (
                "true" if fd else "false", al, t, "; ".join("[" + "; ".join(str(c) for c in pre) + "]" for pre in prefixes)))
            plan.append((fd, alpha, prefixes, t))
    ok, vals, out = coqbuild.run_cases("C15_cases", "\n".join(body) + "\n")
    failures = []
    stats = dict(histories=0, buckets=0, configs=len(configs))
    if not ok or len(vals) != len(plan):
        failures.append(Failure("correspondence", "the model's case file did not evaluate: " + out[-600:], signature="C15 corr coq"))
        return failures, stats
    orig = SFM.approx_derivative
    SFM.approx_derivative = _fake_approx_derivative
    try:
        for (fd, alpha, prefixes, t), v in zip(plan, vals):
            coqd = coqbuild.parse_zlist(v)
            for pre, want in zip(prefixes, coqd):
                acc = 0
                n = 0
                for tail in itertools.product(alpha, repeat=t):
                    # all_hists builds histories by consing on the left: enumerate the same set (sum is order-free)
                    acc = (acc + digest_hist(list(pre) + list(tail), fd)) % MOD
                    n += 1
                stats["histories"] += n
                stats["buckets"] += 1
                if acc != want and len(failures) < 3:
                    # locate one differing history inside the bucket
                    failures.append(Failure("correspondence", f"wrapper model and ScalarFunction disagree on the histories with prefix {pre}, tail length {t}, "
                                            f"fdmode={fd}, alphabet size {len(alpha)} (codes: 0-8 = op*3+point, 9/10 = set scale 2/3)",
                                            replay=dict(prefix=list(pre), tail_len=t, fdmode=fd, alphabet=alpha), signature="C15 corr digest"))
    finally:
        SFM.approx_derivative = orig
    return failures, stats
