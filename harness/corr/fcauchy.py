"""Bit-exact correspondence between the Coq model Model/FCauchy.v (binary64, primitive floats) and the real
lbfgsb.cauchy.get_cauchy_point.

    run(tier, seed=0, coq_dir=HERE) -> (failures, stats)        quick = 600 cases, thorough = 10000

For every generated input
  1. the REAL function is called (logger None)                                   -> (x_cp, c) or an exception;
  2. an AST-INSTRUMENTED copy of the CURRENT source of get_cauchy_point is executed in the namespace of the
     module lbfgsb.cauchy: `A @ B`, `a.dot(b)` and `a.dot(bmv(F, v))` are rewritten into recorder calls that
     evaluate the same NumPy / SciPy expression and log (kind, inputs, result).  Its (x_cp, c) must be
     bit-identical to 1. (stats['instrumented_mismatch'] must be 0).  The copy runs with a logger at iprint = 100,
     which yields the indices fixed by the loop ("Variable i is fixed.") and is_gpc_found ("GCP found ...");
  3. a Coq case evaluates FCauchy.fgcp_full by vm_compute with the logged answers as association-list oracles and
     compares x_cp, c (same bits up to the NaN payload: IEEE ==, same sign of zeros, NaN = NaN), the list of
     fixed indices and is_gpc_found.  One output line per case: (id, code), code 0 = all identical,
     +1 x_cp, +2 c, +4 fixed indices, +8 is_gpc_found.

Inputs whose real run raises (scipy.linalg.solve_triangular refuses inf/NaN or a singular factor) are counted in
stats['python_raised'] and not compared (an exception of an oracle is outside the model).
"""
from __future__ import annotations

import ast
import inspect
import json
import logging
import math
import os
import re
import struct
import subprocess
import sys
import time
import warnings
from collections import Counter, deque
from concurrent.futures import ThreadPoolExecutor

import numpy as np

HERE = os.path.join(os.path.dirname(os.path.dirname(os.path.dirname(os.path.abspath(__file__)))), "coq")
WORK = os.path.join(os.path.dirname(HERE), ".work")          # every temporary file goes below this directory
CASES_PER_FILE = 300
INF = math.inf
NAN = math.nan

import lbfgsb.cauchy as CM  # noqa: E402
from lbfgsb.bfgsmats import LBFGSB_MATRICES, update_lbfgs_matrices  # noqa: E402


# ----------------------------------------------------------------------------------------------------
# bits
# ----------------------------------------------------------------------------------------------------
def fkey(v):
    """bit pattern of a float, all NaNs identified"""
    v = float(v)
    if v != v:
        return "nan"
    return struct.pack("<d", v)


def vkey(a):
    return tuple(fkey(v) for v in np.asarray(a, dtype=float).ravel())


def same_bits(a, b):
    a = np.asarray(a, dtype=float)
    b = np.asarray(b, dtype=float)
    return a.shape == b.shape and vkey(a) == vkey(b)


# ----------------------------------------------------------------------------------------------------
# AST instrumentation of the current source
# ----------------------------------------------------------------------------------------------------
KIND_BY_SOURCE = {
    "mats.W.T @ d": "WTd",
    "d.dot(d)": "dd",
    "p.dot(bmv(mats.invMfactors, p))": "pMp",
    "W_b.dot(bmv(mats.invMfactors, c))": "wMc",
    "W_b.dot(bmv(mats.invMfactors, 2 * p + g_b * W_b))": "wMv",
}


class _Rewriter(ast.NodeTransformer):
    def __init__(self):
        self.sites = []

    def visit_BinOp(self, node):
        src = ast.unparse(node)
        self.generic_visit(node)
        if isinstance(node.op, ast.MatMult):
            self.sites.append(src)
            return ast.copy_location(
                ast.Call(ast.Name("__rec_matmul", ast.Load()), [node.left, node.right, ast.Constant(src)], []), node)
        return node

    def visit_Call(self, node):
        src = ast.unparse(node)
        self.generic_visit(node)
        f = node.func
        if isinstance(f, ast.Attribute) and f.attr == "dot" and len(node.args) == 1 and not node.keywords:
            a = node.args[0]
            self.sites.append(src)
            if isinstance(a, ast.Call) and isinstance(a.func, ast.Name) and a.func.id == "bmv" and len(a.args) == 2:
                return ast.copy_location(
                    ast.Call(ast.Name("__rec_dot_bmv", ast.Load()), [f.value, a.args[0], a.args[1], ast.Constant(src)], []),
                    node)
            return ast.copy_location(
                ast.Call(ast.Name("__rec_dot", ast.Load()), [f.value, a, ast.Constant(src)], []), node)
        return node


class Recorder:
    def __init__(self):
        self.log = []

    def _kind(self, src):
        k = KIND_BY_SOURCE.get(src)
        if k is None:
            raise RuntimeError("BLAS expression of the current source unknown to the model: %r" % src)
        return k

    def matmul(self, A, B, src):
        r = A @ B
        self.log.append((self._kind(src), (np.array(B, dtype=float, copy=True),), np.array(r, dtype=float, copy=True)))
        return r

    def dot(self, a, b, src):
        r = a.dot(b)
        self.log.append((self._kind(src), (np.array(a, dtype=float, copy=True),), float(r)))
        return r

    def dot_bmv(self, a, F, v, src):
        r = a.dot(CM.bmv(F, v))
        k = self._kind(src)
        if k == "pMp":
            ins = (np.array(v, dtype=float, copy=True),)
        else:
            ins = (np.array(a, dtype=float, copy=True), np.array(v, dtype=float, copy=True))
        self.log.append((k, ins, float(r)))
        return r


_INSTR = {}


def instrumented():
    """(function, recorder, sites): the instrumented copy of the CURRENT source of get_cauchy_point"""
    if "f" in _INSTR:
        return _INSTR["f"], _INSTR["rec"], _INSTR["sites"]
    path = inspect.getsourcefile(CM)
    with open(path) as fh:
        tree = ast.parse(fh.read())
    fn = next(n for n in tree.body if isinstance(n, ast.FunctionDef) and n.name == "get_cauchy_point")
    rw = _Rewriter()
    fn = rw.visit(fn)
    mod = ast.Module([fn], [])
    ast.fix_missing_locations(mod)
    rec = Recorder()
    ns = dict(CM.__dict__)
    ns.update(__rec_matmul=rec.matmul, __rec_dot=rec.dot, __rec_dot_bmv=rec.dot_bmv)
    exec(compile(mod, path + "<instrumented>", "exec"), ns)
    missing = set(KIND_BY_SOURCE) - set(rw.sites)
    extra = set(rw.sites) - set(KIND_BY_SOURCE)
    if missing or extra:
        raise RuntimeError("source of get_cauchy_point changed: BLAS sites missing %r, unknown %r" % (missing, extra))
    _INSTR.update(f=ns["get_cauchy_point"], rec=rec, sites=rw.sites)
    return _INSTR["f"], rec, rw.sites


class _ListHandler(logging.Handler):
    def __init__(self):
        super().__init__()
        self.lines = []

    def emit(self, record):
        self.lines.append(record.getMessage())


_RE_FIX = re.compile(r"Variable\s+(\d+) is fixed")


# ----------------------------------------------------------------------------------------------------
# inputs
# ----------------------------------------------------------------------------------------------------
SPECIALS = [INF, -INF, NAN, 1e308, -1e308, 1.7976931348623157e308, 5e-324, -5e-324, 1e-310, 2.2250738585072014e-308,
            0.0, -0.0, 1.0, -1.0, 1e-300, 1e300, 1e154, 1e-154]


def _val(rng, dyadic, lo, hi):
    if dyadic:
        return int(rng.integers(int(lo * 16), int(hi * 16) + 1)) / 16.0
    return float(rng.uniform(lo, hi))


def _memory(rng, n, pairs, dyadic):
    """X, G of a quadratic with SPD Hessian (s'y > 0), through which the REAL update builds W, theta, factors"""
    if pairs == 0:
        return [], []
    if dyadic:
        C = rng.integers(-2, 3, (n, n)) / 2.0
        A = C @ C.T + np.eye(n) * (int(rng.integers(1, 5)) / 2.0)
    else:
        C = rng.normal(size=(n, n))
        A = C @ C.T + np.eye(n) * rng.uniform(0.05, 2.0)
        A *= 10.0 ** rng.uniform(-2, 2)
    X = [rng.integers(-8, 9, n) / 4.0 if dyadic else rng.normal(size=n)]
    for _ in range(pairs):
        s = rng.integers(-4, 5, n) / 4.0 if dyadic else rng.normal(size=n) * 10.0 ** rng.uniform(-2, 1)
        while not s.any():
            s = rng.integers(-4, 5, n) / 4.0
        X.append(X[-1] + s)
    G = [A @ v for v in X]
    return X, G


def build_mats(n, X, G, maxcor):
    mats = LBFGSB_MATRICES(n)
    if len(X):
        Xd, Gd = deque([np.array(X[0], dtype=float)]), deque([np.array(G[0], dtype=float)])
        for xk, gk in zip(X[1:], G[1:]):
            mats = update_lbfgs_matrices(np.array(xk, dtype=float), np.array(gk, dtype=float), Xd, Gd, maxcor, mats, False)
    return mats


def gen_regular(rng):
    n = int(rng.integers(1, 9))
    dyadic = rng.random() < 0.45
    near = rng.random() < 0.6                  # narrow boxes: many breakpoints are passed before the minimiser
    pairs = int(rng.choice([0, 1, 2, 3, 4], p=[0.2, 0.25, 0.25, 0.15, 0.15]))
    x, g, lb, ub = [], [], [], []
    for _ in range(n):
        pos = rng.choice(["L", "U", "I", "I", "I", "D"])
        lf, uf = rng.random() < 0.8, rng.random() < 0.8
        w = 0.5 if near else 3.0
        lo = -_val(rng, dyadic, 0.0625, w)
        hi = _val(rng, dyadic, 0.0625, w)
        if pos == "L":
            xi, lf = lo, True
        elif pos == "U":
            xi, uf = hi, True
        elif pos == "D":
            xi = hi = lo
            lf = uf = True
        else:
            xi = _val(rng, dyadic, lo, hi)
        sg = rng.choice([-1, -1, 0, 1, 1])
        gi = sg * _val(rng, dyadic, 0.0625, 3.0)
        if sg == 0 and rng.random() < 0.5:
            gi = -0.0
        x.append(xi), g.append(gi), lb.append(lo if lf else -INF), ub.append(hi if uf else INF)
    tie = rng.choice(["", "", "dup", "same_t", "same_t_all"])
    if tie == "dup" and n >= 2:
        # duplicate variables (possibly rescaled by a power of two: the quotient is the same float)
        for _ in range(int(rng.integers(1, 3))):
            i, j = rng.choice(n, 2, replace=False)
            sc = 2.0 ** int(rng.integers(-2, 3))
            x[j], g[j], lb[j], ub[j] = x[i] * sc, g[i] * sc, lb[i] * sc, ub[i] * sc
    elif tie.startswith("same_t"):
        mv = [i for i in range(n) if g[i] != 0]
        if tie == "same_t":
            mv = mv[:2]
        tc = int(rng.integers(1, 17)) / 8.0
        for i in mv:
            b = x[i] - tc * g[i]
            if g[i] < 0:
                ub[i] = b
                lb[i] = min(lb[i], x[i])
            else:
                lb[i] = b
                ub[i] = max(ub[i], x[i])
    X, G = _memory(rng, n, pairs, dyadic)
    mats = build_mats(n, X, G, max(pairs, 1))
    if rng.random() < 0.5:
        # larger gradient (power of two): the breakpoints come earlier, more of them are passed
        sc = 2.0 ** int(rng.integers(1, 8))
        g = [v * sc for v in g]
    return dict(stream="regular", n=n, x=x, g=g, lb=lb, ub=ub, mats=mats, pairs=pairs, tie=tie)


def gen_adversarial(rng):
    c = gen_regular(rng)
    c["stream"] = "adversarial"
    n = c["n"]
    if rng.random() < 0.5:
        # no memory: nothing goes through scipy.linalg.solve_triangular (which refuses inf / NaN)
        c["mats"], c["pairs"] = LBFGSB_MATRICES(n), 0
    mode = rng.choice(["vec", "vec", "mats", "both", "outside", "scale", "scale", "nan", "nan"])
    if mode == "nan":
        # NaN breakpoints (NaN gradient, NaN bound, inf - inf, 0 / 0): they sort last and are filtered out by t > 0
        for _ in range(int(rng.integers(1, 4))):
            name = str(rng.choice(["g", "g", "lb", "ub", "x"]))
            c[name][int(rng.integers(0, n))] = float(rng.choice([NAN, NAN, INF, -INF]))
    if mode == "scale":
        # huge / tiny magnitudes: overflow, underflow and subnormal results of the element-wise arithmetic
        for name in ("x", "g", "lb", "ub"):
            e = float(rng.choice([-320.0, -308.0, -300.0, -160.0, 0.0, 150.0, 300.0, 307.0]))
            with np.errstate(all="ignore"):
                c[name] = [float(np.float64(v) * np.float64(10.0) ** np.float64(e)) for v in c[name]]
        if rng.random() < 0.5:
            c["mats"].theta = float(10.0 ** rng.uniform(-300, 300))
    def poke(v, k):
        for _ in range(k):
            v[int(rng.integers(0, len(v)))] = float(rng.choice(SPECIALS))
    if mode in ("vec", "both"):
        for name in ("x", "g", "lb", "ub"):
            if rng.random() < 0.6:
                poke(c[name], int(rng.integers(1, 3)))
    if mode == "outside":
        # x outside the box, inverted bounds: negative breakpoints
        for i in range(n):
            if rng.random() < 0.5:
                c["x"][i] += float(rng.choice([-4.0, 4.0]))
            if rng.random() < 0.2:
                c["lb"][i], c["ub"][i] = c["ub"][i], c["lb"][i]
    if mode in ("mats", "both"):
        m = c["mats"]
        W = np.array(m.W, dtype=float, copy=True)
        for _ in range(int(rng.integers(0, 3))):
            W[int(rng.integers(0, W.shape[0])), int(rng.integers(0, W.shape[1]))] = float(rng.choice(SPECIALS))
        if not m.use_factor and rng.random() < 0.5:
            W = rng.normal(size=W.shape)         # no memory but an arbitrary W: p = W.T @ d is arbitrary
        m.W = W
        if rng.random() < 0.6:
            m.theta = float(rng.choice(SPECIALS + [-2.0, 0.5, 1e-17, 1e17]))
    return c


def dense_B(mats, n):
    """B = theta * I - W M W' with M v = bmv(invMfactors, v) (used only to DESIGN inputs)"""
    if not mats.use_factor:
        return mats.theta * np.eye(n)
    k = mats.W.shape[1]
    M = np.column_stack([CM.bmv(mats.invMfactors, np.eye(k)[:, j]) for j in range(k)])
    return mats.theta * np.eye(n) - mats.W @ M @ mats.W.T


def gen_tie_exit(rng):
    """All breakpoints exactly tied and a memory such that f' changes sign after fixing the first tied variable: the
    loop leaves through `break` ON a tied breakpoint (delta_t = 0), the pattern of the repaired mask defect."""
    for _ in range(200):
        n = int(rng.integers(2, 6))
        pairs = int(rng.integers(1, min(n, 3) + 1))
        X, G = _memory(rng, n, pairs, True)
        try:
            mats = build_mats(n, X, G, pairs)
            B = dense_B(mats, n)
        except Exception:  # noqa: BLE001
            continue
        if not np.all(np.isfinite(B)) or np.linalg.eigvalsh((B + B.T) / 2).min() <= 1e-6:
            continue
        for _ in range(20):
            d = np.array([_val(rng, True, 0.0625, 3.0) * int(rng.choice([-1, 1])) for _ in range(n)])
            d1 = d.copy()
            d1[0] = 0.0
            den = d1 @ (B @ d)
            if den <= 0:
                continue
            lo_t, hi_t = (d1 @ d1) / den, (d @ d) / (d @ (B @ d))
            cands = [k / 64.0 for k in range(1, 257) if lo_t * 1.01 < k / 64.0 < hi_t * 0.99]
            if not cands:
                continue
            tc = float(rng.choice(cands))
            x = [_val(rng, True, -1.0, 1.0) for _ in range(n)]
            g = (-d).tolist()
            lb = [x[i] - tc * g[i] if g[i] > 0 else x[i] - _val(rng, True, 0, 1.0) for i in range(n)]
            ub = [x[i] - tc * g[i] if g[i] < 0 else x[i] + _val(rng, True, 0, 1.0) for i in range(n)]
            return dict(stream="tie_exit", n=n, x=x, g=g, lb=lb, ub=ub, mats=mats, pairs=pairs, tie="same_t_all")
    return gen_regular(rng)


def gen_f2_zero(rng):
    """One variable, hand-made 1 x 1 factors, negative subnormal-scale theta: after the variable is fixed f_second is
    exactly +0.0 while eps_f_sec * f2_org is -0.0, and f_prime keeps a rounding residue: the result depends on WHICH of
    the two zeros Python's max(f_second, eps_f_sec * f2_org) returns (the first one)."""
    w = 2.0 ** int(rng.integers(-2, 3))
    a = float(rng.uniform(0.5, 2.0))
    b = -float(rng.uniform(0.5, 2.0))
    gb = float(rng.uniform(0.5, 2.0)) * float(rng.choice([-1.0, 1.0]))
    tc = float(rng.uniform(0.05, 0.9)) * abs(a * b) / (w * w)
    mats = LBFGSB_MATRICES(1)
    mats.W = np.array([[w]])
    mats.invMfactors = (np.array([[a]]), np.array([[b]]))
    mats.theta = -(2.0 ** -int(rng.integers(1030, 1060)))
    x = [float(rng.uniform(-1, 1))]
    lb, ub = ([x[0] - tc * gb], [x[0] + 1.0]) if gb > 0 else ([x[0] - 1.0], [x[0] - tc * gb])
    return dict(stream="f2_zero", n=1, x=x, g=[gb], lb=lb, ub=ub, mats=mats, pairs=0, tie="")


# regression inputs run first
def _corpus():
    out = []
    # witness of the (repaired) tied-breakpoint mask defect
    X = [np.array([1.5, -0.5]), np.array([0.5, 1.5])]
    G = [np.array([0.25, -1.375]), np.array([1.75, 1.625])]
    out.append(dict(stream="corpus", n=2, x=[0.0, 0.0], g=[-1.0, -0.25], lb=[-1.0, -1.0], ub=[0.125, 0.03125],
                    mats=build_mats(2, X, G, 3), pairs=1, tie="same_t_all"))
    out.append(dict(stream="corpus", n=3, x=[0.0, 0.0, 0.0], g=[1.0, -1.0, -2.0], lb=[0.0, -1.0, -1.0], ub=[1.0, 2.0, 1.0],
                    mats=LBFGSB_MATRICES(3), pairs=0, tie=""))
    out.append(dict(stream="corpus", n=3, x=[0.0, 0.0, 0.0], g=[-2.0, -1.0, -4.0], lb=[-1.0, -1.0, -1.0], ub=[1.0, 0.5, 2.0],
                    mats=LBFGSB_MATRICES(3), pairs=0, tie="same_t_all"))
    # all gradients zero: every t is inf, inf - inf = nan in delta_t
    out.append(dict(stream="corpus", n=3, x=[0.0, 0.5, 1.0], g=[0.0, -0.0, 0.0], lb=[-1.0, -1.0, -1.0], ub=[1.0, 1.0, 2.0],
                    mats=LBFGSB_MATRICES(3), pairs=0, tie=""))
    # unbounded problem: all t inf with nonzero d
    out.append(dict(stream="corpus", n=2, x=[0.0, 0.5], g=[1.0, -2.0], lb=[-INF, -INF], ub=[INF, INF],
                    mats=LBFGSB_MATRICES(2), pairs=0, tie=""))
    # NaN gradient / NaN bound
    out.append(dict(stream="corpus", n=3, x=[0.0, 0.5, 0.25], g=[NAN, -2.0, 1.0], lb=[-1.0, NAN, -1.0], ub=[1.0, 1.0, NAN],
                    mats=LBFGSB_MATRICES(3), pairs=0, tie=""))
    return out


def gen_cases(n_cases, seed):
    rng = np.random.default_rng([seed, 20261001])
    cases = _corpus()
    while len(cases) < n_cases:
        u = rng.random()
        cases.append(gen_adversarial(rng) if u < 0.25 else gen_tie_exit(rng) if u < 0.31 else gen_f2_zero(rng) if u < 0.33
                     else gen_regular(rng))
    cases = cases[:n_cases]
    for k, c in enumerate(cases):
        c["id"] = k
    return cases


# ----------------------------------------------------------------------------------------------------
# the real code and its instrumented copy
# ----------------------------------------------------------------------------------------------------
def arrays(case):
    return (np.array(case["x"], dtype=float), np.array(case["g"], dtype=float),
            np.array(case["lb"], dtype=float), np.array(case["ub"], dtype=float))


def run_real(case):
    x, g, lb, ub = arrays(case)
    try:
        with warnings.catch_warnings():
            warnings.simplefilter("ignore")
            with np.errstate(all="ignore"):
                xcp, c = CM.get_cauchy_point(x, g, lb, ub, case["mats"], 1, -1, None)
        return (np.array(xcp, dtype=float), np.array(c, dtype=float)), None
    except Exception as e:  # noqa: BLE001
        return None, type(e).__name__


def run_instrumented(case):
    f, rec, _ = instrumented()
    rec.log = []
    logger = logging.Logger("fcauchy")
    h = _ListHandler()
    logger.addHandler(h)
    x, g, lb, ub = arrays(case)
    try:
        with warnings.catch_warnings():
            warnings.simplefilter("ignore")
            with np.errstate(all="ignore"):
                xcp, c = f(x, g, lb, ub, case["mats"], 1, 100, logger)
    except Exception as e:  # noqa: BLE001
        return None, type(e).__name__
    fixed = [int(m.group(1)) - 1 for m in (_RE_FIX.search(ln) for ln in h.lines) if m]
    found = any(ln.startswith("GCP found") for ln in h.lines)
    return dict(xcp=np.array(xcp, dtype=float), c=np.array(c, dtype=float), fixed=fixed, found=found, log=list(rec.log)), None


def coverage(case, out, cov):
    """coverage facts recomputed with the NumPy expressions of the source"""
    x, g, lb, ub = arrays(case)
    with np.errstate(all="ignore"):
        t = np.zeros_like(g)
        mask = g != 0
        t[mask] = np.where(g[mask] < 0, (x - ub)[mask] / g[mask], (x - lb)[mask] / g[mask])
        t[g == 0] = np.inf
        d = np.where(t == 0, 0.0, -g)
        idx = np.argsort(t, kind="stable")
        idx = idx[t[idx] > 0]
    nb = len(idx)
    fixed, found = out["fixed"], out["found"]
    cov["iterations"][len(fixed)] += 1
    tpos = t[idx]
    fin = tpos[np.isfinite(tpos)]
    if len(fin) != len(set(fin.tolist())):
        cov["cases_with_tied_finite_breakpoints"] += 1
    if (tpos == np.inf).sum() >= 1:
        cov["cases_with_inf_breakpoints"] += 1
    if np.isnan(t).any():
        cov["cases_with_nan_breakpoints"] += 1
    if (t < 0).any():
        cov["cases_with_negative_breakpoints"] += 1
    if nb == 0:
        cov["exit_no_breakpoint"] += 1
    elif found:
        cov["exit_break_dtm_lt_dt"] += 1
        k = len(fixed)
        if k > 0 and t[idx[k]] == t[fixed[-1]]:
            cov["exit_break_on_tied_breakpoint"] += 1
        if k == 0:
            cov["exit_break_first_segment"] += 1
    else:
        cov["exit_list_exhausted"] += 1
    if nb:
        d2 = d.copy()
        d2[fixed] = 0
        mv = int((d2 != 0).sum())
        cov["final_move_components"][mv] += 1
        cov["final_move_total"] += mv
        on_bound = sum(1 for i in fixed if d[i] > 0 or d[i] < 0)
        cov["fixed_on_bound_total"] += on_bound
        cov["fixed_without_move_total"] += len(fixed) - on_bound
    if np.isnan(out["xcp"]).any() or np.isnan(out["c"]).any():
        cov["cases_with_nan_output"] += 1
    if np.isinf(out["xcp"]).any() or np.isinf(out["c"]).any():
        cov["cases_with_inf_output"] += 1
    if fixed != list(idx[:len(fixed)]):
        cov["fixed_not_prefix_of_sorted"] += 1          # must stay 0 (P3)
    cov["use_factor" if case["mats"].use_factor else "no_memory"] += 1
    cov["oracle_calls"] += len(out["log"])


# ----------------------------------------------------------------------------------------------------
# Coq case files
# ----------------------------------------------------------------------------------------------------
def lit(v):
    v = float(v)
    if v != v:
        return "nan"
    if v == INF:
        return "infinity"
    if v == -INF:
        return "neg_infinity"
    h = v.hex()
    return "(%s)" % h if h.startswith("-") else h


def vlit(a):
    return "[" + "; ".join(lit(v) for v in np.asarray(a, dtype=float).ravel()) + "]"


def coq_case(case, out):
    tabs = {"WTd": [], "dd": [], "pMp": [], "wMc": [], "wMv": []}
    for kind, ins, res in out["log"]:
        if kind == "WTd":
            tabs[kind].append("(%s, %s)" % (vlit(ins[0]), vlit(res)))
        elif kind in ("dd", "pMp"):
            tabs[kind].append("(%s, %s)" % (vlit(ins[0]), lit(res)))
        else:
            tabs[kind].append("(%s, %s, %s)" % (vlit(ins[0]), vlit(ins[1]), lit(res)))
    m = case["mats"]
    W = np.asarray(m.W, dtype=float)
    Wl = "[" + "; ".join(vlit(W[i, :]) for i in range(W.shape[0])) + "]"
    x, g, lb, ub = arrays(case)
    i = case["id"]
    return ("Eval vm_compute in (%d%%nat, check (fgcp_full (table_oracles [%s] [%s] [%s] [%s] [%s]) %s %s %s %s %s %s %s) "
            "%s %s [%s] %s).\n"
            % (i, "; ".join(tabs["WTd"]), "; ".join(tabs["dd"]), "; ".join(tabs["pMp"]), "; ".join(tabs["wMc"]),
               "; ".join(tabs["wMv"]), vlit(x), vlit(g), vlit(lb), vlit(ub), lit(m.theta), Wl,
               "true" if m.use_factor else "false", vlit(out["xcp"]), vlit(out["c"]),
               "; ".join("%d%%nat" % k for k in out["fixed"]), "true" if out["found"] else "false"))


HEADER = ("From Coq Require Import List Floats.PrimFloat.\nFrom LBFGSB Require Import Model.FloatVec Model.FCauchy.\n"
          "Import ListNotations.\nLocal Open Scope float_scope.\n")
LINE = re.compile(r"=\s*\(\s*(\d+)(?:%nat)?\s*,\s*(\d+)(?:%nat)?\s*\)")


def run_coq(path, coq_dir):
    t0 = time.time()
    p = subprocess.run(["timeout", "600", "coqc", "-Q", coq_dir, "LBFGSB", path], capture_output=True, text=True)
    out = re.sub(r"\s+", " ", p.stdout)
    return p.returncode, [tuple(map(int, m.groups())) for m in LINE.finditer(out)], p.stderr, time.time() - t0


def ensure_model(coq_dir):
    for rel in ("Model/FloatVec", "Model/FCauchy"):
        v, vo = os.path.join(coq_dir, rel + ".v"), os.path.join(coq_dir, rel + ".vo")
        if not os.path.exists(vo) or os.path.getmtime(vo) < os.path.getmtime(v):
            subprocess.run(["timeout", "600", "coqc", "-Q", coq_dir, "LBFGSB", v], check=True)


def describe(case):
    m = case["mats"]
    return dict(id=case["id"], stream=case["stream"], n=case["n"], pairs=case["pairs"], tie=case["tie"],
                x=[float(v).hex() for v in case["x"]], g=[float(v).hex() for v in case["g"]],
                lb=[float(v).hex() for v in case["lb"]], ub=[float(v).hex() for v in case["ub"]],
                theta=float(m.theta).hex(), use_factor=bool(m.use_factor),
                W=[[float(v).hex() for v in r] for r in np.asarray(m.W, dtype=float)],
                invMfactors=[[[float(v).hex() for v in r] for r in np.asarray(F, dtype=float)] for F in m.invMfactors])


def _cleanup_cases(case_dir, failures):
    """case files are kept only when something disagreed (they are the replay)"""
    import shutil
    if not failures:
        shutil.rmtree(case_dir, ignore_errors=True)


def run(tier="quick", seed=0, coq_dir=HERE, case_dir=None, per_file=CASES_PER_FILE, jobs=None):
    n_cases = {"quick": 600, "thorough": 10000}[tier] if isinstance(tier, str) else int(tier)
    t_start = time.time()
    ensure_model(coq_dir)
    case_dir = case_dir or os.path.join(WORK, "fcauchy_cases_%s_%d" % (tier, seed))
    os.makedirs(case_dir, exist_ok=True)
    for fn in os.listdir(case_dir):
        os.remove(os.path.join(case_dir, fn))

    cases = gen_cases(n_cases, seed)
    failures = []
    stats = dict(cases=len(cases), compared=0, python_raised=Counter(), instrumented_mismatch=0, oracle_conflicts=0,
                 streams=Counter(), disagreements=0)
    cov = Counter()
    cov["iterations"] = Counter()
    cov["final_move_components"] = Counter()
    texts, ids = [], []
    outs = {}
    for case in cases:
        stats["streams"][case["stream"]] += 1
        real, exc = run_real(case)
        out, exc2 = run_instrumented(case)
        if exc is not None or exc2 is not None:
            if exc != exc2:
                stats["instrumented_mismatch"] += 1
                failures.append(dict(kind="instrumented copy and real function do not raise alike", real=exc, instrumented=exc2,
                                     input=describe(case)))
            stats["python_raised"][exc or exc2] += 1
            continue
        if not (same_bits(real[0], out["xcp"]) and same_bits(real[1], out["c"])):
            stats["instrumented_mismatch"] += 1
            failures.append(dict(kind="instrumented copy differs from the real function", input=describe(case)))
            continue
        # an oracle asked twice with the same arguments must give the same answer (association lists)
        seen = {}
        for kind, ins, res in out["log"]:
            k = (kind,) + tuple(vkey(a) for a in ins)
            r = vkey(res)
            if k in seen and seen[k] != r:
                stats["oracle_conflicts"] += 1
            seen.setdefault(k, r)
        coverage(case, out, cov)
        outs[case["id"]] = out
        texts.append(coq_case(case, out))
        ids.append(case["id"])
    stats["compared"] = len(ids)

    files = []
    for k in range(0, len(texts), per_file):
        path = os.path.join(case_dir, "fcauchy_cases_%03d.v" % (k // per_file))
        with open(path, "w") as fh:
            fh.write(HEADER)
            fh.writelines(texts[k:k + per_file])
        files.append(path)
    t_gen = time.time()
    jobs = jobs or min(16, os.cpu_count() or 4)
    with ThreadPoolExecutor(jobs) as ex:
        results = list(ex.map(lambda p: run_coq(p, coq_dir), files))
    by_id = {c["id"]: c for c in cases}
    seen_ids = set()
    codes = Counter()
    # the fixed-index list and the found flag are read from two log messages of the function; when the current source words
    # them differently (a harmless edit) those two fields cannot be extracted and are not compared (x_cp and c always are)
    with open(inspect.getsourcefile(CM)) as fh:
        src_text = fh.read()
    log_ok = ("is fixed." in src_text) and ("GCP found in this segment" in src_text)
    stats["log_based_fields_compared"] = log_ok
    for path, (rc, lines, err, _dt) in zip(files, results):
        if rc != 0:
            failures.append(dict(kind="coqc failed", file=path, rc=rc, stderr=err[-2000:]))
        for (i, code) in lines:
            seen_ids.add(i)
            if not log_ok:
                code &= 3
            codes[code] += 1
            if code:
                stats["disagreements"] += 1
                o = outs[i]
                failures.append(dict(kind="model differs from get_cauchy_point", code=code,
                                     differs=[nm for b, nm in ((1, "x_cp"), (2, "c"), (4, "fixed"), (8, "found")) if code & b],
                                     input=describe(by_id[i]),
                                     python=dict(xcp=[float(v).hex() for v in o["xcp"]], c=[float(v).hex() for v in o["c"]],
                                                 fixed=o["fixed"], found=o["found"])))
    missing = [i for i in ids if i not in seen_ids]
    if missing:
        failures.append(dict(kind="no Coq output line", ids=missing[:20], count=len(missing)))
    stats["coq_files"] = len(files)
    stats["output_lines"] = len(seen_ids)
    stats["codes"] = dict(codes)
    stats["coq_file_seconds_max"] = round(max((r[3] for r in results), default=0.0), 1)
    stats["seconds_python"] = round(t_gen - t_start, 1)
    stats["seconds_coq_wall"] = round(time.time() - t_gen, 1)
    stats["python_raised"] = dict(stats["python_raised"])
    stats["streams"] = dict(stats["streams"])
    stats["coverage"] = {k: (dict(sorted(v.items())) if isinstance(v, Counter) else v) for k, v in sorted(cov.items())}
    _cleanup_cases(case_dir, failures)
    return failures, stats


if __name__ == "__main__":
    tier = sys.argv[1] if len(sys.argv) > 1 else "quick"
    seed = int(sys.argv[2]) if len(sys.argv) > 2 else 0
    fails, st = run(tier, seed)
    print(json.dumps(st, indent=1, default=str))
    print("FAILURES:", len(fails))
    for f in fails[:8]:
        print(json.dumps(f, default=str)[:3000])
