"""Correspondence between the Coq model LBFGSB.Cauchy.gcp (exact rationals) and the real
lbfgsb.cauchy.get_cauchy_point (float64), plus an independent dense float oracle.

    run(tier, seed=0, coq_dir=<dir with the compiled .vo, logical root LBFGSB>) -> (failures, stats)
    check_against_oracle(case) -> None | str

Inputs: every number is a small dyadic rational (exact in float64), the memory is built by the REAL
lbfgsb.bfgsmats.update_lbfgs_matrices from (X, G) deques with positive curvature.  The middle matrix M is
computed here exactly (fractions) from S, Y; the Coq side rebuilds W, theta, M^-1 from S, Y and checks
M * M^-1 == I exactly before using M (flag minv_ok).

Compared: combinatorial outputs (fixed indices in order, bound reached, number of segments) must be EQUAL,
x_cp and c must agree to 1e-9 * (1 + |v|); variables the model puts exactly on a bound must be bitwise on
that bound in Python.  Cases where the model branched on a comparison with relative margin < 1e-6 are
counted 'ambiguous under rounding' and skipped (exact ties between breakpoints are NOT ambiguous: the float
quotients of equal exact quotients are equal, and they are compared).
"""
from __future__ import annotations

import ast
import itertools
import logging
import os
import re
import shutil
import subprocess
import sys
import tempfile
import time
import warnings
from collections import Counter, deque
from fractions import Fraction as Fr

import numpy as np

HERE = os.path.join(os.path.dirname(os.path.dirname(os.path.dirname(os.path.abspath(__file__)))), "coq")
EPS = float(np.finfo(float).eps)
INF = float("inf")
CASES_PER_FILE = 200


# ----------------------------------------------------------------------------------------------
# inputs
# ----------------------------------------------------------------------------------------------
def _dy(rng, lo, hi, den=16):
    """random multiple of 1/den in [lo, hi]"""
    return int(rng.integers(int(lo * den), int(hi * den) + 1)) / den


def _memory(rng, n, pairs):
    """(X, G) sequences (lists of n-vectors) of a quadratic with a dyadic SPD Hessian: s'y = s'As > 0."""
    if pairs == 0:
        return [], []
    C = rng.integers(-2, 3, (n, n)) / 2.0
    A = C @ C.T + np.eye(n) * (int(rng.integers(1, 5)) / 2.0)
    X = [rng.integers(-8, 9, n) / 4.0]
    for _ in range(pairs):
        s = rng.integers(-4, 5, n) / 4.0
        while not s.any():
            s = rng.integers(-4, 5, n) / 4.0
        X.append(X[-1] + s)
    G = [A @ v for v in X]
    return [v.tolist() for v in X], [v.tolist() for v in G]


# per-variable structural options: position x (L at lb, U at ub, I interior, D lb == ub), which sides are
# finite, sign of the gradient
_VAR_OPTS = [
    (pos, lf, uf, sg)
    for pos, lf, uf in (
        [("L", True, True), ("L", True, False), ("U", True, True), ("U", False, True), ("D", True, True)]
        + [("I", a, b) for a in (True, False) for b in (True, False)]
    )
    for sg in (-1, 0, 1)
]  # 27 options


def _structural(rng, pat, tie, pairs, kind="structural", near=None):
    n = len(pat)
    x, g, lb, ub = [], [], [], []
    if near is None:
        near = rng.random() < 0.5  # narrow box: many breakpoints are passed before the minimiser
    for pos, lf, uf, sg in pat:
        lo = -_dy(rng, 0.125, 0.5 if near else 2.0)
        hi = _dy(rng, 0.125, 0.5 if near else 2.0)
        if pos == "L":
            xi = lo
        elif pos == "U":
            xi = hi
        elif pos == "D":
            xi = hi = lo
        else:
            xi = _dy(rng, lo + 1 / 16, hi - 1 / 16)
        x.append(xi)
        lb.append(lo if lf else -INF)
        ub.append(hi if uf else INF)
        g.append(sg * _dy(rng, 1 / 16, 3.0))
    if tie:
        # all variables that move towards a finite bound reach it at the same dyadic t ('all'), or the
        # first two of them ('two')
        mv = [i for i in range(n) if g[i] != 0 and pat[i][0] != "D"
              and ((g[i] < 0 and ub[i] != INF and x[i] < ub[i]) or (g[i] > 0 and lb[i] != -INF and x[i] > lb[i]))]
        if tie == "two":
            mv = mv[:2]
        tc = int(rng.integers(1, 17)) / 8.0
        for i in mv:
            b = x[i] - tc * g[i]
            if g[i] < 0:
                ub[i] = b
            else:
                lb[i] = b
    X, G = _memory(rng, n, pairs)
    return dict(kind=kind, n=n, x=x, g=g, lb=lb, ub=ub, X=X, G=G, maxcor=max(pairs, 1),
                tag=dict(pattern="".join(p[0] for p in pat), tie=tie or "", pairs=pairs))


def _random_case(rng):
    n = int(rng.integers(1, 11))
    pairs = int(rng.choice([0, 1, 2, 3, 4, 5], p=[0.15, 0.25, 0.25, 0.15, 0.1, 0.1]))
    if rng.random() < 0.9:
        pairs = min(pairs, n)
    pat = [_VAR_OPTS[int(rng.integers(0, len(_VAR_OPTS)))] if rng.random() < 0.5
           else ("I", True, True, int(rng.choice([-1, 1]))) for _ in range(n)]
    tie = rng.choice(["", "", "two", "all"])
    return _structural(rng, pat, tie, pairs, kind="random")


def _tie_exit_case(rng):
    """Exact tie between all breakpoints + memory such that f' changes sign after fixing the first tied
    variable: the loop exits ON a tied breakpoint (the pattern of the repaired mask defect)."""
    for _ in range(200):
        n = int(rng.integers(2, 5))
        pairs = int(rng.integers(1, min(n, 3) + 1))
        X, G = _memory(rng, n, pairs)
        case = dict(kind="tie_exit", n=n, X=X, G=G, maxcor=pairs)
        try:
            mats = build_mats(case)
            B = dense_B(mats, n)
        except Exception:
            continue
        if not np.all(np.isfinite(B)) or np.linalg.eigvalsh((B + B.T) / 2).min() <= 1e-6:
            continue
        for _ in range(20):
            d = np.array([_dy(rng, 1 / 16, 3.0) * int(rng.choice([-1, 1])) for _ in range(n)])
            d1 = d.copy()
            d1[0] = 0.0
            Bd = B @ d
            den = d1 @ Bd
            if den <= 0:
                continue
            lo_t, hi_t = (d1 @ d1) / den, (d @ d) / (d @ Bd)
            cands = [k / 64.0 for k in range(1, 257) if lo_t * 1.01 < k / 64.0 < hi_t * 0.99]
            if not cands:
                continue
            tc = float(rng.choice(cands))
            x = [_dy(rng, -1.0, 1.0) for _ in range(n)]
            g = (-d).tolist()
            lb = [x[i] - tc * g[i] if g[i] > 0 else x[i] - _dy(rng, 0, 1.0) for i in range(n)]
            ub = [x[i] - tc * g[i] if g[i] < 0 else x[i] + _dy(rng, 0, 1.0) for i in range(n)]
            case.update(x=x, g=g, lb=lb, ub=ub, tag=dict(pattern="I" * n, tie="all", pairs=pairs))
            return case
    return None


# exact regression inputs (run first).  #0 is the witness of the tied-breakpoint mask defect
# (x_cp[t >= t_cur] put the fixed variable 0 back to x_0), repaired in /repo commit 2a903c7.
CORPUS = [
    dict(kind="corpus", n=2, x=[0.0, 0.0], g=[-1.0, -0.25], lb=[-1.0, -1.0], ub=[0.125, 0.03125],
         X=[[1.5, -0.5], [0.5, 1.5]], G=[[0.25, -1.375], [1.75, 1.625]], maxcor=3,
         tag=dict(pattern="II", tie="all", pairs=1)),
    # D1 pattern: variable 0 on its bound with outward gradient, rank != position
    dict(kind="corpus", n=3, x=[0.0, 0.0, 0.0], g=[1.0, -1.0, -2.0], lb=[0.0, -1.0, -1.0], ub=[1.0, 2.0, 1.0],
         X=[], G=[], maxcor=1, tag=dict(pattern="LII", tie="", pairs=0)),
    # tie, stable order matters: 3 tied variables, no memory
    dict(kind="corpus", n=3, x=[0.0, 0.0, 0.0], g=[-2.0, -1.0, -4.0], lb=[-1.0, -1.0, -1.0], ub=[1.0, 0.5, 2.0],
         X=[], G=[], maxcor=1, tag=dict(pattern="III", tie="all", pairs=0)),
]


def gen_cases(tier, seed=0):
    rng = np.random.default_rng([seed, 8])
    cases = [dict(c) for c in CORPUS]
    nmax = 2 if tier == "quick" else 3
    for n in range(1, nmax + 1):
        for pat in itertools.product(_VAR_OPTS, repeat=n):
            nmov = sum(1 for p in pat if p[3] != 0 and p[0] != "D")
            ties = [""] + (["all"] if nmov >= 2 else []) + (["two"] if nmov >= 3 else [])
            for tie in ties:
                for pairs in (0, 1, 2):
                    if n == 3 and pairs == 1 and tie != "all":
                        continue  # n = 3: one pair only with the full tie (keeps the thorough tier < 10 min)
                    cases.append(_structural(rng, pat, tie, pairs))
    nte = 300 if tier == "quick" else 3000
    for _ in range(nte):
        c = _tie_exit_case(rng)
        if c is not None:
            cases.append(c)
    nrand = 1000 if tier == "quick" else 8000
    for _ in range(nrand):
        cases.append(_random_case(rng))
    for k, c in enumerate(cases):
        c["id"] = k
    return cases


# ----------------------------------------------------------------------------------------------
# the real code
# ----------------------------------------------------------------------------------------------
def build_mats(case):
    from lbfgsb.bfgsmats import LBFGSB_MATRICES, update_lbfgs_matrices

    n = case["n"]
    mats = LBFGSB_MATRICES(n)
    if case["X"]:
        X = deque([np.array(case["X"][0], dtype=float)])
        G = deque([np.array(case["G"][0], dtype=float)])
        for xk, gk in zip(case["X"][1:], case["G"][1:]):
            mats = update_lbfgs_matrices(np.array(xk, dtype=float), np.array(gk, dtype=float), X, G,
                                         case["maxcor"], mats, False)
    return mats


class _ListHandler(logging.Handler):
    def __init__(self):
        super().__init__()
        self.lines = []

    def emit(self, record):
        self.lines.append(record.getMessage())


_RE_FIX = re.compile(r"Variable\s+(\d+) is fixed")
_RE_PIECE = re.compile(r"Piece\s*,\s*(\d+)")


def run_python(case, mats=None):
    """x_cp, c of the real get_cauchy_point + fixed order and number of segments read from its log."""
    from lbfgsb.cauchy import get_cauchy_point

    if mats is None:
        mats = build_mats(case)
    logger = logging.Logger("c08")
    h = _ListHandler()
    logger.addHandler(h)
    x = np.array(case["x"], dtype=float)
    with warnings.catch_warnings():
        warnings.simplefilter("ignore")
        with np.errstate(all="ignore"):
            xcp, c = get_cauchy_point(x.copy(), np.array(case["g"], dtype=float), np.array(case["lb"], dtype=float),
                                      np.array(case["ub"], dtype=float), mats, 1, 100, logger)
    fixed, nseg, nbreak = [], 0, 0
    for ln in h.lines:
        m = _RE_FIX.search(ln)
        if m:
            fixed.append(int(m.group(1)) - 1)
        if ln.startswith("There are"):
            nbreak = int(ln.split()[2])
    # nseg: 1 on entry of the loop, +1 per fixed variable; 0 when the function returned before the loop
    nseg = (1 + len(fixed)) if nbreak > 0 else 0
    pieces = [int(m.group(1)) for m in (_RE_PIECE.search(ln) for ln in h.lines) if m]
    if len(pieces) >= 2 and pieces[-1] == pieces[-2]:
        pieces.pop()  # the segment where the GCP is found is displayed a second time after the loop
    if pieces and pieces != list(range(1, len(pieces) + 1)):
        nseg = -1  # the displayed segment numbers are not 1, 2, 3, ...
    return np.asarray(xcp, dtype=float), np.asarray(c, dtype=float), fixed, nseg


# ----------------------------------------------------------------------------------------------
# exact memory matrices
# ----------------------------------------------------------------------------------------------
def _fr(v):
    return Fr(v)  # exact: every float is a dyadic rational


def _inv_exact(A):
    k = len(A)
    M = [list(row) + [Fr(int(i == j)) for j in range(k)] for i, row in enumerate(A)]
    for col in range(k):
        piv = next((r for r in range(col, k) if M[r][col] != 0), None)
        if piv is None:
            return None
        M[col], M[piv] = M[piv], M[col]
        pv = M[col][col]
        M[col] = [v / pv for v in M[col]]
        for r in range(k):
            if r != col and M[r][col] != 0:
                f = M[r][col]
                M[r] = [a - f * b for a, b in zip(M[r], M[col])]
    return [row[k:] for row in M]


def exact_memory(mats, n):
    """S, Y (n x m fractions), theta, W, Minv, M (exact) from the float object (S, Y are exact dyadics)."""
    if not mats.use_factor:
        return None
    S = [[_fr(v) for v in row] for row in mats.S.tolist()]
    Y = [[_fr(v) for v in row] for row in mats.Y.tolist()]
    m = len(S[0])
    sy = lambda A, B, a, b: sum(A[i][a] * B[i][b] for i in range(n))
    theta = sy(Y, Y, m - 1, m - 1) / sy(S, Y, m - 1, m - 1)
    W = [Y[i] + [theta * v for v in S[i]] for i in range(n)]
    Minv = [[Fr(0)] * (2 * m) for _ in range(2 * m)]
    for a in range(m):
        Minv[a][a] = -sy(S, Y, a, a)
        for b in range(m):
            if a > b:
                Minv[m + a][b] = sy(S, Y, a, b)
                Minv[b][m + a] = sy(S, Y, a, b)
            Minv[m + a][m + b] = theta * sy(S, S, a, b)
    M = _inv_exact(Minv)
    Mn = Md = None
    if M is not None:
        from math import lcm
        Md = lcm(*[v.denominator for row in M for v in row])
        Mn = [[v * Md for v in row] for row in M]  # integers
    return dict(S=S, Y=Y, m=m, theta=theta, W=W, Minv=Minv, M=M, Mn=Mn, Md=Fr(Md) if Md else None)


def check_float_memory(mats, ex, n):
    """the exact objects agree with the float ones the code uses (W, theta, and bmv on unit vectors)"""
    from lbfgsb.bfgsmats import bmv

    if ex is None or ex["M"] is None:
        return None
    W = np.array([[float(v) for v in row] for row in ex["W"]])
    if not np.allclose(W, mats.W, rtol=1e-12, atol=1e-12) or abs(float(ex["theta"]) - mats.theta) > 1e-12 * abs(mats.theta):
        return "exact W/theta differ from mats.W/mats.theta"
    Mf = np.array([[float(v) for v in row] for row in ex["M"]])
    k = Mf.shape[0]
    with np.errstate(all="ignore"):
        cols = np.column_stack([bmv(mats.invMfactors, np.eye(k)[:, j]) for j in range(k)])
    sc = 1.0 + np.abs(Mf).max()
    if not np.all(np.isfinite(cols)) or np.abs(cols - Mf).max() > 1e-7 * sc * sc:
        return "ill-conditioned"  # float bmv is far from the exact M: skipped, counted
    return None


# ----------------------------------------------------------------------------------------------
# Coq side
# ----------------------------------------------------------------------------------------------
def _q(v):
    f = Fr(v)
    num = str(f.numerator) if abs(f.numerator) < 10**9 else ("-" if f.numerator < 0 else "") + hex(abs(f.numerator))
    if f.denominator != 1:
        den = str(f.denominator) if f.denominator < 10**9 else hex(f.denominator)
        return f"({num}#{den})"
    return num if f >= 0 else f"({num})"


def _ql(vs):
    return "[" + ";".join(_q(v) for v in vs) + "]"


def _qm(rows):
    return "[" + ";".join(_ql(r) for r in rows) + "]"


def _bnd(vs):
    return "[" + ";".join("None" if abs(v) == INF else f"Some {_q(v)}" for v in vs) + "]"


def case_to_coq(case, ex):
    if ex is None:
        S = Y = "[]"
        m, stream = 0, "[]"
    else:
        S, Y, m = _qm(ex["S"]), _qm(ex["Y"]), ex["m"]
        ints = [int(ex["Md"])] + [int(v) for row in ex["Mn"] for v in row]
        stream = "[" + ";".join(_limbs(v) for v in ints) + "]%uint63"
    return (f"Eval vm_compute in (run_case {case['id']}%Z {_ql(case['x'])} {_ql(case['g'])} "
            f"{_bnd(case['lb'])} {_bnd(case['ub'])} {S} {Y} {m}%nat {stream}).\n")


def _limbs(v):
    """header 2*nlimbs + sign, then little-endian base-2^60 limbs"""
    a, out = abs(v), []
    while a:
        out.append(a & ((1 << 60) - 1))
        a >>= 60
    return ";".join(str(t) for t in [2 * len(out) + (1 if v < 0 else 0)] + out)


_HEADER = """From Coq Require Import QArith List ZArith Uint63.
Import ListNotations.
From LBFGSB Require Import Model.Cauchy Model.CauchyRun.
Open Scope Q_scope.
Set Printing Width 10000000.
Set Printing Depth 1000000.
"""


def run_coq(items, coq_dir, workdir, jobs=8):
    """items: list of (case, coq command line).  Returns {id: parsed tuple}."""
    files = []
    nfiles = max(1, -(-len(items) // CASES_PER_FILE))
    for k in range(nfiles):  # round robin: every file gets the same mix of cheap and expensive cases
        p = os.path.join(workdir, f"c08_cases_{k:04d}.v")
        with open(p, "w") as f:
            f.write(_HEADER)
            for _case, line in items[k::nfiles]:
                f.write(line)
        files.append(p)
    cmd = (f"ls {workdir}/c08_cases_*.v | xargs -P{jobs} -I{{}} sh -c "
           f"'timeout 900 coqc -Q {coq_dir} LBFGSB {{}} > {{}}.out 2> {{}}.err || echo FAIL {{}} >> {workdir}/failed'")
    subprocess.run(cmd, shell=True, check=False)
    if os.path.exists(os.path.join(workdir, "failed")):
        bad = open(os.path.join(workdir, "failed")).read()
        err = ""
        for ln in bad.split():
            if ln.endswith(".v") and os.path.exists(ln + ".err"):
                err = open(ln + ".err").read()[:2000]
                break
        raise RuntimeError("coqc failed on generated case files:\n" + bad + err)
    out = {}
    for p in files:
        for ln in open(p + ".out"):
            ln = ln.strip()
            if not ln.startswith("= "):
                continue
            t = ast.literal_eval(ln[2:].replace("%Z", "").replace("%nat", "").replace(";", ","))
            out[t[0]] = t
    return out


# ----------------------------------------------------------------------------------------------
# dense float oracle
# ----------------------------------------------------------------------------------------------
def dense_B(mats, n):
    if not mats.use_factor:
        return mats.theta * np.eye(n)
    Minv = mats.invMfactors[0] @ mats.invMfactors[1]
    return mats.theta * np.eye(n) - mats.W @ np.linalg.solve(Minv, mats.W.T)


def oracle_gcp(x, g, lb, ub, B):
    """First local minimiser of phi(t) = m(P(x - t g)), m(z) = g's + s'Bs/2, s = z - x, by walking the
    segments of the projected path with the dense B (no recurrences).  Returns (x_cp, t*)."""
    n = x.size
    t = np.full(n, INF)
    for i in range(n):
        if g[i] < 0 and ub[i] != INF:
            t[i] = (x[i] - ub[i]) / g[i]
        elif g[i] > 0 and lb[i] != -INF:
            t[i] = (x[i] - lb[i]) / g[i]

    def P(tt):
        return np.array([(ub[i] if g[i] < 0 else lb[i]) if t[i] <= tt else x[i] - tt * g[i] for i in range(n)])

    knots = sorted(set(float(v) for v in t if 0 < v < INF))
    told = 0.0
    for tb in knots + [INF]:
        d = np.where(t > told, -g, 0.0)
        if not d.any():
            return P(told), told
        z = P(told) - x
        f1 = g @ d + d @ B @ z
        f2 = d @ B @ d
        if f1 >= 0:
            return P(told), told
        if f2 > 0 and told - f1 / f2 < tb:
            return P(told - f1 / f2), told - f1 / f2
        if tb == INF:
            return None, None  # unbounded below along the path: B not positive definite
        told = tb
    return P(told), told


def check_against_oracle(case):
    """Failing-input search: the real get_cauchy_point against the dense oracle, tolerance 1e-8.
    Returns None when they agree (or the input is outside the precondition), else a message."""
    mats = build_mats(case)
    n = case["n"]
    x, g = np.array(case["x"], dtype=float), np.array(case["g"], dtype=float)
    lb, ub = np.array(case["lb"], dtype=float), np.array(case["ub"], dtype=float)
    if np.max(np.abs(np.clip(x - g, lb, ub) - x)) == 0:
        return None  # zero projected gradient: outside the precondition
    with np.errstate(all="ignore"):
        B = dense_B(mats, n)
    if not np.all(np.isfinite(B)) or np.linalg.eigvalsh((B + B.T) / 2).min() <= 1e-8 * np.abs(B).max():
        return None  # model not (numerically) positive definite: outside the precondition
    xr, tr = oracle_gcp(x, g, lb, ub, B)
    if xr is None:
        return None
    xcp, c, fixed, nseg = run_python(case, mats)
    sc = 1.0 + float(np.max(np.abs(x)))
    if (xcp < lb).any() or (xcp > ub).any():
        return "x_cp outside the box"
    if np.max(np.abs(xcp - xr)) > 1e-8 * sc * (1 + np.linalg.cond(B) * 1e-3):
        return f"x_cp differs from the dense first local minimiser by {np.max(np.abs(xcp - xr)):.3e} (t*={tr})"
    mod = lambda z: g @ (z - x) + 0.5 * (z - x) @ B @ (z - x)
    if mod(xcp) > 1e-12 * (1 + g @ g):
        return "model value at x_cp larger than at x"
    free = ((xcp != lb) & (xcp != ub)).any()
    if free and mats.use_factor:
        want = mats.W.T @ (xcp - x)
        if np.max(np.abs(c - want)) > 1e-8 * (1 + np.max(np.abs(want))):
            return f"c differs from W'(x_cp - x) by {np.max(np.abs(c - want)):.3e}"
    return None


# ----------------------------------------------------------------------------------------------
# comparison
# ----------------------------------------------------------------------------------------------
def _qfr(p):
    """exact Fraction from (sign, limbs numerator, limbs denominator), base 2^32 little endian"""
    sg, nl, dl = p
    return Fr(sg * sum(v << (32 * k) for k, v in enumerate(nl)), sum(v << (32 * k) for k, v in enumerate(dl)))


def _qf(p):
    return float(_qfr(p))


_LOG_OK = {}


def _log_fields_available():
    if "v" not in _LOG_OK:
        import inspect
        import lbfgsb.cauchy as _cm
        with open(inspect.getsourcefile(_cm)) as fh:
            t = fh.read()
        _LOG_OK["v"] = ("is fixed." in t) and ("There are {nbreak} breakpoints" in t) and ("Piece" in open(inspect.getsourcefile(_cm)).read())
    return _LOG_OK["v"]


def compare(case, py, coq):
    """list of disagreement strings (empty = agree)."""
    xcp, c, fixed, nseg = py
    _id, ok, minv_ok, cfixed, cbound, cnseg, cx, cc, ctstar, cmargin = coq
    msgs = []
    if not minv_ok:
        msgs.append("Coq side: M * Minv != I for the exact M passed by the harness")
    # the order of fixing and the number of segments are READ FROM THE LOG of the function; when the current source words those
    # messages differently (a harmless edit) they cannot be extracted and are not compared (x_cp, c, the bounds reached are)
    if _log_fields_available():
        if list(cfixed) != list(fixed):
            msgs.append(f"fixed variables (in order): python {fixed} model {list(cfixed)}")
        if cnseg != nseg:
            msgs.append(f"number of segments: python {nseg} model {cnseg}")
    lb, ub = case["lb"], case["ub"]
    for i, bd in zip(cfixed, cbound):
        want = ub[i] if bd == 1 else lb[i]
        if i < len(xcp) and not (xcp[i] == want):
            msgs.append(f"variable {i} fixed by the model on {'ub' if bd == 1 else 'lb'}={want!r} but python x_cp[{i}]={xcp[i]!r}")
    mx = [_qf(p) for p in cx]
    if len(mx) != len(xcp):
        msgs.append("x_cp length")
    else:
        for i, (a, b) in enumerate(zip(xcp, mx)):
            if not abs(a - b) <= 1e-9 * (1 + abs(b)):
                msgs.append(f"x_cp[{i}]: python {a!r} model {b!r} ({_qfr(cx[i])})")
    mc = [_qf(p) for p in cc]
    if len(mc) != len(c):
        msgs.append(f"c length: python {len(c)} model {len(mc)}")
    else:
        for j, (a, b) in enumerate(zip(c, mc)):
            if not abs(a - b) <= 1e-9 * (1 + abs(b)):
                msgs.append(f"c[{j}]: python {a!r} model {b!r}")
    return msgs


def _features(case):
    x, g, lb, ub = case["x"], case["g"], case["lb"], case["ub"]
    n = case["n"]
    out = any((x[i] == lb[i] and g[i] > 0) or (x[i] == ub[i] and g[i] < 0) for i in range(n))
    return dict(on_bound_outward=out, degenerate=any(lb[i] == ub[i] for i in range(n)),
                infinite=any(abs(lb[i]) == INF or abs(ub[i]) == INF for i in range(n)),
                zero_g=any(g[i] == 0 for i in range(n)))


def _prepare(case):
    """everything that needs the real code, for one case (runs in a worker process)"""
    n = case["n"]
    try:
        with warnings.catch_warnings():
            warnings.simplefilter("ignore")
            with np.errstate(all="ignore"):
                mats = build_mats(case)
                ex = exact_memory(mats, n)
    except Exception:  # Cholesky failure on a singular T (more pairs than independent directions)
        return dict(status="skipped_memory_build_failed")
    if ex is not None and ex["M"] is None:
        return dict(status="skipped_singular_middle_matrix")
    why = check_float_memory(mats, ex, n)
    if why == "ill-conditioned":
        return dict(status="skipped_ill_conditioned_memory")
    if why:
        return dict(status="fail", why=[why])
    x, g = np.array(case["x"]), np.array(case["g"])
    zero_pg = bool(np.max(np.abs(np.clip(x - g, case["lb"], case["ub"]) - x)) == 0)
    try:
        py = run_python(case, mats)
    except Exception as e:
        if zero_pg:
            return dict(status="skipped_zero_projected_gradient")
        return dict(status="fail", why=[f"python raised {e!r}"])
    return dict(status="ok", py=py, line=case_to_coq(case, ex), m=0 if ex is None else ex["m"], zero_pg=zero_pg)


def run(tier="quick", seed=0, coq_dir=None, keep=False, verbose=True, jobs=8):
    t0 = time.time()
    coq_dir = coq_dir or HERE
    cases = gen_cases(tier, seed)
    stats = Counter()
    dist = Counter()
    failures = []
    items, pys = [], {}
    import multiprocessing as mp

    with mp.get_context("fork").Pool(jobs) as pool:
        prepared = pool.map(_prepare, cases, chunksize=200)
    for case, pr in zip(cases, prepared):
        stats["cases"] += 1
        if pr["status"] == "fail":
            failures.append(dict(id=case["id"], case=case, why=pr["why"]))
        elif pr["status"] != "ok":
            stats[pr["status"]] += 1
        else:
            case["zero_pg"] = pr["zero_pg"]
            case["m"] = pr["m"]
            pys[case["id"]] = pr["py"]
            items.append((case, pr["line"]))
    workdir = tempfile.mkdtemp(prefix="c08_", dir=os.environ.get("C08_TMP", os.path.join(os.path.dirname(HERE), ".work")))
    t1 = time.time()
    try:
        coq = run_coq(items, coq_dir, workdir, jobs=jobs)
    finally:
        if not keep:
            shutil.rmtree(workdir, ignore_errors=True)
    t2 = time.time()
    for case, _line in items:
        cid = case["id"]
        r = coq.get(cid)
        if r is None:
            failures.append(dict(id=cid, case=case, why=["no output line from Coq"]))
            continue
        if case.get("zero_pg"):
            # outside the precondition (d = 0): the model must either return x (no breakpoint) or flag the
            # zero curvature; nothing else is compared
            if r[1] == 1 and not (r[3] == [] and all(_qfr(p) == Fr(v) for p, v in zip(r[6], case["x"]))):
                failures.append(dict(id=cid, case=case, why=["zero projected gradient but the model moved"]))
            stats["skipped_zero_projected_gradient"] += 1
            continue
        if r[1] != 1:
            failures.append(dict(id=cid, case=case, why=["model returned Err (zero second derivative)"]))
            continue
        margin = _qf(r[9])
        feats = _features(case)
        if margin < 1e-6:
            stats["ambiguous_under_rounding"] += 1
            continue
        stats["compared"] += 1
        nfix = len(r[3])
        t = _breakpoints(case)
        tie_exit = nfix >= 1 and any(i not in r[3] and t[i] == t[r[3][-1]] for i in range(case["n"]))
        dist[("kind", case["kind"])] += 1
        dist[("n", case["n"])] += 1
        dist[("pairs", case["m"])] += 1
        dist[("fixed", min(nfix, 5))] += 1
        dist[("tie", case["tag"]["tie"] or "none")] += 1
        for k, v in feats.items():
            if v:
                dist[("feature", k)] += 1
        if tie_exit:
            dist[("feature", "exit_on_tied_breakpoint")] += 1
        if nfix >= 1 and feats["on_bound_outward"]:
            dist[("feature", "outward_and_fixed>=1")] += 1
        msgs = compare(case, pys[cid], r)
        if msgs:
            failures.append(dict(id=cid, case=case, why=msgs))
    stats["disagreements"] = len(failures)
    stats["seconds_python"] = round(t1 - t0, 1)
    stats["seconds_coq"] = round(t2 - t1, 1)
    stats["seconds_total"] = round(time.time() - t0, 1)
    stats = dict(stats)
    stats["distribution"] = {f"{k[0]}={k[1]}": v for k, v in sorted(dist.items(), key=lambda kv: (kv[0][0], str(kv[0][1])))}
    if verbose:
        print(f"C08 correspondence, tier={tier} seed={seed}")
        for k, v in stats.items():
            if k != "distribution":
                print(f"  {k}: {v}")
        print("  distribution of compared cases:")
        for k, v in stats["distribution"].items():
            print(f"    {k}: {v}")
        for f in failures[:10]:
            print("  DISAGREEMENT", f["id"], f["why"][:4], {k: f["case"][k] for k in ("x", "g", "lb", "ub", "X", "G")})
    return failures, stats


def _breakpoints(case):
    t = []
    for xi, gi, l, u in zip(case["x"], case["g"], case["lb"], case["ub"]):
        if gi == 0:
            t.append(INF)
        elif gi < 0:
            t.append(INF if u == INF else (Fr(xi) - Fr(u)) / Fr(gi))
        else:
            t.append(INF if l == -INF else (Fr(xi) - Fr(l)) / Fr(gi))
    return t


def run_oracle(tier="quick", seed=0, verbose=True):
    """the oracle on the same generated inputs"""
    bad, nrun = [], 0
    for case in gen_cases(tier, seed):
        try:
            with warnings.catch_warnings():
                warnings.simplefilter("ignore")
                with np.errstate(all="ignore"):
                    r = check_against_oracle(case)
        except Exception as e:
            continue
        nrun += 1
        if r:
            bad.append(dict(id=case["id"], case=case, why=[r]))
    if verbose:
        print(f"C08 oracle: {nrun} inputs, {len(bad)} disagreements")
        for f in bad[:5]:
            print("  ORACLE", f["id"], f["why"], {k: f["case"][k] for k in ("x", "g", "lb", "ub", "X", "G")})
    return bad, dict(inputs=nrun, disagreements=len(bad))


if __name__ == "__main__":
    import argparse

    ap = argparse.ArgumentParser()
    ap.add_argument("--tier", default="quick", choices=["quick", "thorough"])
    ap.add_argument("--seed", type=int, default=0)
    ap.add_argument("--coq-dir", default=HERE)
    ap.add_argument("--oracle", action="store_true", help="also run the dense float oracle on the same inputs")
    ap.add_argument("--keep", action="store_true")
    a = ap.parse_args()
    fails, st = run(a.tier, a.seed, a.coq_dir, keep=a.keep)
    nb = 0
    if a.oracle:
        bad, _ = run_oracle(a.tier, a.seed)
        nb = len(bad)
    sys.exit(1 if fails or nb else 0)
