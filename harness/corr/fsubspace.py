"""Bit-exact correspondence between the Coq model Model/FSubspace.v (binary64, primitive floats) and the real
lbfgsb.subspacemin.get_freev / subspace_minimization.

    run(tier, seed=0, coq_dir=HERE) -> (failures, stats)        quick = 600 cases, thorough = 10000

For every generated input (x, grad, lb, ub, memory built through the REAL update_lbfgs_matrices, xc and c from the REAL
get_cauchy_point unless the stream says otherwise, free_vars / Z / A from the REAL get_freev)
  1. the REAL subspace_minimization is called                                       -> xbar or an exception;
  2. an AST-INSTRUMENTED copy of the CURRENT source of subspace_minimization is executed in the namespace of the module
     lbfgsb.subspacemin: the two oracle expressions `mats.W.dot(bmv(mats.invMfactors, c))` and `np.transpose(WTZ).dot(v)`
     are rewritten into recorder calls that evaluate the same NumPy / SciPy expression and log (inputs, result), the solver
     calls are counted (branch coverage), and probe statements after the assignments of r, rHat, dHat, alpha_star yield
     these intermediate values.  Its xbar must be bit-identical to 1. (stats['instrumented_mismatch'] must be 0);
  3. a Coq case evaluates FSubspace.fsubspace_full by vm_compute with the logged answers as association-list oracles and
     compares xbar, r, dHat (same bits up to the NaN payload: IEEE ==, same sign of zeros, NaN = NaN), the free set, the
     early return and alpha_star (IEEE ==: the sign of a zero alpha_star depends on the lane order of np.fmin.reduce, see
     the header of FSubspace.v; bit differences of alpha_star are counted in stats['alpha_zero_sign_differs']).
     One output line per case: (id, code, alpha_bits), code 0 = all identical, +1 xbar, +2 free set, +4 alpha_star,
     +8 dHat, +16 early return, +32 r.

Inputs whose real run raises (scipy.linalg.solve_triangular / cholesky refuse inf / NaN or an indefinite block, 1.0 / 0.0 with
a Python float theta) are counted in stats['python_raised'] and not compared (an exception of an oracle is outside the model).
"""
from __future__ import annotations

import ast
import inspect
import json
import math
import os
import re
import struct
import subprocess
import sys
import time
import warnings
from collections import Counter, deque
from concurrent.futures import ThreadPoolExecutor

import numpy as np

HERE = os.path.join(os.path.dirname(os.path.dirname(os.path.dirname(os.path.abspath(__file__)))), "coq")
WORK = os.path.join(os.path.dirname(HERE), ".work")
CASES_PER_FILE = 300
INF = math.inf
NAN = math.nan

import lbfgsb.subspacemin as SM  # noqa: E402
import lbfgsb.cauchy as CM  # noqa: E402
from lbfgsb.bfgsmats import LBFGSB_MATRICES, update_lbfgs_matrices  # noqa: E402


# ----------------------------------------------------------------------------------------------------
# bits
# ----------------------------------------------------------------------------------------------------
def fkey(v):
    """bit pattern of a float, all NaNs identified"""
    v = float(v)
    if v != v:
        return "nan"
    return struct.pack("<d", v)


def vkey(a):
    return tuple(fkey(v) for v in np.asarray(a, dtype=float).ravel())


def same_bits(a, b):
    a = np.asarray(a, dtype=float)
    b = np.asarray(b, dtype=float)
    return a.shape == b.shape and vkey(a) == vkey(b)


# ----------------------------------------------------------------------------------------------------
# AST instrumentation of the current source
# ----------------------------------------------------------------------------------------------------
# every `a.dot(b)` / `A @ B` of the current source of subspace_minimization, with its role
BLAS_SITES = {
    "Z.T.dot(mats.W)": "inside o_corr",
    "mats.W.dot(bmv(mats.invMfactors, c))": "ORACLE o_Wc",
    "WTZ.dot(rHat)": "inside o_corr",
    "WTZ.dot(np.transpose(WTZ))": "inside o_corr",
    "M.dot(v)": "inside o_corr",
    "M.dot(invThet * WTZ.dot(np.transpose(WTZ)))": "inside o_corr",
    "mats.invMfactors[0] @ mats.invMfactors[1]": "inside o_corr",
    "np.transpose(WTZ).dot(v)": "ORACLE o_corr",
    "alpha_star * Z @ dHat": "modelled: scatter (scipy.sparse csc_matvec)",
}
# every function called by the current source (anything else makes the guard raise)
CALLS = {
    "len", "min", "int", "bmv", "form_k", "factorize_k", "sp.linalg.solve_triangular", "np.linalg.solve", "np.transpose",
    "np.fill_diagonal", "N.diagonal", "np.nanmin", "np.where", "np.clip",
    "Z.T.dot", "mats.W.dot", "WTZ.dot", "M.dot", "np.transpose(WTZ).dot",
}
COUNTED = {"sp.linalg.solve_triangular", "np.linalg.solve", "form_k", "factorize_k"}
PROBED = {"r", "rHat", "dHat", "alpha_star"}


class _Rewriter(ast.NodeTransformer):
    def __init__(self):
        self.sites = []
        self.calls = set()

    def visit_BinOp(self, node):
        src = ast.unparse(node)
        self.generic_visit(node)
        if isinstance(node.op, ast.MatMult):
            self.sites.append(src)
        return node

    def visit_Call(self, node):
        src = ast.unparse(node)
        fsrc = ast.unparse(node.func)
        # the spelling of the temporary whose diagonal is read is free
        self.calls.add("N.diagonal" if re.fullmatch(r"[A-Za-z_]\w*\.diagonal", fsrc) else fsrc)
        self.generic_visit(node)
        f = node.func
        if isinstance(f, ast.Attribute) and f.attr == "dot" and len(node.args) == 1 and not node.keywords:
            self.sites.append(src)
            if src == "mats.W.dot(bmv(mats.invMfactors, c))":
                a = node.args[0]
                return ast.copy_location(
                    ast.Call(ast.Name("__rec_Wc", ast.Load()), [f.value, a.args[0], a.args[1]], []), node)
            if src == "np.transpose(WTZ).dot(v)":
                return ast.copy_location(
                    ast.Call(ast.Name("__rec_corr", ast.Load()),
                             [f.value, node.args[0], ast.Name("free_vars", ast.Load()), ast.Name("rHat", ast.Load())], []), node)
            return node
        if fsrc in COUNTED:
            return ast.copy_location(
                ast.Call(ast.Name("__rec_call", ast.Load()), [ast.Constant(fsrc), node.func] + node.args, node.keywords), node)
        return node

    def _probe(self, stmts):
        out = []
        for s in stmts:
            out.append(s)
            name = None
            if isinstance(s, ast.Assign) and len(s.targets) == 1 and isinstance(s.targets[0], ast.Name):
                name = s.targets[0].id
            elif isinstance(s, ast.AugAssign) and isinstance(s.target, ast.Name):
                name = s.target.id
            if name in PROBED:
                out.append(ast.copy_location(ast.Expr(ast.Call(ast.Name("__probe", ast.Load()),
                                                               [ast.Constant(name), ast.Name(name, ast.Load())], [])), s))
            for fld in ("body", "orelse"):
                if isinstance(getattr(s, fld, None), list) and not isinstance(s, ast.FunctionDef):
                    setattr(s, fld, self._probe(getattr(s, fld)))
        return out


class Recorder:
    def __init__(self):
        self.reset()

    def reset(self):
        self.log = []          # (kind, inputs, result)
        self.counts = Counter()
        self.vals = {}

    def Wc(self, W, F, c):
        r = W.dot(SM.bmv(F, c))
        self.log.append(("Wc", (np.array(c, dtype=float, copy=True),), np.array(r, dtype=float, copy=True)))
        return r

    def corr(self, WTZt, v, free_vars, rHat):
        r = WTZt.dot(v)
        self.log.append(("corr", (np.array(free_vars, dtype=int, copy=True), np.array(rHat, dtype=float, copy=True)),
                         np.array(r, dtype=float, copy=True)))
        return r

    def call(self, name, fn, *args, **kw):
        self.counts[name] += 1
        return fn(*args, **kw)

    def probe(self, name, val):
        self.vals[name] = np.array(val, dtype=float, copy=True)


_INSTR = {}


def instrumented():
    """(function, recorder): the instrumented copy of the CURRENT source of subspace_minimization"""
    if "f" in _INSTR:
        return _INSTR["f"], _INSTR["rec"]
    path = inspect.getsourcefile(SM)
    with open(path) as fh:
        tree = ast.parse(fh.read())
    fn = next(n for n in tree.body if isinstance(n, ast.FunctionDef) and n.name == "subspace_minimization")
    rw = _Rewriter()
    fn = rw.visit(fn)
    fn.body = rw._probe(fn.body)
    mod = ast.Module([fn], [])
    ast.fix_missing_locations(mod)
    rec = Recorder()
    ns = dict(SM.__dict__)
    ns.update(__rec_Wc=rec.Wc, __rec_corr=rec.corr, __rec_call=rec.call, __probe=rec.probe)
    exec(compile(mod, path + "<instrumented>", "exec"), ns)
    missing = set(BLAS_SITES) - set(rw.sites)
    extra = set(rw.sites) - set(BLAS_SITES)
    if missing or extra:
        raise RuntimeError("source of subspace_minimization changed: BLAS sites missing %r, unknown %r" % (missing, extra))
    if rw.calls != CALLS:
        raise RuntimeError("source of subspace_minimization changed: calls missing %r, unknown %r"
                           % (CALLS - rw.calls, rw.calls - CALLS))
    # get_freev: the defining expression of the free set must be the modelled one
    src = inspect.getsource(SM.get_freev)
    if "free_vars: NDArrayInt = ((x_cp != ub) & (x_cp != lb)).nonzero()[0]" not in src:
        raise RuntimeError("source of get_freev changed: the free set is no longer ((x_cp != ub) & (x_cp != lb)).nonzero()[0]")
    _INSTR.update(f=ns["subspace_minimization"], rec=rec)
    return _INSTR["f"], rec


# ----------------------------------------------------------------------------------------------------
# inputs
# ----------------------------------------------------------------------------------------------------
SPECIALS = [INF, -INF, NAN, 1e308, -1e308, 1.7976931348623157e308, 5e-324, -5e-324, 1e-310, 2.2250738585072014e-308,
            0.0, -0.0, 1.0, -1.0, 1e-300, 1e300, 1e154, 1e-154]


def _val(rng, dyadic, lo, hi):
    if dyadic:
        return int(rng.integers(int(lo * 16), int(hi * 16) + 1)) / 16.0
    return float(rng.uniform(lo, hi))


def _memory(rng, n, pairs, dyadic):
    """X, G of a quadratic with SPD Hessian (s'y > 0), through which the REAL update builds W, theta, factors"""
    if pairs == 0:
        return [], []
    if dyadic:
        C = rng.integers(-2, 3, (n, n)) / 2.0
        A = C @ C.T + np.eye(n) * (int(rng.integers(1, 5)) / 2.0)
    else:
        C = rng.normal(size=(n, n))
        A = C @ C.T + np.eye(n) * rng.uniform(0.05, 2.0)
        A *= 10.0 ** rng.uniform(-2, 2)
    X = [rng.integers(-8, 9, n) / 4.0 if dyadic else rng.normal(size=n)]
    for _ in range(pairs):
        s = rng.integers(-4, 5, n) / 4.0 if dyadic else rng.normal(size=n) * 10.0 ** rng.uniform(-2, 1)
        while not s.any():
            s = rng.integers(-4, 5, n) / 4.0
        X.append(X[-1] + s)
    G = [A @ v for v in X]
    return X, G


def build_mats(n, X, G, maxcor):
    mats = LBFGSB_MATRICES(n)
    if len(X):
        Xd, Gd = deque([np.array(X[0], dtype=float)]), deque([np.array(G[0], dtype=float)])
        for xk, gk in zip(X[1:], G[1:]):
            mats = update_lbfgs_matrices(np.array(xk, dtype=float), np.array(gk, dtype=float), Xd, Gd, maxcor, mats, False)
    return mats


def _cauchy(c):
    """xc and c from the REAL get_cauchy_point (None when it raises)"""
    try:
        with warnings.catch_warnings():
            warnings.simplefilter("ignore")
            with np.errstate(all="ignore"):
                xcp, cc = CM.get_cauchy_point(np.array(c["x"], dtype=float), np.array(c["g"], dtype=float),
                                              np.array(c["lb"], dtype=float), np.array(c["ub"], dtype=float), c["mats"], 1, -1, None)
        return np.array(xcp, dtype=float).tolist(), np.array(cc, dtype=float).tolist()
    except Exception:  # noqa: BLE001
        return None, None


def gen_pipeline(rng, big=False, gscale=None, near=None):
    """x in the box, gradient, box, memory of a quadratic, then the REAL Cauchy point"""
    for _ in range(50):
        n = int(rng.integers(9, 21)) if big else int(rng.integers(1, 9))
        dyadic = rng.random() < 0.4
        nr = (rng.random() < 0.6) if near is None else near
        pairs = int(rng.choice([0, 1, 2, 3, 4], p=[0.2, 0.25, 0.25, 0.15, 0.15]))
        x, g, lb, ub = [], [], [], []
        for _i in range(n):
            pos = rng.choice(["L", "U", "I", "I", "I", "I", "D"])
            lf, uf = rng.random() < 0.8, rng.random() < 0.8
            w = 0.5 if nr else 3.0
            lo = -_val(rng, dyadic, 0.0625, w)
            hi = _val(rng, dyadic, 0.0625, w)
            if pos == "L":
                xi, lf = lo, True
            elif pos == "U":
                xi, uf = hi, True
            elif pos == "D":
                xi = hi = lo
                lf = uf = True
            else:
                xi = _val(rng, dyadic, lo, hi)
            sg = rng.choice([-1, -1, 0, 1, 1])
            gi = sg * _val(rng, dyadic, 0.0625, 3.0)
            if sg == 0 and rng.random() < 0.5:
                gi = -0.0
            x.append(xi), g.append(gi), lb.append(lo if lf else -INF), ub.append(hi if uf else INF)
        X, G = _memory(rng, n, pairs, dyadic)
        mats = build_mats(n, X, G, max(pairs, 1))
        sc = gscale if gscale is not None else (2.0 ** int(rng.integers(-6, 8)) if rng.random() < 0.6 else 1.0)
        g = [v * sc for v in g]
        c = dict(stream="pipeline", n=n, x=x, g=g, lb=lb, ub=ub, mats=mats, pairs=pairs)
        xc, cc = _cauchy(c)
        if xc is None:
            continue
        c["xc"], c["c"] = xc, cc
        return c
    raise RuntimeError("no pipeline case")


def gen_on_bounds(rng):
    """the Cauchy point, then some components put on a bound (with the signed zeros / equal bounds variants)"""
    c = gen_pipeline(rng)
    c["stream"] = "on_bounds"
    n = c["n"]
    for i in range(n):
        u = rng.random()
        if u < 0.3 and math.isfinite(c["lb"][i]):
            c["xc"][i] = c["lb"][i]
        elif u < 0.6 and math.isfinite(c["ub"][i]):
            c["xc"][i] = c["ub"][i]
        elif u < 0.7:
            # a zero bound of the other sign: xc == bound although the bits differ
            z = float(rng.choice([0.0, -0.0]))
            c["xc"][i] = z
            if rng.random() < 0.5:
                c["lb"][i] = -z
                c["ub"][i] = max(c["ub"][i], 0.5)
            else:
                c["ub"][i] = -z
                c["lb"][i] = min(c["lb"][i], -0.5)
            c["x"][i] = float(np.clip(c["x"][i], c["lb"][i], c["ub"][i]))
    return c


def gen_all_fixed(rng):
    """every variable on a bound: the early return"""
    c = gen_pipeline(rng, gscale=2.0 ** int(rng.integers(6, 12)), near=True)
    c["stream"] = "all_fixed"
    for i in range(c["n"]):
        xi, l, u = c["xc"][i], c["lb"][i], c["ub"][i]
        if xi != l and xi != u:
            if math.isfinite(l) and (rng.random() < 0.5 or not math.isfinite(u)):
                c["xc"][i] = l
            elif math.isfinite(u):
                c["xc"][i] = u
            else:
                c["lb"][i] = c["xc"][i]
    return c


def gen_truncated(rng):
    """free variables close to a bound: the Newton step leaves the box, alpha_star < 1; half of them with 9..20 variables (the
    vectorised reduction of np.nanmin)"""
    c = gen_pipeline(rng, big=rng.random() < 0.5, near=True)
    c["stream"] = "truncated"
    for i in range(c["n"]):
        l, u = c["lb"][i], c["ub"][i]
        if rng.random() < 0.5 and math.isfinite(l) and math.isfinite(u) and l < u:
            t = float(rng.choice([2.0 ** -int(rng.integers(1, 40)), rng.uniform(0, 1)]))
            c["xc"][i] = l + t * (u - l) if rng.random() < 0.5 else u - t * (u - l)
    if rng.random() < 0.3:
        # exactly tied candidates: duplicated variables
        n = c["n"]
        if n >= 2 and c["pairs"] == 0:
            i, j = rng.choice(n, 2, replace=False)
            for k in ("x", "xc", "g", "lb", "ub"):
                c[k][j] = c[k][i]
    return c


def gen_adversarial(rng):
    c = gen_pipeline(rng, big=rng.random() < 0.2)
    c["stream"] = "adversarial"
    n = c["n"]
    if rng.random() < 0.55:
        # no memory: nothing goes through scipy.linalg.solve_triangular (which refuses inf / NaN)
        c["mats"], c["pairs"] = LBFGSB_MATRICES(n), 0
        c["c"] = [0.0]
    mode = rng.choice(["vec", "vec", "mats", "both", "outside", "scale", "scale", "nan", "nan", "zeros", "g_only", "g_only"])
    vecs = ("x", "xc", "g", "lb", "ub")

    def poke(v, k, pool=SPECIALS):
        for _ in range(k):
            v[int(rng.integers(0, len(v)))] = float(rng.choice(pool))
    if mode == "nan":
        for _ in range(int(rng.integers(1, 4))):
            name = str(rng.choice(["g", "g", "lb", "ub", "x", "xc", "xc"]))
            c[name][int(rng.integers(0, n))] = float(rng.choice([NAN, NAN, INF, -INF]))
    if mode == "g_only":
        # the box and xc stay regular, the gradient (hence r, dHat) is special: dHat = 0, -0, NaN, inf, huge, tiny
        poke(c["g"], int(rng.integers(1, n + 1)), SPECIALS + [0.0, -0.0, 0.0, -0.0])
        if rng.random() < 0.5:
            c["x"] = list(c["xc"])         # r = grad + theta * 0
    if mode == "zeros":
        for name in vecs:
            for i in range(n):
                if rng.random() < 0.4:
                    c[name][i] = float(rng.choice([0.0, -0.0]))
    if mode == "scale":
        for name in vecs:
            e = float(rng.choice([-320.0, -308.0, -300.0, -160.0, 0.0, 0.0, 150.0, 300.0, 307.0]))
            with np.errstate(all="ignore"):
                c[name] = [float(np.float64(v) * np.float64(10.0) ** np.float64(e)) for v in c[name]]
        if rng.random() < 0.5:
            c["mats"].theta = float(10.0 ** rng.uniform(-300, 300))
    if mode in ("vec", "both"):
        for name in vecs + ("c",):
            if rng.random() < 0.5:
                poke(c[name], int(rng.integers(1, 3)))
    if mode == "outside":
        # xc outside the box, inverted bounds: negative candidates
        for i in range(n):
            if rng.random() < 0.5:
                c["xc"][i] += float(rng.choice([-4.0, 4.0]))
            if rng.random() < 0.2:
                c["lb"][i], c["ub"][i] = c["ub"][i], c["lb"][i]
    if mode in ("mats", "both"):
        m = c["mats"]
        W = np.array(m.W, dtype=float, copy=True)
        for _ in range(int(rng.integers(0, 3))):
            W[int(rng.integers(0, W.shape[0])), int(rng.integers(0, W.shape[1]))] = float(rng.choice(SPECIALS))
        if not m.use_factor and rng.random() < 0.5:
            W = rng.normal(size=W.shape)
        m.W = W
        if rng.random() < 0.6:
            m.theta = float(rng.choice(SPECIALS + [-2.0, 0.5, 1e-17, 1e17]))
    # theta as NumPy scalar (1.0 / 0.0 = inf) or Python float (ZeroDivisionError)
    c["mats"].theta = np.float64(c["mats"].theta) if rng.random() < 0.7 else float(c["mats"].theta)
    return c


def gen_synthetic(rng):
    """no memory, theta a power of two, dyadic data: dHat = -(1/theta) * (g + theta * (xc - x)) exactly; designed candidates:
    zero components of dHat (both signs), infinite components, candidates that are +0 / -0 / inf / NaN"""
    n = int(rng.integers(1, 13))
    th = 2.0 ** int(rng.integers(-6, 4))
    big = 1.7976931348623157e308       # big / theta overflows for theta < 1: an infinite dHat from finite data
    lb, ub, xc, x, g = [], [], [], [], []
    for _ in range(n):
        lo = -_val(rng, True, 0.0625, 2.0)
        hi = _val(rng, True, 0.0625, 2.0)
        kind = rng.choice(["in", "in", "in", "lb", "ub", "inf_box", "half"])
        if kind == "inf_box":
            lo, hi = -INF, INF
        if kind == "half":
            lo = -INF
        xi = lo if kind == "lb" else hi if kind == "ub" else _val(rng, True, max(lo, -2.0), min(hi, 2.0))
        if rng.random() < 0.08:
            xi += float(rng.choice([-4.0, 4.0]))          # outside the box: candidates of the other sign (-0.0 for an infinite dHat)
        if (xi == 0.0 and rng.random() < 0.5) or (kind == "in" and lo < 0.0 < hi and rng.random() < 0.12):
            xi = -0.0                                      # a free -0.0: xc + (0.0 + alpha * dHat) loses the sign when the step is +-0.0
        xc.append(xi)
        lb.append(lo), ub.append(hi)
        dk = rng.choice(["zero", "nzero", "pos", "neg", "inf", "ninf", "nan", "tiny", "huge"])
        x.append(xi)                       # xc - x = 0: r = g + theta * 0 = g (g = -0.0: -0.0 + 0.0 = +0.0)
        g.append({"zero": 0.0, "nzero": -0.0, "pos": -_val(rng, True, 0.0625, 4.0) * th, "neg": _val(rng, True, 0.0625, 4.0) * th,
                  "inf": -big if th < 1 else -INF, "ninf": big if th < 1 else INF, "nan": NAN, "tiny": float(rng.choice([5e-324, -5e-324, 1e-310, -1e-310])),
                  "huge": float(rng.choice([1e308, -1e308]))}[str(dk)])
    mats = LBFGSB_MATRICES(n)
    mats.theta = np.float64(th)
    return dict(stream="synthetic", n=n, x=x, g=g, lb=lb, ub=ub, xc=xc, c=[0.0], mats=mats, pairs=0)


def _corpus():
    out = []

    def mk(x, xc, g, lb, ub, theta=1.0, mats=None, c=None):
        n = len(x)
        m = mats or LBFGSB_MATRICES(n)
        if mats is None:
            m.theta = np.float64(theta)
        return dict(stream="corpus", n=n, x=x, xc=xc, g=g, lb=lb, ub=ub, mats=m, pairs=0, c=c or [0.0])
    # plain interior Newton step, no memory
    out.append(mk([0.0, 0.0], [0.0, 0.0], [1.0, -1.0], [-2.0, -2.0], [2.0, 2.0]))
    # truncated by the box
    out.append(mk([0.0, 0.0], [0.0, 0.0], [1.0, -4.0], [-0.5, -2.0], [2.0, 2.0]))
    # every variable on a bound: early return
    out.append(mk([0.0, 1.0], [-1.0, 1.0], [1.0, -1.0], [-1.0, -2.0], [2.0, 1.0]))
    # a non-free variable equal to -0.0 (bound +0.0): xc + 0.0 = +0.0
    out.append(mk([-0.0, 0.5], [-0.0, 0.5], [1.0, 1.0], [0.0, -1.0], [1.0, 1.0]))
    # non-free variable xc = +0.0 on the bound lb = -0.0: the clip returns the bound (-0.0)
    out.append(mk([0.0, 0.5], [0.0, 0.5], [1.0, 1.0], [-0.0, -1.0], [1.0, 1.0]))
    # NaN component of xc is free; NaN gradient
    out.append(mk([0.0, 0.5], [NAN, 0.5], [1.0, 1.0], [-1.0, -1.0], [1.0, 1.0]))
    out.append(mk([0.0, 0.5], [0.0, 0.5], [NAN, 1.0], [-1.0, -1.0], [1.0, 1.0]))
    # dHat = 0 everywhere: no candidate, alpha_star = 1
    out.append(mk([0.0, 0.5], [0.0, 0.5], [0.0, -0.0], [-1.0, -1.0], [1.0, 1.0]))
    # all candidates NaN (dHat NaN): nanmin = NaN, min(1.0, nan) = 1.0
    out.append(mk([0.0], [0.0], [NAN], [-1.0], [1.0]))
    # infinite dHat: candidate 0, alpha_star = 0, 0 * inf = NaN
    out.append(mk([0.0, 0.0], [0.0, 0.0], [-1.7976931348623157e308, 1.0], [-1.0, -1.0], [1.0, 1.0], theta=0.5))
    # underflow of the candidate: (ub - xc) / dHat = 1e-300 / 1e300 = 0 although xc is strictly inside
    out.append(mk([0.0], [0.0], [-1e300], [-1.0], [1e-300]))
    # theta = 0 (NumPy scalar): invThet = inf
    out.append(mk([0.0, 0.0], [0.0, 0.25], [1.0, -1.0], [-1.0, -1.0], [1.0, 1.0], theta=0.0))
    # a free variable equal to -0.0 with a zero step (dHat = -0.0): 0.0 + 1.0 * -0.0 = +0.0, xbar = -0.0 + 0.0 = +0.0
    out.append(mk([-0.0, 0.0], [-0.0, 0.0], [0.0, -1.0], [-1.0, -1.0], [1.0, 1.0]))
    # xc outside the box: negative alpha_star
    out.append(mk([0.0], [2.0], [-1.0], [-1.0], [1.0]))
    # nine zero candidates of both signs: the lane order of np.fmin.reduce decides the sign of alpha_star
    # (dHat = -+inf from g = +-1.79e308 and theta = 1/2; the third variable is outside its box: candidate -0.0)
    b = 1.7976931348623157e308
    out.append(mk([0.0] * 9, [0.0, 0.0, 2.0, 0.0, 0.0, 0.0, 0.0, 0.0, 0.0], [-b] * 9, [-1.0] * 9, [1.0] * 9, theta=0.5))
    out[-1]["x"] = list(out[-1]["xc"])
    # the same with 3 variables (scalar loop of the reduction)
    out.append(mk([0.0, 0.0, 2.0], [0.0, 0.0, 2.0], [-b] * 3, [-1.0] * 3, [1.0] * 3, theta=0.5))
    out.append(mk([2.0, 0.0, 0.0], [2.0, 0.0, 0.0], [-b] * 3, [-1.0] * 3, [1.0] * 3, theta=0.5))
    return out


def gen_cases(n_cases, seed):
    rng = np.random.default_rng([seed, 20261002])
    cases = _corpus()
    while len(cases) < n_cases:
        u = rng.random()
        cases.append(gen_pipeline(rng) if u < 0.34 else gen_on_bounds(rng) if u < 0.46 else gen_all_fixed(rng) if u < 0.52
                     else gen_truncated(rng) if u < 0.66 else gen_synthetic(rng) if u < 0.76 else gen_adversarial(rng))
    cases = cases[:n_cases]
    for k, c in enumerate(cases):
        c["id"] = k
    return cases


# ----------------------------------------------------------------------------------------------------
# the real code and its instrumented copy
# ----------------------------------------------------------------------------------------------------
NAMES = ("x", "xc", "c", "g", "lb", "ub")


def arrays(case):
    return {k: np.array(case[k], dtype=float) for k in NAMES}


def _call(f, case):
    a = arrays(case)
    with warnings.catch_warnings():
        warnings.simplefilter("ignore")
        with np.errstate(all="ignore"):
            free_vars, Z, A = SM.get_freev(a["xc"], a["lb"], a["ub"], 0)
            xbar = f(a["x"], a["xc"], free_vars, Z, A, a["c"], a["g"], a["lb"], a["ub"], case["mats"])
    return np.array(xbar, dtype=float), np.array(free_vars, dtype=int), xbar is a["xc"]


def run_real(case):
    try:
        return _call(SM.subspace_minimization, case), None
    except Exception as e:  # noqa: BLE001
        return None, type(e).__name__


def run_instrumented(case):
    f, rec = instrumented()
    rec.reset()
    try:
        xbar, free, same_obj = _call(f, case)
    except Exception as e:  # noqa: BLE001
        return None, type(e).__name__
    early = "dHat" not in rec.vals
    return dict(xbar=xbar, free=free.tolist(), early=early, same_obj=same_obj, log=list(rec.log), counts=Counter(rec.counts),
                r=rec.vals.get("r", np.zeros(0)), rhat=rec.vals.get("rHat", np.zeros(0)), dhat=rec.vals.get("dHat", np.zeros(0)),
                alpha=float(rec.vals["alpha_star"]) if "alpha_star" in rec.vals else 1.0), None


def coverage(case, out, cov):
    a = arrays(case)
    n = case["n"]
    t = len(out["free"])
    cov["free_set_size"][t] += 1
    cov["n"][n] += 1
    cov["use_factor" if case["mats"].use_factor else "no_memory"] += 1
    if out["early"]:
        cov["early_return"] += 1
        if not out["same_obj"]:
            cov["early_return_not_same_object"] += 1      # must stay 0
        return
    if out["counts"]["np.linalg.solve"]:
        cov["branch_np_linalg_solve"] += 1
    if out["counts"]["factorize_k"]:
        cov["branch_LK_triangular_solves"] += 1
    if t == n:
        cov["all_free"] += 1
    al, dh = out["alpha"], out["dhat"]
    cov["alpha_lt_1" if al < 1 else "alpha_eq_1"] += 1
    if al <= 0:
        cov["alpha_le_0"] += 1
    if al == 0:
        cov["alpha_eq_0"] += 1
    if al == -INF:
        cov["alpha_neg_inf"] += 1
    nz = int((dh == 0).sum())
    if nz:
        cov["cases_with_zero_dhat_component"] += 1
    if nz == len(dh):
        cov["no_candidate"] += 1
    elif np.isnan(dh[dh != 0]).all():
        cov["all_candidates_nan_by_dhat"] += 1
    if (dh != 0).sum() >= 9:
        cov["nine_or_more_candidates"] += 1
    if np.isnan(dh).any():
        cov["cases_with_nan_dhat"] += 1
    if np.isinf(dh).any():
        cov["cases_with_inf_dhat"] += 1
    if np.isnan(out["xbar"]).any():
        cov["cases_with_nan_xbar"] += 1
    if np.isinf(out["xbar"]).any():
        cov["cases_with_inf_xbar"] += 1
    nonfree = [i for i in range(n) if i not in out["free"]]
    if any(a["xc"][i] == 0 and math.copysign(1, a["xc"][i]) < 0 for i in nonfree):
        cov["nonfree_negative_zero_xc"] += 1
    if any(fkey(out["xbar"][i]) != fkey(a["xc"][i]) for i in nonfree):
        cov["nonfree_component_bits_changed"] += 1
    if any(not (out["xbar"][i] == a["xc"][i]) for i in nonfree):
        cov["nonfree_component_value_changed"] += 1
    if any(a["xc"][i] == 0 and math.copysign(1, a["xc"][i]) < 0 and out["xbar"][i] == 0 and math.copysign(1, out["xbar"][i]) > 0
           for i in out["free"]):
        cov["free_negative_zero_xc_becomes_positive_zero"] += 1
    if np.isnan(a["xc"]).any():
        cov["cases_with_nan_xc"] += 1
    if not np.all(a["lb"] <= a["ub"]):
        cov["cases_with_bad_box"] += 1
    cov["oracle_calls"] += len(out["log"])


# ----------------------------------------------------------------------------------------------------
# Coq case files
# ----------------------------------------------------------------------------------------------------
def lit(v):
    v = float(v)
    if v != v:
        return "nan"
    if v == INF:
        return "infinity"
    if v == -INF:
        return "neg_infinity"
    h = v.hex()
    return "(%s)" % h if h.startswith("-") else h


def vlit(a):
    return "[" + "; ".join(lit(v) for v in np.asarray(a, dtype=float).ravel()) + "]"


def mlit(free, n):
    s = set(int(i) for i in free)
    return "[" + "; ".join("true" if i in s else "false" for i in range(n)) + "]"


def coq_case(case, out):
    tWc, tcorr = [], []
    for kind, ins, res in out["log"]:
        if kind == "Wc":
            tWc.append("(%s, %s)" % (vlit(ins[0]), vlit(res)))
        else:
            tcorr.append("(%s, %s, %s)" % (mlit(ins[0], case["n"]), vlit(ins[1]), vlit(res)))
    m = case["mats"]
    a = arrays(case)
    return ("Eval vm_compute in (let R := fsubspace_full (table_sub_oracles [%s] [%s]) %s %s %s %s %s %s %s %s in "
            "(%d%%nat, check_sub R %s [%s] %s %s %s %s, alpha_bits_differ R %s)).\n"
            % ("; ".join(tWc), "; ".join(tcorr), vlit(a["x"]), vlit(a["xc"]), vlit(a["c"]), vlit(a["g"]), vlit(a["lb"]), vlit(a["ub"]),
               lit(m.theta), "true" if m.use_factor else "false", case["id"],
               vlit(out["xbar"]), "; ".join("%d%%nat" % k for k in out["free"]), "true" if out["early"] else "false",
               vlit(out["r"]), vlit(out["dhat"]), lit(out["alpha"]), lit(out["alpha"])))


HEADER = ("From Coq Require Import List Floats.PrimFloat.\nFrom LBFGSB Require Import Model.FloatVec Model.FCauchy Model.FSubspace.\n"
          "Import ListNotations.\nLocal Open Scope float_scope.\n")
LINE = re.compile(r"=\s*\(\s*(\d+)(?:%nat)?\s*,\s*(\d+)(?:%nat)?\s*,\s*(\d+)(?:%nat)?\s*\)")
MODEL_FILES = ("Model/FloatVec", "Model/FCauchy", "Model/FSubspace")


def run_coq(path, coq_dir):
    t0 = time.time()
    p = subprocess.run(["timeout", "600", "coqc", "-Q", coq_dir, "LBFGSB", path], capture_output=True, text=True)
    out = re.sub(r"\s+", " ", p.stdout)
    return p.returncode, [tuple(map(int, m.groups())) for m in LINE.finditer(out)], p.stderr, time.time() - t0


def ensure_model(coq_dir):
    prev = 0.0
    for rel in MODEL_FILES:
        v, vo = os.path.join(coq_dir, rel + ".v"), os.path.join(coq_dir, rel + ".vo")
        if not os.path.exists(vo) or os.path.getmtime(vo) < max(os.path.getmtime(v), prev):
            subprocess.run(["timeout", "600", "coqc", "-Q", coq_dir, "LBFGSB", v], check=True)
        prev = os.path.getmtime(vo)


def describe(case):
    m = case["mats"]
    d = dict(id=case["id"], stream=case["stream"], n=case["n"], pairs=case["pairs"],
             theta=float(m.theta).hex(), theta_type=type(m.theta).__name__, use_factor=bool(m.use_factor),
             W=[[float(v).hex() for v in r] for r in np.asarray(m.W, dtype=float)],
             invMfactors=[[[float(v).hex() for v in r] for r in np.asarray(F, dtype=float)] for F in m.invMfactors])
    for k in NAMES:
        d[k] = [float(v).hex() for v in case[k]]
    return d


BITS = ((1, "xbar"), (2, "free"), (4, "alpha_star"), (8, "dHat"), (16, "early"), (32, "r"))


def _cleanup_cases(case_dir, failures):
    """case files are kept only when something disagreed (they are the replay)"""
    import shutil
    if not failures:
        shutil.rmtree(case_dir, ignore_errors=True)


def run(tier="quick", seed=0, coq_dir=HERE, case_dir=None, per_file=CASES_PER_FILE, jobs=None):
    n_cases = {"quick": 600, "thorough": 10000}[tier] if isinstance(tier, str) else int(tier)
    t_start = time.time()
    ensure_model(coq_dir)
    instrumented()
    case_dir = case_dir or os.path.join(WORK, "fsub_cases_%s_%d" % (tier, seed))
    os.makedirs(case_dir, exist_ok=True)
    for fn in os.listdir(case_dir):
        os.remove(os.path.join(case_dir, fn))

    cases = gen_cases(n_cases, seed)
    failures = []
    stats = dict(cases=len(cases), compared=0, python_raised=Counter(), instrumented_mismatch=0, oracle_conflicts=0,
                 streams=Counter(), disagreements=0, alpha_zero_sign_differs=0)
    cov = Counter()
    for k in ("free_set_size", "n"):
        cov[k] = Counter()
    texts, ids = [], []
    outs = {}
    for case in cases:
        stats["streams"][case["stream"]] += 1
        real, exc = run_real(case)
        out, exc2 = run_instrumented(case)
        if exc is not None or exc2 is not None:
            if exc != exc2:
                stats["instrumented_mismatch"] += 1
                failures.append(dict(kind="instrumented copy and real function do not raise alike", real=exc, instrumented=exc2,
                                     input=describe(case)))
            stats["python_raised"][exc or exc2] += 1
            continue
        if not (same_bits(real[0], out["xbar"]) and real[1].tolist() == out["free"] and real[2] == out["same_obj"]):
            stats["instrumented_mismatch"] += 1
            failures.append(dict(kind="instrumented copy differs from the real function", input=describe(case)))
            continue
        seen = {}
        for kind, ins, res in out["log"]:
            k = (kind,) + tuple(vkey(a) for a in ins)
            r = vkey(res)
            if k in seen and seen[k] != r:
                stats["oracle_conflicts"] += 1
            seen.setdefault(k, r)
        coverage(case, out, cov)
        outs[case["id"]] = out
        texts.append(coq_case(case, out))
        ids.append(case["id"])
    stats["compared"] = len(ids)

    files = []
    for k in range(0, len(texts), per_file):
        path = os.path.join(case_dir, "fsub_cases_%03d.v" % (k // per_file))
        with open(path, "w") as fh:
            fh.write(HEADER)
            fh.writelines(texts[k:k + per_file])
        files.append(path)
    t_gen = time.time()
    jobs = jobs or min(16, os.cpu_count() or 4)
    with ThreadPoolExecutor(jobs) as ex:
        results = list(ex.map(lambda p: run_coq(p, coq_dir), files))
    by_id = {c["id"]: c for c in cases}
    seen_ids = set()
    codes = Counter()
    for path, (rc, lines, err, _dt) in zip(files, results):
        if rc != 0:
            failures.append(dict(kind="coqc failed", file=path, rc=rc, stderr=err[-2000:]))
        for (i, code, ab) in lines:
            seen_ids.add(i)
            codes[code] += 1
            stats["alpha_zero_sign_differs"] += ab if not code & 4 else 0
            if code:
                stats["disagreements"] += 1
                o = outs[i]
                failures.append(dict(kind="model differs from subspace_minimization", code=code,
                                     differs=[nm for b, nm in BITS if code & b], input=describe(by_id[i]),
                                     python=dict(xbar=[float(v).hex() for v in o["xbar"]], free=o["free"], early=o["early"],
                                                 r=[float(v).hex() for v in o["r"]], dhat=[float(v).hex() for v in o["dhat"]],
                                                 alpha=float(o["alpha"]).hex(),
                                                 oracles=[(k, [np.asarray(a).tolist() for a in ins], [float(v).hex() for v in res])
                                                          for k, ins, res in o["log"]])))
    missing = [i for i in ids if i not in seen_ids]
    if missing:
        failures.append(dict(kind="no Coq output line", ids=missing[:20], count=len(missing)))
    stats["coq_files"] = len(files)
    stats["output_lines"] = len(seen_ids)
    stats["codes"] = dict(codes)
    stats["coq_file_seconds_max"] = round(max((r[3] for r in results), default=0.0), 1)
    stats["seconds_python"] = round(t_gen - t_start, 1)
    stats["seconds_coq_wall"] = round(time.time() - t_gen, 1)
    stats["python_raised"] = dict(stats["python_raised"])
    stats["streams"] = dict(stats["streams"])
    stats["coverage"] = {k: (dict(sorted(v.items())) if isinstance(v, Counter) else v) for k, v in sorted(cov.items())}
    _cleanup_cases(case_dir, failures)
    return failures, stats


if __name__ == "__main__":
    tier = sys.argv[1] if len(sys.argv) > 1 else "quick"
    seed = int(sys.argv[2]) if len(sys.argv) > 2 else 0
    fails, st = run(tier, seed)
    print(json.dumps(st, indent=1, default=str))
    print("FAILURES:", len(fails))
    for f in fails[:8]:
        print(json.dumps(f, default=str)[:3000])
