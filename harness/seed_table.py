"""Rewrite the table of DESIGN.md section 8.5 (between the SEEDED_TABLE markers) from seeded/*/meta.json."""
import json, glob, os, re
V = os.path.dirname(os.path.dirname(os.path.abspath(__file__)))


def short(s, n):
    s = re.sub(r"\s+", " ", s or "").replace("|", "/")
    return s if len(s) <= n else s[:n - 1] + "…"


rows = []
for d in sorted(glob.glob(os.path.join(V, "seeded", "*", ""))):
    mp = os.path.join(d, "meta.json")
    if not os.path.exists(mp):
        continue
    m = json.load(open(mp))
    sid = os.path.basename(d.rstrip("/"))
    cells = []
    for k, v in sorted(m.get("checks", {}).items()):
        if not v.get("detected"):
            cells.append(f"{k}: NOT detected")
            continue
        how = v.get("how") or {}
        parts = []
        if how.get("proof_obligations_broken"):
            parts.append(f"proof ({how['proof_obligations_broken']} obligations)")
        if how.get("correspondence_broken"):
            parts.append("corr (" + ", ".join(sorted(how["correspondence_broken"])) + ")")
        if how.get("failing_inputs_found_by_search"):
            parts.append("search")
        if v.get("violation_without_concrete_input"):
            parts.append("no-failing-input-found")
        cells.append(f"{k}: " + (" + ".join(parts) or "violation"))
    rows.append(f"| {sid} | {short(m.get('change'), 150)} | {short(m.get('needs_to_manifest'), 130)} | {'; '.join(cells)} |")
tab = ("| id | change (`seeded/<id>/patch.diff`) | needs, to manifest | caught by (quick tier) |\n|---|---|---|---|\n" + "\n".join(rows))
p = os.path.join(V, "DESIGN.md")
s = open(p).read()
a, b = s.index("<!-- SEEDED_TABLE_BEGIN -->"), s.index("<!-- SEEDED_TABLE_END -->")
s = s[:a] + "<!-- SEEDED_TABLE_BEGIN -->\n" + tab + "\n" + s[b:]
open(p, "w").write(s)
print(len(rows), "rows")
