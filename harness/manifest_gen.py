"""Regenerates MANIFEST.json from harness/props.py: a property is claimed iff coq/Properties/<id>.v exists."""
import os, json, sys
sys.path.insert(0, os.path.dirname(os.path.dirname(os.path.abspath(__file__))))
from harness.common import VERIF

TECH = json.load(open(os.path.join(VERIF, "harness", "manifest_texts.json")))


def main():
    checks = []
    na = []
    ids = [json.loads(l)["id"] for l in open(os.path.join(VERIF, "properties.jsonl")) if l.strip()]
    for pid in ids:
        t = TECH.get(pid, dict(not_applicable=True))
        if os.path.exists(os.path.join(VERIF, "coq", "Properties", pid + ".v")) and not t.get("not_applicable"):
            checks.append(dict(
                property_id=pid,
                quick_cmd=f"/venv/bin/python check.py {pid} --tier quick",
                thorough_cmd=f"/venv/bin/python check.py {pid} --tier thorough",
                evidence_file=f"/verif/evidence/{pid}.json",
                replay_cmd_template="/venv/bin/python check.py --replay {path}",
                engine="coq+python",
                level_claimed=dict(category=t["category"], text=t["text"], design_ref=t["design_ref"]),
                level_note=t["note"],
                technique=t["technique"],
            ))
        else:
            na.append(dict(property_id=pid, reason=t.get("na_reason", "Coq model and theorems for this property are not built yet in this tree; its failing-input search exists (harness/monitors) but the property is not claimed until a theorem and a checked tie exist")))
    man = dict(
        version=1,
        setup_cmd="/venv/bin/python check.py --setup",
        hooks=dict(guard="LBFGSB_VERIF",
                   enable="no source hook: recorders are installed from the harness process by rebinding module attributes of the package imported from /repo (PYTHONPATH=/repo forced); LBFGSB_VERIF=1 is exported for completeness",
                   baseline_off_cmd="cd /repo && /venv/bin/python -m pytest -ra -q -p no:cacheprovider --timeout=900 --continue-on-collection-errors",
                   source_commits=[], add_only=True),
        engines=[dict(name="coq+python", path="/verif/check.py", serves_properties=[c["property_id"] for c in checks],
                      kind_free_text="Coq 8.16.1 development (coq/) built by make; models regenerated from /repo by harness/translate.py or tied by correspondence runs (vm_compute vs implementation); Python failing-input search")],
        checks=checks,
        notes="Every check: corpus replay -> translate /repo -> Coq build + Print Assumptions -> correspondence -> failing-input search -> verdict (DESIGN.md section 4). Known findings: known_findings.json.",
        not_applicable=na,
    )
    with open(os.path.join(VERIF, "MANIFEST.json"), "w") as fh:
        json.dump(man, fh, indent=1)
        fh.write("\n")
    print("claimed:", [c["property_id"] for c in checks])


if __name__ == "__main__":
    main()
