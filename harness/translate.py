"""Fail-closed Python-`ast` -> Gallina translator for the leaf code of /repo/lbfgsb.
Writes coq/Generated/*.v (only when the content changes, so `make` rebuilds what depends on it).
Anything outside the supported subset raises TranslateError, which the build reports."""
import ast
import os

from harness.common import REPO, VERIF

OUT = os.path.join(VERIF, "coq", "Generated")
PKG = os.path.join(REPO, "lbfgsb")


class TranslateError(Exception):
    pass


def _src(name):
    with open(os.path.join(PKG, name)) as fh:
        return fh.read()


def _func(tree, name):
    for node in ast.walk(tree):
        if isinstance(node, ast.FunctionDef) and node.name == name:
            return node
    raise TranslateError(f"function {name} not found")


def _cls(tree, name):
    for node in ast.walk(tree):
        if isinstance(node, ast.ClassDef) and node.name == name:
            return node
    raise TranslateError(f"class {name} not found")


def _unann(tree):
    """Type annotations carry no behaviour: `a: T = e` is read as `a = e` (annotations without value are dropped)."""
    class T(ast.NodeTransformer):
        def visit_AnnAssign(self, n):
            self.generic_visit(n)
            if n.value is None:
                return None
            return ast.copy_location(ast.Assign(targets=[n.target], value=n.value, type_comment=None), n)
    return ast.fix_missing_locations(T().visit(tree))


def coq_string(s):
    return '"' + s.replace('"', '""') + '"'


def coq_float(v):
    v = float(v)
    if v != v:
        return "nan"
    if v == float("inf"):
        return "infinity"
    if v == float("-inf"):
        return "neg_infinity"
    h = v.hex()
    return f"({h})" if h.startswith("-") else h


def const_value(node):
    """Literal defaults: int, float, str, None, bool, negative numbers, np.inf."""
    if isinstance(node, ast.Constant):
        return node.value
    if isinstance(node, ast.UnaryOp) and isinstance(node.op, ast.USub) and isinstance(node.operand, ast.Constant):
        return -node.operand.value
    if isinstance(node, ast.Tuple) and not node.elts:
        return ()
    raise TranslateError(f"unsupported default value: {ast.unparse(node)}")


def emit_const(name, v):
    if v is None:
        return f"Definition {name} : option unit := None."
    if isinstance(v, bool):
        return f"Definition {name} : bool := {'true' if v else 'false'}."
    if isinstance(v, int):
        return f"Definition {name} : Z := ({v})%Z."
    if isinstance(v, float):
        return f"Definition {name} : float := {coq_float(v)}%float.  (* {v!r} *)"
    if isinstance(v, str):
        return f"Definition {name} : string := {coq_string(v)}."
    if v == ():
        return f"Definition {name} : unit := tt."
    raise TranslateError(f"unsupported constant {name} = {v!r}")


# ----------------------------------------------------------------------------- Consts.v
def gen_consts():
    L = ["(* GENERATED from /repo/lbfgsb by harness/translate.py - do not edit *)",
         "From Coq Require Import ZArith String List Floats.PrimFloat.", "Import ListNotations.", "Local Open Scope string_scope.", ""]
    main = ast.parse(_src("main.py"))
    f = _func(main, "minimize_lbfgsb")
    if f.args.args or f.args.posonlyargs:
        raise TranslateError("minimize_lbfgsb is expected to take keyword-only arguments")
    L.append("(* keyword defaults of minimize_lbfgsb *)")
    names = []
    for a, d in zip(f.args.kwonlyargs, f.args.kw_defaults):
        names.append(a.arg)
        if d is None:
            L.append(f"(* {a.arg}: required *)")
            continue
        L.append(emit_const("default_" + a.arg, const_value(d)))
    L.append("Definition minimize_keywords : list string := [" + "; ".join(coq_string(n) for n in names) + "].")
    L.append("")
    L.append("(* class attributes of InternalState (initial internal state) *)")
    for st in _cls(main, "InternalState").body:
        if isinstance(st, ast.Assign) and len(st.targets) == 1 and isinstance(st.targets[0], ast.Name):
            L.append(emit_const("istate_" + st.targets[0].id, const_value(st.value)))
        elif isinstance(st, ast.Expr) and isinstance(st.value, ast.Constant):
            continue  # docstring
        else:
            raise TranslateError("unsupported statement in InternalState: " + ast.unparse(st))
    L.append("")
    # every assignment of a termination message / success flag / warnflag, with its guard
    L.append("(* every assignment to istate.task_str in main.py: (function, enclosing test, message, success, warnflag) *)")
    rows = []

    def walk(fn, body, guard):
        i = 0
        for st in body:
            if isinstance(st, ast.If):
                walk(fn, st.body, ast.unparse(st.test))
                walk(fn, st.orelse, "else of: " + ast.unparse(st.test) if st.orelse and not (len(st.orelse) == 1 and isinstance(st.orelse[0], ast.If)) else guard)
            elif isinstance(st, (ast.While, ast.For, ast.With, ast.Try)):
                walk(fn, st.body, guard)
                for h in getattr(st, "handlers", []):
                    walk(fn, h.body, guard)
                walk(fn, getattr(st, "orelse", []), guard)
                walk(fn, getattr(st, "finalbody", []), guard)
            elif isinstance(st, ast.Assign) and len(st.targets) == 1 and ast.unparse(st.targets[0]) == "istate.task_str":
                if not (isinstance(st.value, ast.Constant) and isinstance(st.value.value, str)):
                    raise TranslateError("istate.task_str assigned a non-literal: " + ast.unparse(st))
                # the success / warnflag assignments of the same block
                succ = warn = None
                for st2 in body:
                    if isinstance(st2, ast.Assign) and len(st2.targets) == 1:
                        t = ast.unparse(st2.targets[0])
                        if t == "istate.is_success":
                            succ = const_value(st2.value)
                        elif t == "istate.warnflag":
                            warn = const_value(st2.value)
                rows.append((fn, guard, st.value.value, succ, warn))

    for fn in ("minimize_lbfgsb", "is_f0_min_change_reached", "is_f0_target_reached"):
        walk(fn, _func(main, fn).body, "")
    L.append("Definition task_assignments : list (string * string * string * option bool * option Z) := [")
    L.append(";\n".join(
        "  (%s, %s, %s, %s, %s)" % (coq_string(a), coq_string(b), coq_string(c),
                                     "None" if d is None else ("Some true" if d else "Some false"),
                                     "None" if e is None else f"Some ({e})%Z") for a, b, c, d, e in rows))
    L.append("].")
    L.append("")
    # loop guard and final classification (source pins, normalised by ast.unparse)
    wh = [n for n in ast.walk(f) if isinstance(n, ast.While)]
    if len(wh) != 1:
        raise TranslateError(f"expected exactly one while loop in minimize_lbfgsb, found {len(wh)}")
    L.append("Definition loop_guard_src : string := " + coq_string(ast.unparse(wh[0].test)) + ".")
    # the if/elif chain that follows the loop
    chain = []
    post = f.body[f.body.index(wh[0]) + 1:]
    for st in post:
        if isinstance(st, ast.If) and any(isinstance(s, ast.Assign) and ast.unparse(s.targets[0]) == "istate.task_str" for s in st.body):
            node = st
            while True:
                msg = [s.value.value for s in node.body if isinstance(s, ast.Assign) and ast.unparse(s.targets[0]) == "istate.task_str"]
                chain.append((ast.unparse(node.test), msg[0] if msg else ""))
                if len(node.orelse) == 1 and isinstance(node.orelse[0], ast.If):
                    node = node.orelse[0]
                else:
                    if node.orelse:
                        raise TranslateError("final classification has an unexpected else branch")
                    break
    L.append("Definition final_classification_src : list (string * string) := [" + "; ".join(f"({coq_string(a)}, {coq_string(b)})" for a, b in chain) + "].")
    # line-search budget and abnormal-exit test
    calls = [n for n in ast.walk(f) if isinstance(n, ast.Call) and ast.unparse(n.func) == "line_search"]
    if len(calls) != 1:
        raise TranslateError("expected one call to line_search")
    L.append("Definition line_search_args_src : list string := [" + "; ".join(coq_string(ast.unparse(a)) for a in calls[0].args) + "].")
    L.append("")
    # cauchy.py safeguard constant
    cau = ast.parse(_src("cauchy.py"))
    g = _func(cau, "get_cauchy_point")
    eps = [st for st in ast.walk(g) if isinstance(st, ast.Assign) and ast.unparse(st.targets[0]) == "eps_f_sec"]
    if len(eps) != 1:
        raise TranslateError("eps_f_sec: expected exactly one assignment")
    L.append("Definition cauchy_eps_f_sec_src : string := " + coq_string(ast.unparse(eps[0].value)) + ".")
    src = ast.unparse(eps[0].value)
    if src == "np.finfo(float).eps":
        val = 2.0 ** -52
    else:
        val = float(const_value(eps[0].value))
    L.append(f"Definition cauchy_eps_f_sec : float := {coq_float(val)}%float.")
    # breakpoint ordering pin
    srt = [st for st in ast.walk(g) if isinstance(st, (ast.Assign, ast.AnnAssign)) and ast.unparse(st.targets[0] if isinstance(st, ast.Assign) else st.target) == "sorted_t_idx"]
    L.append("Definition cauchy_sorted_idx_src : list string := [" + "; ".join(coq_string(ast.unparse(s.value)) for s in srt) + "].")
    L.append("")
    # linesearch.py defaults and first-step rule
    ls = ast.parse(_src("linesearch.py"))
    lf = _func(ls, "line_search")
    npos = len(lf.args.args) - len(lf.args.defaults)
    for a, d in zip(lf.args.args[npos:], lf.args.defaults):
        if a.arg in ("isave", "dsave", "logger"):
            continue
        L.append(emit_const("ls_default_" + a.arg, const_value(d)))
    first = [st for st in lf.body if isinstance(st, ast.If) and "above_iter == 0" in ast.unparse(st.test)]
    if len(first) != 1:
        raise TranslateError("line_search: first-step rule not found")
    L.append("Definition ls_first_step_src : list string := [" + "; ".join(coq_string(ast.unparse(s)) for s in [first[0].test] + first[0].body + first[0].orelse) + "].")
    ms = _func(ls, "max_allowed_steplength")
    ret0 = [st for st in ms.body if isinstance(st, ast.If)]
    L.append("Definition ls_maxstep_iter0_src : list string := [" + "; ".join(coq_string(ast.unparse(s)) for s in ([ret0[0].test] + ret0[0].body if ret0 else [])) + "].")
    dcs = [n for n in ast.walk(lf) if isinstance(n, ast.Call) and ast.unparse(n.func).endswith("DCSRCH")]
    L.append("Definition ls_dcsrch_args_src : list string := [" + "; ".join(coq_string(ast.unparse(a)) for c in dcs for a in c.args) + "].")
    # bfgsmats: theta and curvature test pins + default eps
    bm = ast.parse(_src("bfgsmats.py"))
    up = _func(bm, "update_lbfgs_matrices")
    th = [st for st in ast.walk(up) if isinstance(st, ast.Assign) and ast.unparse(st.targets[0]) == "mats.theta"]
    L.append("Definition bfgs_theta_src : list string := [" + "; ".join(coq_string(ast.unparse(s.value)) for s in th) + "].")
    return "\n".join(L) + "\n"


# ----------------------------------------------------------------------------- scalar float code
class FloatExpr:
    """Translation of scalar Python float expressions to PrimFloat terms (one IEEE operation per node)."""

    def __init__(self, env):
        self.env = env  # python name -> coq term

    def tr(self, n):
        if isinstance(n, ast.Constant) and isinstance(n.value, (int, float)) and not isinstance(n.value, bool):
            return coq_float(float(n.value)) + "%float"
        if isinstance(n, ast.Name):
            if n.id not in self.env:
                raise TranslateError(f"unknown name {n.id}")
            return self.env[n.id]
        if isinstance(n, ast.BinOp):
            op = {ast.Add: "add", ast.Sub: "sub", ast.Mult: "mul", ast.Div: "div"}.get(type(n.op))
            if op is None:
                raise TranslateError("unsupported operator " + ast.unparse(n))
            return f"(PrimFloat.{op} {self.tr(n.left)} {self.tr(n.right)})"
        if isinstance(n, ast.UnaryOp) and isinstance(n.op, ast.USub):
            return f"(PrimFloat.opp {self.tr(n.operand)})"
        if isinstance(n, ast.Call) and isinstance(n.func, ast.Name) and n.func.id == "abs" and len(n.args) == 1:
            return f"(PrimFloat.abs {self.tr(n.args[0])})"
        if isinstance(n, ast.Call) and isinstance(n.func, ast.Name) and n.func.id in ("max", "min") and len(n.args) >= 2 and not n.keywords:
            # Python: m = a0; for a in rest: if a > m (max) / a < m (min): m = a
            acc = self.tr(n.args[0])
            for a in n.args[1:]:
                acc = f"(py{n.func.id} {acc} {self.tr(a)})"
            return acc
        raise TranslateError("unsupported scalar expression " + ast.unparse(n))

    def cond(self, n):
        if isinstance(n, ast.Compare) and len(n.ops) == 1:
            a, b = self.tr(n.left), self.tr(n.comparators[0])
            t = type(n.ops[0])
            if t is ast.Lt:
                return f"(PrimFloat.ltb {a} {b})"
            if t is ast.LtE:
                return f"(PrimFloat.leb {a} {b})"
            if t is ast.Gt:
                return f"(PrimFloat.ltb {b} {a})"
            if t is ast.GtE:
                return f"(PrimFloat.leb {b} {a})"
        raise TranslateError("unsupported condition " + ast.unparse(n))


def gen_stoptests():
    """is_f0_min_change_reached / is_f0_target_reached as boolean functions of their float arguments.
    The state updates they perform are covered by Consts.task_assignments."""
    main = ast.parse(_src("main.py"))
    L = ["(* GENERATED from /repo/lbfgsb/main.py by harness/translate.py - do not edit *)",
         "From Coq Require Import Floats.PrimFloat.", "",
         "(* Python's max / min on floats: keep the first argument unless the other compares greater / smaller *)",
         "Definition pymax (a b : float) : float := if PrimFloat.ltb a b then b else a.",
         "Definition pymin (a b : float) : float := if PrimFloat.ltb b a then b else a.", ""]
    f = _func(main, "is_f0_min_change_reached")
    args = [a.arg for a in f.args.args]
    if args != ["f0", "f0_old", "ftol", "istate"]:
        raise TranslateError("is_f0_min_change_reached: unexpected signature " + str(args))
    body = [s for s in f.body if not (isinstance(s, ast.Expr) and isinstance(s.value, ast.Constant))]
    if not (len(body) == 2 and isinstance(body[0], ast.If) and not body[0].orelse and isinstance(body[1], ast.Return)
            and ast.unparse(body[1].value) == "False" and isinstance(body[0].body[-1], ast.Return) and ast.unparse(body[0].body[-1].value) == "True"):
        raise TranslateError("is_f0_min_change_reached: unexpected shape")
    fe = FloatExpr({"f0": "f0", "f0_old": "f0_old", "ftol": "ftol"})
    L.append("Definition is_f0_min_change_reached (f0 f0_old ftol : float) : bool :=\n  " + fe.cond(body[0].test) + ".")
    L.append("")
    f = _func(main, "is_f0_target_reached")
    args = [a.arg for a in f.args.args]
    if args != ["f0", "ftarget", "istate"]:
        raise TranslateError("is_f0_target_reached: unexpected signature " + str(args))
    body = [s for s in f.body if not (isinstance(s, ast.Expr) and isinstance(s.value, ast.Constant))]
    # if ftarget is None: return False / if <cond>: return False / ...assignments... / return True
    if not (len(body) >= 4 and isinstance(body[0], ast.If) and ast.unparse(body[0].test) == "ftarget is None"
            and ast.unparse(body[0].body[0]) == "return False" and isinstance(body[1], ast.If)
            and ast.unparse(body[1].body[0]) == "return False" and ast.unparse(body[-1]) == "return True"):
        raise TranslateError("is_f0_target_reached: unexpected shape")
    fe = FloatExpr({"f0": "f0", "ftarget": "t"})
    L.append("Definition is_f0_target_reached (f0 : float) (ftarget : option float) : bool :=\n"
             "  match ftarget with None => false | Some t => if " + fe.cond(body[1].test) + " then false else true end.")
    # the argument expressions at the call sites (scaled / unscaled value)
    mf = _func(main, "minimize_lbfgsb")
    sites = [ast.unparse(c.args[0]) for c in ast.walk(mf) if isinstance(c, ast.Call) and ast.unparse(c.func) == "is_f0_target_reached"]
    L.append("")
    L.append("From Coq Require Import String List. Import ListNotations. Local Open Scope string_scope.")
    L.append("Definition target_test_argument_src : list string := [" + "; ".join(coq_string(s) for s in sites) + "].")
    sites2 = [", ".join(ast.unparse(a) for a in c.args[:3]) for c in ast.walk(mf) if isinstance(c, ast.Call) and ast.unparse(c.func) == "is_f0_min_change_reached"]
    L.append("Definition min_change_test_argument_src : list string := [" + "; ".join(coq_string(s) for s in sites2) + "].")
    return "\n".join(L) + "\n"


# ----------------------------------------------------------------------------- Handlers.v / purity scan
SAFE_ROOTS = {"np", "numpy", "math", "copy", "logging"}
SAFE_BUILTINS = {"len", "range", "float", "int", "abs", "min", "max", "isinstance", "str", "repr", "zip", "enumerate", "list", "tuple", "bool",
                 "ValueError", "TypeError", "IndexError", "RuntimeError", "AssertionError"}
GLOBAL_MUTATORS = {"np.seterr", "np.seterrcall", "np.errstate", "np.set_printoptions", "np.random.seed", "numpy.seterr", "warnings.filterwarnings",
                   "warnings.simplefilter", "warnings.resetwarnings", "logging.basicConfig", "logging.disable", "random.seed", "sys.setrecursionlimit",
                   "os.chdir", "os.putenv", "os.environ.update", "os.environ.setdefault", "np.random.set_state", "sys.settrace", "sys.setprofile",
                   "logging.setLoggerClass", "np.setbufsize", "gc.disable", "gc.enable", "signal.signal"}


def _call_root(func):
    """('np', dotted) for np.a.b, ('<call>', inner) for f(...).m, ('name', id) for a plain name."""
    n = func
    while isinstance(n, ast.Attribute):
        n = n.value
    if isinstance(n, ast.Name):
        return "name", n.id
    if isinstance(n, ast.Call):
        return "call", n
    return "other", None


def _call_is_safe(call):
    kind, root = _call_root(call.func)
    if kind == "name":
        if isinstance(call.func, ast.Name):
            return root in SAFE_BUILTINS
        return root in SAFE_ROOTS
    if kind == "call":
        return _call_is_safe(root)
    return False



ALIASING_CALLS = {"np.asarray", "np.asanyarray", "np.atleast_1d", "np.atleast_2d", "np.ascontiguousarray", "np.ravel", "np.reshape",
                  "np.squeeze", "np.transpose", "np.broadcast_to", "np.real", "np.imag", "np.diagonal", "old_bound_to_new", "get_bounds"}
ALIASING_METHODS = {"view", "reshape", "ravel", "squeeze", "transpose", "T", "real", "flat", "swapaxes", "astype_nocopy"}
MUTATING_METHODS = {"sort", "fill", "resize", "put", "itemset", "setfield", "partition", "append", "appendleft", "extend", "insert", "pop", "popleft",
                    "remove", "clear", "update", "setdefault", "reverse", "setflags", "byteswap"}
INPUT_PARAMS = {"minimize_lbfgsb": ["x0", "bounds", "checkpoint"], "initialize_X_and_G": ["x", "checkpoint"], "get_bounds": ["x0", "bounds"],
                "clip2bounds": ["x0", "lb", "ub"], "line_search": ["x0", "g0", "d", "lb", "ub"], "get_cauchy_point": ["x", "grad", "lb", "ub"],
                "subspace_minimization": ["x", "xc", "c", "grad", "lb", "ub"], "get_freev": ["x_cp", "lb", "ub"],
                "max_allowed_steplength": ["x", "d", "lb", "ub"], "projgr": ["x", "grad", "lb", "ub"],
                "update_X_and_G": ["xk", "gk"], "is_update_X_and_G": ["xk", "gk", "x_old", "g_old"],
                "update_lbfgs_matrices": ["xk", "gk"], "extract_hess_inv_diag": ["hess_inv"],
                "get_gradient_projection_unit_scaling": ["x", "grad", "lbounds", "ubounds"]}


def _may_alias(node, tainted):
    """Does the value of this expression possibly share memory with a tainted (caller-owned) array?"""
    if isinstance(node, ast.Name):
        return node.id in tainted
    if isinstance(node, ast.Attribute):
        if node.attr in ("fun", "nit", "nfev", "njev", "status", "message", "success", "size", "shape", "ndim", "dtype"):
            return False                                 # immutable scalars / metadata
        return _may_alias(node.value, tainted)
    if isinstance(node, ast.Subscript):
        return _may_alias(node.value, tainted)          # basic slicing returns a view
    if isinstance(node, ast.Starred):
        return _may_alias(node.value, tainted)
    if isinstance(node, (ast.Tuple, ast.List)):
        return any(_may_alias(e, tainted) for e in node.elts)
    if isinstance(node, ast.IfExp):
        return _may_alias(node.body, tainted) or _may_alias(node.orelse, tainted)
    if isinstance(node, ast.Call):
        name = ast.unparse(node.func)
        if name in ALIASING_CALLS:
            return any(_may_alias(a, tainted) for a in node.args)
        if isinstance(node.func, ast.Attribute) and node.func.attr in ALIASING_METHODS:
            return _may_alias(node.func.value, tainted)
        if isinstance(node.func, ast.Attribute) and node.func.attr == "astype":
            cp = [k for k in node.keywords if k.arg == "copy"]
            return bool(cp) and ast.unparse(cp[0].value) == "False" and _may_alias(node.func.value, tainted)
        if name in ("np.array",):
            cp = [k for k in node.keywords if k.arg == "copy"]
            return bool(cp) and ast.unparse(cp[0].value) == "False" and any(_may_alias(a, tainted) for a in node.args)
        return False                                     # other calls (np.copy, arithmetic helpers, constructors) return fresh objects
    return False


def input_alias_writes():
    """In-place writes to objects that may share memory with the caller's arguments (x0, bounds, checkpoint.*, and the array
    arguments of the kernels): augmented assignment, item/attribute stores, mutating methods, out= arguments."""
    found = []
    for fn in sorted(os.listdir(PKG)):
        if not fn.endswith(".py"):
            continue
        tree = ast.parse(_src(fn))
        for f in [n for n in ast.walk(tree) if isinstance(n, ast.FunctionDef) and n.name in INPUT_PARAMS]:
            tainted = set(INPUT_PARAMS[f.name])
            # flow-insensitive fixpoint over the assignments of the function
            changed = True
            while changed:
                changed = False
                for st in ast.walk(f):
                    if isinstance(st, ast.Assign) and _may_alias(st.value, tainted):
                        for t in st.targets:
                            for nm in ([t] if isinstance(t, ast.Name) else (t.elts if isinstance(t, (ast.Tuple, ast.List)) else [])):
                                if isinstance(nm, ast.Name) and nm.id not in tainted:
                                    tainted.add(nm.id)
                                    changed = True
                    elif isinstance(st, ast.AnnAssign) and st.value is not None and _may_alias(st.value, tainted) and isinstance(st.target, ast.Name) \
                            and st.target.id not in tainted:
                        tainted.add(st.target.id)
                        changed = True
                    elif isinstance(st, ast.For) and _may_alias(st.iter, tainted):
                        for nm in ast.walk(st.target):
                            if isinstance(nm, ast.Name) and nm.id not in tainted:
                                tainted.add(nm.id)
                                changed = True
            for st in ast.walk(f):
                if isinstance(st, ast.AugAssign):
                    base = st.target
                    while isinstance(base, (ast.Subscript, ast.Attribute)):
                        base = base.value
                    if isinstance(base, ast.Name) and base.id in tainted:
                        found.append((fn, f.name, " ".join(ast.unparse(st).split())))
                elif isinstance(st, ast.Assign):
                    for t in st.targets:
                        for tt in (t.elts if isinstance(t, (ast.Tuple, ast.List)) else [t]):
                            if isinstance(tt, (ast.Subscript, ast.Attribute)):
                                base = tt
                                while isinstance(base, (ast.Subscript, ast.Attribute)):
                                    base = base.value
                                if isinstance(base, ast.Name) and base.id in tainted:
                                    found.append((fn, f.name, " ".join(ast.unparse(st).split())[:120]))
                elif isinstance(st, ast.Call):
                    if isinstance(st.func, ast.Attribute) and st.func.attr in MUTATING_METHODS and _may_alias(st.func.value, tainted) \
                            and isinstance(st.func.value, (ast.Name, ast.Attribute, ast.Subscript)):
                        found.append((fn, f.name, " ".join(ast.unparse(st).split())[:120]))
                    for k in st.keywords:
                        if k.arg == "out" and _may_alias(k.value, tainted):
                            found.append((fn, f.name, " ".join(ast.unparse(st).split())[:120]))
    return found


def gen_handlers():
    """Every try/except, `with` and `raise ... from` site of the package, and which of them may enclose a call
    that is not to a whitelisted library function (i.e. may reach a user callable); every call to a function
    that changes process-wide state; every module-level mutable object that some function writes."""
    L = ["(* GENERATED from /repo/lbfgsb/*.py by harness/translate.py - do not edit *)",
         "From Coq Require Import String List.", "Import ListNotations.", "Local Open Scope string_scope.", ""]
    sites, unsafe, withs, mutators, globwrites = [], [], [], [], []
    for fn in sorted(os.listdir(PKG)):
        if not fn.endswith(".py"):
            continue
        tree = ast.parse(_src(fn))
        parents = {}
        for node in ast.walk(tree):
            for ch in ast.iter_child_nodes(node):
                parents[ch] = node

        def func_of(n):
            while n in parents:
                n = parents[n]
                if isinstance(n, (ast.FunctionDef, ast.AsyncFunctionDef)):
                    return n.name
            return "<module>"

        # module-level names bound to mutable objects (lists, dicts, sets, calls) and class attributes
        modnames = set()
        for st in tree.body:
            if isinstance(st, ast.Assign):
                for t in st.targets:
                    if isinstance(t, ast.Name):
                        modnames.add(t.id)
            elif isinstance(st, ast.AnnAssign) and isinstance(st.target, ast.Name):
                modnames.add(st.target.id)
            elif isinstance(st, ast.ClassDef):
                modnames.add(st.name)
        for node in ast.walk(tree):
            if isinstance(node, ast.Try):
                classes = []
                for h in node.handlers:
                    classes.append(ast.unparse(h.type) if h.type is not None else "<bare>")
                body_src = "; ".join(ast.unparse(b) for b in node.body)
                calls = [c for b in node.body for c in ast.walk(b) if isinstance(c, ast.Call)]
                bad = [ast.unparse(c.func) for c in calls if not _call_is_safe(c)]
                swallow = any(not any(isinstance(x, ast.Raise) for x in ast.walk(ast.Module(body=h.body, type_ignores=[]))) for h in node.handlers)
                sites.append((fn, func_of(node), ", ".join(classes), body_src))
                if bad or node.finalbody and any(isinstance(x, ast.Return) for b in node.finalbody for x in ast.walk(b)):
                    unsafe.append((fn, func_of(node), ", ".join(classes), ", ".join(bad) or "return in finally"))
            elif isinstance(node, (ast.With, ast.AsyncWith)):
                for it in node.items:
                    withs.append((fn, func_of(node), ast.unparse(it.context_expr)))
            elif isinstance(node, ast.Call):
                name = ast.unparse(node.func)
                if name in GLOBAL_MUTATORS or name.endswith(".seterr") or name.endswith(".simplefilter") or name.endswith(".filterwarnings"):
                    # scoped uses are not leaks: np.errstate(...) as the context expression of a `with`, and warning
                    # filters installed lexically inside `with warnings.catch_warnings()`
                    par = parents.get(node)
                    scoped = name.endswith("errstate") and isinstance(par, ast.withitem)
                    q = node
                    while q in parents and not scoped:
                        q = parents[q]
                        if isinstance(q, ast.With) and any(ast.unparse(i.context_expr).startswith("warnings.catch_warnings") for i in q.items) \
                                and ("warnings" in name):
                            scoped = True
                    if not scoped:
                        mutators.append((fn, func_of(node), name))
            elif isinstance(node, (ast.Global, ast.Nonlocal)) and isinstance(node, ast.Global):
                globwrites.append((fn, func_of(node), "global " + ", ".join(node.names)))
            # stores into module-level objects / class attributes from inside a function
            if isinstance(node, (ast.Assign, ast.AugAssign, ast.AnnAssign)) and func_of(node) != "<module>":
                tgts = node.targets if isinstance(node, ast.Assign) else [node.target]
                tgts = [e for t in tgts for e in (t.elts if isinstance(t, (ast.Tuple, ast.List)) else [t])]
                for t in tgts:
                    base = t
                    while isinstance(base, (ast.Attribute, ast.Subscript)):
                        base = base.value
                    if isinstance(base, ast.Name) and base.id in modnames and not isinstance(t, ast.Name):
                        globwrites.append((fn, func_of(node), ast.unparse(t)))
            if isinstance(node, ast.FunctionDef):
                # mutable default arguments that the function writes into
                defaults = {}
                pos = node.args.args[len(node.args.args) - len(node.args.defaults):]
                for a, d in list(zip(pos, node.args.defaults)) + [(a, d) for a, d in zip(node.args.kwonlyargs, node.args.kw_defaults) if d is not None]:
                    if isinstance(d, (ast.Call, ast.List, ast.Dict, ast.Set)):
                        defaults[a.arg] = ast.unparse(d)
                for sub in ast.walk(node):
                    if isinstance(sub, (ast.Assign, ast.AugAssign)):
                        for t in (sub.targets if isinstance(sub, ast.Assign) else [sub.target]):
                            base = t
                            while isinstance(base, (ast.Attribute, ast.Subscript)):
                                base = base.value
                            if isinstance(base, ast.Name) and base.id in defaults and not isinstance(t, ast.Name):
                                globwrites.append((fn, node.name, f"default argument {base.id}={defaults[base.id]}: {ast.unparse(t)}"))

    def lst(rows):
        return "[" + ";\n  ".join("(" + ", ".join(coq_string(x) for x in r) + ")" for r in rows) + "]"

    L.append("(* (file, function, exception classes caught, source of the guarded block) *)")
    L.append("Definition except_sites : list (string * string * string * string) :=\n  " + lst(sites) + ".")
    L.append("(* handler sites whose guarded block contains a call that is not to a whitelisted library function,\n   i.e. that may enclose a user callable: (file, function, classes, offending calls) *)")
    L.append("Definition except_sites_reaching_user_code : list (string * string * string * string) :=\n  " + lst(unsafe) + ".")
    L.append("Definition with_sites : list (string * string * string) :=\n  " + lst(withs) + ".")
    L.append("(* context managers that can swallow an exception *)")
    L.append("Definition suppressing_with_sites : list (string * string * string) :=\n  " + lst([w for w in withs if "suppress" in w[2] or "ExitStack" in w[2]]) + ".")
    L.append("(* calls that change process-wide state (numpy error state, warning filters, logging configuration, PRNG seeds, ...) *)")
    L.append("Definition global_state_mutator_calls : list (string * string * string) :=\n  " + lst(mutators) + ".")
    L.append("(* writes, from inside a function, into module-level objects, class attributes or mutable default arguments *)")
    L.append("Definition shared_write_sites : list (string * string * string) :=\n  " + lst(globwrites) + ".")
    L.append("(* in-place writes to objects that may share memory with the caller's arguments (x0, bounds, checkpoint.*, kernel array arguments) *)")
    L.append("Definition input_alias_write_sites : list (string * string * string) :=\n  " + lst(input_alias_writes()) + ".")
    return "\n".join(L) + "\n"



# ----------------------------------------------------------------------------- Memory.v / Utils.v (pinned-shape translation)
def _body_src(fn_node):
    """Statements of a function as normalised source strings: docstring, logger statements and type comments dropped."""
    out = []

    def strip(stmts):
        res = []
        for st in stmts:
            if isinstance(st, ast.Expr) and isinstance(st.value, ast.Constant) and isinstance(st.value.value, str):
                continue
            if isinstance(st, ast.If) and "logger" in ast.unparse(st.test) and not st.orelse and \
                    all(isinstance(b, ast.Expr) and ast.unparse(b).startswith("logger.") for b in st.body):
                continue
            res.append(st)
        return res

    for st in strip(fn_node.body):
        if isinstance(st, (ast.If, ast.For, ast.While)):
            st = type(st)(**{k: (strip(v) if k in ("body", "orelse") else v) for k, v in ast.iter_fields(st)})
            ast.fix_missing_locations(st)
        out.append(" ".join(ast.unparse(st).split()))
    return out


MEMORY_EXPECTED = {
    "is_update_X_and_G": ["yk = gk - g_old", "sTy = (xk - x_old).dot(yk)", "yTy = yk.dot(yk)", "if sTy > eps * yTy: return True", "return False"],
    "update_X_and_G": ["if not is_update_X_and_G(xk, gk, X[-1], G[-1], eps): return False", "X.append(xk)", "G.append(gk)",
                       "if len(X) > maxcor + 1: X.popleft() G.popleft()", "return True"],
}


def gen_memory():
    """The memory functions of bfgsmats.py and the diagonal utility: their normalised source is emitted as constants
    (pinned by reflexivity in Properties/C10.v, C13.v, C18.v) and, for the shapes the hand-written models implement, the
    translator checks the shape itself and emits the corresponding Gallina definition."""
    bm = ast.parse(_src("bfgsmats.py"))
    ut = ast.parse(_src("utils.py"))
    mn = ast.parse(_src("main.py"))
    L = ["(* GENERATED from /repo/lbfgsb/bfgsmats.py, utils.py, main.py by harness/translate.py - do not edit *)",
         "From Coq Require Import String List QArith.", "Import ListNotations.", "Local Open Scope string_scope.", ""]
    for mod, names in ((bm, ["is_update_X_and_G", "update_X_and_G", "make_X_and_G_respect_strong_wolfe"]), (ut, ["extract_hess_inv_diag"]),
                       (mn, ["initialize_X_and_G"])):
        for nm in names:
            f = _func(mod, nm)
            L.append(f"Definition {nm}_args : list string := [" + "; ".join(coq_string(a.arg) for a in f.args.args) + "].")
            L.append(f"Definition {nm}_src : list string := [" + ";\n  ".join(coq_string(x) for x in _body_src(f)) + "].")
    up = _func(bm, "update_lbfgs_matrices")
    calls = [ast.unparse(c) for c in ast.walk(up) if isinstance(c, ast.Call) and ast.unparse(c.func) in ("update_X_and_G",)]
    L.append("Definition update_lbfgs_matrices_memory_calls : list string := [" + "; ".join(coq_string(x) for x in calls) + "].")
    conds = [" ".join(ast.unparse(n.test).split()) for n in ast.walk(up) if isinstance(n, ast.If)]
    L.append("Definition update_lbfgs_matrices_tests : list string := [" + "; ".join(coq_string(x) for x in conds) + "].")
    # the diagonal utility: for i in range(n): v = zeros(n); v[i] = 1.0; out[i] = matvec(v)[i]
    d = _body_src(_func(ut, "extract_hess_inv_diag"))
    want = ["n_params = hess_inv.shape[0]", "hess_inv_diag = np.zeros(n_params)",
            "for i in range(n_params): v = np.zeros(n_params) v[i] = 1.0 hess_inv_diag[i] = hess_inv.matvec(v)[i]", "return hess_inv_diag"]
    if d != want:
        raise TranslateError("extract_hess_inv_diag: unexpected shape " + repr(d))
    L.append("")
    L.append("(* extract_hess_inv_diag: out[i] = matvec(e_i)[i] for i in range(n) *)")
    L.append("Local Open Scope Q_scope.")
    L.append("Definition unit_vec (n i : nat) : list Q := map (fun j => if Nat.eqb j i then 1 else 0) (seq 0 n).")
    L.append("Definition extract_hess_inv_diag (n : nat) (matvec : list Q -> list Q) : list Q :=")
    L.append("  map (fun i => nth i (matvec (unit_vec n i)) 0) (seq 0 n).")
    return "\n".join(L) + "\n"


def gen_bench():
    """benchmarks.py -> real-valued Gallina functions (harness/translate_bench.py, fail-closed), then the translator's
    own reading of NumPy is validated against the real functions on random points."""
    from harness import translate_bench as tb

    src = os.path.join(PKG, "benchmarks.py")
    try:
        funs, sha = tb.translate_module(src)
        text = tb.render(funs, sha, src)
    except tb.Unsupported as e:
        raise TranslateError(str(e))
    errs = tb.validate(src)
    if errs:
        raise TranslateError("translator validation against the real functions failed: " + "; ".join(errs[:3]))
    return text + "\n"


GENERATORS = {"Consts.v": gen_consts, "StopTests.v": gen_stoptests, "Handlers.v": gen_handlers, "Bench.v": gen_bench, "Memory.v": gen_memory}


# ----------------------------------------------------------------------------- NumPy vector leaf functions (base.py)
class VecExpr:
    """Translation of the NumPy expressions of the leaf functions of base.py to the vector operations of Model/FloatVec.v
    (each of which is one IEEE operation per element).  Typed: every sub-expression is a vector ('v'), a scalar float ('f') or
    a boolean ('b').  Fail-closed: any construct outside the list below aborts the generation."""

    def __init__(self, env):
        self.env = env  # python name -> (coq term, type)

    def tr(self, n):
        if isinstance(n, ast.Name):
            if n.id not in self.env:
                raise TranslateError(f"unknown name {n.id}")
            return self.env[n.id]
        if isinstance(n, (ast.Attribute, ast.Call)) and ast.unparse(n) in self.env:
            return self.env[ast.unparse(n)]      # a field of `mats` or an oracle call, bound by its exact text
        if isinstance(n, ast.UnaryOp) and isinstance(n.op, ast.USub) and self.tr(n.operand)[1] == "f":
            return (f"(PrimFloat.opp {self.tr(n.operand)[0]})", "f")
        if isinstance(n, ast.ListComp) and len(n.generators) == 1 and not n.generators[0].ifs and isinstance(n.generators[0].target, ast.Name) \
                and isinstance(n.elt, ast.Subscript) and isinstance(n.elt.slice, ast.Name) and n.elt.slice.id == n.generators[0].target.id:
            (a, ta), (i_, ti_) = self.tr(n.elt.value), self.tr(n.generators[0].iter)
            if ta == "v" and ti_ == "iv":
                return (f"(List.map (fun i_ => List.nth i_ {a} nan) {i_})", "v")     # [a[i] for i in idx]
        if isinstance(n, ast.Attribute) and n.attr == "T":
            a, ta = self.tr(n.value)
            if ta == "v":
                return (a, "v")          # transpose of a 1-D array: the array itself
        if isinstance(n, ast.Call) and isinstance(n.func, ast.Attribute) and n.func.attr == "astype" and len(n.args) == 1 \
                and ast.unparse(n.args[0]) == "np.float64" and all(k.arg == "copy" for k in n.keywords):
            a, ta = self.tr(n.func.value)
            if ta == "v":
                return (a, "v")          # the model's vectors are float64 already
        if isinstance(n, ast.Call) and isinstance(n.func, ast.Attribute) and n.func.attr == "dot" and len(n.args) == 1 and not n.keywords:
            (a, ta), (b, tb) = self.tr(n.func.value), self.tr(n.args[0])
            if ta == tb == "v" and "vdot" in self.env:
                return (f"({self.env['vdot'][0]} {a} {b})", "f")       # BLAS dot product: an oracle
        if isinstance(n, ast.BinOp) and isinstance(n.op, (ast.Mult, ast.Add, ast.Sub, ast.Div)):
            (a, ta), (b, tb) = self.tr(n.left), self.tr(n.right)
            if ta == tb == "f":
                op = {ast.Add: "add", ast.Sub: "sub", ast.Mult: "mul", ast.Div: "div"}[type(n.op)]
                return (f"(PrimFloat.{op} {a} {b})", "f")
        if isinstance(n, ast.Constant) and isinstance(n.value, (int, float)) and not isinstance(n.value, bool):
            return (coq_float(float(n.value)) + "%float", "f")
        if isinstance(n, ast.Attribute) and ast.unparse(n) == "np.inf":
            return ("infinity", "f")
        if isinstance(n, ast.UnaryOp) and isinstance(n.op, ast.USub):
            a, ta = self.tr(n.operand)
            if ta == "v":
                return (f"(List.map PrimFloat.opp {a})", "v")
        if isinstance(n, ast.Call) and ast.unparse(n.func) == "np.zeros_like" and len(n.args) == 1 and not n.keywords:
            a, ta = self.tr(n.args[0])
            if ta == "v":
                return (f"(List.map (fun _ => 0%float) {a})", "v")
        if isinstance(n, ast.Call) and ast.unparse(n.func) == "np.argsort" and len(n.args) == 1 and [(k.arg, ast.unparse(k.value)) for k in n.keywords] == [("kind", "'stable'")]:
            a, ta = self.tr(n.args[0])
            if ta == "v" and "argsort" in self.env:
                return (f"({self.env['argsort'][0]} {a})", "iv")     # NumPy's stable argsort: the model's (validated bit for bit by 'fcauchy')
        if isinstance(n, ast.Compare) and len(n.ops) == 1 and isinstance(n.ops[0], (ast.NotEq, ast.Gt, ast.Lt, ast.Eq)):
            (a, ta), (b, tb) = self.tr(n.left), self.tr(n.comparators[0])
            if ta == "v" and tb == "f":      # array compared with a scalar, element-wise
                t_ = type(n.ops[0])
                body_ = {ast.NotEq: f"negb (PrimFloat.eqb e_ {b})", ast.Eq: f"PrimFloat.eqb e_ {b}", ast.Gt: f"PrimFloat.ltb {b} e_", ast.Lt: f"PrimFloat.ltb e_ {b}"}[t_]
                return (f"(List.map (fun e_ => {body_}) {a})", "bv")
        if isinstance(n, ast.Call) and isinstance(n.func, ast.Name) and n.func.id == "max" and len(n.args) == 2 and not n.keywords:
            (a, ta), (b, tb) = self.tr(n.args[0]), self.tr(n.args[1])
            if ta == tb == "f":
                return (f"(pymax {a} {b})", "f")      # Python's max: the first argument unless the second compares greater
        if isinstance(n, ast.Subscript) and not isinstance(n.slice, (ast.Slice, ast.Tuple)):
            (a, ta), (i_, ti_) = self.tr(n.value), self.tr(n.slice)
            if ta == "v" and ti_ == "n":
                return (f"(List.nth {i_} {a} nan)", "f")     # a[i] for an integer index
            if ta == "v" and ti_ == "bv":
                return (f"(bgather {i_} {a})", "v")     # boolean-mask indexing
            if ta == "v" and ti_ == "iv":
                return (f"(List.map (fun i_ => List.nth i_ {a} nan) {i_})", "v")     # integer-array (fancy) indexing
            if ta == "iv" and ti_ == "bv":
                return (f"(bgather_idx {i_} {a})", "iv")  # boolean-mask indexing of an index array
        if isinstance(n, ast.Call) and ast.unparse(n.func) == "np.where" and len(n.args) == 3 and not n.keywords:
            (c_, tc_), (a, ta), (b, tb) = [self.tr(x_) for x_ in n.args]
            if tc_ == "bv" and ta == tb == "v":
                return (f"(bwhere {c_} {a} {b})", "v")
            if tc_ == "bv" and ta == "f" and tb == "v":
                return (f"(bwhere_s {c_} {a} {b})", "v")       # scalar broadcast in the first branch
        if isinstance(n, ast.Call) and ast.unparse(n.func) == "np.isfinite" and len(n.args) == 1 and not n.keywords:
            a, ta = self.tr(n.args[0])
            if ta == "v":
                return (f"(List.map is_finite {a})", "bv")
        if isinstance(n, ast.BinOp) and isinstance(n.op, ast.Div):
            (a, ta), (b, tb) = self.tr(n.left), self.tr(n.right)
            if ta == tb == "v":
                return (f"(vmap2 PrimFloat.div {a} {b})", "v")
        if isinstance(n, ast.Compare) and len(n.ops) == 1 and isinstance(n.ops[0], ast.NotEq):
            (a, ta), (b, tb) = self.tr(n.left), self.tr(n.comparators[0])
            if ta == tb == "v":
                return (f"(bmap2 (fun p_ q_ => negb (PrimFloat.eqb p_ q_)) {a} {b})", "bv")   # element-wise != on arrays
        if isinstance(n, ast.BinOp) and isinstance(n.op, ast.BitAnd):
            (a, ta), (b, tb) = self.tr(n.left), self.tr(n.right)
            if ta == tb == "bv":
                return (f"(bmap2 andb {a} {b})", "bv")
        if isinstance(n, ast.Compare) and len(n.ops) == 1 and isinstance(n.ops[0], (ast.Gt, ast.Lt, ast.GtE, ast.LtE)):
            (a, ta), (b, tb) = self.tr(n.left), self.tr(n.comparators[0])
            if ta == tb == "f":
                t_ = type(n.ops[0])
                return ({ast.Gt: f"(PrimFloat.ltb {b} {a})", ast.Lt: f"(PrimFloat.ltb {a} {b})",
                         ast.GtE: f"(PrimFloat.leb {b} {a})", ast.LtE: f"(PrimFloat.leb {a} {b})"}[t_], "b")
        if isinstance(n, ast.BinOp) and isinstance(n.op, ast.Mult):
            (a, ta), (b, tb) = self.tr(n.left), self.tr(n.right)
            if ta == "f" and tb == "v":
                return (f"(List.map (fun e_ => PrimFloat.mul {a} e_) {b})", "v")   # scalar * array, element-wise
            raise TranslateError("unsupported operand types in " + ast.unparse(n))
        if isinstance(n, ast.BinOp) and isinstance(n.op, (ast.Sub, ast.Add)):
            (a, ta), (b, tb) = self.tr(n.left), self.tr(n.right)
            if ta == tb == "v":
                return (f"({'vsub' if isinstance(n.op, ast.Sub) else 'vadd'} {a} {b})", "v")
            raise TranslateError("unsupported operand types in " + ast.unparse(n))
        if isinstance(n, ast.Call) and isinstance(n.func, ast.Attribute) and isinstance(n.func.value, ast.Name) and n.func.value.id == "np" and not n.keywords:
            f = n.func.attr
            args = [self.tr(a) for a in n.args]
            if f == "clip" and [t for _, t in args] == ["v", "v", "v"]:
                return (f"(vclip {args[0][0]} {args[1][0]} {args[2][0]})", "v")
            if f == "abs" and [t for _, t in args] == ["v"]:
                return (f"(List.map PrimFloat.abs {args[0][0]})", "v")
            if f == "max" and [t for _, t in args] == ["v"]:
                return (f"(vmax {args[0][0]})", "f")
            raise TranslateError("unsupported numpy call " + ast.unparse(n))
        # np.isinf(arr).any()
        if isinstance(n, ast.Call) and isinstance(n.func, ast.Attribute) and n.func.attr == "any" and not n.args and not n.keywords:
            inner = n.func.value
            if isinstance(inner, ast.Call) and ast.unparse(inner.func) == "np.isinf" and len(inner.args) == 1:
                a, ta = self.tr(inner.args[0])
                if ta == "v":
                    return (f"(any_inf {a})", "b")
        # any([<bool expr in arr> for arr in arrs])
        if isinstance(n, ast.Call) and isinstance(n.func, ast.Name) and n.func.id == "any" and len(n.args) == 1 and isinstance(n.args[0], (ast.ListComp, ast.GeneratorExp)):
            lc = n.args[0]
            if len(lc.generators) == 1 and not lc.generators[0].ifs and isinstance(lc.generators[0].target, ast.Name):
                it, tit = self.tr(lc.generators[0].iter)
                if tit == "lv":
                    var = lc.generators[0].target.id
                    sub = VecExpr(dict(self.env, **{var: (var, "v")}))
                    body, tb = sub.tr(lc.elt)
                    if tb == "b":
                        return (f"(List.existsb (fun {var} => {body}) {it})", "b")
        raise TranslateError("unsupported vector expression " + ast.unparse(n))


def gen_base():
    L = ["(* GENERATED from /repo/lbfgsb by harness/translate.py - do not edit *)",
         "From Coq Require Import List String ZArith Floats.PrimFloat.", "From LBFGSB Require Import Model.FloatVec Model.NumpyOps.", "Import ListNotations.", ""]
    tree = ast.parse(_src("base.py"))
    # projgr: a single return statement
    fn = _func(tree, "projgr")
    args = [a.arg for a in fn.args.args]
    if args != ["x", "grad", "lb", "ub"]:
        raise TranslateError(f"projgr: unexpected parameters {args}")
    body = [st for st in fn.body if not (isinstance(st, ast.Expr) and isinstance(st.value, ast.Constant))]
    if len(body) != 1 or not isinstance(body[0], ast.Return):
        raise TranslateError("projgr: expected a single return statement")
    t, ty = VecExpr({a: (a, "v") for a in args}).tr(body[0].value)
    if ty != "f":
        raise TranslateError("projgr: the result is not a scalar")
    L.append(f"Definition projgr (x grad lb ub : vec) : float := {t}.")
    # is_any_inf: a single return statement over a sequence of arrays
    fn = _func(tree, "is_any_inf")
    body = [st for st in fn.body if not (isinstance(st, ast.Expr) and isinstance(st.value, ast.Constant))]
    if [a.arg for a in fn.args.args] != ["arrs"] or len(body) != 1 or not isinstance(body[0], ast.Return):
        raise TranslateError("is_any_inf: unexpected shape")
    t, ty = VecExpr({"arrs": ("arrs", "lv")}).tr(body[0].value)
    if ty != "b":
        raise TranslateError("is_any_inf: the result is not a boolean")
    L.append(f"Definition is_any_inf (arrs : list vec) : bool := {t}.")
    # clip2bounds: `if x0.dtype != np.float64: return <e1>` then `return <e2>`, both the same vector expression for float64 input
    fn = _func(tree, "clip2bounds")
    body = [st for st in fn.body if not (isinstance(st, ast.Expr) and isinstance(st.value, ast.Constant))]
    if [a.arg for a in fn.args.args] != ["x0", "lb", "ub"] or len(body) != 2 or not isinstance(body[0], ast.If) or not isinstance(body[1], ast.Return) \
            or ast.unparse(body[0].test) != "x0.dtype != np.float64" or len(body[0].body) != 1 or not isinstance(body[0].body[0], ast.Return) or body[0].orelse:
        raise TranslateError("clip2bounds: unexpected shape")
    ve = VecExpr({a: (a, "v") for a in ("x0", "lb", "ub")})
    t1, ty1 = ve.tr(body[0].body[0].value)
    t2, ty2 = ve.tr(body[1].value)
    if ty1 != "v" or ty2 != "v" or t1 != t2:
        raise TranslateError("clip2bounds: the two branches differ on float64 input")
    L.append(f"Definition clip2bounds (x0 lb ub : vec) : vec := {t2}.")
    # every point the package forms as  x + alpha * d  is projected back onto the box: the iterate update of main.py and the
    # three trial-point expressions of linesearch.py, translated as vector expressions
    def proj_sites(tree_, fname, start):
        fn_ = _func(tree_, fname)
        out_ = []
        for c_ in ast.walk(fn_):
            if isinstance(c_, ast.Call) and ast.unparse(c_.func) == "np.clip" and len(c_.args) == 3 and isinstance(c_.args[0], ast.BinOp) \
                    and isinstance(c_.args[0].op, ast.Add) and isinstance(c_.args[0].left, ast.Name) and c_.args[0].left.id == start:
                out_.append(c_)
        return out_
    class _ClipNorm(ast.NodeTransformer):
        """np.minimum(np.maximum(E, lo), hi) is what np.clip(E, lo, hi) computes (NumPy defines clip as exactly this composition,
        NaN propagation included): the two spellings are read as the same expression."""
        def visit_Call(self, n):
            self.generic_visit(n)
            if ast.unparse(n.func) == "np.minimum" and len(n.args) == 2 and not n.keywords and isinstance(n.args[0], ast.Call) \
                    and ast.unparse(n.args[0].func) == "np.maximum" and len(n.args[0].args) == 2 and not n.args[0].keywords:
                return ast.copy_location(ast.Call(func=ast.parse("np.clip", mode="eval").body, args=[n.args[0].args[0], n.args[0].args[1], n.args[1]], keywords=[]), n)
            return n
    mt0 = ast.fix_missing_locations(_ClipNorm().visit(ast.parse(_src("main.py"))))
    lt0 = ast.fix_missing_locations(_ClipNorm().visit(ast.parse(_src("linesearch.py"))))
    sites = [("main", c_, "x") for c_ in proj_sites(mt0, "minimize_lbfgsb", "x")] + [("linesearch", c_, "x0") for c_ in proj_sites(lt0, "line_search", "x0")]
    if len([1 for w, _, _ in sites if w == "main"]) != 1 or len([1 for w, _, _ in sites if w == "linesearch"]) != 3:
        raise TranslateError(f"projection sites: expected 1 in minimize_lbfgsb and 3 in line_search, found {[(w, ast.unparse(c_)) for w, c_, _ in sites]}")
    terms = set()
    for w, c_, st in sites:
        mul = c_.args[0].right
        if not (isinstance(mul, ast.BinOp) and isinstance(mul.op, ast.Mult) and isinstance(mul.left, ast.Name) and isinstance(mul.right, ast.Name) and mul.right.id == "d"):
            raise TranslateError("projection site of unexpected shape: " + ast.unparse(c_))
        env_ = {st: ("x", "v"), mul.left.id: ("a", "f"), "d": ("d", "v"), "lb": ("lb", "v"), "ub": ("ub", "v")}
        t_, ty_ = VecExpr(env_).tr(c_)
        if ty_ != "v":
            raise TranslateError("projection site is not a vector: " + ast.unparse(c_))
        terms.add(t_)
    if len(terms) != 1:
        raise TranslateError("the projection sites are not the same expression")
    L.append(f"Definition projected_point (x : vec) (a : float) (d lb ub : vec) : vec := {terms.pop()}.")
    # (the spelling of the local holding the step is free: it is shown as `_`)
    L.append("Definition projection_sites_src : list string := [" + "; ".join(
        coq_string(f"{w}: np.clip({st} + _ * d, {ast.unparse(c_.args[1])}, {ast.unparse(c_.args[2])})") + "%string" for w, c_, st in sites) + "].")
    # the call sites in main.py: is_boxed, the loop guard and the final test
    mt = ast.parse(_src("main.py"))
    mf = _func(mt, "minimize_lbfgsb")
    boxed = [st for st in ast.walk(mf) if isinstance(st, (ast.Assign, ast.AnnAssign)) and ast.unparse(st.targets[0] if isinstance(st, ast.Assign) else st.target) == "is_boxed"]
    if len(boxed) != 1:
        raise TranslateError("is_boxed assignment not found")
    L.append("Local Open Scope string_scope.")
    L.append("Definition is_boxed_src : string := " + coq_string(ast.unparse(boxed[0].value)) + ".")
    c2b = sorted({ast.unparse(st) for st in ast.walk(mf) if isinstance(st, ast.Assign) and isinstance(st.value, ast.Call) and ast.unparse(st.value.func) == "clip2bounds"})
    calls = sorted({ast.unparse(c) for c in ast.walk(mf) if isinstance(c, ast.Call) and ast.unparse(c.func) == "projgr"})
    L.append("Definition projgr_call_sites_src : list string := [" + "; ".join(coq_string(c) for c in calls) + "].")
    L.append("Definition clip2bounds_call_sites_src : list string := [" + "; ".join(coq_string(c) for c in c2b) + "].")
    return "\n".join(L) + "\n"


def gen_bfgsmem():
    L = ["(* GENERATED from /repo/lbfgsb by harness/translate.py - do not edit *)",
         "From Coq Require Import List String ZArith Floats.PrimFloat.", "From LBFGSB Require Import Model.FloatVec Model.NumpyOps.", "Import ListNotations.", ""]
    bt = ast.parse(_src("bfgsmats.py"))
    # bfgsmats.is_update_X_and_G (the curvature test): assignments, then `if <test>: return True` / `return False`
    bt = ast.parse(_src("bfgsmats.py"))
    fn = _func(bt, "is_update_X_and_G")
    if [a.arg for a in fn.args.args] != ["xk", "gk", "x_old", "g_old", "eps"]:
        raise TranslateError("is_update_X_and_G: unexpected parameters")
    body = [st for st in fn.body if not (isinstance(st, ast.Expr) and isinstance(st.value, ast.Constant))]
    env = {"xk": ("xk", "v"), "gk": ("gk", "v"), "x_old": ("x_old", "v"), "g_old": ("g_old", "v"), "eps": ("eps", "f"), "vdot": ("vdot", "o")}
    lets = []
    while body and isinstance(body[0], ast.Assign) and len(body[0].targets) == 1 and isinstance(body[0].targets[0], ast.Name):
        t_, ty_ = VecExpr(env).tr(body[0].value)
        nm = body[0].targets[0].id
        lets.append(f"let {nm} := {t_} in")
        env[nm] = (nm, ty_)
        body = body[1:]
    if not (len(body) == 2 and isinstance(body[0], ast.If) and not body[0].orelse and len(body[0].body) == 1 and ast.unparse(body[0].body[0]) == "return True"
            and ast.unparse(body[1]) == "return False"):
        raise TranslateError("is_update_X_and_G: unexpected tail " + "; ".join(ast.unparse(b_) for b_ in body))
    c_, tc_ = VecExpr(env).tr(body[0].test)
    if tc_ != "b":
        raise TranslateError("is_update_X_and_G: test is not boolean")
    L.append("Definition is_update_X_and_G (vdot : vec -> vec -> float) (xk gk x_old g_old : vec) (eps : float) : bool :=\n  "
             + " ".join(lets) + f" if {c_} then true else false.")
    # bfgsmats.update_X_and_G: the bounded history (two deques mutated in place) as a function returning (accepted, X, G)
    fn = _func(bt, "update_X_and_G")
    if [a.arg for a in fn.args.args] != ["xk", "gk", "X", "G", "maxcor", "eps"]:
        raise TranslateError("update_X_and_G: unexpected parameters")
    body = [st for st in fn.body if not (isinstance(st, ast.Expr) and isinstance(st.value, ast.Constant))]
    src = [ast.unparse(b_) for b_ in body]
    want_head = "if not is_update_X_and_G(xk, gk, X[-1], G[-1], eps):\n    return False"
    if len(body) != 5 or src[0] != want_head or src[1] != "X.append(xk)" or src[2] != "G.append(gk)" or src[4] != "return True":
        raise TranslateError("update_X_and_G: unexpected statements " + " | ".join(src))
    tr_ = body[3]
    if not (isinstance(tr_, ast.If) and not tr_.orelse and [ast.unparse(b_) for b_ in tr_.body] == ["X.popleft()", "G.popleft()"]
            and isinstance(tr_.test, ast.Compare) and len(tr_.test.ops) == 1 and isinstance(tr_.test.ops[0], ast.Gt)
            and ast.unparse(tr_.test.left) == "len(X)" and ast.unparse(tr_.test.comparators[0]) == "maxcor + 1"):
        raise TranslateError("update_X_and_G: unexpected trimming statement " + ast.unparse(tr_))
    L.append("Definition update_X_and_G (vdot : vec -> vec -> float) (xk gk : vec) (X G : list vec) (maxcor : Z) (eps : float) : bool * list vec * list vec :=\n"
             "  if negb (is_update_X_and_G vdot xk gk (List.last X []) (List.last G []) eps) then (false, X, G)\n"
             "  else let X := X ++ [xk] in let G := G ++ [gk] in\n"
             "       if (Z.of_nat (List.length X) >? maxcor + 1)%Z then (true, List.tl X, List.tl G) else (true, X, G).")
    return "\n".join(L) + "\n"


def gen_freeset():
    L = ["(* GENERATED from /repo/lbfgsb by harness/translate.py - do not edit *)",
         "From Coq Require Import List String ZArith Floats.PrimFloat.", "From LBFGSB Require Import Model.FloatVec Model.NumpyOps.", "Import ListNotations.", ""]
    # subspacemin.get_freev: free_vars = (<boolean array expression>).nonzero()[0]
    st_ = ast.parse(_src("subspacemin.py"))
    fn = _func(st_, "get_freev")
    fv = [a_ for a_ in ast.walk(fn) if isinstance(a_, (ast.Assign, ast.AnnAssign)) and ast.unparse(a_.targets[0] if isinstance(a_, ast.Assign) else a_.target) == "free_vars"]
    if len(fv) != 1:
        raise TranslateError("get_freev: assignment of free_vars not found")
    val = fv[0].value
    if not (isinstance(val, ast.Subscript) and ast.unparse(val.slice) == "0" and isinstance(val.value, ast.Call) and isinstance(val.value.func, ast.Attribute)
            and val.value.func.attr == "nonzero" and not val.value.args):
        raise TranslateError("get_freev: free_vars is not <mask>.nonzero()[0]: " + ast.unparse(val))
    m_, tm_ = VecExpr({"x_cp": ("x_cp", "v"), "lb": ("lb", "v"), "ub": ("ub", "v")}).tr(val.value.func.value)
    if tm_ != "bv":
        raise TranslateError("get_freev: the mask is not a boolean array")
    L.append(f"Definition free_mask (x_cp lb ub : vec) : list bool := {m_}.")
    return "\n".join(L) + "\n"


def gen_maxstep():
    L = ["(* GENERATED from /repo/lbfgsb by harness/translate.py - do not edit *)",
         "From Coq Require Import List String ZArith Floats.PrimFloat.", "From LBFGSB Require Import Model.FloatVec Model.NumpyOps.", "Import ListNotations.", ""]
    lt0 = ast.parse(_src("linesearch.py"))
    # linesearch.max_allowed_steplength for n_iter > 0 (the iteration-0 rule is pinned in Consts.v):
    #   with np.errstate(...): _mask = ...; _tmp = ...; if _tmp[np.isfinite(_tmp)].size == 0: return cap; return min(cap, np.nanmin(_tmp[np.isfinite(_tmp)]))
    fn = _func(lt0, "max_allowed_steplength")
    if [a.arg for a in fn.args.args] != ["x", "d", "lb", "ub", "max_steplength", "n_iter"]:
        raise TranslateError("max_allowed_steplength: unexpected parameters")
    body = [st for st in fn.body if not (isinstance(st, ast.Expr) and isinstance(st.value, ast.Constant))]
    if not (len(body) == 2 and isinstance(body[0], ast.If) and ast.unparse(body[0].test) == "n_iter == 0" and isinstance(body[1], ast.With)
            and ast.unparse(body[1].items[0].context_expr).startswith("np.errstate(")):
        raise TranslateError("max_allowed_steplength: unexpected shape")
    wb = body[1].body
    env = {"x": ("x", "v"), "d": ("d", "v"), "lb": ("lb", "v"), "ub": ("ub", "v"), "max_steplength": ("cap", "f")}
    lets = []
    while wb and isinstance(wb[0], ast.Assign) and len(wb[0].targets) == 1 and isinstance(wb[0].targets[0], ast.Name):
        t_, ty_ = VecExpr(env).tr(wb[0].value)
        nm = wb[0].targets[0].id.lstrip("_") + "_"
        lets.append(f"let {nm} := {t_} in")
        env[wb[0].targets[0].id] = (nm, ty_)
        wb = wb[1:]
    if not (len(wb) == 2 and isinstance(wb[0], ast.If) and not wb[0].orelse and len(wb[0].body) == 1 and ast.unparse(wb[0].body[0]) == "return max_steplength"
            and isinstance(wb[0].test, ast.Compare) and ast.unparse(wb[0].test.comparators[0]) == "0"
            and isinstance(wb[0].test.left, ast.Attribute) and wb[0].test.left.attr == "size" and isinstance(wb[0].test.ops[0], ast.Eq)
            and isinstance(wb[1], ast.Return)):
        raise TranslateError("max_allowed_steplength: unexpected tail")
    fin_, tf_ = VecExpr(env).tr(wb[0].test.left.value)
    r_ = wb[1].value
    if not (isinstance(r_, ast.Call) and ast.unparse(r_.func) == "min" and len(r_.args) == 2 and ast.unparse(r_.args[0]) == "max_steplength"
            and isinstance(r_.args[1], ast.Call) and ast.unparse(r_.args[1].func) == "np.nanmin" and len(r_.args[1].args) == 1):
        raise TranslateError("max_allowed_steplength: unexpected return " + ast.unparse(r_))
    fin2_, _ = VecExpr(env).tr(r_.args[1].args[0])
    if tf_ != "v" or fin_ != fin2_:
        raise TranslateError("max_allowed_steplength: the emptiness test and the minimum are not over the same array")
    L.append("Definition max_allowed_steplength (x d lb ub : vec) (cap : float) : float :=\n  " + " ".join(lets)
             + f" let fin_ := {fin_} in\n  match fin_ with [] => cap | _ => pymin cap (vmin fin_ cap) end.")
    return "\n".join(L) + "\n"


def gen_cauchyhead():
    L = ["(* GENERATED from /repo/lbfgsb by harness/translate.py - do not edit *)",
         "From Coq Require Import List String ZArith Floats.PrimFloat.", "From LBFGSB Require Import Model.FloatVec Model.NumpyOps.", "Import ListNotations.", ""]
    # cauchy.get_cauchy_point, its head: breakpoints t (with two masked assignments), direction d, ordered breakpoint indices
    ct = ast.parse(_src("cauchy.py"))
    fn = _func(ct, "get_cauchy_point")
    env = {"x": ("x", "v"), "grad": ("grad", "v"), "lb": ("lb", "v"), "ub": ("ub", "v"), "argsort": ("FCauchy.argsort", "o")}
    lets, got = [], {}
    for st in fn.body:
        tgt = st.targets[0] if isinstance(st, ast.Assign) and len(st.targets) == 1 else (st.target if isinstance(st, ast.AnnAssign) else None)
        if tgt is None:
            continue
        if isinstance(tgt, ast.Name) and tgt.id in ("t", "mask", "d", "sorted_t_idx"):
            t_, ty_ = VecExpr(env).tr(st.value)
            k_ = len([1 for l_ in lets if l_.startswith("let " + tgt.id + "_")])
            nm = f"{tgt.id}_{k_}"
            lets.append(f"let {nm} := {t_} in")
            env[tgt.id] = (nm, ty_)
            got[tgt.id] = (nm, ty_)
            if tgt.id == "sorted_t_idx" and k_ == 1:
                break
        elif isinstance(tgt, ast.Subscript) and isinstance(tgt.value, ast.Name) and tgt.value.id == "t":
            (m_, tm_), (v_, tv_) = VecExpr(env).tr(tgt.slice), VecExpr(env).tr(st.value)
            if tm_ != "bv" or tv_ not in ("v", "f"):
                raise TranslateError("get_cauchy_point: unsupported masked assignment " + ast.unparse(st))
            k_ = len([1 for l_ in lets if l_.startswith("let t_")])
            nm = f"t_{k_}"
            lets.append(f"let {nm} := ({'bscatter' if tv_ == 'v' else 'bset'} {m_} {v_} {env['t'][0]}) in")
            env["t"] = (nm, "v")
            got["t"] = (nm, "v")
    if set(got) != {"t", "mask", "d", "sorted_t_idx"} or got["sorted_t_idx"][1] != "iv" or got["d"][1] != "v":
        raise TranslateError("get_cauchy_point: head not recognised: " + str(sorted(got)))
    L.insert(3, "From LBFGSB Require Model.FCauchy.")
    L.append("Definition cauchy_head (x grad lb ub : vec) : vec * vec * list nat :=\n  " + "\n  ".join(lets)
             + f"\n  ({got['t'][0]}, {got['d'][0]}, {got['sorted_t_idx'][0]}).")
    # cauchy.get_cauchy_point, its final move: is_moving = d != 0; x_cp[is_moving] = np.clip(x + t_old * d, lb, ub)[is_moving]
    fm = [st for st in fn.body if isinstance(st, ast.Assign) and len(st.targets) == 1 and ast.unparse(st.targets[0]) in ("is_moving", "x_cp[is_moving]")]
    if [ast.unparse(st.targets[0]) for st in fm] != ["is_moving", "x_cp[is_moving]"]:
        raise TranslateError("get_cauchy_point: final move not recognised")
    env2 = {"x": ("x", "v"), "d": ("d", "v"), "lb": ("lb", "v"), "ub": ("ub", "v"), "t_old": ("t_old", "f"), "x_cp": ("x_cp", "v")}
    m_, tm_ = VecExpr(env2).tr(fm[0].value)
    env2["is_moving"] = ("is_moving_", tm_)
    v_, tv_ = VecExpr(env2).tr(fm[1].value)
    if tm_ != "bv" or tv_ != "v":
        raise TranslateError("get_cauchy_point: final move of unexpected types")
    L.append(f"Definition cauchy_final_move (t_old : float) (x_cp x d lb ub : vec) : vec :=\n  let is_moving_ := {m_} in bscatter is_moving_ {v_} x_cp.")
    return "\n".join(L) + "\n"


GENERATORS["Base.v"] = gen_base
GENERATORS["BfgsMem.v"] = gen_bfgsmem
GENERATORS["FreeSet.v"] = gen_freeset
GENERATORS["MaxStep.v"] = gen_maxstep
GENERATORS["CauchyHead.v"] = gen_cauchyhead



def gen_mainloop():
    """Statements of the outer loop of minimize_lbfgsb translated to list operations: the failed-line-search branch (abort test, memory
    reboot) and the first-step rule of line_search."""
    L = ["(* GENERATED from /repo/lbfgsb/main.py and linesearch.py by harness/translate.py - do not edit *)",
         "From Coq Require Import List String ZArith Bool Floats.PrimFloat.", "From LBFGSB Require Import Model.FloatVec.", "Import ListNotations.", ""]
    mt = ast.parse(_src("main.py"))
    mf = _func(mt, "minimize_lbfgsb")
    # the name the result of line_search is bound to (a local: its spelling is free)
    lsv = [st.targets[0].id for st in ast.walk(mf) if isinstance(st, ast.Assign) and len(st.targets) == 1 and isinstance(st.targets[0], ast.Name)
           and isinstance(st.value, ast.Call) and ast.unparse(st.value.func) == "line_search"]
    if len(lsv) != 1:
        raise TranslateError("minimize_lbfgsb: the result of line_search is not bound to one local name")
    fails = [st for st in ast.walk(mf) if isinstance(st, ast.If) and ast.unparse(st.test) == lsv[0] + " is None"]
    if len(fails) != 1 or len(fails[0].body) != 1 or not isinstance(fails[0].body[0], ast.If):
        raise TranslateError("failed-line-search branch not found")
    inner = fails[0].body[0]
    if ast.unparse(inner.test) != "len(X) == 1":
        raise TranslateError("failed-line-search branch: unexpected abort test " + ast.unparse(inner.test))
    L.append("Definition abort_after_failed_search (X : list vec) : bool := Nat.eqb (List.length X) 1.")

    def deque_of(st, want):
        if not (isinstance(st, ast.Assign) and len(st.targets) == 1 and ast.unparse(st.targets[0]) == want and isinstance(st.value, ast.Call)
                and ast.unparse(st.value.func) == "Deque" and len(st.value.args) == 1 and isinstance(st.value.args[0], ast.List)):
            raise TranslateError("memory reboot: unexpected statement " + ast.unparse(st))
        out = []
        for e in st.value.args[0].elts:
            if isinstance(e, ast.Subscript) and isinstance(e.value, ast.Name) and e.value.id in ("X", "G") and ast.unparse(e.slice) == "-1":
                out.append(f"List.last {e.value.id} []")
            elif isinstance(e, ast.Name) and e.id in ("x", "grad"):
                out.append({"x": "x", "grad": "g"}[e.id])
            else:
                raise TranslateError("memory reboot: unexpected element " + ast.unparse(e))
        return "[" + "; ".join(out) + "]"
    asg = [st for st in inner.orelse if isinstance(st, ast.Assign) and ast.unparse(st.targets[0]) in ("X", "G", "mats")]
    if [ast.unparse(st.targets[0]) for st in asg] != ["X", "G", "mats"] or ast.unparse(asg[2].value) != "LBFGSB_MATRICES(n)":
        raise TranslateError("memory reboot: expected X, G, mats assignments, found " + "; ".join(ast.unparse(st) for st in inner.orelse))
    L.append(f"Definition reboot_history (x g : vec) (X G : list vec) : list vec * list vec := ({deque_of(asg[0], 'X')}, {deque_of(asg[1], 'G')}).")
    # first-step rule of line_search
    lt = ast.parse(_src("linesearch.py"))
    lf = _func(lt, "line_search")
    first = [st for st in lf.body if isinstance(st, ast.If) and ast.unparse(st.test) == "above_iter == 0 and (not is_boxed)"]
    if len(first) != 1 or len(first[0].body) != 1 or len(first[0].orelse) != 1:
        raise TranslateError("line_search: first-step rule not found")
    a1, a2 = first[0].body[0], first[0].orelse[0]
    if not (isinstance(a1, ast.Assign) and isinstance(a2, ast.Assign) and ast.unparse(a1.targets[0]) == ast.unparse(a2.targets[0]) == "steplength_0"):
        raise TranslateError("line_search: first-step rule of unexpected shape")

    class FE(FloatExpr):
        def tr(self, n):
            if isinstance(n, ast.Call) and ast.unparse(n.func) == "np.sqrt" and len(n.args) == 1:
                return f"(PrimFloat.sqrt {self.tr(n.args[0])})"
            if isinstance(n, ast.Call) and isinstance(n.func, ast.Attribute) and n.func.attr == "dot" and len(n.args) == 1 \
                    and isinstance(n.func.value, ast.Name) and isinstance(n.args[0], ast.Name):
                return f"(vdot {n.func.value.id} {n.args[0].id})"
            return super().tr(n)
    fe = FE({"max_steplength": "stpmax"})
    L.append("(* Python's min(a, b): the first argument unless the second compares smaller *)")
    L.append("Definition pymin (a b : float) : float := if PrimFloat.ltb b a then b else a.")
    L.append(f"Definition first_step (vdot : vec -> vec -> float) (iter0 is_boxed : bool) (d : vec) (stpmax : float) : float :=\n"
             f"  if iter0 && negb is_boxed then {fe.tr(a1.value)} else {fe.tr(a2.value)}.")
    return "\n".join(L) + "\n"


GENERATORS["MainLoop.v"] = gen_mainloop


def gen_restore():
    """main.initialize_X_and_G: the loop that rebuilds the stored points from the checkpoint's differences."""
    L = ["(* GENERATED from /repo/lbfgsb/main.py by harness/translate.py - do not edit *)",
         "From Coq Require Import List ZArith Bool Floats.PrimFloat.", "From LBFGSB Require Import Model.FloatVec Model.NumpyOps.", "Import ListNotations.", ""]
    mt = ast.parse(_src("main.py"))
    fn = _func(mt, "initialize_X_and_G")
    loops = [st for st in fn.body if isinstance(st, ast.For)]
    if len(loops) != 1:
        raise TranslateError("initialize_X_and_G: expected one for loop")
    lp = loops[0]
    if not (ast.unparse(lp.target) == "(x, g)" and isinstance(lp.iter, ast.Call) and ast.unparse(lp.iter.func) == "zip" and len(lp.iter.args) == 2 and not lp.orelse):
        raise TranslateError("initialize_X_and_G: unexpected loop header " + ast.unparse(lp.iter))

    def points(e, base, rows):
        # (checkpoint.<base> - np.cumsum(checkpoint.hess_inv.<rows>[::-1], axis=0))[::-1]
        def is_rev(sub):
            return isinstance(sub, ast.Subscript) and isinstance(sub.slice, ast.Slice) and sub.slice.lower is None and sub.slice.upper is None \
                and sub.slice.step is not None and ast.unparse(sub.slice.step) == "-1"
        if not (is_rev(e) and isinstance(e.value, ast.BinOp) and isinstance(e.value.op, ast.Sub) and ast.unparse(e.value.left) == "checkpoint." + base):
            raise TranslateError("initialize_X_and_G: unexpected iterable " + ast.unparse(e))
        cs = e.value.right
        if not (isinstance(cs, ast.Call) and ast.unparse(cs.func) == "np.cumsum" and len(cs.args) == 1 and [(k.arg, ast.unparse(k.value)) for k in cs.keywords] == [("axis", "0")]
                and is_rev(cs.args[0]) and ast.unparse(cs.args[0].value) == "checkpoint.hess_inv." + rows):
            raise TranslateError("initialize_X_and_G: unexpected cumulative sum " + ast.unparse(cs))
        # vector minus each row of the (reversed) cumulative sums, then reversed
        return "List.rev (List.map (fun r_ => vsub v r_) (np_cumsum (List.rev rows)))"
    tx = points(lp.iter.args[0], "x", "sk")
    tg = points(lp.iter.args[1], "jac", "yk")
    if tx != tg:
        raise TranslateError("initialize_X_and_G: the two iterables differ")
    L.append(f"Definition restored_points (v : vec) (rows : list vec) : list vec := {tx}.")
    body = [ast.unparse(b_) for b_ in lp.body]
    if body != ["if len(X) > maxcor:\n    X.popleft()\n    G.popleft()", "X.append(x)", "G.append(g)"]:
        raise TranslateError("initialize_X_and_G: unexpected loop body " + " | ".join(body))
    L.append("(* for x, g in zip(px, pg): if len(X) > maxcor: X.popleft(); G.popleft()  ;  X.append(x); G.append(g) *)")
    L.append("Fixpoint push_pairs (maxcor : Z) (pts : list (vec * vec)) (X G : list vec) : list vec * list vec :=\n"
             "  match pts with\n  | [] => (X, G)\n"
             "  | (x_, g_) :: r => let '(X1, G1) := if (Z.of_nat (List.length X) >? maxcor)%Z then (List.tl X, List.tl G) else (X, G) in\n"
             "                      push_pairs maxcor r (X1 ++ [x_]) (G1 ++ [g_])\n  end.")
    L.append("Definition initialize_X_and_G (maxcor : Z) (x jac : vec) (sk yk : list vec) : list vec * list vec :=\n"
             "  push_pairs maxcor (List.combine (restored_points x sk) (restored_points jac yk)) [] [].")
    return "\n".join(L) + "\n"


GENERATORS["RestoreGen.v"] = gen_restore


def gen_filter():
    """bfgsmats.make_X_and_G_respect_strong_wolfe: the backwards walk that keeps a stored point when the pair it forms with the
    oldest point kept so far passes the curvature test (logging statements ignored: the model has no logger)."""
    L = ["(* GENERATED from /repo/lbfgsb/bfgsmats.py by harness/translate.py - do not edit *)",
         "From Coq Require Import List ZArith Bool Floats.PrimFloat.", "From LBFGSB Require Import Model.FloatVec.", "From LBFGSB Require Generated.BfgsMem.", "Import ListNotations.", ""]
    bt = ast.parse(_src("bfgsmats.py"))
    fn = _func(bt, "make_X_and_G_respect_strong_wolfe")
    if [a.arg for a in fn.args.args] != ["X", "G", "eps", "logger"]:
        raise TranslateError("make_X_and_G_respect_strong_wolfe: unexpected parameters")

    def nolog(stmts):
        out = []
        for st in stmts:
            if isinstance(st, ast.Expr) and isinstance(st.value, ast.Constant):
                continue
            if isinstance(st, ast.If) and "logger" in ast.unparse(st.test) and all(isinstance(b_, ast.Expr) and ast.unparse(b_).startswith("logger.") for b_ in st.body) and not st.orelse:
                continue
            out.append(st)
        return out
    body = nolog(fn.body)
    src = [ast.unparse(b_) for b_ in body]
    if len(body) != 4 or src[0] != "ncor: int = len(X) - 1" or src[1] != "_X, _G = (Deque([X[-1]]), Deque([G[-1]]))" or src[3] != "return (_X, _G)" or not isinstance(body[2], ast.For):
        raise TranslateError("make_X_and_G_respect_strong_wolfe: unexpected statements " + " | ".join(src))
    lp = body[2]
    if not (ast.unparse(lp.target) == "i" and ast.unparse(lp.iter) == "range(ncor)" and not lp.orelse):
        raise TranslateError("make_X_and_G_respect_strong_wolfe: unexpected loop header")
    lb_ = nolog(lp.body)
    if not (len(lb_) == 2 and ast.unparse(lb_[0]) == "k = ncor - i - 1" and isinstance(lb_[1], ast.If)):
        raise TranslateError("make_X_and_G_respect_strong_wolfe: unexpected loop body " + " | ".join(ast.unparse(b_) for b_ in lb_))
    iff = lb_[1]
    test = ast.unparse(iff.test)
    then_, else_ = nolog(iff.body), nolog(iff.orelse)
    if test != "not is_update_X_and_G(X[k], G[k], _X[0], _G[0], eps)" or then_ or [ast.unparse(b_) for b_ in else_] != ["_X.appendleft(X[k])", "_G.appendleft(G[k])"]:
        raise TranslateError("make_X_and_G_respect_strong_wolfe: unexpected test / branches: " + test + " | " + " ; ".join(ast.unparse(b_) for b_ in iff.body + iff.orelse))
    L.append("Section Filter.\n  Variable vdot : vec -> vec -> float.\n  Variable eps : float.\n  Variables X G : list vec.\n"
             "  Definition ncor : nat := List.length X - 1.\n"
             "  (* for i in range(ncor): k = ncor - i - 1; if not is_update_X_and_G(X[k], G[k], _X[0], _G[0], eps): pass  else: appendleft *)\n"
             "  Fixpoint walk (cnt i : nat) (aX aG : list vec) : list vec * list vec :=\n"
             "    match cnt with\n    | O => (aX, aG)\n"
             "    | S cnt' => let k := (ncor - i - 1)%nat in\n"
             "        if negb (BfgsMem.is_update_X_and_G vdot (List.nth k X []) (List.nth k G []) (List.hd [] aX) (List.hd [] aG) eps)\n"
             "        then walk cnt' (S i) aX aG\n"
             "        else walk cnt' (S i) (List.nth k X [] :: aX) (List.nth k G [] :: aG)\n    end.\n"
             "  Definition make_X_and_G_respect_strong_wolfe : list vec * list vec := walk ncor 0%nat [List.last X []] [List.last G []].\nEnd Filter.")
    return "\n".join(L) + "\n"


GENERATORS["FilterGen.v"] = gen_filter


def gen_wrapper_src():
    """scalar_function.ScalarFunction: the normalised source of the six methods and of the closures of __init__ that the hand-written
    wrapper model (Model/SF.v) mirrors - pinned in Properties/C15.v."""
    t = ast.parse(_src("scalar_function.py"))
    cl = _cls(t, "ScalarFunction")
    L = ["(* GENERATED from /repo/lbfgsb/scalar_function.py by harness/translate.py - do not edit *)",
         "From Coq Require Import String List.", "Import ListNotations.", "Local Open Scope string_scope.", ""]
    meths = {n.name: n for n in cl.body if isinstance(n, ast.FunctionDef)}
    for nm in ("update_x", "_update_fun", "_update_grad", "fun", "grad", "fun_and_grad"):
        if nm not in meths:
            raise TranslateError(f"ScalarFunction.{nm} not found")
        L.append(f"Definition sf_{nm.strip('_')}_src : list string := [" + ";\n  ".join(coq_string(x) for x in _body_src(meths[nm])) + "].")
    init = meths.get("__init__")
    if init is None:
        raise TranslateError("ScalarFunction.__init__ not found")
    inner = [n for n in ast.walk(init) if isinstance(n, ast.FunctionDef) and n is not init]
    names = [n.name for n in inner]
    if sorted(names) != sorted(["fun_wrapped", "update_fun", "grad_wrapped", "update_grad", "update_grad"]):
        raise TranslateError("ScalarFunction.__init__: unexpected closures " + repr(names))
    k = 0
    for n in inner:
        nm = n.name
        if nm == "update_grad":
            k += 1
            nm = f"update_grad_{k}"
        L.append(f"Definition sf_init_{nm}_src : list string := [" + ";\n  ".join(coq_string(x) for x in _body_src(n)) + "].")
    return "\n".join(L) + "\n"


GENERATORS["WrapperSrc.v"] = gen_wrapper_src


def gen_cauchy_scalars():
    """cauchy.get_cauchy_point: the scalar recurrences of the breakpoint loop (f', f'', the eps safeguard, delta_t_min), the break
    test, and the tail after the loop (clamp of delta_t_min, t_old, the final update of c) by symbolic execution of the statements."""
    L = ["(* GENERATED from /repo/lbfgsb/cauchy.py by harness/translate.py - do not edit *)",
         "From Coq Require Import List Bool Floats.PrimFloat.", "From LBFGSB Require Import Model.FloatVec.", "Import ListNotations.", "",
         "Definition pymax (a b : float) : float := if PrimFloat.ltb a b then b else a.",
         "Definition pymin (a b : float) : float := if PrimFloat.ltb b a then b else a.", ""]
    ct = ast.parse(_src("cauchy.py"))
    fn = _func(ct, "get_cauchy_point")
    eps = [st for st in fn.body if isinstance(st, ast.Assign) and ast.unparse(st.targets[0]) == "eps_f_sec"]
    if len(eps) != 1 or ast.unparse(eps[0].value) != "np.finfo(float).eps":
        raise TranslateError("eps_f_sec is not np.finfo(float).eps")
    wh = [st for st in fn.body if isinstance(st, ast.While)]
    if len(wh) != 1:
        raise TranslateError("get_cauchy_point: expected one while loop")
    ORACLES = {"W_b.dot(bmv(mats.invMfactors, c))": "wMc", "W_b.dot(bmv(mats.invMfactors, 2 * p + g_b * W_b))": "wMv"}

    class FE(FloatExpr):
        def tr(self, n):
            u = ast.unparse(n)
            if u in ORACLES:
                return ORACLES[u]
            if u == "mats.theta":
                return "theta"
            return super().tr(n)
    env = {"delta_t": "dt", "f_prime": "fp", "f_second": "fs", "g_b": "gb", "zb": "zb", "eps_f_sec": "0x1p-52%float", "f2_org": "f2_org",
           "delta_t_min": "dtm", "t_cur": "t_cur", "t_old": "t_old"}
    # --- the break test
    brk = [st for st in wh[0].body if isinstance(st, ast.If) and any(isinstance(b_, ast.Break) for b_ in st.body)]
    if len(brk) != 1:
        raise TranslateError("get_cauchy_point: break test not found")
    L.append(f"Definition cauchy_break (dtm dt : float) : bool := {FE(env).cond(brk[0].test)}.")
    # --- scalar statements of the loop body, in order
    def run(stmts, env, cond=None):
        for st in stmts:
            if isinstance(st, ast.AugAssign) and isinstance(st.target, ast.Name) and st.target.id in ("f_prime", "f_second"):
                op = {ast.Add: "add", ast.Sub: "sub"}.get(type(st.op))
                if op is None:
                    raise TranslateError("unsupported augmented assignment " + ast.unparse(st))
                new_ = f"(PrimFloat.{op} {env[st.target.id]} {FE(env).tr(st.value)})"
                env[st.target.id] = new_ if cond is None else f"(if {cond} then {new_} else {env[st.target.id]})"
            elif isinstance(st, ast.Assign) and len(st.targets) == 1 and isinstance(st.targets[0], ast.Name) and st.targets[0].id in ("f_second", "delta_t_min"):
                if cond is not None:
                    raise TranslateError("conditional plain assignment " + ast.unparse(st))
                env[st.targets[0].id] = FE(env).tr(st.value)
            elif isinstance(st, ast.If) and ast.unparse(st.test) == "mats.use_factor" and not st.orelse and cond is None:
                run(st.body, env, "use_factor")
            elif isinstance(st, (ast.AugAssign, ast.Assign)) and any(isinstance(n_, ast.Name) and n_.id in ("f_prime", "f_second", "delta_t_min") and isinstance(n_.ctx, ast.Store) for n_ in ast.walk(st)):
                raise TranslateError("unrecognised statement on the scalar state: " + ast.unparse(st))
    e1 = dict(env)
    run(wh[0].body, e1)
    L.append("(* one pass of the loop on the scalars: (f_prime, f_second, delta_t_min) after the pass; wMc, wMv are the two BLAS answers *)")
    L.append("Definition cauchy_scalar_step (theta f2_org dt gb zb fp fs wMc wMv : float) (use_factor : bool) : float * float * float :=\n"
             f"  let fp1 := {e1['f_prime']} in\n  let fs1 := {e1['f_second']} in\n  (fp1, fs1, {e1['delta_t_min'].replace(e1['f_prime'], 'fp1').replace(e1['f_second'], 'fs1')}).")
    # --- the tail after the loop
    i0 = fn.body.index(wh[0])
    tail = fn.body[i0 + 1:]
    cl = [st for st in tail if isinstance(st, ast.Assign) and ast.unparse(st.targets[0]) == "delta_t_min"]
    if len(cl) != 1 or not isinstance(cl[0].value, ast.IfExp):
        raise TranslateError("get_cauchy_point: clamp of delta_t_min not found")
    ife = cl[0].value
    clamp = f"(if {FE(env).cond(ife.test)} then {FE(env).tr(ife.body)} else {FE(env).tr(ife.orelse)})"
    order = [ast.unparse(st) for st in tail if isinstance(st, (ast.Assign, ast.AugAssign)) and not ast.unparse(st).startswith(("is_moving", "x_cp["))]
    if order != ["delta_t_min = 0 if delta_t_min < 0 else delta_t_min", "t_old += delta_t_min", "c += delta_t_min * p"]:
        raise TranslateError("get_cauchy_point: unexpected tail " + " | ".join(order))
    L.append("(* after the loop: delta_t_min is clamped at 0 FIRST; t_old and the last update of c both use the clamped value *)")
    L.append(f"Definition cauchy_clamp (dtm : float) : float := {clamp}.")
    L.append("(* (t_old after `t_old += delta_t_min`, the factor of p in the last `c += delta_t_min * p`) *)")
    L.append("Definition cauchy_tail (dtm t_old : float) : float * float :=\n  let dtm1 := cauchy_clamp dtm in (PrimFloat.add t_old dtm1, dtm1).")
    return "\n".join(L) + "\n"


GENERATORS["CauchyScalars.v"] = gen_cauchy_scalars


def gen_ls_bookkeeping():
    """linesearch.line_search: which trial step is handed back - the initialisation of the best trial, its update after every
    evaluation, and the decisions after the loop - recognised statement by statement (fail-closed)."""
    L = ["(* GENERATED from /repo/lbfgsb/linesearch.py by harness/translate.py - do not edit *)",
         "From Coq Require Import List Bool Floats.PrimFloat.", "From LBFGSB Require Import Model.FloatVec.", "Import ListNotations.", ""]
    lt = ast.parse(_src("linesearch.py"))
    fn = _func(lt, "line_search")
    wh = [st for st in fn.body if isinstance(st, ast.While)]
    if len(wh) != 1 or ast.unparse(wh[0].test) != "_iter < max_iter":
        raise TranslateError("line_search: loop not found")
    i0 = fn.body.index(wh[0])
    init = {ast.unparse(st.target if isinstance(st, ast.AnnAssign) else st.targets[0]): ast.unparse(st.value)
            for st in fn.body[:i0] if isinstance(st, (ast.Assign, ast.AnnAssign)) and getattr(st, "value", None) is not None}
    if init.get("best_stp") != "None" or init.get("best_f") != "f0" or init.get("f_m1") != "f0" or init.get("dphi_m1") != "dphi0" or init.get("_iter") != "0":
        raise TranslateError("line_search: unexpected initialisation " + repr({k: init.get(k) for k in ("best_stp", "best_f", "f_m1", "dphi_m1", "_iter")}))
    L.append("(* best_stp = None; best_f = f0 *)")
    L.append("Definition best_init (f0 : float) : option float * float := (None, f0).")
    fg = [st for st in wh[0].body if isinstance(st, ast.If) and ast.unparse(st.test) == "task[:2] == b'FG'"]
    if len(fg) != 1 or [ast.unparse(b_) for b_ in fg[0].orelse] != ["break"]:
        raise TranslateError("line_search: FG branch not found")
    stm = [ast.unparse(b_) for b_ in fg[0].body]
    want = ["steplength_0 = steplength", "f_m1, dphi_m1 = sf.fun_and_grad(np.clip(x0 + steplength * d, lb, ub))", "dphi_m1 = dphi_m1.dot(d)",
            "if f_m1 < best_f:\n    best_f = f_m1\n    best_stp = steplength"]
    if stm != want:
        raise TranslateError("line_search: unexpected FG branch " + " | ".join(stm))
    L.append("(* if f_m1 < best_f: best_f = f_m1; best_stp = steplength *)")
    L.append("Definition best_update (f_m1 steplength : float) (b : option float * float) : option float * float :=\n"
             "  if PrimFloat.ltb f_m1 (snd b) then (Some steplength, f_m1) else b.")
    if [ast.unparse(b_) for b_ in wh[0].orelse] != ["task = b'WARNING: dcsrch did not converge within max iterations'"]:
        raise TranslateError("line_search: unexpected while-else")
    tail = [st for st in fn.body[i0 + 1:] if not (isinstance(st, ast.If) and "logger" in ast.unparse(st.test))]
    ts = [ast.unparse(st) for st in tail]
    want_tail = ["if steplength is not None:\n    if not np.isfinite(steplength) or steplength == 0.0:\n        task = b'ERROR'\n        return None",
                 "if task[:4] != b'CONV' and task[:4] != b'WARN':\n    return None", "if best_stp is None:\n    return None",
                 "steplength = best_stp", "task = b'NEW_X'", "return steplength"]
    if ts != want_tail:
        raise TranslateError("line_search: unexpected statements after the loop " + " | ".join(ts))
    L.append("(* after the loop (steplength = the last step returned by the routine; it is never None on the SciPy >= 1.12 path):\n"
             "   not finite or == 0.0 -> None; task neither CONV nor WARN -> None; best_stp None -> None; else best_stp *)")
    L.append("Definition ls_result (last : float) (conv_or_warn : bool) (best : option float) : option float :=\n"
             "  if negb (is_finite last) || PrimFloat.eqb last 0x0.0p+0%float then None else if negb conv_or_warn then None else best.")
    return "\n".join(L) + "\n"


GENERATORS["LsBook.v"] = gen_ls_bookkeeping


def gen_subspace_tail():
    """subspacemin.subspace_minimization: everything except the reduced solve (which stays an oracle): the early return, the
    reduced gradient r and its restriction rHat, dHat from the oracle's answer, the backtracking factor alpha_star and the
    returned point; plus the construction of the selection matrix Z in get_freev."""
    L = ["(* GENERATED from /repo/lbfgsb/subspacemin.py by harness/translate.py - do not edit *)",
         "From Coq Require Import List Bool Floats.PrimFloat.", "From LBFGSB Require Import Model.FloatVec Model.NumpyOps.", "Import ListNotations.", ""]
    st_ = _unann(ast.parse(_src("subspacemin.py")))
    # --- get_freev: Z is the selection matrix of free_vars, n = x_cp.size
    gf = _func(st_, "get_freev")
    asg = {}
    for a_ in ast.walk(gf):
        if isinstance(a_, (ast.Assign, ast.AnnAssign)) and getattr(a_, "value", None) is not None:
            asg.setdefault(ast.unparse(a_.targets[0] if isinstance(a_, ast.Assign) else a_.target), []).append(ast.unparse(a_.value))
    want = {"n": ["x_cp.size"], "nb_free_vars": ["free_vars.size"], "Z": ["lil_matrix((n, nb_free_vars))"], "Z[free_vars, np.arange(nb_free_vars)]": ["1"]}
    for k_, v_ in want.items():
        if asg.get(k_) != v_:
            raise TranslateError(f"get_freev: {k_} is assigned {asg.get(k_)}, expected {v_}")
    rets = [ast.unparse(r_.value) for r_ in ast.walk(gf) if isinstance(r_, ast.Return)]
    if rets != ["(free_vars, Z.tocsc(), A.tocsc())"]:
        raise TranslateError("get_freev: unexpected return " + repr(rets))
    # --- subspace_minimization
    fn = _func(st_, "subspace_minimization")
    params = [a.arg for a in fn.args.args]
    if params[:10] != ["x", "xc", "free_vars", "Z", "A", "c", "grad", "lb", "ub", "mats"]:
        raise TranslateError("subspace_minimization: unexpected parameters " + repr(params))
    body = [s_ for s_ in fn.body if not (isinstance(s_, ast.Expr) and isinstance(s_.value, ast.Constant))]
    u = [ast.unparse(s_) for s_ in body]
    env = {"x": ("x", "v"), "xc": ("xc", "v"), "c": ("c", "v"), "grad": ("grad", "v"), "lb": ("lb", "v"), "ub": ("ub", "v"),
           "free_vars": ("free_vars", "iv"), "mats.theta": ("theta", "f")}
    def assign(i, name):
        s_ = body[i]
        if not (isinstance(s_, ast.Assign) and len(s_.targets) == 1 and ast.unparse(s_.targets[0]) == name):
            raise TranslateError(f"subspace_minimization: statement {i} is not an assignment of {name}: " + u[i])
        return s_.value
    lets = []
    def bind(i, name, coq, want_ty):
        t_, ty_ = VecExpr(env).tr(assign(i, name))
        if ty_ != want_ty:
            raise TranslateError(f"subspace_minimization: {name} has type {ty_}")
        lets.append(f"let {coq} := {t_} in")
        env[name] = (coq, ty_)
    bind(0, "invThet", "invThet", "f")
    if u[1] != "if len(free_vars) == 0:\n    return xc":
        raise TranslateError("subspace_minimization: early return not found: " + u[1])
    if u[2] != "WTZ = Z.T.dot(mats.W).T":
        raise TranslateError("subspace_minimization: unexpected WTZ: " + u[2])
    bind(3, "r", "r0_", "v")
    if u[4] != "if mats.use_factor:\n    r -= mats.W.dot(bmv(mats.invMfactors, c))":
        raise TranslateError("subspace_minimization: unexpected correction of r: " + u[4])
    lets.append("let r1_ := if use_factor then vinplace PrimFloat.sub r0_ (o_Wc c) else r0_ in")
    env["r"] = ("r1_", "v")
    bind(5, "rHat", "rHat", "v")
    if u[6] != "v = WTZ.dot(rHat)":
        raise TranslateError("subspace_minimization: unexpected right-hand side of the reduced system: " + u[6])
    k = [i for i, s_ in enumerate(u) if s_.startswith("dHat = ")]
    if len(k) != 1 or k[0] != len(body) - 4:
        raise TranslateError("subspace_minimization: dHat is not assigned once, four statements before the end")
    k = k[0]
    # the reduced solve (statements 7 .. k-1) is the oracle: it may write any local of its own, but none of the names the
    # translated statements read (nor mutate what they are bound to)
    protected = {"x", "xc", "free_vars", "Z", "A", "c", "grad", "lb", "ub", "mats", "invThet", "WTZ", "r", "rHat"}
    for s_ in body[7:k]:
        for n_ in ast.walk(s_):
            if isinstance(n_, ast.Name) and isinstance(n_.ctx, (ast.Store, ast.Del)) and n_.id in protected:
                raise TranslateError("subspace_minimization: the reduced solve writes " + n_.id)
            if isinstance(n_, ast.Return):
                raise TranslateError("subspace_minimization: the reduced solve returns")
            if isinstance(n_, ast.Call) and isinstance(n_.func, ast.Attribute) and n_.func.attr in ("fill", "sort", "resize", "put", "itemset", "append", "extend", "pop", "clear", "insert", "remove", "reverse") \
                    and ast.unparse(n_.func.value).split("[")[0].split(".")[0] in protected:
                raise TranslateError("subspace_minimization: the reduced solve mutates " + ast.unparse(n_.func.value))
            if isinstance(n_, (ast.Subscript, ast.Attribute)) and isinstance(n_.ctx, (ast.Store, ast.Del)) and ast.unparse(n_.value).split("[")[0].split(".")[0] in protected:
                raise TranslateError("subspace_minimization: the reduced solve writes into " + ast.unparse(n_))
            if isinstance(n_, ast.keyword) and n_.arg in ("out", "overwrite_a", "overwrite_b") and not (isinstance(n_.value, ast.Constant) and n_.value.value is False):
                raise TranslateError("subspace_minimization: the reduced solve passes " + n_.arg)
    lets.append("let corr_ := o_corr free_vars rHat in")
    env["np.transpose(WTZ).dot(v)"] = ("corr_", "v")
    bind(k, "dHat", "dHat", "v")
    bind(k + 1, "mask", "mask", "bv")
    # alpha_star = min(1.0, np.nanmin(<q> if <sel>.size != 0 else 1.0))
    a_ = assign(k + 2, "alpha_star")
    if not (isinstance(a_, ast.Call) and ast.unparse(a_.func) == "min" and len(a_.args) == 2 and ast.unparse(a_.args[0]) == "1.0"
            and isinstance(a_.args[1], ast.Call) and ast.unparse(a_.args[1].func) == "np.nanmin" and len(a_.args[1].args) == 1
            and isinstance(a_.args[1].args[0], ast.IfExp)):
        raise TranslateError("subspace_minimization: unexpected alpha_star: " + u[k + 2])
    ife = a_.args[1].args[0]
    if not (isinstance(ife.test, ast.Compare) and isinstance(ife.test.ops[0], ast.NotEq) and ast.unparse(ife.test.comparators[0]) == "0"
            and isinstance(ife.test.left, ast.Attribute) and ife.test.left.attr == "size" and ast.unparse(ife.orelse) == "1.0"):
        raise TranslateError("subspace_minimization: unexpected guard of np.nanmin: " + ast.unparse(ife))
    sel_, ts_ = VecExpr(env).tr(ife.test.left.value)
    q_, tq_ = VecExpr(env).tr(ife.body)
    if ts_ != "v" or tq_ != "v":
        raise TranslateError("subspace_minimization: np.nanmin is not over an array")
    lets.append(f"let sel_ := {sel_} in")
    lets.append(f"let q_ := {q_} in")
    lets.append("let alpha_star := pymin 1%float (match sel_ with [] => 1%float | _ :: _ => np_nanmin q_ end) in")
    if u[k + 3] != "return np.clip(xc + alpha_star * Z @ dHat, lb, ub)":
        raise TranslateError("subspace_minimization: unexpected return: " + u[k + 3])
    L.append("(* o_Wc c = mats.W.dot(bmv(mats.invMfactors, c)); o_corr free_vars rHat = np.transpose(WTZ).dot(v) after the reduced solve.\n"
             "   Z is the selection matrix built by get_freev: lil_matrix((x_cp.size, free_vars.size)) with Z[free_vars, arange] = 1. *)")
    L.append("Definition subspace_minimization (o_Wc : vec -> vec) (o_corr : list nat -> vec -> vec) (theta : float) (use_factor : bool)\n"
             "    (x xc c grad lb ub : vec) (free_vars : list nat) : vec :=\n  " + "\n  ".join(lets[:1])
             + "\n  match free_vars with [] => xc | _ :: _ =>\n  " + "\n  ".join(lets[1:])
             + "\n  vclip (vadd xc (sel_matvec (PrimFloat.mul 1%float alpha_star) (List.length xc) free_vars dHat)) lb ub\n  end.")
    return "\n".join(L) + "\n"


GENERATORS["SubspaceTail.v"] = gen_subspace_tail


def gen_cauchy_step():
    """cauchy.get_cauchy_point: one pass of the breakpoint loop after the break test, on the WHOLE state (x_cp, c, p, d and the
    scalars), by symbolic execution of the statements in order; and the advance to the next breakpoint."""
    L = ["(* GENERATED from /repo/lbfgsb/cauchy.py by harness/translate.py - do not edit *)",
         "From Coq Require Import List Bool Floats.PrimFloat.", "From LBFGSB Require Import Model.FloatVec Model.NumpyOps.", "Import ListNotations.", ""]
    ct = _unann(ast.parse(_src("cauchy.py")))
    fn = _func(ct, "get_cauchy_point")
    eps = [st for st in fn.body if isinstance(st, ast.Assign) and ast.unparse(st.targets[0]) == "eps_f_sec"]
    if len(eps) != 1 or ast.unparse(eps[0].value) != "np.finfo(float).eps":
        raise TranslateError("eps_f_sec is not np.finfo(float).eps")
    wh = [st for st in fn.body if isinstance(st, ast.While)]
    if len(wh) != 1 or ast.unparse(wh[0].test) != "_i < len(sorted_t_idx)":
        raise TranslateError("get_cauchy_point: loop not found")
    body = [st for st in wh[0].body if not (isinstance(st, ast.Expr) and isinstance(st.value, ast.Call) and ast.unparse(st.value.func) == "display_start_point")
            and not (isinstance(st, ast.If) and "logger" in ast.unparse(st.test))]
    if not (isinstance(body[0], ast.If) and any(isinstance(b_, ast.Break) for b_ in body[0].body)):
        raise TranslateError("get_cauchy_point: the loop does not start with the break test")
    env = {"x": ("x", "v"), "grad": ("grad", "v"), "lb": ("lb", "v"), "ub": ("ub", "v"), "ibp": ("ibp", "n"), "t_cur": ("t_cur", "f"),
           "delta_t": ("delta_t", "f"), "x_cp": ("x_cp", "v"), "c": ("c", "v"), "p": ("p", "v"), "d": ("d", "v"), "f_prime": ("fp", "f"),
           "f_second": ("fs", "f"), "mats.theta": ("theta", "f"), "f2_org": ("f2_org", "f"), "eps_f_sec": ("0x1p-52%float", "f")}

    class VE(VecExpr):
        oracle = None
        def tr(self, n):
            if isinstance(n, ast.Call) and isinstance(n.func, ast.Attribute) and n.func.attr == "dot" and ast.unparse(n.func.value) == "W_b" \
                    and len(n.args) == 1 and isinstance(n.args[0], ast.Call) and ast.unparse(n.args[0].func) == "bmv" and len(n.args[0].args) == 2 \
                    and ast.unparse(n.args[0].args[0]) == "mats.invMfactors":
                if VE.oracle is None:
                    raise TranslateError("W_b.dot(bmv(...)) outside an update of f_prime / f_second")
                a, ta = self.tr(n.args[0].args[1])
                if ta != "v":
                    raise TranslateError("bmv of a non-vector")
                return (f"({VE.oracle} {self.env['W_b'][0]} {a})", "f")
            return super().tr(n)
    lets = []
    cnt = [0]
    def fresh(base):
        cnt[0] += 1
        return f"{base}{cnt[0]}_"
    def setv(name, term, ty, cond=None):
        old = env.get(name)
        nm = fresh(name.replace(".", "_"))
        if cond is not None:
            if old is None or old[1] != ty:
                raise TranslateError(f"conditional first assignment of {name}")
            term = f"(if {cond} then {term} else {old[0]})"
        lets.append(f"let {nm} := {term} in")
        env[name] = (nm, ty)
    def run(stmts, cond=None):
        for i_, st in enumerate(stmts):
            u = ast.unparse(st)
            if u == "_i += 1":
                return stmts[i_:]
            if isinstance(st, ast.If) and u.startswith("if d[ibp] > 0:") and cond is None:
                # if d[ibp] > 0: x_cp[ibp] = ub[ibp]  elif d[ibp] < 0: x_cp[ibp] = lb[ibp]
                def store(b_):
                    if not (len(b_) == 1 and isinstance(b_[0], ast.Assign) and ast.unparse(b_[0].targets[0]) == "x_cp[ibp]"):
                        raise TranslateError("unexpected statement in the fixing of x_cp: " + u)
                    v_, tv_ = VE(env).tr(b_[0].value)
                    if tv_ != "f":
                        raise TranslateError("x_cp[ibp] receives a non-scalar")
                    return f"(np_setitem ibp {v_} {env['x_cp'][0]})"
                if not (len(st.orelse) == 1 and isinstance(st.orelse[0], ast.If) and not st.orelse[0].orelse):
                    raise TranslateError("unexpected shape of the fixing of x_cp: " + u)
                c1_, t1_ = VE(env).tr(st.test)
                c2_, t2_ = VE(env).tr(st.orelse[0].test)
                if t1_ != "b" or t2_ != "b":
                    raise TranslateError("non-boolean test in the fixing of x_cp")
                setv("x_cp", f"(if {c1_} then {store(st.body)} else if {c2_} then {store(st.orelse[0].body)} else {env['x_cp'][0]})", "v")
            elif isinstance(st, ast.If) and ast.unparse(st.test) == "mats.use_factor" and not st.orelse and cond is None:
                rest_ = run(st.body, "use_factor")
                if rest_ is not None:
                    raise TranslateError("index advance inside the use_factor block")
            elif isinstance(st, ast.AugAssign) and isinstance(st.target, ast.Name) and isinstance(st.op, (ast.Add, ast.Sub)):
                nm = st.target.id
                VE.oracle = {"f_prime": "wMc", "f_second": "wMv"}.get(nm)
                v_, tv_ = VE(env).tr(st.value)
                VE.oracle = None
                old, to = env[nm]
                op = "add" if isinstance(st.op, ast.Add) else "sub"
                if to == "f" and tv_ == "f":
                    setv(nm, f"(PrimFloat.{op} {old} {v_})", "f", cond)
                elif to == "v" and tv_ == "v":
                    setv(nm, f"(vinplace PrimFloat.{op} {old} {v_})", "v", cond)     # in place: the shape of the target is kept
                else:
                    raise TranslateError("unsupported augmented assignment " + u)
            elif isinstance(st, ast.Assign) and len(st.targets) == 1 and ast.unparse(st.targets[0]) == "d[ibp]":
                v_, tv_ = VE(env).tr(st.value)
                if tv_ != "f" or cond is not None:
                    raise TranslateError("unexpected store into d: " + u)
                setv("d", f"(np_setitem ibp {v_} {env['d'][0]})", "v")
            elif u == "W_b = mats.W[ibp, :]" and cond is None:
                env["W_b"] = ("W_b", "v")
            elif u == "t_old = copy.copy(t_cur)" and cond is None:
                env["t_old"] = env["t_cur"]
            elif isinstance(st, ast.Assign) and len(st.targets) == 1 and isinstance(st.targets[0], ast.Name) and st.targets[0].id in ("zb", "g_b", "f_second", "delta_t_min") and cond is None:
                v_, tv_ = VE(env).tr(st.value)
                if tv_ != "f":
                    raise TranslateError("non-scalar value in " + u)
                setv(st.targets[0].id, v_, "f")
            else:
                raise TranslateError("get_cauchy_point: unrecognised statement in the loop: " + u)
        return None
    rest = run(body[1:])
    if rest is None:
        raise TranslateError("get_cauchy_point: the index advance `_i += 1` was not found")
    for k_ in ("delta_t_min", "t_old"):
        if k_ not in env:
            raise TranslateError(f"get_cauchy_point: {k_} is not assigned in the loop")
    L.append("(* one pass after the break test.  W_b = mats.W[ibp, :]; wMc v w = v.dot(bmv(mats.invMfactors, w)) in the update of f_prime,\n"
             "   wMv likewise in the update of f_second.  Result: (x_cp, c, p, d, f_prime, f_second, delta_t_min, t_old). *)")
    L.append("Definition cauchy_step (wMc wMv : vec -> vec -> float) (theta f2_org : float) (use_factor : bool) (x grad lb ub W_b : vec) (ibp : nat)\n"
             "    (t_cur delta_t : float) (x_cp c p d : vec) (fp fs : float) : vec * vec * vec * vec * float * float * float * float :=\n  "
             + "\n  ".join(lets) + f"\n  ({env['x_cp'][0]}, {env['c'][0]}, {env['p'][0]}, {env['d'][0]}, {env['f_prime'][0]}, {env['f_second'][0]}, {env['delta_t_min'][0]}, {env['t_old'][0]}).")
    want = ["_i += 1", "try:\n    ibp = sorted_t_idx[_i]\n    t_cur = t[ibp]\nexcept IndexError:\n    t_cur = np.inf", "delta_t = t_cur - t_old", "nseg += 1"]
    if [ast.unparse(s_) for s_ in rest] != want:
        raise TranslateError("get_cauchy_point: unexpected advance to the next breakpoint: " + " | ".join(ast.unparse(s_) for s_ in rest))
    L.append("(* _i += 1; try: ibp = sorted_t_idx[_i]; t_cur = t[ibp]  except IndexError: t_cur = np.inf; delta_t = t_cur - t_old\n"
             "   `rest` is sorted_t_idx[_i:] after the increment; result: (t_cur, delta_t) *)")
    L.append("Definition cauchy_advance (t : vec) (rest : list nat) (t_old : float) : float * float :=\n"
             "  let t_cur := match rest with [] => infinity | j_ :: _ => List.nth j_ t nan end in (t_cur, PrimFloat.sub t_cur t_old).")
    return "\n".join(L) + "\n"


GENERATORS["CauchyStep.v"] = gen_cauchy_step


def gen_loop_control():
    """main.minimize_lbfgsb: the test of the while loop, the if/elif chain that classifies the run after it, and the budget handed
    to the line search, translated to Gallina over floats (f), integers (z) and booleans (b)."""
    L = ["(* GENERATED from /repo/lbfgsb/main.py by harness/translate.py - do not edit *)",
         "From Coq Require Import String ZArith Bool Floats.PrimFloat.", "Local Open Scope string_scope.", ""]
    mt = ast.parse(_src("main.py"))
    f = _func(mt, "minimize_lbfgsb")
    env = {"projgr(x, grad, lb, ub)": ("pg", "f"), "_gtol": ("gt", "f"), "istate.nit": ("nit", "z"), "maxiter": ("maxiter", "z"),
           "sf.nfev": ("nfev", "z"), "maxfun": ("maxfun", "z"), "istate.is_success": ("is_success", "b"), "maxls": ("maxls", "z")}

    def tr(n):
        u = ast.unparse(n)
        if u in env:
            return env[u]
        if isinstance(n, ast.BoolOp) and isinstance(n.op, (ast.And, ast.Or)):
            parts = [tr(v) for v in n.values]
            if any(t != "b" for _, t in parts):
                raise TranslateError("non-boolean operand in " + u)
            acc = parts[0][0]
            for q, _ in parts[1:]:
                acc = f"({acc} {'&&' if isinstance(n.op, ast.And) else '||'} {q})"
            return (acc, "b")
        if isinstance(n, ast.UnaryOp) and isinstance(n.op, ast.Not):
            a, ta = tr(n.operand)
            if ta == "b":
                return (f"(negb {a})", "b")
        if isinstance(n, ast.Compare) and len(n.ops) == 1:
            (a, ta), (b, tb) = tr(n.left), tr(n.comparators[0])
            o = type(n.ops[0])
            if ta == tb == "f" and o in (ast.Gt, ast.Lt, ast.GtE, ast.LtE):
                return ({ast.Gt: f"(PrimFloat.ltb {b} {a})", ast.Lt: f"(PrimFloat.ltb {a} {b})", ast.GtE: f"(PrimFloat.leb {b} {a})", ast.LtE: f"(PrimFloat.leb {a} {b})"}[o], "b")
            if ta == tb == "z" and o in (ast.Gt, ast.Lt, ast.GtE, ast.LtE):
                return ({ast.Gt: f"(Z.gtb {a} {b})", ast.Lt: f"(Z.ltb {a} {b})", ast.GtE: f"(Z.geb {a} {b})", ast.LtE: f"(Z.leb {a} {b})"}[o], "b")
        if isinstance(n, ast.BinOp) and isinstance(n.op, (ast.Sub, ast.Add)):
            (a, ta), (b, tb) = tr(n.left), tr(n.right)
            if ta == tb == "z":
                return (f"({a} {'-' if isinstance(n.op, ast.Sub) else '+'} {b})%Z", "z")
        if isinstance(n, ast.Call) and isinstance(n.func, ast.Name) and n.func.id == "min" and len(n.args) == 2 and not n.keywords:
            (a, ta), (b, tb) = tr(n.args[0]), tr(n.args[1])
            if ta == tb == "z":
                return (f"(Z.min {a} {b})", "z")      # Python's min on integers
        raise TranslateError("loop control: unsupported expression " + u)
    wh = [n for n in ast.walk(f) if isinstance(n, ast.While)]
    if len(wh) != 1:
        raise TranslateError(f"expected exactly one while loop in minimize_lbfgsb, found {len(wh)}")
    g_, tg_ = tr(wh[0].test)
    if tg_ != "b":
        raise TranslateError("the loop test is not boolean")
    L.append("(* pg = projgr(x, grad, lb, ub), gt = _gtol, nit = istate.nit, nfev = sf.nfev *)")
    L.append(f"Definition loop_guard (pg gt : float) (nit maxiter nfev maxfun : Z) (is_success : bool) : bool :=\n  {g_}.")
    # the if/elif chain after the loop
    post = f.body[f.body.index(wh[0]) + 1:]
    chains = [st for st in post if isinstance(st, ast.If) and any(isinstance(s_, ast.Assign) and ast.unparse(s_.targets[0]) == "istate.task_str" for s_ in st.body)]
    if len(chains) != 1:
        raise TranslateError("final classification: expected one if/elif chain assigning istate.task_str after the loop")
    # nothing between the loop and the chain may write the report
    for st in post[:post.index(chains[0])]:
        if any(isinstance(n_, ast.Attribute) and isinstance(n_.ctx, ast.Store) and ast.unparse(n_.value) == "istate" for n_ in ast.walk(st)):
            raise TranslateError("final classification: istate is written between the loop and the chain")
    node, out = chains[0], []
    while True:
        c_, tc_ = tr(node.test)
        vals = {}
        for s_ in node.body:
            if not (isinstance(s_, ast.Assign) and len(s_.targets) == 1 and ast.unparse(s_.targets[0]) in ("istate.task_str", "istate.is_success", "istate.warnflag")
                    and isinstance(s_.value, ast.Constant)):
                raise TranslateError("final classification: unexpected statement " + ast.unparse(s_))
            vals[ast.unparse(s_.targets[0])] = s_.value.value
        if set(vals) != {"istate.task_str", "istate.is_success", "istate.warnflag"} or not isinstance(vals["istate.is_success"], bool) \
                or not isinstance(vals["istate.warnflag"], int) or isinstance(vals["istate.warnflag"], bool):
            raise TranslateError("final classification: a branch does not set message, success and warnflag to constants")
        out.append((c_, f"({coq_string(vals['istate.task_str'])}, {'true' if vals['istate.is_success'] else 'false'}, {vals['istate.warnflag']}%Z)"))
        if len(node.orelse) == 1 and isinstance(node.orelse[0], ast.If):
            node = node.orelse[0]
        elif node.orelse:
            raise TranslateError("final classification has an unexpected else branch")
        else:
            break
    L.append("(* the report (task_str, is_success, warnflag) after the loop; cur = what the loop left *)")
    L.append("Definition final_report (pg gt : float) (nit maxiter nfev maxfun : Z) (cur : string * bool * Z) : string * bool * Z :=\n  "
             + " else ".join(f"if {c_} then {v_}" for c_, v_ in out) + " else cur.")
    # the returned OptimizeResult reads the report and the counters
    rets = [st for st in post if isinstance(st, ast.Return)]
    if len(rets) != 1 or not (isinstance(rets[0].value, ast.Call) and ast.unparse(rets[0].value.func) == "OptimizeResult"):
        raise TranslateError("minimize_lbfgsb: final return not found")
    kw = {k.arg: ast.unparse(k.value) for k in rets[0].value.keywords if k.arg != "hess_inv"}
    want = {"fun": "f0", "jac": "grad", "nfev": "sf.nfev", "njev": "sf.ngev", "nit": "istate.nit", "status": "istate.warnflag", "message": "istate.task_str",
            "x": "x", "success": "istate.is_success"}
    if kw != want:
        raise TranslateError("minimize_lbfgsb: unexpected fields of the returned result " + repr(kw))
    # budget of the line search
    calls = [n for n in ast.walk(f) if isinstance(n, ast.Call) and ast.unparse(n.func) == "line_search"]
    if len(calls) != 1 or len(calls[0].args) != 16:
        raise TranslateError("expected one call to line_search with 16 positional arguments")
    lsf = _func(ast.parse(_src("linesearch.py")), "line_search")
    if [a.arg for a in lsf.args.args][13] != "max_iter":
        raise TranslateError("line_search: the 14th parameter is not max_iter")
    b_, tb_ = tr(calls[0].args[13])
    if tb_ != "z":
        raise TranslateError("line-search budget is not an integer expression")
    L.append("(* the max_iter argument of line_search *)")
    L.append(f"Definition ls_budget (maxls maxfun nfev : Z) : Z := {b_}.")
    return "\n".join(L) + "\n"


GENERATORS["LoopControl.v"] = gen_loop_control


def gen_rebuild_rule():
    """main.minimize_lbfgsb: when the limited-memory matrices are rebuilt although the new pair is rejected, and when they are
    reset - the is_force_update arguments of the two calls of update_lbfgs_matrices and the test of `mats = LBFGSB_MATRICES(n)`."""
    L = ["(* GENERATED from /repo/lbfgsb/main.py by harness/translate.py - do not edit *)",
         "From Coq Require Import List Bool Arith.", ""]
    f = _func(ast.parse(_src("main.py")), "minimize_lbfgsb")
    wh = [n for n in ast.walk(f) if isinstance(n, ast.While)]
    if len(wh) != 1:
        raise TranslateError(f"expected exactly one while loop in minimize_lbfgsb, found {len(wh)}")
    # when the matrices are rebuilt although the new pair is rejected, and when they are reset: expressions over
    # `update_fun_def is not None` and len(X)
    def trn(n):
        u = ast.unparse(n)
        if u == "update_fun_def is not None":
            return "has_upd"
        if isinstance(n, ast.BoolOp) and isinstance(n.op, ast.And):
            return "(" + " && ".join(trn(v) for v in n.values) + ")"
        if isinstance(n, ast.Compare) and len(n.ops) == 1 and ast.unparse(n.left) == "len(X)" and isinstance(n.comparators[0], ast.Constant) \
                and isinstance(n.comparators[0].value, int) and 0 <= n.comparators[0].value < 10:
            k_ = n.comparators[0].value
            if isinstance(n.ops[0], ast.Gt):
                return f"(Nat.ltb {k_} (List.length X))"
            if isinstance(n.ops[0], ast.Eq):
                return f"(Nat.eqb (List.length X) {k_})"
        raise TranslateError("rebuild rule: unsupported expression " + u)
    ucalls = [n for n in ast.walk(f) if isinstance(n, ast.Call) and ast.unparse(n.func) == "update_lbfgs_matrices"]
    forces = [[k.value for k in c_.keywords if k.arg == "is_force_update"] for c_ in ucalls]
    if len(ucalls) != 2 or any(len(v_) != 1 for v_ in forces):
        raise TranslateError("expected two calls of update_lbfgs_matrices, each with is_force_update")
    in_loop = [c_ for c_ in ucalls if any(c_ is n_ for n_ in ast.walk(wh[0]))]
    if len(in_loop) != 1:
        raise TranslateError("expected one call of update_lbfgs_matrices inside the loop")
    at_start = [c_ for c_ in ucalls if c_ is not in_loop[0]][0]
    resets = [st for st in ast.walk(wh[0]) if isinstance(st, ast.If) and not st.orelse and [ast.unparse(b_) for b_ in st.body] == ["mats = LBFGSB_MATRICES(n)"]]
    if len(resets) != 1:
        raise TranslateError("expected one conditional reset of the matrices inside the loop")
    L.append("(* is_force_update of the call of update_lbfgs_matrices in the loop / before the loop; the test of `mats = LBFGSB_MATRICES(n)` *)")
    L.append(f"Definition force_update {{A}} (has_upd : bool) (X : list A) : bool := {trn([k.value for k in in_loop[0].keywords if k.arg == 'is_force_update'][0])}.")
    L.append(f"Definition force_update_at_start {{A}} (X : list A) : bool := {trn([k.value for k in at_start.keywords if k.arg == 'is_force_update'][0])}.")
    L.append(f"Definition reset_matrices {{A}} (has_upd : bool) (X : list A) : bool := {trn(resets[0].test)}.")
    return "\n".join(L) + "\n"


GENERATORS["RebuildRule.v"] = gen_rebuild_rule


def gen_sf_src():
    """scalar_function.ScalarFunction as a state machine: the closures of __init__ and the methods fun / grad / fun_and_grad /
    update_x / _update_fun / _update_grad, statement by statement, as functions on the record of the object's attributes
    (Model/SFPy.v) in the trace/exception monad."""
    L = ["(* GENERATED from /repo/lbfgsb/scalar_function.py by harness/translate.py - do not edit *)",
         "From Coq Require Import List ZArith Bool String.", "From LBFGSB Require Import Base.Res Model.SF Model.SFPy.", "Import ListNotations.", "Open Scope Z_scope.", "",
         "Section SFSrc.", "  Variables (P F G S : Type).", "  Variable peqb : P -> P -> bool.", "  Variable fmul : F -> S -> F.", "  Variable gmul : G -> S -> G.",
         "  Variable uf : P -> res F.", "  Variable ug : P -> res G.", "  Variable stencil : P -> list P.", "  Variable fdest : P -> F -> list F -> res G.",
         "  Variable fdmode : bool.", "  Notation pst := (SFPy.pst P F G S).", "  Notation ev := (SF.ev P F G).", ""]
    tree = ast.parse(_src("scalar_function.py"))
    cls = _cls(tree, "ScalarFunction")
    meth = {m.name: m for m in cls.body if isinstance(m, ast.FunctionDef)}
    init = meth.get("__init__")
    if init is None:
        raise TranslateError("ScalarFunction.__init__ not found")
    nodoc = lambda b: [s for s in b if not (isinstance(s, ast.Expr) and isinstance(s.value, ast.Constant))]
    # ---- __init__: initial attribute values, closures, the two implementations of update_grad
    ib = nodoc(init.body)
    attrs = {}
    for s in ib:
        if isinstance(s, ast.Assign) and len(s.targets) == 1 and isinstance(s.targets[0], ast.Attribute) and ast.unparse(s.targets[0].value) == "self":
            attrs.setdefault(s.targets[0].attr, []).append(ast.unparse(s.value))
    want = {"x": ["np.atleast_1d(x0).astype(float)"], "nfev": ["0"], "ngev": ["0"], "f_updated": ["False"], "g_updated": ["False"],
            "scaling_factor": ["1.0"], "_update_fun_impl": ["update_fun"], "_update_grad_impl": ["update_grad"]}
    for k, v in want.items():
        if attrs.get(k) != v:
            raise TranslateError(f"ScalarFunction.__init__: self.{k} is assigned {attrs.get(k)}, expected {v}")
    GHOST = {"H_updated", "_lowest_x", "_lowest_f", "nhev", "n"}      # written, never read by the package outside the tracking block
    extra = set(attrs) - set(want) - GHOST
    if extra:
        raise TranslateError("ScalarFunction.__init__: unexpected attributes " + repr(sorted(extra)))
    for fname in ("main.py", "linesearch.py", "base.py", "bfgsmats.py", "cauchy.py", "subspacemin.py"):
        for n_ in ast.walk(ast.parse(_src(fname))):
            if isinstance(n_, ast.Attribute) and n_.attr in GHOST - {"n"}:
                raise TranslateError(f"{fname}: reads or writes the ghost attribute {n_.attr}")
    clos = {s.name: s for s in ib if isinstance(s, ast.FunctionDef)}
    if set(clos) != {"fun_wrapped", "update_fun"}:
        raise TranslateError("ScalarFunction.__init__: unexpected top-level closures " + repr(sorted(clos)))
    sel = [s for s in ib if isinstance(s, ast.If) and ast.unparse(s.test) == "callable(grad)"]
    if len(sel) != 1 or len(sel[0].orelse) != 1 or not isinstance(sel[0].orelse[0], ast.If) or ast.unparse(sel[0].orelse[0].test) != "grad in FD_METHODS" or sel[0].orelse[0].orelse:
        raise TranslateError("ScalarFunction.__init__: selection of update_grad of unexpected shape")
    c_call = {s.name: s for s in sel[0].body if isinstance(s, ast.FunctionDef)}
    c_fd = {s.name: s for s in sel[0].orelse[0].body if isinstance(s, ast.FunctionDef)}
    if set(c_call) != {"grad_wrapped", "update_grad"} or set(c_fd) != {"update_grad"} or len(sel[0].body) != 2 or len(sel[0].orelse[0].body) != 1:
        raise TranslateError("ScalarFunction.__init__: unexpected closures in the selection of update_grad")
    first = [s for s in ib if isinstance(s, ast.If)][0]
    if ast.unparse(first.test) != "not callable(grad) and grad not in FD_METHODS" or not isinstance(first.body[0], ast.Raise):
        raise TranslateError("ScalarFunction.__init__: the validation of grad is missing")      # hence: not callable -> FD mode

    # the local of fun_wrapped that receives the objective value (its spelling is free)
    fxs = [st.targets[0].id for st in clos["fun_wrapped"].body if isinstance(st, ast.Assign) and len(st.targets) == 1 and isinstance(st.targets[0], ast.Name)
           and ast.unparse(st.value) == "fun(np.copy(x), *args)"]
    if len(fxs) != 1:
        raise TranslateError("fun_wrapped: the call of the objective is not bound to one local name")
    FX = fxs[0]
    # ---- statements -> Gallina
    CALLS = {"self._update_fun()": "_update_fun", "self._update_grad()": "_update_grad", "self._update_fun_impl()": "update_fun",
             "self._update_grad_impl()": "(if fdmode then update_grad_fd else update_grad_callable)"}
    SKIP = {f"if not np.isscalar({FX}):\n    try:\n        {FX} = np.asarray({FX}).item()\n    except (TypeError, ValueError) as e:\n        raise ValueError('The user-provided objective function must return a scalar value.') from e":
            "the objective returns a scalar (F is abstract)",
            f"if {FX} < self._lowest_f:\n    self._lowest_x = x\n    self._lowest_f = {FX}": "ghost attributes",
            "self.H_updated = False": "ghost attribute"}

    def ret_expr(n):
        parts = n.elts if isinstance(n, ast.Tuple) else [n]
        pre, vals = [], []
        for q in parts:
            u = ast.unparse(q)
            if u == "self.f * self.scaling_factor":
                pre.append("v_ <- get_f t ;;"); vals.append("fmul v_ (pscale t)")
            elif u == "self.g * self.scaling_factor":
                pre.append("g_ <- get_g t ;;"); vals.append("gmul g_ (pscale t)")
            elif u == FX:
                vals.append("fx")
            else:
                raise TranslateError("unsupported return value " + u)
        if len(set(pre)) != len(pre):
            raise TranslateError("unsupported return value " + ast.unparse(n))
        return " ".join(pre) + " ret (" + ", ".join(vals + ["t"]) + ")"

    def block(stmts, final, where):
        if not stmts:
            return final
        st, rest = stmts[0], stmts[1:]
        u = ast.unparse(st)
        nxt = lambda: block(rest, final, where)
        if u in SKIP:
            return nxt()
        if u == "return np.atleast_1d(grad(np.copy(x), *args))" and not rest:
            return "g_ <- SF.call_g P F G ug x ;; ret (g_, t)"
        if isinstance(st, ast.Return):
            if rest:
                raise TranslateError(f"{where}: statements after return")
            return ret_expr(st.value)
        if isinstance(st, ast.AugAssign) and isinstance(st.op, ast.Add) and u in ("self.nfev += 1", "self.ngev += 1"):
            a = st.target.attr
            return f"let t := set_{a} (p{a} t + 1) t in " + nxt()
        if u in ("self.f_updated = False", "self.g_updated = False", "self.f_updated = True", "self.g_updated = True"):
            return f"let t := set_{st.targets[0].attr} {'true' if st.value.value else 'false'} t in " + nxt()
        if u == "self.x = np.atleast_1d(x).astype(float)":
            return "let t := set_x x t in " + nxt()
        if u == FX + " = fun(np.copy(x), *args)":
            return "fx <- SF.call_f P F G uf x ;; " + nxt()
        if u == "self.f = fun_wrapped(self.x)":
            return "'(v_, t) <- fun_wrapped (px t) t ;; let t := set_f (Some v_) t in " + nxt()
        if u == "self.g = grad_wrapped(self.x)":
            return "'(g_, t) <- grad_wrapped (px t) t ;; let t := set_g (Some g_) t in " + nxt()
        if u == "return np.atleast_1d(grad(np.copy(x), *args))":
            return "g_ <- SF.call_g P F G ug x ;; ret (g_, t)"
        if u == "self.g = approx_derivative(fun_wrapped, self.x, f0=self.f, **finite_diff_options)":
            # followed by the zeroing of the variables fixed by lb == ub, part of the differencing oracle
            tail = [ast.unparse(s_) for s_ in rest[:2]]
            if tail != ["lb, ub = finite_diff_options['bounds']", "self.g[np.broadcast_to(np.equal(lb, ub), self.g.shape)] = 0.0"]:
                raise TranslateError(f"{where}: unexpected statements after approx_derivative: " + " | ".join(tail))
            return ("f0_ <- get_f t ;; '(g_, t) <- approx_derivative fun_wrapped stencil fdest (px t) f0_ t ;; let t := set_g (Some g_) t in "
                    + block(rest[2:], final, where))
        if isinstance(st, ast.Expr) and u in CALLS:
            return f"t <- {CALLS[u]} t ;; " + nxt()
        if isinstance(st, ast.If) and not st.orelse and isinstance(st.test, ast.UnaryOp) and isinstance(st.test.op, ast.Not):
            c = ast.unparse(st.test.operand)
            cond = {"self.f_updated": "f_updated t", "self.g_updated": "g_updated t", "np.array_equal(x, self.x)": "peqb x (px t)"}.get(c)
            if cond is None:
                raise TranslateError(f"{where}: unsupported test {c}")
            if [ast.unparse(b_) for b_ in st.body] == ["self.update_x(x)"]:
                inner = "update_x x t"
            else:
                inner = block(st.body, "ret t", where)
            return f"t <- (if negb ({cond}) then {inner} else ret t) ;; " + nxt()
        raise TranslateError(f"{where}: unsupported statement {u}")

    def emit(name, coqname, node, params, rtype, proc):
        args = [a.arg for a in node.args.args if a.arg != "self"]
        if args != params:
            raise TranslateError(f"{name}: unexpected parameters {args}")
        body = block(nodoc(node.body), "ret t", name)
        sig = "".join(f" ({p} : P)" for p in params)
        L.append(f"  Definition {coqname}{sig} (t : pst) : M ev {rtype} :=\n    {body}.")
    if ast.unparse(meth["update_x"].body[-1]) != "self.H_updated = False":
        pass
    emit("fun_wrapped", "fun_wrapped", clos["fun_wrapped"], ["x"], "(F * pst)", False)
    emit("update_fun", "update_fun", clos["update_fun"], [], "pst", True)
    emit("_update_fun", "_update_fun", meth["_update_fun"], [], "pst", True)
    emit("grad_wrapped", "grad_wrapped", c_call["grad_wrapped"], ["x"], "(G * pst)", False)
    emit("update_grad (callable)", "update_grad_callable", c_call["update_grad"], [], "pst", True)
    emit("update_grad (finite differences)", "update_grad_fd", c_fd["update_grad"], [], "pst", True)
    emit("_update_grad", "_update_grad", meth["_update_grad"], [], "pst", True)
    emit("update_x", "update_x", meth["update_x"], ["x"], "pst", True)
    emit("fun", "m_fun", meth["fun"], ["x"], "(F * pst)", False)
    emit("grad", "m_grad", meth["grad"], ["x"], "(G * pst)", False)
    emit("fun_and_grad", "m_fun_and_grad", meth["fun_and_grad"], ["x"], "(F * G * pst)", False)
    if set(meth) != {"__init__", "update_x", "_update_fun", "_update_grad", "fun", "grad", "fun_and_grad"}:
        raise TranslateError("ScalarFunction: unexpected methods " + repr(sorted(meth)))
    L.append("  (* __init__: nfev = ngev = 0, nothing evaluated, scaling_factor = 1.0 (the caller's `one`) *)")
    L.append("  Definition init (x0 : P) (one : S) : pst := mkp P F G S x0 None None false false 0 0 one.")
    L.append("End SFSrc.")
    return "\n".join(L) + "\n"


GENERATORS["SFSrc.v"] = gen_sf_src


def gen_mats_params():
    """bfgsmats.update_lbfgs_matrices: when the matrices are rebuilt, theta = y.y / s.y of the newest stored pair, and the assembly
    S = diff(X).T, Y = diff(G).T, W = [Y, theta * S] (everything that is not dense linear algebra)."""
    L = ["(* GENERATED from /repo/lbfgsb/bfgsmats.py by harness/translate.py - do not edit *)",
         "From Coq Require Import List Bool Floats.PrimFloat.", "From LBFGSB Require Import Model.FloatVec Model.NumpyOps.", "Import ListNotations.", ""]
    bt = _unann(ast.parse(_src("bfgsmats.py")))
    fn = _func(bt, "update_lbfgs_matrices")
    if [a.arg for a in fn.args.args] != ["xk", "gk", "X", "G", "maxcor", "mats", "is_force_update", "eps", "is_check_factorization"]:
        raise TranslateError("update_lbfgs_matrices: unexpected parameters")
    body = [s for s in fn.body if not (isinstance(s, ast.Expr) and isinstance(s.value, ast.Constant))]
    u = [ast.unparse(s) for s in body]
    if len(body) != 3 or u[0] != "is_current_update_accepted = update_X_and_G(xk, gk, X, G, maxcor, eps)" or not isinstance(body[1], ast.If) \
            or body[1].orelse or u[2] != "return mats":
        raise TranslateError("update_lbfgs_matrices: unexpected shape " + " | ".join(x[:60] for x in u))
    t = body[1].test
    if not (isinstance(t, ast.BoolOp) and isinstance(t.op, ast.Or) and [ast.unparse(v) for v in t.values] == ["is_force_update", "is_current_update_accepted"]):
        raise TranslateError("update_lbfgs_matrices: unexpected rebuild test " + ast.unparse(t))
    L.append("(* if is_force_update or is_current_update_accepted: *)")
    L.append("Definition rebuild (is_force_update is_current_update_accepted : bool) : bool := is_force_update || is_current_update_accepted.")
    blk = [s for s in body[1].body if not (isinstance(s, ast.If) and ast.unparse(s.test) == "is_check_factorization")]
    ub = [ast.unparse(s) for s in blk]

    class VE(VecExpr):
        def tr(self, n):
            # X[-1], X[-2] on the deques of stored points / gradients
            if isinstance(n, ast.Subscript) and isinstance(n.value, ast.Name) and n.value.id in ("X", "G") and isinstance(n.slice, ast.UnaryOp) \
                    and isinstance(n.slice.op, ast.USub) and isinstance(n.slice.operand, ast.Constant) and n.slice.operand.value in (1, 2):
                return (f"(nth_back {n.slice.operand.value - 1} {n.value.id})", "v")
            return super().tr(n)
    env = {"vdot": ("vdot", "fn")}
    lets = []
    for i, (name, ty) in enumerate([("yk", "v"), ("sTy", "f"), ("yTy", "f")]):
        s = blk[i]
        if not (isinstance(s, ast.Assign) and len(s.targets) == 1 and ast.unparse(s.targets[0]) == name):
            raise TranslateError(f"update_lbfgs_matrices: statement {i} of the rebuild is not an assignment of {name}: " + ub[i])
        t_, ty_ = VE(env).tr(s.value)
        if ty_ != ty:
            raise TranslateError(f"update_lbfgs_matrices: {name} has type {ty_}")
        lets.append(f"let {name} := {t_} in")
        env[name] = (name, ty)
    if not (isinstance(blk[3], ast.Assign) and ast.unparse(blk[3].targets[0]) == "mats.theta"):
        raise TranslateError("update_lbfgs_matrices: theta is not assigned after yk, sTy, yTy: " + ub[3])
    th_, tth_ = VE(env).tr(blk[3].value)
    if tth_ != "f":
        raise TranslateError("update_lbfgs_matrices: theta is not a scalar")
    L.append("(* yk = G[-1] - G[-2]; sTy = (X[-1] - X[-2]).dot(yk); yTy = yk.dot(yk); mats.theta = yTy / sTy *)")
    L.append("Definition theta (vdot : vec -> vec -> float) (X G : list vec) : float :=\n  " + " ".join(lets) + " " + th_ + ".")
    rest = ub[4:]
    want = ["mats.S = np.diff(np.array(X), axis=0).T", "mats.Y = np.diff(np.array(G), axis=0).T", "STS = mats.S.T @ mats.S", "mats.L = mats.S.T @ mats.Y",
            "mats.D = np.diag(np.diag(mats.L))", "mats.L = np.tril(mats.L, -1)", "mats.W = np.hstack([mats.Y, mats.theta * mats.S])",
            "mats.invMfactors = form_invMfactors(mats.theta, STS, mats.L, mats.D)"]
    if rest != want:
        raise TranslateError("update_lbfgs_matrices: unexpected assembly of the matrices: " + " | ".join(rest))
    L.append("(* mats.S = np.diff(np.array(X), axis=0).T; mats.Y = np.diff(np.array(G), axis=0).T: the columns are the pairs, oldest first;\n"
             "   mats.W = np.hstack([mats.Y, mats.theta * mats.S]): row i = the i-th components of the y's, then theta * those of the s's.\n"
             "   (STS, L, D and the factors of M^-1 are dense linear algebra: oracles / the exact model of C10) *)")
    L.append("Definition w_matrix (n : nat) (theta : float) (X G : list vec) : list vec :=\n"
             "  let S := diffs X in let Y := diffs G in hstack_cols n Y (List.map (fun s_ => List.map (fun e_ => PrimFloat.mul theta e_) s_) S).")
    return "\n".join(L) + "\n"


GENERATORS["MatsGen.v"] = gen_mats_params


def gen_cauchy_init():
    """cauchy.get_cauchy_point: the statements between the ordering of the breakpoints and the loop - p = W'd, c = 0, f', f'', f2_org,
    the correction of f'' by the BLAS oracle, delta_t_min, the early return without breakpoint, the first breakpoint - executed
    symbolically in the order of the source (independent statements may come in any order; a use before its definition, or
    f2_org taken after the correction of f'', gives another term or is refused)."""
    L = ["(* GENERATED from /repo/lbfgsb/cauchy.py by harness/translate.py - do not edit *)",
         "From Coq Require Import List Bool Floats.PrimFloat.", "From LBFGSB Require Import Model.FloatVec Model.NumpyOps.", "Import ListNotations.", ""]
    fn = _func(_unann(ast.parse(_src("cauchy.py"))), "get_cauchy_point")
    body = [s for s in fn.body if not (isinstance(s, ast.Expr) and isinstance(s.value, ast.Constant)) and not (isinstance(s, ast.If) and "logger" in ast.unparse(s.test))]
    names = [ast.unparse(s.targets[0]) if isinstance(s, ast.Assign) else (ast.unparse(s.target) if isinstance(s, ast.AugAssign) else None) for s in body]
    idx = [i for i, n in enumerate(names) if n == "sorted_t_idx"]
    wh = [i for i, s in enumerate(body) if isinstance(s, ast.While)]
    if len(idx) != 2 or len(wh) != 1:
        raise TranslateError("get_cauchy_point: head or loop not found")
    seg = body[idx[1] + 1:wh[0]]
    xcp0 = [s for s in fn.body if isinstance(s, ast.Assign) and ast.unparse(s.targets[0]) == "x_cp"]
    if len(xcp0) != 1 or ast.unparse(xcp0[0].value) != "x.copy()" or fn.body.index(xcp0[0]) > fn.body.index(body[idx[1]]):
        raise TranslateError("get_cauchy_point: x_cp is not initialised to x.copy() before the breakpoints are ordered")
    env = {"d": ("d", "v"), "mats.theta": ("theta", "f"), "vdot": ("vdot", "fn"), "t": ("t", "v")}
    terms, seen = {}, []
    RECOGNISED = {"nbreak = len(sorted_t_idx)": "nbreak", "_i = 0": "_i", "nseg = 1": None, "is_gpc_found = False": None, "t_old = 0.0": "t_old"}
    for s in seg:
        u = ast.unparse(s)
        if u == "p = mats.W.T @ d":
            env["p"] = ("p", "v"); env["p.dot(bmv(mats.invMfactors, p))"] = ("(o_pMp p)", "f")
        elif u == "c = np.zeros(p.size)":
            if "p" not in env:
                raise TranslateError("get_cauchy_point: c is sized before p exists")
            env["c"] = ("c0", "v")
        elif u in RECOGNISED:
            if u == "_i = 0" and "ibp" in env:
                raise TranslateError("get_cauchy_point: _i is reset after the first breakpoint is read")
            if RECOGNISED[u]:
                seen.append(RECOGNISED[u])
        elif u == "if nbreak == 0:\n    return (x_cp, c)":
            if "c" not in env or "nbreak" not in seen:
                raise TranslateError("get_cauchy_point: early return before c / nbreak are defined")
            seen.append("early_return")
        elif u == "ibp = sorted_t_idx[_i]":
            if "_i" not in seen:
                raise TranslateError("get_cauchy_point: ibp read before _i = 0")
            env["ibp"] = ("i0", "n")
        elif u == "f2_org = copy.deepcopy(f_second)":
            if "f_second" not in env:
                raise TranslateError("get_cauchy_point: f2_org copied before f_second exists")
            env["f2_org"] = env["f_second"]; terms["f2_org"] = env["f_second"][0]
        elif isinstance(s, ast.If) and ast.unparse(s.test) == "mats.use_factor" and not s.orelse and len(s.body) == 1 and isinstance(s.body[0], ast.Assign) \
                and ast.unparse(s.body[0].targets[0]) == "f_second" and "f_second" in env and "f_second_c" not in terms:
            t_, ty_ = VecExpr(env).tr(s.body[0].value)
            terms["f_second_c"] = f"if use_factor then {t_} else {env['f_second'][0]}"
            env["f_second"] = ("f_second", "f")
        elif isinstance(s, ast.Assign) and len(s.targets) == 1 and isinstance(s.targets[0], ast.Name) and s.targets[0].id in ("f_prime", "f_second", "delta_t_min", "t_cur", "delta_t"):
            nm = s.targets[0].id
            if nm in terms:
                raise TranslateError(f"get_cauchy_point: {nm} is assigned twice before the loop")
            if nm == "delta_t" and "t_old" not in seen:
                raise TranslateError("get_cauchy_point: delta_t computed before t_old = 0.0")
            t_, ty_ = VecExpr(env).tr(s.value)
            if ty_ != "f":
                raise TranslateError(f"get_cauchy_point: {nm} is not a scalar")
            terms[nm] = t_
            env[nm] = ("f_second0" if nm == "f_second" else nm, "f")
        else:
            raise TranslateError("get_cauchy_point: unrecognised statement before the loop: " + u)
    need = {"f_prime", "f_second", "f2_org", "f_second_c", "delta_t_min", "t_cur", "delta_t"}
    if set(terms) != need or "early_return" not in seen or "c" not in env:
        raise TranslateError("get_cauchy_point: statements missing before the loop: " + repr(sorted(need - set(terms))))
    if terms["f2_org"] != "f_second0":
        raise TranslateError("get_cauchy_point: f2_org is not the uncorrected f_second")
    if "f_second0" in terms["delta_t_min"]:
        raise TranslateError("get_cauchy_point: delta_t_min uses the uncorrected f_second")
    L.append("(* p = mats.W.T @ d is the oracle's; c = zeros; vdot a b = a.dot(b); o_pMp p = p.dot(bmv(mats.invMfactors, p)).\n"
             "   Result: (f_prime, f_second, f2_org, delta_t_min) before the loop *)")
    L.append("Definition cauchy_init (vdot : vec -> vec -> float) (o_pMp : vec -> float) (theta : float) (use_factor : bool) (d p : vec) : float * float * float * float :=\n  "
             f"let f_prime := {terms['f_prime']} in let f_second0 := {terms['f_second']} in let f_second := {terms['f_second_c']} in "
             f"let delta_t_min := {terms['delta_t_min']} in (f_prime, f_second, f_second0, delta_t_min).")
    L.append("(* ibp = sorted_t_idx[0]; t_cur = t[ibp]; t_old = 0.0; delta_t = t_cur - 0.0 : (t_cur, delta_t, t_old) *)")
    L.append(f"Definition cauchy_first (t : vec) (i0 : nat) : float * float * float := let t_cur := {terms['t_cur']} in (t_cur, {terms['delta_t']}, 0x0.0p+0%float).")
    L.append("(* if nbreak == 0: return x_cp, c  with x_cp = x.copy() and c = np.zeros(p.size) *)")
    L.append("Definition cauchy_no_breakpoint (x p : vec) : vec * vec := (x, List.map (fun _ => 0x0.0p+0%float) p).")
    return "\n".join(L) + "\n"


GENERATORS["CauchyInit.v"] = gen_cauchy_init


def gen_get_bounds():
    """base.get_bounds: the validation of x0 against the bounds - which ValueError is raised, in which order, with which message
    (the f-string of the last one is translated piece by piece) - for bounds given with the length of x0 (lb, ub = old_bound_to_new)."""
    L = ["(* GENERATED from /repo/lbfgsb/base.py by harness/translate.py - do not edit *)",
         "From Coq Require Import List Bool Arith String DecimalString Floats.PrimFloat.", "From LBFGSB Require Import Model.FloatVec Model.NumpyOps.", "Import ListNotations.", "Local Open Scope string_scope.", ""]
    fn = _func(_unann(ast.parse(_src("base.py"))), "get_bounds")
    if [a.arg for a in fn.args.args] != ["x0", "bounds"]:
        raise TranslateError("get_bounds: unexpected parameters")
    body = [s for s in fn.body if not (isinstance(s, ast.Expr) and isinstance(s.value, ast.Constant))]
    u = [ast.unparse(s) for s in body]
    fixed = {0: "n = x0.shape[0]", 2: "if bounds is None:\n    bounds = np.repeat(np.array([(-np.inf, np.inf)]), n, axis=0)",
             3: "if len(bounds) != n:\n    raise ValueError('Length of x0 != length of bounds')", 4: "lb, ub = old_bound_to_new(bounds)", 7: "return (lb, ub)"}
    if len(u) != 8 or any(u[i] != t for i, t in fixed.items()):
        raise TranslateError("get_bounds: unexpected statements: " + " | ".join(x[:70] for x in u))

    def raise_of(st):
        if not (isinstance(st, ast.If) and not st.orelse and len(st.body) == 1 and isinstance(st.body[0], ast.Raise) and isinstance(st.body[0].exc, ast.Call)
                and ast.unparse(st.body[0].exc.func) == "ValueError" and len(st.body[0].exc.args) == 1):
            raise TranslateError("get_bounds: expected `if <test>: raise ValueError(<message>)`, found " + ast.unparse(st)[:80])
        return st.test, st.body[0].exc.args[0]

    def cmp_any(n):
        # (a < b).any() / (a > b).any() on arrays
        if isinstance(n, ast.Call) and isinstance(n.func, ast.Attribute) and n.func.attr == "any" and not n.args and isinstance(n.func.value, ast.Compare) \
                and len(n.func.value.ops) == 1 and isinstance(n.func.value.ops[0], (ast.Lt, ast.Gt)):
            c_ = n.func.value
            a, b = ast.unparse(c_.left), ast.unparse(c_.comparators[0])
            if {a, b} <= {"x0", "lb", "ub"}:
                lo, hi = (a, b) if isinstance(c_.ops[0], ast.Lt) else (b, a)
                return f"(existsb (fun b_ => b_) (bmap2 PrimFloat.ltb {lo} {hi}))"
        if isinstance(n, ast.BoolOp) and isinstance(n.op, ast.Or):
            return "(" + " || ".join(cmp_any(v) for v in n.values) + ")"
        raise TranslateError("get_bounds: unsupported test " + ast.unparse(n))

    def count(n):
        # np.count_nonzero(a < b)
        if isinstance(n, ast.Call) and ast.unparse(n.func) == "np.count_nonzero" and len(n.args) == 1 and isinstance(n.args[0], ast.Compare) \
                and len(n.args[0].ops) == 1 and isinstance(n.args[0].ops[0], (ast.Lt, ast.Gt)):
            c_ = n.args[0]
            a, b = ast.unparse(c_.left), ast.unparse(c_.comparators[0])
            if {a, b} <= {"x0", "lb", "ub"}:
                lo, hi = (a, b) if isinstance(c_.ops[0], ast.Lt) else (b, a)
                return f"(List.length (List.filter (fun b_ => b_) (bmap2 PrimFloat.ltb {lo} {hi})))"
        raise TranslateError("get_bounds: unsupported count " + ast.unparse(n))

    def msg(n):
        if isinstance(n, ast.Constant) and isinstance(n.value, str):
            return coq_string(n.value)
        if isinstance(n, ast.JoinedStr):
            parts = []
            for v in n.values:
                if isinstance(v, ast.Constant):
                    parts.append(coq_string(v.value))
                elif isinstance(v, ast.FormattedValue) and v.conversion == -1 and v.format_spec is None:
                    parts.append(f"nat_str {count(v.value)}")      # str() of a NumPy integer: its decimal digits
                else:
                    raise TranslateError("get_bounds: unsupported f-string field")
            return "(" + " ++ ".join(parts) + ")"
        raise TranslateError("get_bounds: unsupported message " + ast.unparse(n))
    t1, m1 = raise_of(body[1])
    if ast.unparse(t1) != "n == 0":
        raise TranslateError("get_bounds: the first test is not n == 0")
    t5, m5 = raise_of(body[5])
    t6, m6 = raise_of(body[6])
    L.append("(* decimal digits of a natural number *)")
    L.append("Definition nat_str (n : nat) : string := NilZero.string_of_uint (Nat.to_uint n).")
    L.append("(* None: the bounds are accepted; Some (class, message): the exception raised.  lb, ub have the length of x0 *)")
    L.append("Definition get_bounds_error (x0 lb ub : vec) : option (string * string) :=\n"
             f"  match x0 with [] => Some (\"ValueError\", {msg(m1)}) | _ :: _ =>\n"
             f"  if {cmp_any(t5)} then Some (\"ValueError\", {msg(m5)})\n"
             f"  else if {cmp_any(t6)} then Some (\"ValueError\", {msg(m6)})\n  else None end.")
    return "\n".join(L) + "\n"


GENERATORS["GetBounds.v"] = gen_get_bounds


def generate():
    """Write the generated files. Returns a list of error strings (empty = ok)."""
    os.makedirs(OUT, exist_ok=True)
    errors = []
    for name, fn in GENERATORS.items():
        path = os.path.join(OUT, name)
        try:
            txt = fn()
        except TranslateError as e:
            errors.append(f"{name}: {e}")
            txt = f"(* translation failed: {e} *)\nDefinition translation_failed : True := I.\nGoal False. Proof. Abort.\nFail Definition ok := I.\nDefinition broken : False := I.\n"
        except Exception as e:  # noqa
            errors.append(f"{name}: {type(e).__name__}: {e}")
            txt = f"(* translation crashed: {e} *)\nDefinition broken : False := I.\n"
        old = open(path).read() if os.path.exists(path) else None
        if old != txt:
            with open(path, "w") as fh:
                fh.write(txt)
    return errors


if __name__ == "__main__":
    print(generate())
