#!/bin/bash
# regression of the detection table: every seeded change against the quick check of the property it breaks
cd /verif
for d in seeded/*/; do
  id=$(basename $d); pid=${id%%-*}
  extra=""
  case $pid in C06) extra=",C07";; esac
  /venv/bin/python harness/seedtest.py $d $pid$extra > .work/seed_$id.log 2>&1
  /venv/bin/python - "$d" <<'P'
import json,sys
m=json.load(open(sys.argv[1]+"/meta.json")); print(sys.argv[1], "caught_by=", m.get("caught_by"), "| tests:", (m["ran"].get("existing test suite with the change applied") or "")[-40:])
P
done
