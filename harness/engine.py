"""Generic search engine: generate cases, evaluate them (in parallel), collect failures and coverage."""
import os
import importlib
import multiprocessing as mp

import numpy as np

from harness.common import Failure, Coverage, setup_env, seed

REGISTRY = {
    # property id -> (module, generator, evaluator, rule text)
}


def register(pid, module, rule):
    REGISTRY[pid] = (module, f"gen_{pid}", f"eval_{pid}", rule)


def _init():
    setup_env()


def _eval(args):
    modname, fn, case = args
    mod = importlib.import_module(modname)
    try:
        out = getattr(mod, fn)(case)
    except Exception as e:  # an exception inside a monitor is reported, never swallowed
        import traceback

        out = dict(fail=f"monitor raised {type(e).__name__}: {e}", key=None, nontrivial=False, sample=None,
                   signature="monitor-exception", tags={}, trace=traceback.format_exc()[-1500:])
    return case, out


def search(pid, tier, cov=None, limit_failures=5, procs=None, sub_seed=0):
    modname, gfn, efn, rule = REGISTRY[pid]
    mod = importlib.import_module(modname)
    rng = np.random.default_rng([seed(), sub_seed, int(pid[1:])])
    cases = list(getattr(mod, gfn)(tier, rng))
    cov = cov or Coverage(rule)
    failures = []
    procs = procs or min(16, os.cpu_count() or 4)
    work = [(modname, efn, c) for c in cases]
    if procs > 1 and len(work) > 8:
        ctx = mp.get_context("fork")
        with ctx.Pool(procs, initializer=_init) as pool:
            results = pool.imap(_eval, work, chunksize=max(1, min(64, len(work) // (procs * 8))))
            results = list(results)
    else:
        results = [_eval(w) for w in work]
    for case, out in results:
        key = out.get("key")
        if isinstance(key, list):
            key = tuple(key)
        cov.case(key=key, nontrivial=out.get("nontrivial", False), sample=out.get("sample"), **out.get("tags", {}))
        if out.get("fail"):
            if len(failures) < limit_failures:
                failures.append(Failure("input", out["fail"], replay=dict(monitor=pid, case=case, trace=out.get("trace")),
                                        signature=out.get("signature", "")))
    cov.extra["failing_cases"] = sum(1 for _, o in results if o.get("fail"))
    return failures, cov


def replay(pid, case):
    modname, gfn, efn, rule = REGISTRY[pid]
    mod = importlib.import_module(modname)
    return getattr(mod, efn)(case)
