"""Instrumented runs of the real minimize_lbfgsb and the property predicates evaluated on them.
Used by the monitors (failing-input search) of C02-C07, C13, C17, C18."""
import copy
import numpy as np

MSG_PGTOL = "CONVERGENCE: NORM_OF_PROJECTED_GRADIENT_<=_PGTOL"
MSG_FTOL = "CONVERGENCE: REL_REDUCTION_OF_F_<=_FTOL"
MSG_TARGET = "CONVERGENCE: F_<=_TARGET"
MSG_MAXITER = "STOP: TOTAL NO. of ITERATIONS REACHED LIMIT"
MSG_MAXFUN = "STOP: TOTAL NO. of f AND g EVALUATIONS EXCEEDS LIMIT"
MSG_CALLBACK = "STOP: USER CALLBACK"
MSG_ABNORMAL = "ABNORMAL_TERMINATION_IN_LNSRCH"
DOCUMENTED = (MSG_PGTOL, MSG_FTOL, MSG_TARGET, MSG_MAXITER, MSG_MAXFUN, MSG_CALLBACK, MSG_ABNORMAL)


def bits(a):
    return np.ascontiguousarray(np.asarray(a, dtype=np.float64)).view(np.int64)


def beq(a, b):
    a = np.asarray(a, dtype=np.float64)
    b = np.asarray(b, dtype=np.float64)
    return a.shape == b.shape and bool((bits(a) == bits(b)).all())


def pairs_of(res):
    """Correction pairs of a result, with the 'no pair' encodings normalised to shape (0, n)."""
    sk = np.atleast_2d(np.asarray(res.hess_inv.sk, dtype=float))
    yk = np.atleast_2d(np.asarray(res.hess_inv.yk, dtype=float))
    n = np.asarray(res.x).size
    if sk.size == 0:
        return np.zeros((0, n)), np.zeros((0, n))
    return sk, yk


def same_result(a, b, fields=("x", "fun", "jac", "nfev", "njev", "nit", "message", "success", "status"), pairs=True):
    out = []
    for k in fields:
        va, vb = a[k], b[k]
        if isinstance(va, np.ndarray) or isinstance(vb, np.ndarray):
            if not beq(va, vb):
                out.append(k)
        elif isinstance(va, float) or isinstance(vb, float):
            if not beq([va], [vb]):
                out.append(k)
        elif va != vb:
            out.append(k)
    if pairs:
        sa, ya = pairs_of(a)
        sb, yb = pairs_of(b)
        if not (beq(sa, sb) and beq(ya, yb)):
            out.append("pairs")
    return out


class Rec:
    pass


def run_instrumented(P, cfg, jac="callable", stop_at=None, use_callback=True, extra=None, fwrap=None, scribble=False, workbuf=False, on_state=None):
    """Run the implementation on problem P with configuration cfg, logging every user call.
    stop_at: callback returns True at that (1-based) call. extra: further keyword arguments.
    scribble: the user's functions overwrite the array they were handed after using it (a legitimate thing for a
    user function to do: the package must hand them copies, the model's values cannot be disturbed by it).
    workbuf: the user's gradient returns the SAME preallocated array on every call, refilled in place (what adjoint / simulation
    codes do): the package must not keep a reference to what a callable returned."""
    from lbfgsb import minimize_lbfgsb

    R = Rec()
    R.flog, R.glog, R.snaps, R.cbret = [], [], [], []
    R.exc = None

    def F(x):
        v = P.f(x)
        R.flog.append((np.array(np.real(x), dtype=float, copy=True), v))
        if scribble and isinstance(x, np.ndarray) and x.flags.writeable and not np.iscomplexobj(x):
            x += 0.75
        return v

    def G(x):
        v = np.asarray(P.g(x), dtype=float)
        R.glog.append((np.array(x, dtype=float, copy=True), v.copy()))
        if scribble and isinstance(x, np.ndarray) and x.flags.writeable:
            x -= 1.25
        if workbuf:
            if getattr(R, "buf", None) is None or R.buf.shape != v.shape:
                R.buf = np.empty_like(v)
            np.copyto(R.buf, v)
            return R.buf
        return v

    def cb(xk, state):
        R.snaps.append((state, copy.deepcopy(state), np.array(xk, copy=True), len(R.flog), len(R.glog)))
        if on_state is not None:
            on_state(state)
        ret = stop_at is not None and len(R.snaps) == stop_at
        R.cbret.append(ret)
        return ret

    kw = dict(x0=P.x0.copy(), fun=F, bounds=P.bounds)
    kw["jac"] = G if jac == "callable" else jac
    kw.update(cfg)
    if use_callback:
        kw["callback"] = cb
    if extra:
        kw.update(extra)
    R.kw = kw
    try:
        R.res = minimize_lbfgsb(**kw)
    except Exception as e:  # noqa
        R.exc = e
        R.res = None
    return R


def in_box(x, lb, ub):
    x = np.asarray(x)
    return not ((x < lb).any() or (x > ub).any() or np.isnan(x).any())


# ------------------------------------------------------------------ predicates
def c02_pred(R, P):
    """Every evaluated/reported/returned point in the box, fixed components never move."""
    fixed = P.lb == P.ub
    pts = [("fun", x) for x, _ in R.flog] + [("jac", x) for x, _ in R.glog]
    for s, sc, xk, _, _ in R.snaps:
        pts.append(("callback xk", xk))
        pts.append(("callback state.x", sc.x))
    if R.res is not None:
        pts.append(("result", R.res.x))
    for kind, x in pts:
        if not in_box(x, P.lb, P.ub):
            i = int(np.argmax((x < P.lb) | (x > P.ub) | np.isnan(x)))
            return f"{kind} point outside the box: x[{i}]={float(x[i]).hex()} lb={float(P.lb[i]).hex()} ub={float(P.ub[i]).hex()}"
        if fixed.any() and not beq(np.asarray(x)[fixed] + 0.0, P.lb[fixed] + 0.0):
            return f"{kind} point moved a fixed component (lb == ub)"
    return None


def c03_pred(R, P, fstart):
    seq = [fstart] + [sc.fun for _, sc, _, _, _ in R.snaps] + [R.res.fun]
    for i in range(len(seq) - 1):
        if not (seq[i + 1] <= seq[i]):
            return f"objective increased between accepted iterates {i}->{i+1}: {seq[i]!r} -> {seq[i+1]!r}"
    if R.res.message.startswith("CONVERGENCE") and len(seq) >= 2 and not (seq[-1] <= seq[-2]):
        return "converged after an uphill step"
    return None


def ref_projgr(x, g, lb, ub):
    """Infinity norm of the projected gradient, computed by the harness (NOT the package's function: an oracle must not trust
    the code under test)."""
    x = np.asarray(x, float)
    return np.max(np.abs(np.clip(x - np.asarray(g, float), lb, ub) - x))


def ref_max_step(x, d, lb, ub, cap, it):
    """Largest step keeping x + t d in the box (1 at iteration 0, as documented), computed by the harness."""
    if it == 0:
        return 1.0
    best = float(cap)
    for xi, di, l, u in zip(np.asarray(x, float), np.asarray(d, float), lb, ub):
        if di > 0 and np.isfinite(u):
            t = (u - xi) / di
        elif di < 0 and np.isfinite(l):
            t = (l - xi) / di
        else:
            continue
        if np.isfinite(t):
            best = min(best, float(t))
    return best


def ref_curvature_ok(s, y, eps=2.2e-16):
    return bool(np.dot(s, y) > eps * np.dot(y, y))


def c04_pred(R, P, cfg, nit0=0, n0=1, ftarget_val=None, gtol_val=None, scale=1.0, callable_grad=True):
    projgr = ref_projgr

    r = R.res
    m = r.message
    if m not in DOCUMENTED:
        return f"undocumented termination message {m!r}"
    gt = cfg["gtol"] if gtol_val is None else gtol_val
    if m == MSG_PGTOL and not (projgr(r.x, r.jac, P.lb, P.ub) <= gt):
        return f"PGTOL message but projected gradient {projgr(r.x, r.jac, P.lb, P.ub)!r} > gtol {gt!r}"
    if m == MSG_TARGET and not (ftarget_val is not None and r.fun / scale <= ftarget_val):
        return f"TARGET message but fun {r.fun!r} > ftarget {ftarget_val!r}"
    if m == MSG_MAXITER and not (r.nit >= cfg["maxiter"]):
        return f"MAXITER message but nit {r.nit} < maxiter {cfg['maxiter']}"
    if m == MSG_MAXFUN and not (r.nfev >= cfg["maxfun"]):
        return f"MAXFUN message but nfev {r.nfev} < maxfun {cfg['maxfun']}"
    if m == MSG_CALLBACK and not any(R.cbret):
        return "CALLBACK message but the callback never returned True"
    if r.success != (m != MSG_ABNORMAL):
        return f"success={r.success} with message {m!r}"
    if r.nit > max(cfg["maxiter"], nit0):
        return f"nit {r.nit} > max(maxiter {cfg['maxiter']}, nit0 {nit0})"
    if callable_grad and r.nfev > max(cfg["maxfun"], n0) + 1:
        return f"nfev {r.nfev} > max(maxfun {cfg['maxfun']}, n0 {n0}) + 1"
    return None


def c05_pred(R, P, scale=1.0, nfev0=0, njev0=0, callable_grad=True):
    r = R.res
    if r.nfev != nfev0 + len(R.flog):
        return f"nfev {r.nfev} != {nfev0} + {len(R.flog)} objective calls made"
    if callable_grad and r.njev != njev0 + len(R.glog):
        return f"njev {r.njev} != {njev0} + {len(R.glog)} gradient calls made"
    states = [("result", r)] + [(f"callback state {i+1}", sc) for i, (_, sc, _, _, _) in enumerate(R.snaps)]
    for kind, s in states:
        if s.njev == 0:
            continue  # no gradient computed yet (early target return)
        fx = P.f(np.array(s.x, copy=True)) * scale
        if not beq([s.fun], [fx]):
            return f"{kind}: fun {float(s.fun).hex()} is not f(x)*scale {float(fx).hex()}"
        if callable_grad:
            gx = np.asarray(P.g(np.array(s.x, copy=True)), dtype=float) * scale
            if not beq(s.jac, gx):
                return f"{kind}: jac is not grad(x)*scale"
    for i, (_, sc, _, nf, ng) in enumerate(R.snaps):
        if sc.nfev != nfev0 + nf or (callable_grad and sc.njev != njev0 + ng):
            return f"callback state {i+1}: counters ({sc.nfev},{sc.njev}) != calls made ({nfev0 + nf},{njev0 + ng})"
    return None


def c18_pred(R, P, cfg, scale=1.0, inherited=None):
    """Pairs of the result and of every callback state: <= maxcor, bit-exact differences of
    retained iterates (chronological) and of the user's gradients there, s.y > 0."""
    gd = {}
    for x, v in R.glog:
        gd[bits(x).tobytes()] = v * scale
    x_start = np.clip(P.x0, P.lb, P.ub)
    its = [x_start]
    states = []
    for _, sc, xk, _, _ in R.snaps:
        its.append(np.array(sc.x, copy=True))
        states.append((sc, len(its)))
    if R.res is not None:
        if not beq(its[-1], R.res.x):
            its.append(np.array(R.res.x, copy=True))
        states.append((R.res, len(its)))
    for s, L in states:
        sk, yk = pairs_of(s)
        m = sk.shape[0]
        if m > cfg["maxcor"]:
            return f"{m} pairs > maxcor {cfg['maxcor']}"
        if m == 1 and not sk.any() and not yk.any():
            continue  # the (1, n) zero encoding of 'no pair'
        for i in range(m):
            if not (sk[i] @ yk[i] > 0):
                return f"pair {i} has s.y = {float(sk[i] @ yk[i])!r} <= 0"
        if inherited is not None:
            continue
        cand = its[:L]

        def rec(row, j):
            if row < 0:
                return True
            for i in range(j - 1, -1, -1):
                if beq(cand[j] - cand[i], sk[row]):
                    ki, kj = bits(cand[i]).tobytes(), bits(cand[j]).tobytes()
                    if ki in gd and kj in gd and beq(gd[kj] - gd[ki], yk[row]) and rec(row - 1, i):
                        return True
            return False

        if m and not any(rec(m - 1, j) for j in range(len(cand) - 1, 0, -1)):
            return "pairs are not bit-exact differences of consecutive retained iterates / user gradients in chronological order"
    return None
