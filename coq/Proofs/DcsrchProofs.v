(* Range contract of the model of SciPy's DCSRCH (Dcsrch.v).

   What is true (and proved here, for EVERY instance of the libm-pow oracle [sq]):

   * a START call whose argument checks fail returns the input step unchanged, task TErr, state unchanged;
   * a non-START call that exits with CONVERGENCE or a WARNING returns the input step unchanged;
   * a non-START call that exits with FG returns either  np.clip(x, stpmin, stpmax)  for some x -- which lies in
     [stpmin, stpmax] or is NaN (exactly when x is NaN) -- or the best step stx, and stx is always 0.0 or one of
     the steps that were passed IN by the caller.

   Hence: if stpmin <= 0 <= stpmax and every step passed in is NaN or in [stpmin, stpmax], every step returned
   is NaN or in [stpmin, stpmax].  The NaN alternative cannot be removed, even for finite f and g and steps in
   range ([nan_step_example]); and the START checks are `<` / `>` tests, so they accept a NaN step and a NaN
   stpmax ([start_accepts_nan_stpmax]). *)
From LBFGSB Require Import Base.FloatOrd.
From Coq Require Import List Bool Floats.PrimFloat.
From LBFGSB Require Import Model.Dcsrch.
Import ListNotations.
Local Open Scope float_scope.

Definition inr (lo hi x : float) : Prop := leb lo x = true /\ leb x hi = true.
(* NaN or in range *)
Definition okr (lo hi x : float) : Prop := is_nan x = true \/ inr lo hi x.

Definition stp_of (e : triple) : float := fst (fst e).

(* ------------------------------------------------------------------------------------------------ *)
(* np.clip                                                                                          *)
(* ------------------------------------------------------------------------------------------------ *)
Lemma fclip_nan x lo hi : is_nan x = true -> fclip x lo hi = x.
Proof. intros H. unfold fclip. rewrite H. cbv beta iota zeta. rewrite H. reflexivity. Qed.

Lemma fclip_inr x lo hi : leb lo hi = true -> is_nan x = false -> inr lo hi (fclip x lo hi).
Proof.
  intros Hb Hx. destruct (leb_not_nan _ _ Hb) as [Hlo Hhi].
  unfold fclip, inr. cbv zeta. rewrite Hx.
  destruct (ltb lo x) eqn:E1.
  - rewrite Hx. destruct (ltb x hi) eqn:E2.
    + split; apply ltb_leb; assumption.
    + split; [exact Hb | apply leb_refl; exact Hhi].
  - rewrite Hlo. destruct (ltb lo hi) eqn:E2.
    + split; [apply leb_refl; exact Hlo | exact Hb].
    + split; [exact Hb | apply leb_refl; exact Hhi].
Qed.

Lemma fclip_okr x lo hi : leb lo hi = true -> okr lo hi (fclip x lo hi).
Proof.
  intros Hb. destruct (is_nan x) eqn:Hx.
  - left. rewrite (fclip_nan _ _ _ Hx). exact Hx.
  - right. apply fclip_inr; assumption.
Qed.

(* the clipped value is NaN exactly when the argument is *)
Lemma fclip_is_nan x lo hi : leb lo hi = true -> is_nan (fclip x lo hi) = is_nan x.
Proof.
  intros Hb. destruct (is_nan x) eqn:Hx.
  - rewrite (fclip_nan _ _ _ Hx). exact Hx.
  - destruct (fclip_inr x lo hi Hb Hx) as [H _]. apply leb_not_nan in H. tauto.
Qed.

Section Range.
Variable sq : float -> float.

(* ------------------------------------------------------------------------------------------------ *)
(* dcstep: the new best step is the old one or the trial step                                       *)
(* ------------------------------------------------------------------------------------------------ *)
Lemma dcstep_stx stx fx dx sty fy dy stp fp dp bk smin smax :
  let r := dcstep sq stx fx dx sty fy dy stp fp dp bk smin smax in
  d_stx r = stx \/ d_stx r = stp.
Proof.
  unfold dcstep.
  match goal with |- context [let '(a, b) := ?X in _] => destruct X as [stpf bk'] end.
  destruct (ltb fx fp); [left; reflexivity|].
  destruct (ltb (mul (fsign dp) (fsign dx)) 0); right; reflexivity.
Qed.

(* ------------------------------------------------------------------------------------------------ *)
(* _iterate                                                                                         *)
(* ------------------------------------------------------------------------------------------------ *)
Lemma advance_spec p s stp f g ftest :
  let r := advance sq p s stp f g ftest in
  (stx (snd r) = stx s \/ stx (snd r) = stp) /\
  (fst r = stx (snd r) \/ exists x, fst r = fclip x (p_stpmin p) (p_stpmax p)).
Proof.
  unfold advance.
  destruct (stage1 s && leb f (fx s) && ltb ftest f).
  - match goal with |- context [dcstep ?a1 ?a2 ?a3 ?a4 ?a5 ?a6 ?a7 ?a8 ?a9 ?a10 ?a11 ?a12 ?a13] =>
      pose proof (dcstep_stx a2 a3 a4 a5 a6 a7 a8 a9 a10 a11 a12 a13) as Hd;
      set (r := dcstep a1 a2 a3 a4 a5 a6 a7 a8 a9 a10 a11 a12 a13) in * end.
    cbv beta iota zeta in Hd |- *.
    destruct (d_brackt r); cbv beta iota zeta;
      match goal with |- context [if ?c then d_stx r else _] => destruct c end;
      cbn [fst snd stx]; (split; [exact Hd | first [left; reflexivity | right; eexists; reflexivity]]).
  - match goal with |- context [dcstep ?a1 ?a2 ?a3 ?a4 ?a5 ?a6 ?a7 ?a8 ?a9 ?a10 ?a11 ?a12 ?a13] =>
      pose proof (dcstep_stx a2 a3 a4 a5 a6 a7 a8 a9 a10 a11 a12 a13) as Hd;
      set (r := dcstep a1 a2 a3 a4 a5 a6 a7 a8 a9 a10 a11 a12 a13) in * end.
    cbv beta iota zeta in Hd |- *.
    destruct (d_brackt r); cbv beta iota zeta;
      match goal with |- context [if ?c then d_stx r else _] => destruct c end;
      cbn [fst snd stx]; (split; [exact Hd | first [left; reflexivity | right; eexists; reflexivity]]).
Qed.

Lemma set_stage_stx s b : stx (set_stage s b) = stx s.
Proof. reflexivity. Qed.

(* ---- START ---- *)
Theorem iterate_start_error p s stp f g e :
  start_err p stp g = Some e -> iterate sq p s stp f g Start = (stp, TErr e, s).
Proof. intros H. unfold iterate. rewrite H. reflexivity. Qed.

Theorem iterate_start_ok p s stp f g :
  start_err p stp g = None -> iterate sq p s stp f g Start = (stp, TFG, start_state p stp f g).
Proof. intros H. unfold iterate. rewrite H. reflexivity. Qed.

(* the START checks pass exactly when none of the eight `<` / `>` / `>=` tests fires (a NaN fires none) *)
Theorem start_err_none_iff p stp g :
  start_err p stp g = None <->
  ltb stp (p_stpmin p) = false /\ ltb (p_stpmax p) stp = false /\ leb 0 g = false /\
  ltb (p_ftol p) 0 = false /\ ltb (p_gtol p) 0 = false /\ ltb (p_xtol p) 0 = false /\
  ltb (p_stpmin p) 0 = false /\ ltb (p_stpmax p) (p_stpmin p) = false.
Proof.
  unfold start_err.
  destruct (ltb stp (p_stpmin p)), (ltb (p_stpmax p) stp), (leb 0 g), (ltb (p_ftol p) 0), (ltb (p_gtol p) 0),
    (ltb (p_xtol p) 0), (ltb (p_stpmin p) 0), (ltb (p_stpmax p) (p_stpmin p));
    split; intros H; try discriminate H; try reflexivity; repeat split;
    repeat match goal with H : _ /\ _ |- _ => destruct H end; discriminate.
Qed.

(* every START call returns its input step *)
Theorem iterate_start_step p s stp f g : fst (fst (iterate sq p s stp f g Start)) = stp.
Proof. unfold iterate. destruct (start_err p stp g); reflexivity. Qed.

(* ---- later calls ---- *)
(* exits with CONVERGENCE or a WARNING return the input step; the state keeps its best step *)
Theorem iterate_exit_step p s stp f g stp' t s' :
  iterate sq p s stp f g FG = (stp', t, s') -> t <> TFG -> stp' = stp /\ stx s' = stx s.
Proof.
  unfold iterate. intros H Ht.
  set (ftest := add (finit s) (mul stp (gtest s))) in *.
  set (s1 := if stage1 s && leb f ftest && leb 0 g then set_stage s false else s) in *.
  assert (E1 : stx s1 = stx s) by (unfold s1; destruct (stage1 s && leb f ftest && leb 0 g); reflexivity).
  destruct (exit_task p s1 stp f g ftest) as [tk|].
  - inversion H; subst. split; [reflexivity | exact E1].
  - destruct (advance sq p s1 stp f g ftest) as [a b]. inversion H; subst. exfalso; apply Ht; reflexivity.
Qed.

(* an FG exit returns a clipped value or the (new) best step, which is the old best step or the input step *)
Theorem iterate_FG_step p s stp f g stp' s' :
  iterate sq p s stp f g FG = (stp', TFG, s') ->
  (stx s' = stx s \/ stx s' = stp) /\
  (stp' = stx s' \/ exists x, stp' = fclip x (p_stpmin p) (p_stpmax p)).
Proof.
  unfold iterate. intros H.
  set (ftest := add (finit s) (mul stp (gtest s))) in *.
  set (s1 := if stage1 s && leb f ftest && leb 0 g then set_stage s false else s) in *.
  assert (E1 : stx s1 = stx s) by (unfold s1; destruct (stage1 s && leb f ftest && leb 0 g); reflexivity).
  destruct (exit_task p s1 stp f g ftest) as [tk|] eqn:Ex.
  - inversion H; subst. unfold exit_task in Ex.
    repeat match type of Ex with context [if ?c then _ else _] => destruct c end; discriminate.
  - pose proof (advance_spec p s1 stp f g ftest) as Ha. cbv zeta in Ha.
    destruct (advance sq p s1 stp f g ftest) as [a b]. cbn [fst snd] in Ha. inversion H; subst.
    rewrite E1 in Ha. exact Ha.
Qed.

Section Params.
Variable p : params.
Hypothesis Hmin : leb (p_stpmin p) 0 = true.      (* for the client: stpmin = 0 *)
Hypothesis Hmax : leb 0 (p_stpmax p) = true.

Let OK := okr (p_stpmin p) (p_stpmax p).

Lemma bounds_ordered : leb (p_stpmin p) (p_stpmax p) = true.
Proof. eapply leb_trans; eassumption. Qed.

Lemma zero_ok : OK 0.
Proof. right. split; assumption. Qed.

(* single call: if the best step held by the state and the input step are NaN-or-in-range, so are the returned
   step and the new best step.  No hypothesis on f, g, the tolerances or the other state variables. *)
Theorem dcs_in_range s stp f g tk :
  OK (stx s) -> OK stp ->
  let r := iterate sq p s stp f g tk in OK (fst (fst r)) /\ OK (stx (snd r)).
Proof.
  intros Hs Hi. cbv zeta. destruct tk.
  - unfold iterate. destruct (start_err p stp g); cbn [fst snd].
    + split; assumption.
    + split; [assumption | apply zero_ok].
  - destruct (iterate sq p s stp f g FG) as [[stp' t] s'] eqn:E. cbn [fst snd].
    destruct t.
    + destruct (iterate_FG_step _ _ _ _ _ _ _ E) as [H1 H2].
      assert (Hx : OK (stx s')) by (destruct H1 as [-> | ->]; assumption).
      split; [|exact Hx]. destruct H2 as [-> | [x ->]]; [exact Hx|].
      apply fclip_okr, bounds_ordered.
    + destruct (iterate_exit_step _ _ _ _ _ _ _ _ E ltac:(discriminate)) as [-> ->]. split; assumption.
    + destruct (iterate_exit_step _ _ _ _ _ _ _ _ E ltac:(discriminate)) as [-> ->]. split; assumption.
    + destruct (iterate_exit_step _ _ _ _ _ _ _ _ E ltac:(discriminate)) as [-> ->]. split; assumption.
Qed.

(* the same for steps returned with task FG, without any hypothesis on the input step: in range, or NaN, or the
   best step *)
Corollary dcs_FG_in_range s stp f g stp' s' :
  iterate sq p s stp f g FG = (stp', TFG, s') ->
  inr (p_stpmin p) (p_stpmax p) stp' \/ is_nan stp' = true \/ stp' = stx s'.
Proof.
  intros E. destruct (iterate_FG_step _ _ _ _ _ _ _ E) as [_ [H | [x ->]]].
  - right; right; exact H.
  - destruct (fclip_okr x _ _ bounds_ordered) as [H | H]; [right; left; exact H | left; exact H].
Qed.

Lemma run_more_ok h : forall cur,
  OK (fst (fst cur)) -> OK (stx (snd cur)) -> Forall (fun e => OK (stp_of e)) h ->
  OK (fst (fst (run_more sq p cur h))) /\ OK (stx (snd (run_more sq p cur h))).
Proof.
  induction h as [|[[stp f] g] r IH]; intros [[c t] s] H1 H2 HF; cbn [run_more].
  - split; assumption.
  - inversion HF as [|? ? Hh Hr]; subst. unfold stp_of in Hh. cbn [fst] in Hh, H1, H2.
    cbn [snd] in H2.
    assert (K : OK (fst (fst (run_more sq p (iterate sq p s stp f g FG) r))) /\
                OK (stx (snd (run_more sq p (iterate sq p s stp f g FG) r)))).
    { pose proof (dcs_in_range s stp f g FG H2 Hh) as [K1 K2]. apply IH; assumption. }
    destruct t; try exact K. split; assumption.
Qed.

Theorem run_full_ok h :
  Forall (fun e => OK (stp_of e)) h ->
  OK (fst (fst (run_full sq p h))) /\ OK (stx (snd (run_full sq p h))).
Proof.
  destruct h as [|[[stp f] g] r]; intros HF; cbn [run_full].
  - cbn [fst snd]. split; apply zero_ok.
  - inversion HF as [|? ? Hh Hr]; subst. unfold stp_of in Hh. cbn [fst] in Hh.
    pose proof (dcs_in_range st0 stp f g Start zero_ok Hh) as [K1 K2].
    apply run_more_ok; assumption.
Qed.
End Params.

(* ------------------------------------------------------------------------------------------------ *)
(* The history wrapper, in the form used by the client (stpmin = 0)                                 *)
(* ------------------------------------------------------------------------------------------------ *)
Definition inputs_ok (stpmax : float) (h : list triple) : Prop :=
  Forall (fun e => okr 0 stpmax (stp_of e)) h.

Theorem run_dcsrch_nan_or_in_range ft gt xt stpmax h :
  leb 0 stpmax = true -> inputs_ok stpmax h ->
  okr 0 stpmax (fst (run_dcsrch sq (ft, gt, xt, stpmax) h)).
Proof.
  intros Hmax HF. unfold run_dcsrch, run_dcsrch_full.
  assert (H0 : leb 0 0 = true) by reflexivity.
  pose proof (run_full_ok (par_of (ft, gt, xt, stpmax)) H0 Hmax h HF) as [K _].
  destruct (run_full sq (par_of (ft, gt, xt, stpmax)) h) as [[a t] s]. exact K.
Qed.

(* the contract of the client development (DriverLineSearch.dcs_in_range), with the hypotheses it needs *)
Theorem run_dcsrch_in_range ft gt xt stpmax h :
  leb 0 stpmax = true ->
  inputs_ok stpmax h ->
  is_nan (fst (run_dcsrch sq (ft, gt, xt, stpmax) h)) = false ->
  leb 0 (fst (run_dcsrch sq (ft, gt, xt, stpmax) h)) = true /\
  leb (fst (run_dcsrch sq (ft, gt, xt, stpmax) h)) stpmax = true.
Proof.
  intros Hmax HF Hn. destruct (run_dcsrch_nan_or_in_range ft gt xt stpmax h Hmax HF) as [K | K].
  - rewrite K in Hn. discriminate.
  - exact K.
Qed.

(* chained histories (what the client's ls_loop builds): every step passed in after the first call is the step
   returned by the previous call *)
Definition chained (q : float * float * float * float) (h : list triple) : Prop :=
  forall h1 e h2, h = h1 ++ e :: h2 -> h1 <> [] -> stp_of e = fst (run_dcsrch sq q h1).

Definition first_ok (stpmax : float) (h : list triple) : Prop :=
  forall e r, h = e :: r -> okr 0 stpmax (stp_of e).

Lemma chained_inputs_ok ft gt xt stpmax h :
  leb 0 stpmax = true -> first_ok stpmax h -> chained (ft, gt, xt, stpmax) h -> inputs_ok stpmax h.
Proof.
  intros Hmax. induction h as [|e h' IH] using rev_ind; intros Hf Hc.
  - constructor.
  - assert (Hc' : chained (ft, gt, xt, stpmax) h').
    { intros h1 e1 h2 E Hne. apply (Hc h1 e1 (h2 ++ [e])); [|exact Hne].
      rewrite E, <- app_assoc. reflexivity. }
    assert (Hf' : first_ok stpmax h').
    { intros e1 r E. apply (Hf e1 (r ++ [e])). rewrite E. reflexivity. }
    specialize (IH Hf' Hc'). apply Forall_app. split; [exact IH|]. constructor; [|constructor].
    destruct h' as [|e0 r0].
    + apply (Hf e []). reflexivity.
    + rewrite (Hc (e0 :: r0) e [] eq_refl ltac:(discriminate)).
      apply run_dcsrch_nan_or_in_range; assumption.
Qed.

Theorem run_dcsrch_chained_nan_or_in_range ft gt xt stpmax h :
  leb 0 stpmax = true -> first_ok stpmax h -> chained (ft, gt, xt, stpmax) h ->
  okr 0 stpmax (fst (run_dcsrch sq (ft, gt, xt, stpmax) h)).
Proof.
  intros Hmax Hf Hc. apply run_dcsrch_nan_or_in_range; [exact Hmax|].
  eapply chained_inputs_ok; eassumption.
Qed.

Theorem run_dcsrch_chained_in_range ft gt xt stpmax h :
  leb 0 stpmax = true -> first_ok stpmax h -> chained (ft, gt, xt, stpmax) h ->
  is_nan (fst (run_dcsrch sq (ft, gt, xt, stpmax) h)) = false ->
  leb 0 (fst (run_dcsrch sq (ft, gt, xt, stpmax) h)) = true /\
  leb (fst (run_dcsrch sq (ft, gt, xt, stpmax) h)) stpmax = true.
Proof.
  intros Hmax Hf Hc Hn. apply run_dcsrch_in_range; try assumption.
  eapply chained_inputs_ok; eassumption.
Qed.

(* a failed START: the wrapper returns the first input step, whatever follows *)
Theorem run_dcsrch_start_error ft gt xt stpmax stp f g r e :
  start_err (par_of (ft, gt, xt, stpmax)) stp g = Some e ->
  run_dcsrch sq (ft, gt, xt, stpmax) ((stp, f, g) :: r) = (stp, TErr e).
Proof.
  intros H. unfold run_dcsrch, run_dcsrch_full. cbn [run_full].
  rewrite (iterate_start_error _ _ _ _ _ _ H).
  destruct r as [|[[a b] c] r]; reflexivity.
Qed.
End Range.

(* ------------------------------------------------------------------------------------------------ *)
(* The hypotheses cannot be dropped                                                                 *)
(* ------------------------------------------------------------------------------------------------ *)
(* finite f and g, steps in range, and the step proposed with task FG is NaN: 3 * (fx - fp) overflows in dcstep,
   theta = -inf, s = inf, theta / s = NaN *)
Example nan_step_example :
  run_dcsrch sq_mul (0x1.0624dd2f1a9fcp-10, 0x1.ccccccccccccdp-1, 0x1.999999999999ap-4, 1)
             [(1, 0, -1); (1, 0x1.1ccf385ebc8ap+1023, 0)] = (nan, TFG).
Proof. vm_compute. reflexivity. Qed.

(* START accepts stpmax = NaN (and a NaN step): all its checks are `<` / `>` comparisons *)
Example start_accepts_nan_stpmax :
  run_dcsrch sq_mul (0x1.0624dd2f1a9fcp-10, 0x1.ccccccccccccdp-1, 0x1.999999999999ap-4, nan) [(1000, 0, -1)] = (1000, TFG)
  /\ run_dcsrch sq_mul (0x1.0624dd2f1a9fcp-10, 0x1.ccccccccccccdp-1, 0x1.999999999999ap-4, 1) [(nan, 0, -1)] = (nan, TFG).
Proof. split; vm_compute; reflexivity. Qed.

(* the client's first step 1.0 with stpmax < 1 is an ERROR exit that returns 1.0 > stpmax *)
Example start_error_out_of_range :
  run_dcsrch sq_mul (0x1.0624dd2f1a9fcp-10, 0x1.ccccccccccccdp-1, 0x1.999999999999ap-4, 0x1p-1) [(1, 0, -1)]
  = (1, TErr EStpGtStpmax).
Proof. vm_compute. reflexivity. Qed.

(* a step passed in outside the range becomes the "best step" stx and is returned by an FG exit *)
Example outside_input_comes_back :
  run_dcsrch sq_mul (0x1.0624dd2f1a9fcp-10, 0x1.ccccccccccccdp-1, 0x1.999999999999ap-4, 2)
             [(1, 0, -1); (-5, -1, 1)] = (-5, TFG).
Proof. vm_compute. reflexivity. Qed.

(* `** 2` matters: with the value glibc 2.36 returns for pow(-0x1.ff5a5d03b6773p-2, 2.0) (one ulp below the
   correctly rounded product) the proposed step is the one the real class returns; with x * x it is a different
   float *)
Example pow_oracle_matters :
  let q := (0x1.0624dd2f1a9fcp-10, 0x1.999999999999ap-4, 0x1.5798ee2308c3ap-27, 1) in
  let h := [(1, -0x1.c61c01e7e825dp+10, -0x1.b37dfa9afb45fp-3); (1, -0x1.b11a3540d081ap+10, 0x1.5089a9f02101dp+7)] in
  run_dcsrch (sq_table [(-0x1.ff5a5d03b6773p-2, 0x1.feb4ef9d2d6bep-3)]) q h = (0x1.4adaefb2856e9p-10, TFG) /\
  eqb (fst (run_dcsrch sq_mul q h)) 0x1.4adaefb2856e9p-10 = false /\
  sq_mul (-0x1.ff5a5d03b6773p-2) = 0x1.feb4ef9d2d6bfp-3.
Proof. vm_compute. repeat split. Qed.

Check dcs_in_range.
Check run_dcsrch_nan_or_in_range.
Check run_dcsrch_in_range.
Check run_dcsrch_chained_in_range.
Print Assumptions dcs_in_range.
Print Assumptions run_dcsrch_in_range.
Print Assumptions run_dcsrch_chained_in_range.
Print Assumptions run_dcsrch_start_error.
