(* BfgsGeneral.v -- compact = dense for ANY number m of stored pairs
   (Byrd, Nocedal, Schnabel 1994, Theorem 2.3 with B_0 = theta I), for the model of Bfgs.v.

   Part A (Section CompactForm, abstract vector space over Q as in BfgsProofs.v): the compact
     representation is taken RELATIONALLY -- no inverse matrix: if (pY, pS) solves the linear
     system  [[-D, L^T], [L, theta S^T S]] (pY; pS) = (Y^T v; theta S^T v)  then
     theta u.v - (Y^T u; theta S^T u).(pY; pS) = B_m(u, v), where B_m is the dense BFGS form of
     the m pairs.  Induction on m; the step is the Schur-complement argument: the equations of
     the last pair determine pS_m = B_{m-1}(s_m, v) / B_{m-1}(s_m, s_m) and
     pY_m = - y_m.v / s_m.y_m, and the remaining equations are the system of the first m-1
     pairs for the vector v - pS_m s_m.
   Part B: the list-of-lists matrices of Bfgs.compact (hcat / transpose / mask / gram) are
     read entry by entry and shown to be that system; any M passing the check Minv * M = I
     provides a solution (pY; pS) = M W^T v. *)
From Coq Require Import QArith List Bool Arith Lia Lqa.
Import ListNotations.
From LBFGSB Require Import Model.Bfgs Proofs.BfgsProofs.
Open Scope Q_scope.

(* ================================================================ finite sums *)

Fixpoint sumn (m : nat) (f : nat -> Q) : Q :=
  match m with
  | O => 0
  | S k => sumn k f + f k
  end.

Lemma sumn_ext : forall m f g,
  (forall j, (j < m)%nat -> f j == g j) -> sumn m f == sumn m g.
Proof.
  induction m as [| m IH]; intros f g H; simpl.
  - reflexivity.
  - rewrite (IH f g) by (intros; apply H; lia). rewrite (H m) by lia. reflexivity.
Qed.

Lemma sumn_zero : forall m f, (forall j, (j < m)%nat -> f j == 0) -> sumn m f == 0.
Proof.
  induction m as [| m IH]; intros f H; simpl.
  - reflexivity.
  - rewrite IH by (intros; apply H; lia). rewrite (H m) by lia. ring.
Qed.

Lemma sumn_shift : forall m f, sumn (S m) f == f O + sumn m (fun j => f (S j)).
Proof.
  induction m as [| m IH]; intros f.
  - simpl. ring.
  - change (sumn (S (S m)) f) with (sumn (S m) f + f (S m)).
    rewrite IH. simpl. ring.
Qed.

Lemma sumn_add : forall k m f,
  sumn (m + k) f == sumn m f + sumn k (fun j => f (m + j)%nat).
Proof.
  induction k as [| k IH]; intros m f.
  - rewrite Nat.add_0_r. simpl. ring.
  - rewrite Nat.add_succ_r. simpl. rewrite IH. ring.
Qed.

Lemma Qdiv_unique : forall a b c : Q, ~ c == 0 -> a * c == b -> a == b / c.
Proof. intros a b c Hc H. rewrite <- H. field. exact Hc. Qed.

(* ================================================================ Part A *)

Section CompactForm.

  Variable V : Type.
  Variable add : V -> V -> V.
  Variable scal : Q -> V -> V.
  Variable dot : V -> V -> Q.

  Hypothesis dot_sym : forall u v, dot u v == dot v u.
  Hypothesis dot_add_l : forall u v w, dot (add u v) w == dot u w + dot v w.
  Hypothesis dot_scal_l : forall c u w, dot (scal c u) w == c * dot u w.
  Hypothesis dot_nonneg : forall v, 0 <= dot v v.

  Variable theta : Q.
  Variable s y : nat -> V.      (* the pairs, oldest first *)

  (* dense BFGS form of the first m pairs *)
  Fixpoint Bidx (m : nat) : form V :=
    match m with
    | O => fun u v => theta * dot u v
    | S k => step V dot (Bidx k) (s k) (y k)
    end.

  (* row i of [-D, L^T] and of [L, theta S^T S] applied to (pY; pS) *)
  Definition upper_row (m i : nat) (pY pS : nat -> Q) : Q :=
    - dot (s i) (y i) * pY i
    + sumn m (fun j => (if Nat.ltb i j then dot (s j) (y i) else 0) * pS j).
  Definition lower_row (m i : nat) (pY pS : nat -> Q) : Q :=
    sumn m (fun j => (if Nat.ltb j i then dot (s i) (y j) else 0) * pY j)
    + sumn m (fun j => theta * dot (s i) (s j) * pS j).

  (* Minv (pY; pS) = W^T v *)
  Definition Sys (m : nat) (v : V) (pY pS : nat -> Q) : Prop :=
    forall i, (i < m)%nat ->
      upper_row m i pY pS == dot (y i) v /\ lower_row m i pY pS == theta * dot (s i) v.

  (* (W^T u) . (pY; pS) *)
  Definition wp (m : nat) (u : V) (pY pS : nat -> Q) : Q :=
    sumn m (fun a => dot u (y a) * pY a) + sumn m (fun a => theta * dot u (s a) * pS a).

  Let Hdot : bilin_sym V add scal dot := dot_bilin_sym V add scal dot dot_sym dot_add_l dot_scal_l.

  Lemma Bidx_bilin_sym : forall m, bilin_sym V add scal (Bidx m).
  Proof.
    induction m as [| m IH]; simpl.
    - constructor.
      + intros u v. rewrite (dot_sym u v). reflexivity.
      + intros u v w. rewrite dot_add_l. ring.
      + intros c u w. rewrite dot_scal_l. ring.
    - apply step_bilin_sym; assumption.
  Qed.

  Lemma Bidx_spd : forall m, 0 < theta ->
    (forall k, (k < m)%nat -> 0 < dot (s k) (y k)) -> spd V add scal dot (Bidx m).
  Proof.
    induction m as [| m IH]; intros Ht Hc; simpl.
    - apply scaled_dot_spd; assumption.
    - apply step_spd; try assumption.
      + apply IH; [exact Ht | intros; apply Hc; lia].
      + apply Hc. lia.
  Qed.

  Theorem compact_form_eq_dense : forall m,
    (forall k, (k < m)%nat -> ~ dot (s k) (y k) == 0 /\ ~ Bidx k (s k) (s k) == 0) ->
    forall v pY pS, Sys m v pY pS ->
    forall u, theta * dot u v - wp m u pY pS == Bidx m u v.
  Proof.
    induction m as [| m IH]; intros Hnz v pY pS HS u.
    - unfold wp. simpl. ring.
    - destruct (Hnz m (Nat.lt_succ_diag_r m)) as [Hsy HB].
      pose proof (Bidx_bilin_sym m) as Hb.
      set (beta := pS m) in *.
      set (v' := add v (scal (- beta) (s m))).
      (* the first m pairs solve the system for v' *)
      assert (HS' : Sys m v' pY pS).
      { intros i Hi. destruct (HS i (Nat.lt_lt_succ_r _ _ Hi)) as [Hu Hl].
        unfold upper_row, lower_row in *. simpl sumn in Hu, Hl.
        rewrite (proj2 (Nat.ltb_lt i m) Hi) in Hu.
        rewrite (proj2 (Nat.ltb_ge m i)) in Hl by lia.
        unfold v'.
        rewrite !(f_add_r V add scal dot Hdot), !(f_scal_r V add scal dot Hdot).
        fold beta in Hu, Hl.
        rewrite (dot_sym (y i) (s m)).
        split; lra. }
      pose proof (IH (fun k Hk => Hnz k (Nat.lt_lt_succ_r _ _ Hk)) v' pY pS HS') as IHv.
      (* the two equations of the last pair *)
      destruct (HS m (Nat.lt_succ_diag_r m)) as [Hu Hl].
      unfold upper_row in Hu.
      rewrite (sumn_zero (S m)) in Hu.
      2:{ intros j Hj. rewrite (proj2 (Nat.ltb_ge m j)) by lia. ring. }
      unfold lower_row in Hl. simpl sumn in Hl.
      rewrite (Nat.ltb_irrefl m) in Hl. fold beta in Hl.
      rewrite (sumn_ext m (fun j => (if Nat.ltb j m then dot (s m) (y j) else 0) * pY j)
                 (fun j => dot (s m) (y j) * pY j)) in Hl.
      2:{ intros j Hj. rewrite (proj2 (Nat.ltb_lt j m) Hj). reflexivity. }
      (* beta from the induction hypothesis at u = s m *)
      pose proof (IHv (s m)) as IHs. unfold wp in IHs.
      unfold v' in IHs.
      rewrite (f_add_r V add scal dot Hdot), (f_scal_r V add scal dot Hdot) in IHs.
      rewrite (f_add_r V add scal _ Hb), (f_scal_r V add scal _ Hb) in IHs.
      assert (Ebeta : beta == Bidx m (s m) v / Bidx m (s m) (s m)).
      { apply Qdiv_unique; [exact HB | lra]. }
      assert (Ealpha : pY m == - dot (y m) v / dot (s m) (y m)).
      { apply Qdiv_unique; [exact Hsy | lra]. }
      (* the induction hypothesis at u *)
      pose proof (IHv u) as IHu. unfold wp in IHu. unfold v' in IHu.
      rewrite (f_add_r V add scal dot Hdot), (f_scal_r V add scal dot Hdot) in IHu.
      rewrite (f_add_r V add scal _ Hb), (f_scal_r V add scal _ Hb) in IHu.
      unfold wp. simpl sumn. fold beta.
      change (Bidx (S m) u v) with (step V dot (Bidx m) (s m) (y m) u v). unfold step.
      rewrite (f_sym V add scal _ Hb v (s m)), (dot_sym (y m) u).
      rewrite Ealpha. rewrite Ebeta in IHu |- *.
      unfold Qdiv in *. lra.
  Qed.

End CompactForm.

(* ================================================================ Part B: lists *)

(* ---------------------------------------------------------------- nth plumbing *)

Lemma nth_map_lt : forall (A B : Type) (f : A -> B) (l : list A) (i : nat) (dA : A) (dB : B),
  (i < length l)%nat -> nth i (map f l) dB = f (nth i l dA).
Proof.
  induction l as [| a l IH]; intros [| i] dA dB H; simpl in *; try lia; auto.
  apply IH. lia.
Qed.

Lemma mapi_aux_length : forall (A B : Type) (f : nat -> A -> B) (l : list A) (k : nat),
  length (mapi_aux f k l) = length l.
Proof. induction l as [| a l IH]; intros k; simpl; [reflexivity | rewrite IH; reflexivity]. Qed.

Lemma nth_mapi_aux : forall (A B : Type) (f : nat -> A -> B) (l : list A) (k i : nat) (dA : A) (dB : B),
  (i < length l)%nat -> nth i (mapi_aux f k l) dB = f (k + i)%nat (nth i l dA).
Proof.
  induction l as [| a l IH]; intros k [| i] dA dB H; simpl in *; try lia.
  - rewrite Nat.add_0_r. reflexivity.
  - rewrite (IH (S k) i dA dB) by lia. f_equal. lia.
Qed.

Lemma mask_length : forall p A, length (mask p A) = length A.
Proof. intros. unfold mask. apply mapi_aux_length. Qed.

Lemma mask_row : forall p A i, (i < length A)%nat ->
  nth i (mask p A) [] = mapi_aux (fun j x => if p i j then x else 0) O (nth i A []).
Proof.
  intros p A i H. unfold mask.
  exact (nth_mapi_aux vec vec
           (fun i r => mapi_aux (fun j x => if p i j then x else 0) O r) A O i [] [] H).
Qed.

Lemma mask_row_length : forall p A i, (i < length A)%nat ->
  length (nth i (mask p A) []) = length (nth i A []).
Proof. intros. rewrite mask_row by assumption. apply mapi_aux_length. Qed.

Lemma mask_entry : forall p A i j, (i < length A)%nat -> (j < length (nth i A []))%nat ->
  nth j (nth i (mask p A) []) 0 = if p i j then nth j (nth i A []) 0 else 0.
Proof.
  intros p A i j Hi Hj. rewrite mask_row by exact Hi.
  exact (nth_mapi_aux Q Q (fun j x => if p i j then x else 0) (nth i A []) O j 0 0 Hj).
Qed.

Lemma gram_length : forall A B, length (gram A B) = length A.
Proof. intros. unfold gram. apply map_length. Qed.

Lemma gram_row : forall A B i, (i < length A)%nat ->
  nth i (gram A B) [] = map (fun b => dot_raw (nth i A []) b) B.
Proof.
  intros A B i H. unfold gram.
  exact (nth_map_lt vec vec (fun a => map (fun b => dot_raw a b) B) A i [] [] H).
Qed.

Lemma gram_row_length : forall A B i, (i < length A)%nat -> length (nth i (gram A B) []) = length B.
Proof. intros. rewrite gram_row by assumption. apply map_length. Qed.

Lemma gram_entry : forall A B i j, (i < length A)%nat -> (j < length B)%nat ->
  nth j (nth i (gram A B) []) 0 = dot_raw (nth i A []) (nth j B []).
Proof.
  intros A B i j Hi Hj. rewrite gram_row by exact Hi.
  exact (nth_map_lt vec Q (fun b => dot_raw (nth i A []) b) B j [] 0 Hj).
Qed.

Lemma transpose_length : forall k A, length (transpose k A) = k.
Proof. induction k as [| k IH]; intros A; simpl; [reflexivity | rewrite IH; reflexivity]. Qed.

Lemma transpose_row : forall k A i, (i < k)%nat ->
  nth i (transpose k A) [] = map (fun r => nth i r 0) A.
Proof.
  induction k as [| k IH]; intros A [| i] H; simpl; try lia.
  - apply map_ext. intros [| a r]; reflexivity.
  - rewrite IH by lia. rewrite map_map. apply map_ext.
    intros [| a r]; simpl; [destruct i; reflexivity | reflexivity].
Qed.

Lemma hcat_length : forall A B, length (hcat A B) = Nat.min (length A) (length B).
Proof.
  induction A as [| r A IH]; intros [| q B]; simpl; try reflexivity.
  rewrite IH. reflexivity.
Qed.

Lemma hcat_row : forall A B i, (i < length A)%nat -> (i < length B)%nat ->
  nth i (hcat A B) [] = nth i A [] ++ nth i B [].
Proof.
  induction A as [| r A IH]; intros [| q B] [| i] HA HB; simpl in *; try lia; try reflexivity.
  apply IH; lia.
Qed.

Lemma mscale_row : forall c A i, nth i (mscale c A) [] = vscale c (nth i A []).
Proof. intros c A i. unfold mscale. exact (map_nth (vscale c) A [] i). Qed.

Lemma vscale_length : forall c r, length (vscale c r) = length r.
Proof. intros. unfold vscale. apply map_length. Qed.

Lemma vscale_entry : forall c r j, nth j (vscale c r) 0 == c * nth j r 0.
Proof.
  intros c. induction r as [| a r IH]; intros [| j]; simpl; try ring.
  apply IH.
Qed.

(* ---------------------------------------------------------------- dot products as sums *)

Lemma dot_raw_sum : forall a b k, (length a <= k)%nat ->
  dot_raw a b == sumn k (fun j => nth j a 0 * nth j b 0).
Proof.
  induction a as [| x a IH]; intros b k H.
  - simpl. symmetry. apply sumn_zero. intros j _. destruct j; simpl; ring.
  - destruct k as [| k]; [simpl in H; lia |].
    rewrite sumn_shift. destruct b as [| z b].
    + rewrite dot_raw_nil_r. rewrite sumn_zero.
      * simpl. ring.
      * intros j _. simpl. ring.
    + simpl. rewrite (IH b k) by (simpl in H; lia). reflexivity.
Qed.

Lemma dot_raw_app_sum : forall r1 r2 p m k, length r1 = m -> (length r2 <= k)%nat ->
  dot_raw (r1 ++ r2) p ==
    sumn m (fun j => nth j r1 0 * nth j p 0) + sumn k (fun j => nth j r2 0 * nth (m + j) p 0).
Proof.
  intros r1 r2 p m k H1 H2.
  rewrite (dot_raw_sum (r1 ++ r2) p (m + k)) by (rewrite app_length; lia).
  rewrite sumn_add.
  assert (E1 : sumn m (fun j => nth j (r1 ++ r2) 0 * nth j p 0)
               == sumn m (fun j => nth j r1 0 * nth j p 0)).
  { apply sumn_ext. intros j Hj. rewrite app_nth1 by lia. reflexivity. }
  assert (E2 : sumn k (fun j => nth (m + j) (r1 ++ r2) 0 * nth (m + j) p 0)
               == sumn k (fun j => nth j r2 0 * nth (m + j) p 0)).
  { apply sumn_ext. intros j Hj. rewrite app_nth2 by lia.
    replace (m + j - length r1)%nat with j by lia. reflexivity. }
  rewrite E1, E2. reflexivity.
Qed.

Lemma sumn_delta : forall m i (a b : nat -> Q), (i < m)%nat ->
  sumn m (fun j => (if Nat.eqb i j then a j else 0) * b j) == a i * b i.
Proof.
  induction m as [| m IH]; intros i a b H; [lia |].
  simpl. destruct (Nat.eq_dec i m) as [-> | Hne].
  - rewrite Nat.eqb_refl. rewrite sumn_zero.
    + ring.
    + intros j Hj. rewrite (proj2 (Nat.eqb_neq m j)) by lia. ring.
  - rewrite (proj2 (Nat.eqb_neq i m)) by exact Hne. rewrite IH by lia. ring.
Qed.

Lemma dot_raw_lincomb : forall c Ws v,
  dot_raw (lincomb c Ws) v == dot_raw c (map (fun w => dot_raw w v) Ws).
Proof.
  induction c as [| a c IH]; intros [| w Ws] v; simpl; try reflexivity.
  fold (nv (vadd (vscale a w) (lincomb c Ws))).
  rewrite dot_raw_nv, dot_raw_vadd_l, dot_raw_vscale_l, IH. reflexivity.
Qed.

(* u^T (W M W^T) v = (W^T u) . (M (W^T v)) *)
Lemma quad_wmw_aux : forall W M Wall u v,
  quad (wmw_aux W M Wall) u v ==
    dot_raw (map (fun w => dot_raw w u) W)
            (mvmul M (map (fun w => dot_raw w v) Wall)).
Proof.
  induction W as [| w W IH]; intros [| r M] Wall u v; simpl wmw_aux.
  - rewrite quad_nil_B. reflexivity.
  - rewrite quad_nil_B. reflexivity.
  - rewrite quad_nil_B. simpl. reflexivity.
  - rewrite quad_nm, quad_madd, quad_outer, IH, dot_raw_lincomb.
    simpl. rewrite (dot_raw_sym u w). reflexivity.
Qed.

(* ---------------------------------------------------------------- the check Minv * M = I *)

Lemma veq_bool_dot : forall r q, veq_bool r q = true -> forall w, dot_raw r w == dot_raw q w.
Proof.
  induction r as [| a r IH]; intros [| b q] H w; simpl in H; try discriminate.
  - reflexivity.
  - apply andb_true_iff in H. destruct H as [H1 H2]. apply Qeq_bool_iff in H1.
    destruct w as [| c w]; simpl; [reflexivity |].
    rewrite H1, (IH q H2 w). reflexivity.
Qed.

Lemma meq_bool_rows : forall A B, meq_bool A B = true ->
  forall i, veq_bool (nth i A []) (nth i B []) = true.
Proof.
  induction A as [| r A IH]; intros [| q B] H i; simpl in H; try discriminate.
  - destruct i; reflexivity.
  - apply andb_true_iff in H. destruct H as [H1 H2].
    destruct i as [| i]; simpl; [exact H1 | apply IH; exact H2].
Qed.

Lemma sid_row_dot : forall k i w, (i < k)%nat -> dot_raw (nth i (sid k 1) []) w == nth i w 0.
Proof.
  intros k i w Hi.
  pose proof (map_nth (fun r => dot_raw r w) (sid k 1) [] i) as E. simpl in E.
  rewrite <- E. fold (mvmul (sid k 1) w).
  rewrite <- quad_unit_l, quad_sid by (apply short_unit; exact Hi).
  rewrite dot_raw_unit. ring.
Qed.

Lemma right_inverse_solves : forall A M k, meq_bool (nm (mmul A M)) (sid k 1) = true ->
  forall i w, (i < k)%nat -> dot_raw (nth i A []) (mvmul M w) == nth i w 0.
Proof.
  intros A M k H i w Hi.
  pose proof (veq_bool_dot _ _ (meq_bool_rows _ _ H i) w) as E.
  rewrite sid_row_dot in E by exact Hi.
  unfold nm, mmul in E. rewrite map_map in E.
  pose proof (map_nth (fun r => nv (lincomb r M)) A [] i) as E2. simpl in E2.
  rewrite E2 in E. rewrite dot_raw_nv, dot_raw_lincomb in E. exact E.
Qed.

(* ---------------------------------------------------------------- the matrices of compact *)

Section ListCompact.

  Variable theta : Q.
  Variables S Y : list vec.
  Hypothesis HSY : length S = length Y.

  Let m := length S.
  Let sf (i : nat) : vec := nth i S [].
  Let yf (i : nat) : vec := nth i Y [].
  Let D := mask Nat.eqb (gram S Y).
  Let L := mask (fun i j => Nat.ltb j i) (gram S Y).
  Let STS := gram S S.
  Let W := Y ++ map (vscale theta) S.
  Let Minv := hcat (mscale (-1) D) (transpose m L) ++ hcat L (mscale theta STS).

  Let lenY : length Y = m.
  Proof. unfold m. symmetry. exact HSY. Qed.

  Let D_row_len : forall i, (i < m)%nat -> length (nth i D []) = m.
  Proof.
    intros i Hi. unfold D. rewrite mask_row_length by (rewrite gram_length; exact Hi).
    rewrite gram_row_length by exact Hi. exact lenY.
  Qed.

  Let L_row_len : forall i, (i < m)%nat -> length (nth i L []) = m.
  Proof.
    intros i Hi. unfold L. rewrite mask_row_length by (rewrite gram_length; exact Hi).
    rewrite gram_row_length by exact Hi. exact lenY.
  Qed.

  Let L_len : length L = m.
  Proof. unfold L. rewrite mask_length, gram_length. reflexivity. Qed.

  Let D_len : length D = m.
  Proof. unfold D. rewrite mask_length, gram_length. reflexivity. Qed.

  Let D_entry : forall i j, (i < m)%nat -> (j < m)%nat ->
    nth j (nth i D []) 0 = if Nat.eqb i j then dot_raw (sf i) (yf j) else 0.
  Proof.
    intros i j Hi Hj. unfold D.
    rewrite mask_entry.
    - rewrite gram_entry by (try exact Hi; rewrite lenY; exact Hj). reflexivity.
    - rewrite gram_length. exact Hi.
    - rewrite gram_row_length by exact Hi. rewrite lenY. exact Hj.
  Qed.

  Let L_entry : forall i j, (i < m)%nat -> (j < m)%nat ->
    nth j (nth i L []) 0 = if Nat.ltb j i then dot_raw (sf i) (yf j) else 0.
  Proof.
    intros i j Hi Hj. unfold L.
    rewrite mask_entry.
    - rewrite gram_entry by (try exact Hi; rewrite lenY; exact Hj). reflexivity.
    - rewrite gram_length. exact Hi.
    - rewrite gram_row_length by exact Hi. rewrite lenY. exact Hj.
  Qed.

  Let STS_entry : forall i j, (i < m)%nat -> (j < m)%nat ->
    nth j (nth i STS []) 0 = dot_raw (sf i) (sf j).
  Proof. intros i j Hi Hj. unfold STS. apply gram_entry; assumption. Qed.

  Let STS_row_len : forall i, (i < m)%nat -> length (nth i STS []) = m.
  Proof. intros i Hi. unfold STS. apply gram_row_length. exact Hi. Qed.

  Let upper_len : length (hcat (mscale (-1) D) (transpose m L)) = m.
  Proof.
    rewrite hcat_length, transpose_length. unfold mscale. rewrite map_length, D_len.
    apply Nat.min_id.
  Qed.

  (* rows 0..m-1 of Minv: [-D, L^T] *)
  Lemma Minv_upper_row : forall i p, (i < m)%nat ->
    dot_raw (nth i Minv []) p ==
      upper_row vec dot_raw sf yf m i (fun j => nth j p 0) (fun j => nth (m + j) p 0).
  Proof.
    intros i p Hi. unfold Minv.
    rewrite app_nth1 by (rewrite upper_len; exact Hi).
    rewrite hcat_row.
    2:{ unfold mscale. rewrite map_length, D_len. exact Hi. }
    2:{ rewrite transpose_length. exact Hi. }
    rewrite mscale_row, transpose_row by exact Hi.
    rewrite (dot_raw_app_sum _ _ p m m).
    2:{ rewrite vscale_length. apply D_row_len. exact Hi. }
    2:{ rewrite map_length. exact (Nat.eq_le_incl _ _ L_len). }
    unfold upper_row. apply Qplus_comp.
    - rewrite (sumn_ext m _ (fun j => (if Nat.eqb i j then - dot_raw (sf i) (yf j) else 0) * nth j p 0)).
      + rewrite (sumn_delta m i (fun j => - dot_raw (sf i) (yf j)) (fun j => nth j p 0) Hi).
        reflexivity.
      + intros j Hj. rewrite vscale_entry, D_entry by assumption.
        destruct (Nat.eqb i j); ring.
    - apply sumn_ext. intros j Hj.
      rewrite (nth_map_lt (list Q) Q (fun r : list Q => nth i r 0) L j [] 0)
        by (exact (eq_ind_r (fun k => (j < k)%nat) Hj L_len)).
      rewrite L_entry by assumption. reflexivity.
  Qed.

  (* rows m..2m-1 of Minv: [L, theta S^T S] *)
  Lemma Minv_lower_row : forall i p, (i < m)%nat ->
    dot_raw (nth (m + i) Minv []) p ==
      lower_row vec dot_raw theta sf yf m i (fun j => nth j p 0) (fun j => nth (m + j) p 0).
  Proof.
    intros i p Hi. unfold Minv.
    rewrite app_nth2 by (rewrite upper_len; lia).
    rewrite upper_len. replace (m + i - m)%nat with i by lia.
    rewrite hcat_row.
    2:{ rewrite L_len. exact Hi. }
    2:{ unfold mscale, STS. rewrite map_length, gram_length. exact Hi. }
    rewrite mscale_row.
    rewrite (dot_raw_app_sum _ _ p m m).
    2:{ apply L_row_len. exact Hi. }
    2:{ rewrite vscale_length, STS_row_len by exact Hi. apply Nat.le_refl. }
    unfold lower_row. apply Qplus_comp.
    - apply sumn_ext. intros j Hj. rewrite L_entry by assumption. reflexivity.
    - apply sumn_ext. intros j Hj. rewrite vscale_entry, STS_entry by assumption. reflexivity.
  Qed.

  (* W^T x *)
  Definition wt (Wc : list vec) (x : vec) : vec := map (fun w => dot_raw w x) Wc.

  Lemma wt_upper : forall v i, (i < m)%nat -> nth i (wt W v) 0 = dot_raw (yf i) v.
  Proof.
    intros v i Hi. unfold wt.
    rewrite (nth_map_lt vec Q (fun w => dot_raw w v) W i [] 0).
    - unfold W. rewrite app_nth1 by (rewrite lenY; exact Hi). reflexivity.
    - unfold W. rewrite app_length, lenY. lia.
  Qed.

  Lemma wt_lower : forall v i, (i < m)%nat -> nth (m + i) (wt W v) 0 == theta * dot_raw (sf i) v.
  Proof.
    intros v i Hi. unfold wt.
    rewrite (nth_map_lt vec Q (fun w => dot_raw w v) W (m + i) [] 0).
    - unfold W. rewrite app_nth2 by (rewrite lenY; lia).
      rewrite lenY. replace (m + i - m)%nat with i by lia.
      rewrite (nth_map_lt vec vec (vscale theta) S i [] []) by exact Hi.
      apply dot_raw_vscale_l.
    - unfold W. rewrite app_length, map_length, lenY. fold m. lia.
  Qed.

  Lemma wt_dot : forall u p,
    dot_raw (wt W u) p ==
      wp vec dot_raw theta sf yf m u (fun j => nth j p 0) (fun j => nth (m + j) p 0).
  Proof.
    intros u p. unfold wt, W. rewrite map_app.
    rewrite (dot_raw_app_sum _ _ p m m).
    2:{ rewrite map_length. exact lenY. }
    2:{ rewrite !map_length. apply Nat.le_refl. }
    unfold wp. apply Qplus_comp.
    - apply sumn_ext. intros j Hj.
      rewrite (nth_map_lt vec Q (fun w => dot_raw w u) Y j [] 0) by (rewrite lenY; exact Hj).
      rewrite (dot_raw_sym (nth j Y []) u). reflexivity.
    - apply sumn_ext. intros j Hj. rewrite map_map.
      rewrite (nth_map_lt vec Q (fun w => dot_raw (vscale theta w) u) S j [] 0) by exact Hj.
      rewrite dot_raw_vscale_l, (dot_raw_sym (nth j S []) u). reflexivity.
  Qed.

  Hypothesis Htheta : 0 < theta.
  Hypothesis Hcurv : forall k, (k < m)%nat -> 0 < dot_raw (sf k) (yf k).

  (* compact = dense, as forms: for any M passing the check Minv * M = I *)
  Lemma compact_form_lists : forall M,
    meq_bool (nm (mmul Minv M)) (sid (2 * m) 1) = true ->
    forall u v,
      theta * dot_raw u v - dot_raw (wt W u) (mvmul M (wt W v))
      == Bidx vec dot_raw theta sf yf m u v.
  Proof.
    intros M HM u v.
    set (p := mvmul M (wt W v)).
    rewrite wt_dot.
    apply (compact_form_eq_dense vec vadd vscale dot_raw dot_raw_sym dot_raw_vadd_l dot_raw_vscale_l).
    - intros k Hk.
      assert (Hspd : spd vec vadd vscale dot_raw (Bidx vec dot_raw theta sf yf k)).
      { apply Bidx_spd; try assumption.
        - exact dot_raw_sym. - exact dot_raw_vadd_l. - exact dot_raw_vscale_l.
        - exact dot_raw_nonneg. - intros j Hj. apply Hcurv. lia. }
      destruct Hspd as (_ & _ & Hpd).
      pose proof (Hcurv k Hk) as Hc.
      pose proof (curvature_s_nonzero vec vadd vscale dot_raw dot_raw_sym dot_raw_vadd_l
                    dot_raw_vscale_l dot_raw_nonneg _ _ Hc) as Hss.
      pose proof (Hpd _ Hss). split; lra.
    - intros i Hi. split.
      + rewrite <- (Minv_upper_row i p Hi). unfold p.
        rewrite (right_inverse_solves Minv M (2 * m) HM i (wt W v)) by lia.
        rewrite wt_upper by exact Hi. reflexivity.
      + rewrite <- (Minv_lower_row i p Hi). unfold p.
        rewrite (right_inverse_solves Minv M (2 * m) HM (m + i) (wt W v)) by lia.
        apply wt_lower. exact Hi.
  Qed.

End ListCompact.

(* ---------------------------------------------------------------- the executable matrices *)

Lemma Bidx_ext : forall (V : Type) (dot : V -> V -> Q) theta (s y s' y' : nat -> V) m,
  (forall i, (i < m)%nat -> s i = s' i /\ y i = y' i) ->
  Bidx V dot theta s y m = Bidx V dot theta s' y' m.
Proof.
  induction m as [| m IH]; intros H; simpl.
  - reflexivity.
  - rewrite IH by (intros; apply H; lia).
    destruct (H m (Nat.lt_succ_diag_r m)) as [E1 E2]. rewrite E1, E2. reflexivity.
Qed.

Lemma apply_pairs_Bidx : forall theta (ps : list (vec * vec)),
  lapply_pairs (fun u v => theta * dot_raw u v) ps
  = Bidx vec dot_raw theta (fun i => fst (nth i ps ([], []))) (fun i => snd (nth i ps ([], [])))
      (length ps).
Proof.
  intros theta ps. induction ps as [| [s1 y1] ps IH] using rev_ind.
  - reflexivity.
  - unfold lapply_pairs in *. rewrite apply_pairs_snoc, app_length. simpl length.
    rewrite Nat.add_1_r. simpl Bidx. rewrite nth_middle. simpl fst. simpl snd.
    rewrite IH. f_equal. apply Bidx_ext. intros i Hi.
    rewrite app_nth1 by exact Hi. split; reflexivity.
Qed.

(* compact = dense for the matrices built from column lists S, Y of equal length *)
Theorem compact_eq_dense_lists : forall n theta S Y M,
  length S = length Y ->
  0 < theta ->
  (forall k, (k < length S)%nat -> 0 < dot_raw (nth k S []) (nth k Y [])) ->
  Forall (short n) S ->
  let D := mask Nat.eqb (gram S Y) in
  let L := mask (fun i j => Nat.ltb j i) (gram S Y) in
  let Minv := hcat (mscale (-1) D) (transpose (length S) L) ++ hcat L (mscale theta (gram S S)) in
  meq_bool (nm (mmul Minv M)) (sid (2 * length S) 1) = true ->
  forall u v, short n u -> short n v ->
    quad (compact_B n theta (Y ++ map (vscale theta) S) M) u v
    == quad (dense_bfgs n theta (combine S Y)) u v.
Proof.
  intros n theta S Y M HSY Ht Hc HS D L Minv HM u v Hu Hv.
  unfold compact_B, wmw.
  rewrite quad_nm, quad_madd, quad_mscale, (quad_sid n theta u v Hu), quad_wmw_aux.
  rewrite dense_bfgs_form; try assumption.
  2:{ clear - HS. revert Y. induction S as [| s S IH]; intros [| y Y]; simpl; try constructor.
      - inversion HS; assumption.
      - apply IH. inversion HS; assumption. }
  unfold ldense_form, dense_form.
  change (apply_pairs vec dot_raw (fun u0 v0 : vec => theta * dot_raw u0 v0) (combine S Y))
    with (lapply_pairs (fun u0 v0 : vec => theta * dot_raw u0 v0) (combine S Y)).
  rewrite apply_pairs_Bidx.
  rewrite (Bidx_ext vec dot_raw theta _ _ (fun i => nth i S []) (fun i => nth i Y []) (length (combine S Y))).
  2:{ intros i _. cbv beta. pose proof (combine_nth S Y i [] [] HSY) as E.
      split; [exact (f_equal fst E) | exact (f_equal snd E)]. }
  rewrite combine_length, <- HSY, Nat.min_id.
  rewrite <- (compact_form_lists theta S Y HSY Ht Hc M HM u v).
  unfold wt.
  match goal with |- ?t + -1 * ?a == ?t - ?b => change b with a end.
  ring.
Qed.

Lemma compact_fields : forall X G, diffs X <> [] ->
  let theta := c_theta (compact X G) in
  let S := diffs X in
  let Y := diffs G in
  let D := mask Nat.eqb (gram S Y) in
  let L := mask (fun i j => Nat.ltb j i) (gram S Y) in
  c_W (compact X G) = Y ++ map (vscale theta) S /\
  c_Minv (compact X G)
  = hcat (mscale (-1) D) (transpose (length S) L) ++ hcat L (mscale theta (gram S S)).
Proof.
  intros X G H. unfold compact. destruct (diffs X) eqn:E; [contradiction |].
  simpl. split; reflexivity.
Qed.

(* THE GENERAL THEOREM (any number of stored pairs): for a memory (X', G') with at least one
   pair, points of dimension <= n, every stored pair with s.y > 0, and ANY matrix M that passes
   the check Minv * M = I of Bfgs.lbfgs_matrix, the compact matrix theta I - W M W^T and the
   dense BFGS matrix of the stored pairs are the same bilinear form on vectors of length <= n. *)
Theorem compact_eq_dense : forall n X G x0 x1 g0 g1 M,
  length X = length G ->
  let X' := X ++ [x0; x1] in
  let G' := G ++ [g0; g1] in
  Forall (short n) X' ->
  Forall curv (pairs X' G') ->
  let C := compact X' G' in
  meq_bool (nm (mmul (c_Minv C) M)) (sid (2 * length (pairs X' G')) 1) = true ->
  forall u v, short n u -> short n v ->
    quad (compact_B n (c_theta C) (c_W C) M) u v
    == quad (dense_bfgs n (c_theta C) (pairs X' G')) u v.
Proof.
  intros n X G x0 x1 g0 g1 M Hl X' G' HX Hc C HM u v Hu Hv.
  destruct (memory_matrix_spd_secant n X G x0 x1 g0 g1 Hl HX Hc) as (Ht & _).
  fold X' G' in Ht. fold C in Ht.
  assert (Hlen : length (diffs X') = length (diffs G')).
  { rewrite !diffs_length. unfold X', G'. rewrite !app_length, Hl. reflexivity. }
  assert (Hne : diffs X' <> []).
  { intro E. apply (f_equal (@length vec)) in E. rewrite diffs_length in E.
    unfold X' in E. rewrite app_length in E. simpl in E. lia. }
  destruct (compact_fields X' G' Hne) as [EW EM]. fold C in EW, EM.
  assert (Hplen : length (pairs X' G') = length (diffs X')).
  { unfold pairs. rewrite combine_length, <- Hlen. apply Nat.min_id. }
  rewrite EW. unfold pairs.
  apply compact_eq_dense_lists; try assumption.
  - intros k Hk.
    assert (Hin : In (nth k (pairs X' G') ([], [])) (pairs X' G')).
    { apply nth_In. rewrite Hplen. exact Hk. }
    pose proof (proj1 (Forall_forall curv (pairs X' G')) Hc _ Hin) as Hk'.
    pose proof (combine_nth (diffs X') (diffs G') k [] [] Hlen) as E.
    exact (eq_ind _ curv Hk' _ E).
  - apply diffs_short. exact HX.
  - rewrite Hplen, EM in HM. exact HM.
Qed.

(* consequence for the executable [lbfgs_matrix]: whenever it returns a matrix, that matrix
   represents the dense BFGS form *)
Theorem lbfgs_matrix_eq_dense : forall n X G x0 x1 g0 g1 B,
  length X = length G ->
  let X' := X ++ [x0; x1] in
  let G' := G ++ [g0; g1] in
  Forall (short n) X' ->
  Forall curv (pairs X' G') ->
  lbfgs_matrix n X' G' = Some B ->
  forall u v, short n u -> short n v ->
    quad B u v == quad (dense_bfgs n (c_theta (compact X' G')) (pairs X' G')) u v.
Proof.
  intros n X G x0 x1 g0 g1 B Hl X' G' HX Hc HB u v Hu Hv.
  unfold lbfgs_matrix in HB.
  destruct (qinv (c_Minv (compact X' G'))) as [M |] eqn:EM; [| discriminate].
  destruct (meq_bool (nm (mmul (c_Minv (compact X' G')) M))
              (sid (length (c_Minv (compact X' G'))) 1)) eqn:Echeck; [| discriminate].
  injection HB as <-.
  apply (compact_eq_dense n X G x0 x1 g0 g1 M Hl HX Hc); try assumption.
  fold X' G'.
  replace (2 * length (pairs X' G'))%nat with (length (c_Minv (compact X' G'))); [exact Echeck |].
  assert (Hne : diffs X' <> []).
  { intro E. apply (f_equal (@length vec)) in E. rewrite diffs_length in E.
    unfold X' in E. rewrite app_length in E. simpl in E. lia. }
  destruct (compact_fields X' G' Hne) as [_ EMinv]. rewrite EMinv.
  assert (Hlen : length (diffs X') = length (diffs G')).
  { rewrite !diffs_length. unfold X', G'. rewrite !app_length, Hl. reflexivity. }
  rewrite app_length, !hcat_length, transpose_length.
  unfold mscale, pairs. rewrite !map_length, !mask_length, !gram_length, combine_length, <- Hlen.
  rewrite !Nat.min_id. lia.
Qed.

(* no stored pair (initial matrices, theta = 1): both sides are theta I *)
Theorem compact_eq_dense_m0 : forall n theta M u v,
  quad (compact_B n theta [] M) u v == quad (dense_bfgs n theta []) u v.
Proof.
  intros. unfold compact_B, wmw, dense_bfgs, dense_from. simpl wmw_aux. simpl fold_left.
  rewrite quad_nm, quad_madd, quad_mscale, quad_nil_B. ring.
Qed.

(* non-vacuity: the hypotheses hold on the three-pair memory of BfgsProofs.exX / exG and
   lbfgs_matrix does return a matrix there *)
Example ex_general :
  match lbfgs_matrix 3 exX exG with Some _ => true | None => false end = true /\
  forallb (fun p => Qlt_bool 0 (dot_raw (fst p) (snd p))) (pairs exX exG) = true /\
  forallb (fun x => Nat.leb (length x) 3) exX = true.
Proof. vm_compute. repeat split; reflexivity. Qed.
