(* extract_hess_inv_diag (Generated/Memory.v, regenerated from utils.py): it returns the diagonal of the dense matrix of
   the operator, for every linear operator and every dimension. *)
From Coq Require Import List QArith Lia.
From LBFGSB Require Import Model.Bfgs Generated.Memory.
Import ListNotations.
Open Scope Q_scope.

Lemma nth_map_seq {A} (f : nat -> A) n i d : (i < n)%nat -> nth i (map f (seq 0 n)) d = f i.
Proof.
  intros H. rewrite (nth_indep _ d (f 0%nat)) by (rewrite map_length, seq_length; exact H).
  rewrite map_nth. rewrite seq_nth by exact H. reflexivity.
Qed.

Lemma dot_unit_aux (row : list Q) k i n : (i < n)%nat -> length row = n ->
  dot_raw row (map (fun j => if Nat.eqb j (k + i) then 1 else 0) (seq k n)) == nth i row 0.
Proof.
  revert k i n. induction row as [|a row IH]; intros k i n Hi L; cbn in L; subst n; [lia|].
  cbn [seq map dot_raw]. destruct i as [|i].
  - rewrite Nat.add_0_r, Nat.eqb_refl. cbn [nth].
    assert (Z0 : forall r m, (forall j, In j (seq (S k) m) -> Nat.eqb j k = false) ->
             dot_raw r (map (fun j => if Nat.eqb j k then 1 else 0) (seq (S k) m)) == 0).
    { clear. intros r. generalize (S k) as st. induction r as [|b r IHr]; intros st m H; [reflexivity|]. destruct m; [reflexivity|].
      cbn [seq map dot_raw]. rewrite (H st (or_introl eq_refl)). rewrite IHr; [ring|]. intros j Hj. apply H. right. exact Hj. }
    rewrite Z0; [ring|]. intros j Hj. apply in_seq in Hj. apply Nat.eqb_neq. lia.
  - assert (E : Nat.eqb k (k + S i) = false) by (apply Nat.eqb_neq; lia). rewrite E. cbn [nth].
    replace (k + S i)%nat with (S k + i)%nat by lia. rewrite (IH (S k) i (length row)); [ring|lia|reflexivity].
Qed.

Lemma dot_unit (row : list Q) i n : (i < n)%nat -> length row = n -> dot_raw row (unit_vec n i) == nth i row 0.
Proof. intros. unfold unit_vec. exact (dot_unit_aux row 0 i n H H0). Qed.

(* for the operator v |-> H v of ANY square matrix H: entry i of the result is H[i][i] *)
Theorem diag_spec (H : list (list Q)) : let n := length H in Forall (fun row => length row = n) H ->
  length (extract_hess_inv_diag n (mvmul H)) = n /\
  forall i, (i < n)%nat -> nth i (extract_hess_inv_diag n (mvmul H)) 0 == nth i (nth i H []) 0.
Proof.
  intros n F. unfold extract_hess_inv_diag. split; [rewrite map_length, seq_length; reflexivity|].
  intros i Hi. rewrite nth_map_seq by exact Hi. unfold mvmul.
  rewrite (nth_indep _ 0 (dot_raw [] (unit_vec n i))) by (rewrite map_length; exact Hi).
  rewrite (map_nth (fun r => dot_raw r (unit_vec n i)) H [] i).
  apply dot_unit; [exact Hi|]. rewrite Forall_forall in F. apply F. apply nth_In. exact Hi.
Qed.
