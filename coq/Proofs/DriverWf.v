(* C20 on the driver model: the first raising user call ends the run with that very exception, nothing is
   called after it, and no raising call is ever turned into a result.  Structural proof over the monad. *)
From Coq Require Import List ZArith Bool String Floats.PrimFloat.
From LBFGSB Require Import Base.Res Model.SF Model.FloatVec Model.Driver Generated.StopTests.
Import ListNotations.
Open Scope Z_scope.

Definition status {A} (r : res A) : option exn := match r with Raise e => Some e | _ => None end.

(* the exception recorded in an event (None = the call returned normally) *)
Definition ev_status (e : ev) : option exn :=
  match e with
  | EvF _ r => status r | EvG _ r => status r | EvFt r => status r | EvGt r => status r
  | EvScaler _ _ _ _ r => status r | EvUpd _ _ _ _ _ _ r => status r | EvCb _ r => status r
  end.
Definition sf_ev_status (e : SF.ev vec float vec) : option exn :=
  match e with SF.EvF _ _ _ _ r => status r | SF.EvG _ _ _ _ r => status r end.

Section Wf.
  Context {E : Type} (st : E -> option exn).
  Variable internal : exn -> Prop.      (* exceptions the package itself raises (argument validation) *)
  Definition all_ok (t : list E) : Prop := Forall (fun e => st e = None) t.
  (* well-formed computation: events are successful calls, except that a raising call is the last event
     and its exception is the outcome; the only other exceptions are the package's own, raised when no
     user call has failed *)
  Definition wf {A} (m : M E A) : Prop :=
    match m with
    | (Ok _, t) => all_ok t
    | (OutOfFuel, t) => all_ok t
    | (Raise e, t) => (exists t0 ev, t = t0 ++ [ev] /\ all_ok t0 /\ st ev = Some e) \/ (all_ok t /\ internal e)
    end.

  Lemma all_ok_app a b : all_ok a -> all_ok b -> all_ok (a ++ b).
  Proof. unfold all_ok. intros. apply Forall_app. auto. Qed.

  Lemma wf_ret {A} (a : A) : wf (ret a).
  Proof. cbn. constructor. Qed.

  Lemma wf_raise {A} e : internal e -> wf (A := A) (raise e).
  Proof. intros H. cbn. right. split; [constructor|exact H]. Qed.

  Lemma wf_call {A} (r : res A) (ev : E) : st ev = status r -> r <> OutOfFuel -> wf (call r ev).
  Proof.
    intros H Hn. unfold call, wf. destruct r as [a|e|]; cbn in H.
    - constructor; [exact H|constructor].
    - left. exists [], ev. repeat split; [constructor|exact H].
    - congruence.
  Qed.

  Lemma wf_bind {A B} (m : M E A) (f : A -> M E B) : wf m -> (forall a, wf (f a)) -> wf (bind m f).
  Proof.
    intros Hm Hf. unfold bind. destruct m as [[a|e|] t]; cbn in Hm.
    - specialize (Hf a). destruct (f a) as [[b|e|] t2]; cbn in *.
      + apply all_ok_app; auto.
      + destruct Hf as [(t0 & ev & -> & H1 & H2)|[H1 H2]].
        * left. exists (t ++ t0), ev. rewrite app_assoc. repeat split; auto. apply all_ok_app; auto.
        * right. split; auto. apply all_ok_app; auto.
      + apply all_ok_app; auto.
    - exact Hm.
    - exact Hm.
  Qed.

  Lemma wf_fuel {A} : wf (A := A) (OutOfFuel, []).
  Proof. cbn. constructor. Qed.

  (* the user-facing reading: a failing call is the last thing that happened and its exception is the outcome *)
  Lemma wf_failing_call_is_last {A} (m : M E A) : wf m ->
    forall t0 ev t1 e, snd m = t0 ++ ev :: t1 -> st ev = Some e -> t1 = [] /\ fst m = Raise e.
  Proof.
    intros W t0 ev t1 e Ht He.
    assert (Hno : forall t, all_ok t -> t = t0 ++ ev :: t1 -> False).
    { intros t Ha ->. unfold all_ok in Ha. rewrite Forall_forall in Ha.
      assert (Hin : In ev (t0 ++ ev :: t1)) by (apply in_or_app; right; left; reflexivity).
      specialize (Ha ev Hin). congruence. }
    destruct m as [[a|e'|] t]; cbn in *.
    - exfalso; eauto.
    - destruct W as [(u0 & ev' & -> & H1 & H2)|[H1 _]]; [|exfalso; eauto].
      destruct t1 as [|y t1'].
      + apply app_inj_tail in Ht as [-> ->]. split; auto. congruence.
      + exfalso. assert (Hin : In ev u0).
        { assert (H3 : u0 ++ [ev'] = (t0 ++ ev :: removelast (y :: t1')) ++ [last (y :: t1') y]).
          { rewrite Ht. rewrite <- app_assoc. cbn [app]. f_equal. f_equal. apply app_removelast_last. discriminate. }
          apply app_inj_tail in H3 as [-> _]. apply in_or_app. right. left. reflexivity. }
        unfold all_ok in H1. rewrite Forall_forall in H1. specialize (H1 _ Hin). congruence.
    - exfalso; eauto.
  Qed.
End Wf.

Lemma wf_lift internal {A} (m : M (SF.ev vec float vec) A) : wf sf_ev_status internal m -> wf ev_status internal (lift sfev m).
Proof.
  assert (Hs : forall e, ev_status (sfev e) = sf_ev_status e) by (intros [p r|p r]; reflexivity).
  assert (Ha : forall t, all_ok sf_ev_status t -> all_ok ev_status (map sfev t)).
  { unfold all_ok. intros t H. induction H; cbn; constructor; auto. now rewrite Hs. }
  unfold lift. destruct m as [[a|e|] t]; cbn; intros H; auto.
  destruct H as [(t0 & ev & -> & H1 & H2)|[H1 H2]].
  - left. exists (map sfev t0), (sfev ev). rewrite map_app. cbn. repeat split; auto. now rewrite Hs.
  - right. split; auto.
Qed.

Section DriverWf.
  Variable U : user.
  Variable K : kern.
  Variable c : cfg.
  (* user callables answer with a value or an exception (OutOfFuel is the model's own error value) *)
  Hypothesis uf_total : forall x, uf U x <> OutOfFuel.
  Hypothesis ug_total : forall x, ug U x <> OutOfFuel.
  (* the differencing routine (SciPy) returns an estimate: its own failures are not user-callable failures *)
  Hypothesis fd_ok : forall x v vs, exists g, fd_est U x v vs = Ok g.
  Hypothesis cb_total : forall cb s, u_cb U = Some cb -> cb s <> OutOfFuel.
  Hypothesis upd_total : forall u x a b g X G, u_upd U = Some u -> u x a b g X G <> OutOfFuel.
  Hypothesis sc_total : forall sc x g l u, u_scaler U = Some sc -> sc x g l u <> OutOfFuel.
  Hypothesis ft_total : u_ftarget U <> OutOfFuel.
  Hypothesis gt_total : u_gtol U <> OutOfFuel.

  Definition internal (e : exn) : Prop := e = ck_mismatch \/ bounds_error c = Some e.
  Notation W := (wf sf_ev_status internal).
  Notation sfst := (SF.st vec float vec float).

  Lemma wf_update_fun (t : sfst) : W (SF.update_fun vec float vec float (uf U) t).
  Proof.
    unfold SF.update_fun. destruct (SF.sf _ _ _ _ t); [apply wf_ret|].
    apply wf_bind; [|intros; apply wf_ret]. unfold SF.call_f. apply wf_call; [reflexivity|apply uf_total].
  Qed.

  Lemma wf_eval_stencil ps : W (SF.eval_stencil vec float vec (uf U) ps).
  Proof.
    induction ps as [|p r IH]; cbn [SF.eval_stencil]; [apply wf_ret|].
    apply wf_bind; [unfold SF.call_f; apply wf_call; [reflexivity|apply uf_total]|].
    intros v. apply wf_bind; [exact IH|intros; apply wf_ret].
  Qed.

  Lemma wf_update_grad (t : sfst) :
    W (SF.update_grad vec float vec float (uf U) (ug U) (fd_stencil U) (fd_est U) (fdmode U) t).
  Proof.
    unfold SF.update_grad. destruct (SF.sg _ _ _ _ t); [apply wf_ret|].
    destruct (fdmode U).
    - apply wf_bind; [apply wf_update_fun|]. intros [v t1].
      apply wf_bind; [apply wf_eval_stencil|]. intros vs.
      destruct (fd_ok (SF.sx _ _ _ _ t1) v vs) as [g ->]. apply wf_ret.
    - apply wf_bind; [unfold SF.call_g; apply wf_call; [reflexivity|apply ug_total]|intros; apply wf_ret].
  Qed.

  Lemma wf_sf_fun p t : wf ev_status internal (sf_fun U p t).
  Proof.
    unfold sf_fun. apply wf_lift. unfold SF.sf_fun. apply wf_bind; [apply wf_update_fun|]. intros [v t1]. apply wf_ret.
  Qed.
  Lemma wf_sf_grad p t : wf ev_status internal (sf_grad U p t).
  Proof.
    unfold sf_grad. apply wf_lift. unfold SF.sf_grad. apply wf_bind; [apply wf_update_grad|]. intros [v t1]. apply wf_ret.
  Qed.
  Lemma wf_sf_fun_and_grad p t : wf ev_status internal (sf_fun_and_grad U p t).
  Proof.
    unfold sf_fun_and_grad. apply wf_lift. unfold SF.sf_fun_and_grad.
    apply wf_bind; [apply wf_update_fun|]. intros [v t1].
    apply wf_bind; [apply wf_update_grad|]. intros [g t2]. apply wf_ret.
  Qed.

  Notation WD := (wf ev_status internal).

  Lemma wf_ls_loop n xk d par s : WD (ls_loop U K c n xk d par s).
  Proof.
    revert s. induction n as [|k IH]; intros s; cbn [ls_loop]; [apply wf_ret|].
    destruct (dcs K par _) as [stp tk]. destruct tk; try apply wf_ret.
    apply wf_bind; [apply wf_sf_fun_and_grad|]. intros [[f g] t1]. apply IH.
  Qed.

  Lemma wf_line_search xk f0 g0 d nit cap t : WD (line_search U K c xk f0 g0 d nit cap t).
  Proof.
    unfold line_search. apply wf_bind; [apply wf_ls_loop|]. intros s.
    destruct (negb _ || _); [apply wf_ret|]. destruct (l_task s); apply wf_ret.
  Qed.

  Lemma wf_accept_step ft s a d t1 : WD (accept_step U K c ft s a d t1).
  Proof.
    unfold accept_step. apply wf_bind; [apply wf_sf_fun_and_grad|]. intros [[f0 g] t2].
    apply wf_bind.
    - destruct (u_upd U) as [u|] eqn:Eu; [|apply wf_ret].
      apply wf_bind; [apply wf_call; [reflexivity|eapply upd_total; eauto]|]. intros [[[a1 a2] a3] a4]. apply wf_ret.
    - intros [[[[f1 fo] g1] G1] filt].
      destruct (if filt then _ else _) as [X1 G2].
      destruct (is_f0_target_reached _ _); [apply wf_ret|].
      destruct (is_f0_min_change_reached _ _ _); [apply wf_ret|].
      destruct (update_mem_f K c _ _ _ _ _ _) as [[X2 G3] m2].
      destruct (u_cb U) as [cb|] eqn:Ec; [|apply wf_ret].
      apply wf_bind; [apply wf_call; [reflexivity|eapply cb_total; eauto]|]. intros b. destruct b; apply wf_ret.
  Qed.

  Lemma wf_body ft s : WD (body U K c ft s).
  Proof.
    unfold body. apply wf_bind; [apply wf_line_search|]. intros [stp t1].
    destruct stp as [a|]; [apply wf_accept_step|apply wf_ret].
  Qed.

  Lemma wf_loop fuel ft gt s : WD (loop U K c fuel ft gt s).
  Proof.
    revert s. induction fuel as [|k IH]; intros s; cbn [loop]; destruct (guard c gt s); try apply wf_ret; try apply wf_fuel.
    apply wf_bind; [apply wf_body|]. intros [cont s1]. destruct cont; [apply IH|apply wf_ret].
  Qed.

  Theorem wf_run : WD (run U K c).
  Proof.
    unfold run. destruct (bounds_error c) as [e|] eqn:Eb; [apply wf_raise; right; exact Eb|].
    destruct (ck_ok c _); [|apply wf_raise; left; reflexivity].
    unfold run_checked. destruct (match checkpoint c with None => _ | Some ck => restore c ck end) as [X G].
    apply wf_bind. { destruct (checkpoint c); [apply wf_ret|apply wf_sf_fun]. }
    intros [f0 t1].
    apply wf_bind.
    { destruct (ftarget c) as [[v|]|]; try apply wf_ret.
      apply wf_bind; [apply wf_call; [reflexivity|apply ft_total]|intros; apply wf_ret]. }
    intros ft.
    apply wf_bind. { destruct (gtol c); [apply wf_ret|apply wf_call; [reflexivity|apply gt_total]]. }
    intros gt.
    destruct (is_f0_target_reached _ _). { destruct (checkpoint c); apply wf_ret. }
    apply wf_bind. { destruct (checkpoint c); [apply wf_ret|apply wf_sf_grad]. }
    intros [g t2].
    apply wf_bind.
    { destruct (u_scaler U) as [sc|] eqn:Es; [|apply wf_ret].
      apply wf_bind; [apply wf_call; [reflexivity|eapply sc_total; eauto]|intros; apply wf_ret]. }
    intros t3.
    apply wf_bind.
    { destruct (u_upd U) as [u|] eqn:Eu; [|apply wf_ret].
      apply wf_bind; [apply wf_call; [reflexivity|eapply upd_total; eauto]|]. intros [[[a1 a2] a3] a4]. apply wf_ret. }
    intros [[f1 g1] G1].
    destruct (match u_upd U with Some _ => _ | None => _ end) as [X' G'].
    destruct (match X' with [] => _ | _ => _ end) as [[X1 G2] m1].
    apply wf_bind; [apply wf_loop|]. intros s. apply wf_ret.
  Qed.
End DriverWf.
