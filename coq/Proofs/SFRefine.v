(* scalar_function.ScalarFunction, translated method by method from the source (Generated/SFSrc.v: functions on the record of
   the object's attributes), REFINES the memo cell of Model/SF.v on which the wrapper theorems (C15, C05) and the driver model
   are built: through the abstraction `abs` (a stored value counts only while its validity flag is set), every method returns
   the model's answer, produces the model's trace of user calls, raises when the model raises, and moves to the abstraction of
   the model's next state - for every state satisfying `inv` (a set flag has its value), which __init__ establishes and every
   method preserves.  Hence every finite sequence of requests agrees (run_refines). *)
From Coq Require Import List ZArith Bool String Lia.
From LBFGSB Require Import Base.Res Model.SF Model.SFPy.
From LBFGSB Require Generated.SFSrc.
Import ListNotations.
Open Scope Z_scope.

Section Refine.
  Variables (P F G S : Type).
  Variable peqb : P -> P -> bool.
  Variable fmul : F -> S -> F.
  Variable gmul : G -> S -> G.
  Variable uf : P -> res F.
  Variable ug : P -> res G.
  Variable stencil : P -> list P.
  Variable fdest : P -> F -> list F -> res G.
  Variable fdmode : bool.
  Notation pst := (SFPy.pst P F G S).
  Notation ev := (SF.ev P F G).
  Notation st := (SF.st P F G S).

  Definition mapr {A B} (f : A -> B) (m : M ev A) : M ev B :=
    (match fst m with Ok a => Ok (f a) | Raise e => Raise e | OutOfFuel => OutOfFuel end, snd m).

  Notation fun_wrapped := (SFSrc.fun_wrapped P F G S uf).
  Notation u_fun := (SFSrc._update_fun P F G S uf).
  Notation u_grad := (SFSrc._update_grad P F G S uf ug stencil fdest fdmode).
  Notation m_fun := (SFSrc.m_fun P F G S peqb fmul uf).
  Notation m_grad := (SFSrc.m_grad P F G S peqb gmul uf ug stencil fdest fdmode).
  Notation m_both := (SFSrc.m_fun_and_grad P F G S peqb fmul gmul uf ug stencil fdest fdmode).
  Notation s_update_fun := (SF.update_fun P F G S uf).
  Notation s_update_grad := (SF.update_grad P F G S uf ug stencil fdest fdmode).

  (* what a successful step leaves: the flag set, the value stored *)
  Definition post_f (t' : pst) : Prop := f_updated t' = true /\ pf t' <> None.

  (* _update_fun *)
  Lemma update_fun_ref (t : pst) : inv t ->
    mapr (fun t' => (pf t', SFPy.abs t')) (u_fun t) = mapr (fun '(v, s) => (Some v, s)) (s_update_fun (SFPy.abs t))
    /\ (forall t' tr, u_fun t = (Ok t', tr) -> inv t' /\ f_updated t' = true /\ g_updated t' = g_updated t /\ pg t' = pg t /\ px t' = px t /\ pscale t' = pscale t /\ pngev t' = pngev t).
  Proof.
    intros [If Ig]. destruct t as [x f g fu gu nf ng sc]. cbn in If, Ig.
    unfold SFSrc._update_fun, SFSrc.update_fun, SFSrc.fun_wrapped, SF.update_fun, SF.call_f, SFPy.abs, mapr. cbn.
    destruct fu; cbn.
    - destruct f as [v|]; [|exfalso; apply If; reflexivity]. split; [reflexivity|]. intros t' tr H. inversion H; subst. cbn. repeat split; auto; discriminate.
    - destruct (uf x) as [v|e|]; cbn; (split; [reflexivity|]); intros t' tr H; inversion H; subst; cbn. repeat split; auto; discriminate.
  Qed.

  (* the stencil evaluations of approx_derivative through fun_wrapped: the model's eval_stencil, one count per point *)
  Lemma map_stencil_ref (ps : list P) (t : pst) :
    mapr (fun '(vs, t') => (vs, t')) (map_stencil fun_wrapped ps t)
    = mapr (fun vs => (vs, set_nfev (pnfev t + Z.of_nat (List.length vs)) t)) (SF.eval_stencil P F G uf ps).
  Proof.
    revert t. induction ps as [|p ps IH]; intros t.
    - cbn. unfold mapr. cbn. destruct t; cbn. rewrite Z.add_0_r. reflexivity.
    - cbn [map_stencil SF.eval_stencil]. unfold SFSrc.fun_wrapped at 1. unfold SF.call_f. cbn.
      destruct (uf p) as [v|e|]; cbn; [|reflexivity|reflexivity].
      specialize (IH (set_nfev (pnfev t + 1) t)). unfold mapr in IH |- *.
      destruct (map_stencil fun_wrapped ps (set_nfev (pnfev t + 1) t)) as [[[vs t2]|e|] tr2];
        destruct (SF.eval_stencil P F G uf ps) as [[vs'|e'|] tr2']; cbn in IH |- *; inversion IH; subst; cbn; try reflexivity.
      f_equal. f_equal. f_equal. destruct t; unfold set_nfev; cbn. f_equal. lia.
  Qed.

  Lemma mapr_pair_id {A B} (m : M ev (A * B)) : mapr (fun '(a, b) => (a, b)) m = m.
  Proof. destruct m as [[[a b]|e|] tr]; reflexivity. Qed.
  Lemma mapr_bind {A B C} (f : B -> C) (m : M ev A) (k : A -> M ev B) : mapr f (bind m k) = bind m (fun a => mapr f (k a)).
  Proof. destruct m as [[a|e|] tr]; try reflexivity. unfold mapr, bind. destruct (k a) as [[b|e|] tr2]; reflexivity. Qed.
  Lemma bind_mapr {A B C} (f : A -> B) (m : M ev A) (k : B -> M ev C) : bind (mapr f m) k = bind m (fun a => k (f a)).
  Proof. destruct m as [[a|e|] tr]; reflexivity. Qed.
  Lemma bind_ext_ {A B} (m : M ev A) (k k' : A -> M ev B) : (forall a, k a = k' a) -> bind m k = bind m k'.
  Proof. intros H. destruct m as [[a|e|] tr]; try reflexivity. unfold bind. rewrite H. reflexivity. Qed.

  Lemma map_stencil_eq (ps : list P) (t : pst) :
    map_stencil fun_wrapped ps t = mapr (fun vs => (vs, set_nfev (pnfev t + Z.of_nat (List.length vs)) t)) (SF.eval_stencil P F G uf ps).
  Proof. rewrite <- map_stencil_ref. symmetry. apply mapr_pair_id. Qed.

  (* _update_grad *)
  Lemma update_grad_ref (t : pst) : inv t ->
    mapr (fun t' => (pg t', SFPy.abs t')) (u_grad t) = mapr (fun '(g, s) => (Some g, s)) (s_update_grad (SFPy.abs t))
    /\ (forall t' tr, u_grad t = (Ok t', tr) ->
          inv t' /\ g_updated t' = true /\ px t' = px t /\ pscale t' = pscale t /\ (f_updated t = true -> f_updated t' = true /\ pf t' = pf t)).
  Proof.
    intros [If Ig]. destruct t as [x f g fu gu nf ng sc]. cbn in If, Ig.
    destruct gu.
    { destruct g as [g|]; [|exfalso; apply Ig; reflexivity].
      unfold SFSrc._update_grad, SF.update_grad, SFPy.abs, mapr. cbn. split; [reflexivity|]. intros t' tr H. inversion H; subst. cbn.
      split; [split; cbn; auto; discriminate|]. auto. }
    destruct fdmode eqn:Efd.
    2:{ unfold SFSrc._update_grad, SFSrc.update_grad_callable, SFSrc.grad_wrapped, SF.update_grad, SF.call_g, SFPy.abs, mapr. cbn.
        destruct (ug x) as [gv|e|]; cbn; (split; [unfold mapr; cbn; rewrite ?app_nil_r; reflexivity|]); intros t' tr H; inversion H; subst; cbn.
        split; [split; cbn; auto; discriminate|]. auto. }
    (* finite differences *)
    unfold SFSrc._update_grad, SFSrc.update_grad_fd, SF.update_grad. cbn [negb g_updated SF.sg SFPy.abs].
    destruct fu.
    - destruct f as [v|]; [|exfalso; apply If; reflexivity].
      unfold SFSrc._update_fun, SF.update_fun, SFPy.get_f, SFPy.approx_derivative. cbn [negb f_updated pf SF.sf SFPy.abs]. cbn.
      rewrite map_stencil_eq. cbn [px set_ngev].
      destruct (SF.eval_stencil P F G uf (stencil x)) as [[vs|e|] tr1]; cbn; [|split; [unfold mapr; cbn; rewrite ?app_nil_r; reflexivity|intros ? ? H; inversion H]..].
      destruct (fdest x v vs) as [gv|e|]; cbn; (split; [unfold mapr; cbn; rewrite ?app_nil_r; reflexivity|]); intros t' tr H; inversion H; subst; cbn.
      split; [split; cbn; auto; discriminate|]. auto.
    - unfold SFSrc._update_fun, SFSrc.update_fun, SFSrc.fun_wrapped at 1, SF.update_fun, SF.call_f, SFPy.get_f, SFPy.approx_derivative.
      cbn [negb f_updated pf SF.sf SFPy.abs px]. cbn.
      destruct (uf x) as [v|e|]; cbn; [|split; [unfold mapr; cbn; rewrite ?app_nil_r; reflexivity|intros ? ? H; inversion H]..].
      rewrite map_stencil_eq. cbn [px set_ngev set_nfev set_f set_f_updated].
      destruct (SF.eval_stencil P F G uf (stencil x)) as [[vs|e|] tr1]; cbn; [|split; [unfold mapr; cbn; rewrite ?app_nil_r; reflexivity|intros ? ? H; inversion H]..].
      destruct (fdest x v vs) as [gv|e|]; cbn; (split; [unfold mapr; cbn; rewrite ?app_nil_r; reflexivity|]); intros t' tr H; inversion H; subst; cbn.
      split; [split; cbn; auto; discriminate|]. split; [reflexivity|]. split; [reflexivity|]. split; [reflexivity|]. discriminate.
  Qed.

  (* the two refinement lemmas in case form *)
  Lemma ufun_cases (t : pst) : inv t ->
    (exists t2 v tr, u_fun t = (Ok t2, tr) /\ pf t2 = Some v /\ s_update_fun (SFPy.abs t) = (Ok (v, SFPy.abs t2), tr) /\ inv t2 /\
                     f_updated t2 = true /\ g_updated t2 = g_updated t /\ pg t2 = pg t /\ px t2 = px t /\ pscale t2 = pscale t)
    \/ (exists e tr, u_fun t = (Raise e, tr) /\ s_update_fun (SFPy.abs t) = (Raise e, tr))
    \/ (exists tr, u_fun t = (OutOfFuel, tr) /\ s_update_fun (SFPy.abs t) = (OutOfFuel, tr)).
  Proof.
    intros I. destruct (update_fun_ref t I) as [E Hp]. unfold mapr in E.
    destruct (u_fun t) as [[t2|e|] tr] eqn:Eu; destruct (s_update_fun (SFPy.abs t)) as [[[v s]|e'|] tr'] eqn:Es; cbn in E; inversion E; subst.
    - left. destruct (Hp t2 tr' eq_refl) as (I2 & Hf & Hg & Hpg & Hx & Hs & _). exists t2, v, tr'. repeat split; auto; apply I2.
    - right. left. eauto.
    - right. right. eauto.
  Qed.
  Lemma ugrad_cases (t : pst) : inv t ->
    (exists t2 g tr, u_grad t = (Ok t2, tr) /\ pg t2 = Some g /\ s_update_grad (SFPy.abs t) = (Ok (g, SFPy.abs t2), tr) /\ inv t2 /\
                     g_updated t2 = true /\ px t2 = px t /\ pscale t2 = pscale t /\ (f_updated t = true -> f_updated t2 = true /\ pf t2 = pf t))
    \/ (exists e tr, u_grad t = (Raise e, tr) /\ s_update_grad (SFPy.abs t) = (Raise e, tr))
    \/ (exists tr, u_grad t = (OutOfFuel, tr) /\ s_update_grad (SFPy.abs t) = (OutOfFuel, tr)).
  Proof.
    intros I. destruct (update_grad_ref t I) as [E Hp]. unfold mapr in E.
    destruct (u_grad t) as [[t2|e|] tr] eqn:Eu; destruct (s_update_grad (SFPy.abs t)) as [[[g s]|e'|] tr'] eqn:Es; cbn in E; inversion E; subst.
    - left. destruct (Hp t2 tr' eq_refl) as (I2 & Hg & Hx & Hs & Hf). exists t2, g, tr'. split; [reflexivity|]. split; [assumption|]. split; [reflexivity|]. split; [exact I2|]. auto.
    - right. left. eauto.
    - right. right. eauto.
  Qed.

  (* `if not np.array_equal(x, self.x): self.update_x(x)` is the model's update_x *)
  Definition moved (x : P) (t : pst) : pst := if peqb x (px t) then t else set_g_updated false (set_f_updated false (set_x x t)).
  Lemma move_eq (x : P) (t : pst) :
    (if negb (peqb x (px t)) then SFSrc.update_x P F G S x t else ret t) = (Ok (moved x t), @nil ev).
  Proof. unfold moved, SFSrc.update_x. destruct (peqb x (px t)); reflexivity. Qed.
  Lemma move_abs (x : P) (t : pst) : SFPy.abs (moved x t) = SF.update_x P F G S peqb x (SFPy.abs t).
  Proof. unfold moved, SF.update_x, SFPy.abs. cbn. destruct (peqb x (px t)); reflexivity. Qed.
  Lemma move_inv (x : P) (t : pst) : inv t -> inv (moved x t).
  Proof. unfold moved. destruct (peqb x (px t)); [auto|]. intros _. split; cbn; discriminate. Qed.

  Theorem fun_refines (x : P) (t : pst) : inv t ->
    mapr (fun '(v, t') => (v, SFPy.abs t')) (m_fun x t) = SF.sf_fun P F G S peqb fmul uf x (SFPy.abs t)
    /\ (forall v t' tr, m_fun x t = (Ok (v, t'), tr) -> inv t').
  Proof.
    intros I. unfold SFSrc.m_fun, SF.sf_fun. rewrite move_eq, <- move_abs. cbn [bind]. pose proof (move_inv x t I) as I1.
    destruct (ufun_cases (moved x t) I1) as [(t2 & v & tr & E1 & Ev & E2 & I2 & _ & _ & _ & _ & Hs)|[(e & tr & E1 & E2)|(tr & E1 & E2)]];
      rewrite E1, E2; cbn; [|split; [reflexivity|intros ? ? ? H; inversion H]..].
    unfold SFPy.get_f. rewrite Ev. cbn. split; [unfold mapr; cbn; rewrite ?app_nil_r; reflexivity|].
    intros v' t' tr' H. inversion H; subst. exact I2.
  Qed.

  Theorem grad_refines (x : P) (t : pst) : inv t ->
    mapr (fun '(g, t') => (g, SFPy.abs t')) (m_grad x t) = SF.sf_grad P F G S peqb gmul uf ug stencil fdest fdmode x (SFPy.abs t)
    /\ (forall g t' tr, m_grad x t = (Ok (g, t'), tr) -> inv t').
  Proof.
    intros I. unfold SFSrc.m_grad, SF.sf_grad. rewrite move_eq, <- move_abs. cbn [bind]. pose proof (move_inv x t I) as I1.
    destruct (ugrad_cases (moved x t) I1) as [(t2 & g & tr & E1 & Ev & E2 & I2 & _)|[(e & tr & E1 & E2)|(tr & E1 & E2)]];
      rewrite E1, E2; cbn; [|split; [reflexivity|intros ? ? ? H; inversion H]..].
    unfold SFPy.get_g. rewrite Ev. cbn. split; [unfold mapr; cbn; rewrite ?app_nil_r; reflexivity|].
    intros g' t' tr' H. inversion H; subst. exact I2.
  Qed.

  Theorem fun_and_grad_refines (x : P) (t : pst) : inv t ->
    mapr (fun '(v, g, t') => (v, g, SFPy.abs t')) (m_both x t) = SF.sf_fun_and_grad P F G S peqb fmul gmul uf ug stencil fdest fdmode x (SFPy.abs t)
    /\ (forall v g t' tr, m_both x t = (Ok (v, g, t'), tr) -> inv t').
  Proof.
    intros I. unfold SFSrc.m_fun_and_grad, SF.sf_fun_and_grad. rewrite move_eq, <- move_abs. cbn [bind]. pose proof (move_inv x t I) as I1.
    destruct (ufun_cases (moved x t) I1) as [(t2 & v & tr & E1 & Ev & E2 & I2 & Hfu & _)|[(e & tr & E1 & E2)|(tr & E1 & E2)]];
      rewrite E1, E2; cbn; [|split; [reflexivity|intros ? ? ? ? H; inversion H]..].
    destruct (ugrad_cases t2 I2) as [(t3 & g & tr2 & F1 & Eg & F2 & I3 & _ & _ & _ & Hkeep)|[(e & tr2 & F1 & F2)|(tr2 & F1 & F2)]];
      rewrite F1, F2; cbn; [|split; [reflexivity|intros ? ? ? ? H; inversion H]..].
    destruct (Hkeep Hfu) as [_ Hpf]. unfold SFPy.get_f, SFPy.get_g. rewrite Hpf, Ev, Eg. cbn.
    split; [unfold mapr; cbn; rewrite ?app_nil_r; reflexivity|]. intros v' g' t' tr' H. inversion H; subst. exact I3.
  Qed.

  (* __init__ establishes the invariant and abstracts to the model's initial cell *)
  Theorem init_refines (x0 : P) (one : S) : inv (SFSrc.init P F G S x0 one) /\ SFPy.abs (SFSrc.init P F G S x0 one) = SF.init P F G S x0 one.
  Proof. split; [split; cbn; discriminate|reflexivity]. Qed.

  (* every finite sequence of requests (the operations of Model/SF.v: fun, grad, fun_and_grad, assignment of scaling_factor) *)
  Notation op := (SF.op P S).
  Notation ans := (SF.ans F G).
  Definition py_step (o : op) (t : pst) : M ev (ans * pst) :=
    match o with
    | SF.OFun _ _ p => '(v, t1) <- m_fun p t ;; ret (SF.AFun F G v, t1)
    | SF.OGrad _ _ p => '(g, t1) <- m_grad p t ;; ret (SF.AGrad F G g, t1)
    | SF.OBoth _ _ p => '(v, g, t1) <- m_both p t ;; ret (SF.ABoth F G v g, t1)
    | SF.OScale _ _ s => ret (SF.ANone F G, set_scaling_factor s t)
    end.
  Fixpoint py_run (os : list op) (t : pst) : M ev (list ans * pst) :=
    match os with
    | [] => ret ([], t)
    | o :: r => '(a, t1) <- py_step o t ;; '(as_, t2) <- py_run r t1 ;; ret (a :: as_, t2)
    end.
  Notation s_step := (SF.step P F G S peqb fmul gmul uf ug stencil fdest fdmode).
  Notation s_run := (SF.run P F G S peqb fmul gmul uf ug stencil fdest fdmode).

  Lemma step_refines (o : op) (t : pst) : inv t ->
    mapr (fun '(a, t') => (a, SFPy.abs t')) (py_step o t) = s_step o (SFPy.abs t) /\ (forall a t' tr, py_step o t = (Ok (a, t'), tr) -> inv t').
  Proof.
    intros I. destruct o as [p|p|p|s]; cbn [py_step SF.step].
    - destruct (fun_refines p t I) as [E Hi]. rewrite <- E. destruct (m_fun p t) as [[[v t1]|e|] tr]; cbn; (split; [unfold mapr; cbn; rewrite ?app_nil_r; reflexivity|]);
        intros a t' tr' H; inversion H; subst. eapply Hi; reflexivity.
    - destruct (grad_refines p t I) as [E Hi]. rewrite <- E. destruct (m_grad p t) as [[[g t1]|e|] tr]; cbn; (split; [unfold mapr; cbn; rewrite ?app_nil_r; reflexivity|]);
        intros a t' tr' H; inversion H; subst. eapply Hi; reflexivity.
    - destruct (fun_and_grad_refines p t I) as [E Hi]. rewrite <- E. destruct (m_both p t) as [[[[v g] t1]|e|] tr]; cbn; (split; [unfold mapr; cbn; rewrite ?app_nil_r; reflexivity|]);
        intros a t' tr' H; inversion H; subst. eapply Hi; reflexivity.
    - split; [reflexivity|]. intros a t' tr H. inversion H; subst. exact I.
  Qed.

  Theorem run_refines (os : list op) (t : pst) : inv t ->
    mapr (fun '(l, t') => (l, SFPy.abs t')) (py_run os t) = s_run os (SFPy.abs t).
  Proof.
    revert t. induction os as [|o os IH]; intros t I; [reflexivity|]. cbn [py_run SF.run].
    destruct (step_refines o t I) as [E Hi]. rewrite <- E.
    destruct (py_step o t) as [[[a t1]|e|] tr] eqn:Es; [|reflexivity|reflexivity]. cbn [mapr fst snd bind].
    specialize (IH t1 (Hi a t1 tr eq_refl)). rewrite <- IH.
    destruct (py_run os t1) as [[[l t2]|e|] tr2]; unfold mapr; cbn; rewrite ?app_nil_r; reflexivity.
  Qed.
End Refine.
