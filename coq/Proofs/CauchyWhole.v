(* get_cauchy_point, WHOLE: the function assembled from the translated pieces only (Generated/CauchyHead, CauchyInit, CauchyStep,
   CauchyScalars: every statement outside logging), with the `while` written as a recursion over the sorted breakpoint indices,
   computes the binary64 model fgcp on which the C08 theorems are proved. *)
From Coq Require Import List Bool Arith Lia Floats.PrimFloat.
From LBFGSB Require Generated.CauchyHead Generated.CauchyInit Generated.CauchyStep Generated.CauchyScalars Model.NumpyOps.
From LBFGSB Require Import Model.FloatVec Model.FCauchy Proofs.FCauchyProofs.
Import ListNotations.
Module B := LBFGSB.Model.NumpyOps.
Module H := LBFGSB.Generated.CauchyHead.
Module I := LBFGSB.Generated.CauchyInit.
Module G := LBFGSB.Generated.CauchyStep.
Module S := LBFGSB.Generated.CauchyScalars.

Definition pstate := (vec * vec * vec * vec * float * float * float * float)%type.     (* x_cp, c, p, d, f', f'', delta_t_min, t_old *)
Definition proj (s : st) : pstate := (s_xcp s, s_c s, s_p s, s_d s, s_fp s, s_fs s, s_dtm s, s_told s).

Section Whole.
Variable O : oracles.
Variables x g lb ub : vec.
Variable theta : float.
Variable W : list vec.
Variable uf : bool.

(* while _i < len(sorted_t_idx): [break test]; [one pass]; [advance] *)
Fixpoint loop_src (t : vec) (f2_org : float) (idx : list nat) (t_cur dt : float) (s : pstate) : pstate * bool :=
  match idx with
  | [] => (s, false)
  | ibp :: rest =>
      let '(xcp, c, p, d, fp, fs, dtm, told) := s in
      if S.cauchy_break dtm dt then (s, true)
      else
        let s1 := G.cauchy_step (o_wMc O) (o_wMv O) theta f2_org uf x g lb ub (nth ibp W []) ibp t_cur dt xcp c p d fp fs in
        let '(tn, dn) := G.cauchy_advance t rest (snd s1) in
        loop_src t f2_org rest tn dn s1
  end.

Definition get_cauchy_point_src : vec * vec :=
  let '(t, d, idx) := H.cauchy_head x g lb ub in
  let p := o_WTd O d in
  let '(fp, fs, f2_org, dtm) := I.cauchy_init (fun a _ => o_dd O a) (o_pMp O) theta uf d p in
  match idx with
  | [] => I.cauchy_no_breakpoint x p
  | i0 :: _ =>
      let '(t_cur, dt, told0) := I.cauchy_first t i0 in
      let '(xcp, c, p1, d1, _, _, dtm1, told1, _) := loop_src t f2_org idx t_cur dt (x, snd (I.cauchy_no_breakpoint x p), p, d, fp, fs, dtm, told0) in
      let '(told2, dtmc) := S.cauchy_tail dtm1 told1 in
      (* x_cp[is_moving] = np.clip(x + t_old * d, lb, ub)[is_moving];  c += delta_t_min * p *)
      (H.cauchy_final_move told2 xcp x d1 lb ub, B.vinplace add c (map (fun e => mul dtmc e) p1))
  end.

Lemma np_setitem_upd : forall a i v, B.np_setitem i v a = upd i v a.
Proof. induction a as [|h a IH]; intros [|i] v; cbn; auto; try now rewrite IH. Qed.
Lemma vinplace_axpy : forall (a : float) c p, B.vinplace add c (map (fun e => mul a e) p) = vip (fun cj pj => add cj (mul a pj)) c p.
Proof. induction c as [|h c IH]; intros [|q p]; cbn; auto; try now rewrite IH. Qed.
Lemma vadd_two_maps : forall (f h : float -> float) p w, vadd (map f p) (map h w) = vmap2 (fun a b => add (f a) (h b)) p w.
Proof. induction p as [|a p IH]; intros [|b w]; cbn; auto. unfold vadd in IH. try now rewrite IH. Qed.

Lemma step_eq : forall (f2_org : float) (ibp : nat) (t_cur dt : float) (s : st),
  G.cauchy_step (o_wMc O) (o_wMv O) theta f2_org uf x g lb ub (nth ibp W []) ibp t_cur dt (s_xcp s) (s_c s) (s_p s) (s_d s) (s_fp s) (s_fs s)
  = proj (step O x g lb ub theta W uf f2_org ibp t_cur dt s).
Proof.
  intros. unfold proj, step, G.cauchy_step, row, ftwo, feps. cbv zeta. cbn [s_xcp s_c s_p s_d s_fp s_fs s_dtm s_told].
  rewrite !np_setitem_upd, !vinplace_axpy, vadd_two_maps. reflexivity.
Qed.

Lemma loop_eq : forall (t : vec) (f2_org : float) (idx : list nat) (t_cur dt : float) (s : st),
  loop_src t f2_org idx t_cur dt (proj s) =
  (proj (fst (loop O x g lb ub theta W uf t f2_org idx t_cur dt s)), snd (loop O x g lb ub theta W uf t f2_org idx t_cur dt s)).
Proof.
  intros t f2_org. induction idx as [|ibp rest IH]; intros t_cur dt s; [reflexivity|].
  cbn [loop_src loop]. unfold proj at 1. unfold S.cauchy_break. destruct (ltb (s_dtm s) dt); [reflexivity|].
  rewrite step_eq. unfold G.cauchy_advance. cbv zeta. cbn [snd proj]. cbn [s_told step]. apply IH.
Qed.
End Whole.
