(* update_lbfgs_matrices, translated (Generated/MatsGen.v): theta and W = [Y, theta S] are the parameters the composed binary64
   model (Model/DriverKern.v: mats_params) hands to the Cauchy and subspace kernels. *)
From Coq Require Import List Bool Arith Lia Floats.PrimFloat.
From LBFGSB Require Import Model.FloatVec Model.NumpyOps Model.Driver Model.DriverKern.
From LBFGSB Require Generated.MatsGen.
Import ListNotations.

Lemma diffs_snoc2 : forall (l : list vec) (a b : vec), diffs (l ++ [a; b]) = diffs (l ++ [a]) ++ [vsub b a].
Proof.
  induction l as [|c l IH]; intros a b; [reflexivity|].
  destruct l as [|d l]; [reflexivity|]. specialize (IH a b). simpl in IH |- *. rewrite IH. reflexivity.
Qed.
Lemma last_diffs : forall (l : list vec) (a b : vec), last (diffs (l ++ [a; b])) [] = vsub b a.
Proof. intros. rewrite diffs_snoc2. apply last_last. Qed.
Lemma nth_back_snoc2 : forall (l : list vec) (a b : vec), nth_back 0 (l ++ [a; b]) = b /\ nth_back 1 (l ++ [a; b]) = a.
Proof. intros. unfold nth_back. rewrite rev_app_distr. split; reflexivity. Qed.

Theorem theta_eq : forall (vdot : vec -> vec -> float) (n : nat) (X0 G0 : list vec) (x0 x1 g0 g1 : vec),
  let X := X0 ++ [x0; x1] in let G := G0 ++ [g0; g1] in
  Generated.MatsGen.theta vdot X G = fst (fst (mats_params vdot n (Some (X, G)))).
Proof.
  intros. unfold Generated.MatsGen.theta, mats_params, X, G. cbn [fst].
  destruct (nth_back_snoc2 X0 x0 x1) as [-> ->]. destruct (nth_back_snoc2 G0 g0 g1) as [-> ->]. rewrite !last_diffs. reflexivity.
Qed.

Lemma nth_map_mul : forall (th : float) (s : vec) (i : nat), (i < length s)%nat -> nth i (map (fun e => mul th e) s) nan = mul th (nth i s nan).
Proof. intros th s. induction s as [|a s IH]; intros [|i] H; cbn in *; try lia; auto. apply IH. lia. Qed.

Theorem w_eq : forall (vdot : vec -> vec -> float) (n : nat) (X G : list vec),
  Forall (fun s => length s = n) (diffs X) ->
  Generated.MatsGen.w_matrix n (fst (fst (mats_params vdot n (Some (X, G))))) X G = snd (fst (mats_params vdot n (Some (X, G)))).
Proof.
  intros vdot n X G HS. unfold Generated.MatsGen.w_matrix, mats_params, hstack_cols, w_rows. cbn [fst snd]. cbv zeta.
  apply map_ext_in. intros i Hi. apply in_seq in Hi. f_equal. rewrite map_map. apply map_ext_in. intros s Hs.
  apply nth_map_mul. rewrite Forall_forall in HS. rewrite (HS s Hs). lia.
Qed.
