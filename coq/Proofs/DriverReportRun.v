(* C04 / C05 (counters): the report of a complete run of the driver model. *)
From Coq Require Import List ZArith Bool String Lia Floats.PrimFloat.
From LBFGSB Require Import Base.Res Base.Hoare Base.FloatOrd Model.SF Model.FloatVec Model.Driver Generated.StopTests
  Proofs.SFProofs Proofs.SFCount Proofs.DriverReport.
Import ListNotations.
Open Scope Z_scope.

Section ReportRun.
  Variable U : user.
  Variable K : kern.
  Variable c : cfg.
  Notation sfst := (SF.st vec float vec float).
  Notation nfev := (SF.nfev vec float vec float).
  Notation ngev := (SF.ngev vec float vec float).
  Notation scale := (SF.scale vec float vec float).
  Notation callable := (fdmode U = false).

  Lemma report_run_checked x : hoareT (run_checked U K c x) (report_ok U c).
  Proof.
    unfold run_checked.
    destruct (match checkpoint c with None => _ | Some ck => restore c ck end) as [X G].
    set (t00 := SF.init vec float vec float x fone).
    set (t0 := match checkpoint c with None => t00 | Some ck => SF.set_counters _ _ _ _ (r_nfev ck) (r_njev ck) t00 end).
    assert (T0 : scale t0 = fone /\ nfev t0 = nfev0 c /\ ngev t0 = njev0 c).
    { unfold t0, nfev0, njev0. destruct (checkpoint c); cbn; auto. }
    destruct T0 as (T0s & T0n & T0g).
    (* first objective value *)
    eapply hoareT_bind with (R1 := fun r tr => CN U t0 (snd r) tr /\ cntF tr <= 1 /\ Forall quiet tr /\
                                              (checkpoint c <> None -> tr = [] /\ fst r = match checkpoint c with Some ck => r_fun ck | None => fone end /\ snd r = t0)).
    { destruct (checkpoint c) as [ck|] eqn:Eck.
      - apply hoareT_ret. split; [apply CN_refl|]. split; [rewrite cntP_nil; lia|]. split; [constructor|]. intros _. auto.
      - eapply hoareT_weaken; [eapply hoareT_with; [unfold sf_fun; apply (quiet_lift (A := float * sfst))|apply rep_sf_fun]|].
        cbn. intros [v t1] tr [[C1 B1] Q1]. split; [exact C1|]. split; [exact B1|]. split; [exact Q1|]. intros E; congruence. }
    intros [f0 t1] tr1 (C1 & B1 & Q1 & Ck1). cbn in C1, Ck1.
    (* ftarget *)
    eapply hoareT_bind with (R1 := fun ft tr => ft = eff_ft U c /\ cntF tr = 0 /\ cntG tr = 0 /\ cntP isSc tr = 0 /\ cntP isGt tr = 0 /\
                                               cntP isFt tr = (match ftarget c with Some TolCall => 1 | _ => 0 end)).
    { unfold eff_ft. destruct (ftarget c) as [[v|]|]; try (apply hoareT_ret; repeat split; reflexivity).
      eapply hoareT_bind with (R1 := fun v tr => u_ftarget U = Ok v /\ tr = [EvFt (u_ftarget U)]).
      - apply hoareT_call. intros v Hv. auto.
      - intros v tr [Hv ->]. apply hoareT_ret. rewrite Hv. repeat split; reflexivity. }
    intros ft tr2 (Eft & F2 & G2 & S2 & Gt2 & Ft2).
    (* gtol *)
    eapply hoareT_bind with (R1 := fun gt tr => gt = eff_gt U c /\ cntF tr = 0 /\ cntG tr = 0 /\ cntP isSc tr = 0 /\ cntP isFt tr = 0 /\
                                               cntP isGt tr = (match gtol c with TolCall => 1 | _ => 0 end)).
    { unfold eff_gt. destruct (gtol c) as [v|]; [apply hoareT_ret; repeat split; reflexivity|].
      apply hoareT_call. intros v Hv. rewrite Hv. repeat split; reflexivity. }
    intros gt tr3 (Egt & F3 & G3 & S3 & Ft3 & Gt3).
    destruct (quiet_cnt _ Q1) as (Q1a & Q1b & Q1c).
    assert (Hscale1 : scale t1 = fone) by (destruct C1 as (C1 & _); congruence).
    destruct (is_f0_target_reached _ _) eqn:Etg.
    { (* early return: target reached at the start *)
      assert (Hcommon : forall r, r_msg r = MTarget -> r_success r = true -> r_nit r = nit0 c ->
                  r_nfev r = nfev t1 -> r_njev r = ngev t1 -> r_fun r = f0 ->
                  report_ok U c r (tr1 ++ tr2 ++ tr3 ++ [])).
      { intros r Hm Hs Hi Hn Hg Hf. rewrite app_nil_r. destruct C1 as (C1a & C1b & C1c & C1d).
        constructor; try (intros E; congruence).
        - intros _. exists fone. split; [left; reflexivity|]. rewrite Hf, <- Hscale1, <- Eft. exact Etg.
        - left. split; congruence.
        - rewrite Hi. lia.
        - intros H. rewrite Hn, C1b, T0n. unfold nfev0, n0. destruct (checkpoint c) as [ck|] eqn:Eck.
          + destruct Ck1 as (-> & _); [discriminate|]. rewrite cntP_nil. lia.
          + lia.
        - rewrite Hn, Hg, C1b, T0n, !cntP_app, F2, F3. split; [lia|]. intros H. rewrite (C1d H), T0g, G2, G3. lia.
        - rewrite !cntP_app, Q1a, Q1b, Ft2, Ft3, Gt2, Gt3. split; lia. }
      destruct (checkpoint c) as [ck|] eqn:Eck.
      - assert (Hck : tr1 = [] /\ f0 = r_fun ck /\ t1 = t0) by (apply Ck1; discriminate). destruct Hck as (-> & -> & ->).
        apply hoareT_ret. apply Hcommon; cbn; auto. unfold nit0. rewrite Eck. reflexivity.
      - apply hoareT_ret. apply Hcommon; cbn; auto. unfold nit0. rewrite Eck. reflexivity. }
    (* first gradient *)
    eapply hoareT_bind with (R1 := fun r tr => CN U t1 (snd r) tr /\ (callable -> cntF tr = 0) /\ Forall quiet tr).
    { destruct (checkpoint c) as [ck|] eqn:Eck.
      - apply hoareT_ret. split; [apply CN_refl|]. split; [intros _; apply cntP_nil|constructor].
      - eapply hoareT_weaken; [eapply hoareT_with; [unfold sf_grad; apply (quiet_lift (A := vec * sfst))|apply rep_sf_grad]|].
        cbn. intros [v t2] tr [[C2 B2] Q2]. auto. }
    intros [g t2] tr4 (C4 & B4 & Q4). cbn in C4.
    destruct (quiet_cnt _ Q4) as (Q4a & Q4b & Q4c).
    (* scaler *)
    eapply hoareT_bind with (R1 := fun t3 tr => CN U t2 (SF.set_scale _ _ _ _ (scale t2) t3) tr /\ nfev t3 = nfev t2 /\ ngev t3 = ngev t2 /\
                                               cntF tr = 0 /\ cntG tr = 0 /\ cntP isFt tr = 0 /\ cntP isGt tr = 0 /\
                                               scale_in (scale t3) (tr1 ++ tr2 ++ tr3 ++ tr4 ++ tr)).
    { destruct (u_scaler U) as [sc|].
      - eapply hoareT_bind with (R1 := fun s tr => tr = [EvScaler x g (lb c) (ub c) (sc x g (lb c) (ub c))] /\ sc x g (lb c) (ub c) = Ok s).
        + apply hoareT_call. intros s Hs. auto.
        + intros s tr [-> Hs]. apply hoareT_ret. rewrite app_nil_r. cbn [SF.set_scale SF.scale SF.nfev SF.ngev].
          split; [|repeat split; try reflexivity].
          * unfold CN. cbn. repeat split; try lia.
          * right. exists x, g, (lb c), (ub c). rewrite Hs. repeat (apply in_or_app; right). left. reflexivity.
      - apply hoareT_ret. split; [|repeat split; try reflexivity].
        + destruct t2; cbn. apply CN_refl.
        + left. destruct C4 as (C4a & _). congruence. }
    intros t3 tr5 (C5 & N5 & G5 & F5 & Gc5 & Ft5 & Gt5 & Sc5).
    (* initial update function *)
    eapply hoareT_bind with (R1 := fun _ tr => cntF tr = 0 /\ cntG tr = 0 /\ cntP isFt tr = 0 /\ cntP isGt tr = 0).
    { destruct (u_upd U) as [u|]; [|apply hoareT_ret; repeat split; reflexivity].
      eapply hoareT_bind with (R1 := fun _ tr => exists e, tr = [e] /\ isF e = false /\ isG e = false /\ isFt e = false /\ isGt e = false).
      - apply hoareT_call. intros [[[a1 a2] a3] a4] _. eexists. split; [reflexivity|]. repeat split.
      - intros [[[a1 a2] a3] a4] tr (e & -> & E1 & E2 & E3 & E4). apply hoareT_ret. rewrite app_nil_r, !cntP_one, E1, E2, E3, E4. repeat split. }
    intros [[f1 g1] G1] tr6 (F6 & G6 & Ft6 & Gt6).
    destruct (match u_upd U with Some _ => _ | None => _ end) as [X' G''].
    destruct (match X' with [] => _ | _ => _ end) as [[X1 G2'] m1].
    set (s0 := mklst x f1 g1 X1 G2' m1 (nit0 c) MStart false 2 t3).
    assert (Es0 : s0 = mklst x f1 g1 X1 G2' m1 (match checkpoint c with None => 0 | Some ck => r_nit ck end) MStart false 2 t3) by reflexivity.
    rewrite <- Es0. clear Es0.
    eapply hoareT_bind with (R1 := fun s tr => post U c ft gt s0 s tr /\ Forall quiet tr).
    { eapply hoareT_with; [apply quiet_loop|apply rep_loop]. unfold running. cbn. auto. }
    intros s tr7 [P7 Q7].
    apply hoareT_ret.
    replace (tr1 ++ tr2 ++ tr3 ++ tr4 ++ tr5 ++ tr6 ++ tr7 ++ []) with ((tr1 ++ tr2 ++ tr3 ++ tr4 ++ tr5 ++ tr6) ++ tr7 ++ [])
      by (rewrite <- !app_assoc; reflexivity).
    destruct C1 as (C1a & C1b & C1c & C1d). destruct C4 as (C4a & C4b & C4c & C4d).
    eapply report_of_post; try eassumption; try reflexivity.
    - unfold running. cbn. auto.
    - intros H. unfold nfevS. cbn. rewrite N5, C4b, (B4 H), C1b, T0n. unfold nfev0, n0.
      destruct (checkpoint c) as [ck|] eqn:Eck; [|lia]. destruct Ck1 as (-> & _); [discriminate|]. rewrite cntP_nil. lia.
    - unfold nfevS. cbn. rewrite !cntP_app, N5, C4b, C1b, T0n, F2, F3, F5, F6. lia.
    - intros H. cbn. rewrite !cntP_app, G5, (C4d H), (C1d H), T0g, G2, G3, Gc5, G6. lia.
    - cbn. destruct Sc5 as [H|(x' & g' & l' & u' & H)]; [left; exact H|right]. exists x', g', l', u'.
      rewrite !in_app_iff in *. tauto.
    - rewrite !cntP_app, Q1a, Ft2, Ft3, Q4a, Ft5, Ft6. lia.
    - rewrite !cntP_app, Q1b, Gt2, Gt3, Q4b, Gt5, Gt6. lia.
  Qed.

  Theorem report_run : hoareT (run U K c) (report_ok U c).
  Proof.
    unfold run. destruct (bounds_error c); [apply hoareT_raise|]. destruct (ck_ok c _); [apply report_run_checked|apply hoareT_raise].
  Qed.
End ReportRun.
