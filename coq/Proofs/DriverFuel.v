(* The fuel of the driver model suffices: when the user's callables answer (a value or an exception - OutOfFuel is an error value
   of the MODEL, not something a Python callable can return), a run never ends in OutOfFuel.  Hence every theorem stated
   for "run = (Ok r, tr)" or about the trace of a run that raises covers EVERY run of the model: the while loop performs at
   most maxiter - nit0 passes, because every pass that continues increases nit by one and the loop guard requires
   nit < maxiter. *)
From Coq Require Import List ZArith Bool String Lia Floats.PrimFloat.
From LBFGSB Require Import Base.Res Model.SF Model.FloatVec Model.Driver Generated.StopTests.
Import ListNotations.
Open Scope Z_scope.

Definition nofuel {E A} (m : M E A) : Prop := fst m <> OutOfFuel.

Lemma nofuel_ret {E A} (a : A) : nofuel (@ret E A a).
Proof. unfold nofuel, ret. cbn. discriminate. Qed.
Lemma nofuel_raise {E A} e : nofuel (@raise E A e).
Proof. unfold nofuel, raise. cbn. discriminate. Qed.
Lemma nofuel_call {E A} (r : res A) (ev : E) : r <> OutOfFuel -> nofuel (call r ev).
Proof. unfold nofuel, call. cbn. auto. Qed.
Lemma nofuel_bind {E A B} (m : M E A) (f : A -> M E B) : nofuel m -> (forall a t, m = (Ok a, t) -> nofuel (f a)) -> nofuel (bind m f).
Proof.
  unfold nofuel, bind. destruct m as [[a|e|] t]; cbn; intros H1 H2.
  - specialize (H2 a t eq_refl). destruct (f a) as [r t']. cbn in *. exact H2.
  - discriminate.
  - congruence.
Qed.
Lemma nofuel_bind' {E A B} (m : M E A) (f : A -> M E B) : nofuel m -> (forall a, nofuel (f a)) -> nofuel (bind m f).
Proof. intros H1 H2. apply nofuel_bind; auto. Qed.
Lemma nofuel_lift {E E' A} (g : E' -> E) (m : M E' A) : nofuel m -> nofuel (lift g m).
Proof. unfold nofuel, lift. cbn. auto. Qed.

Section Fuel.
  Variable U : user.
  Variable K : kern.
  Variable c : cfg.
  (* the user's callables answer: a value or an exception *)
  Hypothesis uf_answers : forall p, uf U p <> OutOfFuel.
  Hypothesis ug_answers : forall p, ug U p <> OutOfFuel.
  Hypothesis fd_answers : forall p v vs, fd_est U p v vs <> OutOfFuel.
  Hypothesis cb_answers : forall cb s, u_cb U = Some cb -> cb s <> OutOfFuel.
  Hypothesis upd_answers : forall u x f fo g X G, u_upd U = Some u -> u x f fo g X G <> OutOfFuel.
  Hypothesis scaler_answers : forall sc x g l u, u_scaler U = Some sc -> sc x g l u <> OutOfFuel.
  Hypothesis ftarget_answers : u_ftarget U <> OutOfFuel.
  Hypothesis gtol_answers : u_gtol U <> OutOfFuel.

  Notation SFf := (SF.sf_fun vec float vec float veqb mul (uf U)).

  Lemma nf_update_fun t : nofuel (SF.update_fun vec float vec float (uf U) t).
  Proof.
    unfold SF.update_fun. destruct (SF.sf _ _ _ _ t); [apply nofuel_ret|].
    apply nofuel_bind'; [apply nofuel_call, uf_answers|intros; apply nofuel_ret].
  Qed.
  Lemma nf_eval_stencil ps : nofuel (SF.eval_stencil vec float vec (uf U) ps).
  Proof.
    induction ps as [|p r IH]; cbn [SF.eval_stencil]; [apply nofuel_ret|].
    apply nofuel_bind'; [apply nofuel_call, uf_answers|]. intros v. apply nofuel_bind'; [exact IH|intros; apply nofuel_ret].
  Qed.
  Lemma nf_update_grad t : nofuel (SF.update_grad vec float vec float (uf U) (ug U) (fd_stencil U) (fd_est U) (fdmode U) t).
  Proof.
    unfold SF.update_grad. destruct (SF.sg _ _ _ _ t); [apply nofuel_ret|]. destruct (fdmode U).
    - apply nofuel_bind'; [apply nf_update_fun|]. intros [v t1]. apply nofuel_bind'; [apply nf_eval_stencil|]. intros vs.
      destruct (fd_est U _ v vs) eqn:E; [apply nofuel_ret|apply nofuel_raise|]. exfalso. eapply fd_answers; eauto.
    - apply nofuel_bind'; [apply nofuel_call, ug_answers|intros; apply nofuel_ret].
  Qed.
  Lemma nf_sf_fun p t : nofuel (sf_fun U p t).
  Proof.
    unfold sf_fun. apply nofuel_lift. unfold SF.sf_fun. apply nofuel_bind'; [apply nf_update_fun|]. intros [v t1]. apply nofuel_ret.
  Qed.
  Lemma nf_sf_grad p t : nofuel (sf_grad U p t).
  Proof.
    unfold sf_grad. apply nofuel_lift. unfold SF.sf_grad. apply nofuel_bind'; [apply nf_update_grad|]. intros [v t1]. apply nofuel_ret.
  Qed.
  Lemma nf_sf_fun_and_grad p t : nofuel (sf_fun_and_grad U p t).
  Proof.
    unfold sf_fun_and_grad. apply nofuel_lift. unfold SF.sf_fun_and_grad. apply nofuel_bind'; [apply nf_update_fun|]. intros [v t1].
    apply nofuel_bind'; [apply nf_update_grad|]. intros [g t2]. apply nofuel_ret.
  Qed.

  Lemma nf_ls_loop n xk d par s : nofuel (ls_loop U K c n xk d par s).
  Proof.
    revert s. induction n as [|k IH]; intros s; cbn [ls_loop]; [apply nofuel_ret|].
    destruct (dcs K par _) as [stp tk]. destruct tk; try apply nofuel_ret.
    apply nofuel_bind'; [apply nf_sf_fun_and_grad|]. intros [[f g] t1]. apply IH.
  Qed.
  Lemma nf_line_search xk f0 g0 d nit cap t : nofuel (line_search U K c xk f0 g0 d nit cap t).
  Proof.
    unfold line_search. apply nofuel_bind'; [apply nf_ls_loop|]. intros s.
    destruct (negb _ || _); [apply nofuel_ret|]. destruct (l_task s); apply nofuel_ret.
  Qed.

  Lemma nf_accept_step ft s a d t1 : nofuel (accept_step U K c ft s a d t1).
  Proof.
    unfold accept_step. apply nofuel_bind'; [apply nf_sf_fun_and_grad|]. intros [[f0 g] t2].
    apply nofuel_bind'.
    { destruct (u_upd U) as [u|] eqn:Eu; [|apply nofuel_ret].
      apply nofuel_bind'; [apply nofuel_call; eapply upd_answers; eauto|]. intros [[[a1 a2] a3] a4]. apply nofuel_ret. }
    intros [[[[f1 fo] g1] G] filt]. destruct (if filt then _ else _) as [X1 G1].
    destruct (is_f0_target_reached _ _); [apply nofuel_ret|]. destruct (is_f0_min_change_reached _ _ _); [apply nofuel_ret|].
    destruct (update_mem_f K c _ _ _ _ _ _) as [[X2 G2] m2].
    destruct (u_cb U) as [cb|] eqn:Ecb; [|apply nofuel_ret].
    apply nofuel_bind'; [apply nofuel_call; eapply cb_answers; eauto|]. intros b. destruct b; apply nofuel_ret.
  Qed.

  (* a pass of the loop that continues has increased nit by one *)
  Lemma body_nit ft s cont s1 tr : body U K c ft s = (Ok (cont, s1), tr) -> cont = true -> s_nit s1 = s_nit s + 1.
  Proof.
    unfold body. intros H Hc. apply bind_ok_inv in H as ([stp t1] & tr1 & tr2 & _ & H & _). destruct stp as [a|].
    - unfold accept_step in H. apply bind_ok_inv in H as ([[f0 g] t2] & ? & ? & _ & H & _).
      apply bind_ok_inv in H as ([[[[f1 fo] g1] G] filt] & ? & ? & _ & H & _).
      destruct (if filt then _ else _) as [X1 G1].
      destruct (is_f0_target_reached _ _); [unfold ret in H; inversion H; subst; discriminate|].
      destruct (is_f0_min_change_reached _ _ _); [unfold ret in H; inversion H; subst; discriminate|].
      destruct (update_mem_f K c _ _ _ _ _ _) as [[X2 G2] m2].
      destruct (u_cb U) as [cb|].
      + apply bind_ok_inv in H as (b & ? & ? & _ & H & _). destruct b; unfold ret in H; inversion H; subst; reflexivity.
      + unfold ret in H. inversion H; subst. reflexivity.
    - unfold ret, fail_step in H. destruct (_ =? _)%nat; inversion H; subst; [discriminate|reflexivity].
  Qed.
  Lemma nf_body ft s : nofuel (body U K c ft s).
  Proof.
    unfold body. apply nofuel_bind'; [apply nf_line_search|]. intros [stp t1]. destruct stp; [apply nf_accept_step|apply nofuel_ret].
  Qed.

  Lemma nf_loop fuel ft gt s : (Z.to_nat (maxiter c - s_nit s) <= fuel)%nat -> nofuel (loop U K c fuel ft gt s).
  Proof.
    revert s. induction fuel as [|k IH]; intros s Hf; cbn [loop]; destruct (guard c gt s) eqn:Eg; try apply nofuel_ret.
    - exfalso. unfold guard in Eg. apply andb_true_iff in Eg as [Eg _]. apply andb_true_iff in Eg as [Eg _].
      apply andb_true_iff in Eg as [_ Eg]. apply Z.ltb_lt in Eg. lia.
    - apply nofuel_bind; [apply nf_body|]. intros [cont s1] tr H. destruct cont; [|apply nofuel_ret].
      apply IH. rewrite (body_nit _ _ _ _ _ H eq_refl).
      unfold guard in Eg. apply andb_true_iff in Eg as [Eg _]. apply andb_true_iff in Eg as [Eg _].
      apply andb_true_iff in Eg as [_ Eg]. apply Z.ltb_lt in Eg. lia.
  Qed.

  Lemma nf_run_checked x : nofuel (run_checked U K c x).
  Proof.
    unfold run_checked. destruct (match checkpoint c with None => _ | Some ck => restore c ck end) as [X G].
    apply nofuel_bind'; [destruct (checkpoint c); [apply nofuel_ret|apply nf_sf_fun]|]. intros [f0 t1].
    apply nofuel_bind'.
    { destruct (ftarget c) as [[v|]|]; try apply nofuel_ret. apply nofuel_bind'; [apply nofuel_call, ftarget_answers|intros; apply nofuel_ret]. }
    intros ft. apply nofuel_bind'; [destruct (gtol c); [apply nofuel_ret|apply nofuel_call, gtol_answers]|]. intros gt.
    destruct (is_f0_target_reached _ _); [destruct (checkpoint c); apply nofuel_ret|].
    apply nofuel_bind'; [destruct (checkpoint c); [apply nofuel_ret|apply nf_sf_grad]|]. intros [g t2].
    apply nofuel_bind'.
    { destruct (u_scaler U) as [sc|] eqn:Es; [|apply nofuel_ret].
      apply nofuel_bind'; [apply nofuel_call; eapply scaler_answers; eauto|intros; apply nofuel_ret]. }
    intros t3. apply nofuel_bind'.
    { destruct (u_upd U) as [u|] eqn:Eu; [|apply nofuel_ret].
      apply nofuel_bind'; [apply nofuel_call; eapply upd_answers; eauto|]. intros [[[a1 a2] a3] a4]. apply nofuel_ret. }
    intros [[f1 g1] G1].
    destruct (match u_upd U with Some _ => _ | None => _ end) as [X0 G0].
    destruct (match X0 with [] => _ | _ => _ end) as [[X1 G2] m1].
    apply nofuel_bind'; [|intros; apply nofuel_ret].
    apply nf_loop. cbn [s_nit]. unfold fuel0. lia.
  Qed.

  Theorem fuel_suffices : fst (run U K c) <> OutOfFuel.
  Proof.
    unfold run. destruct (bounds_error c); [cbn; discriminate|]. destruct (ck_ok c _); [apply nf_run_checked|cbn; discriminate].
  Qed.
End Fuel.
