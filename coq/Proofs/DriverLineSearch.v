(* C11: the step returned by the line search lies in [0, stpmax] whenever the line-search routine (SciPy's DCSRCH, an
   oracle of the model) returns steps in that range. *)
From Coq Require Import List ZArith Bool String Lia Floats.PrimFloat.
From LBFGSB Require Import Base.Res Base.Hoare Model.SF Model.FloatVec Model.Driver.
Import ListNotations.
Open Scope Z_scope.

Section Range.
  Variable U : user.
  Variable K : kern.
  Variable c : cfg.
  (* range contract of the line-search routine: every step it proposes lies in [stpmin, stpmax] = [0, stpmax] *)
  Definition dcs_in_range : Prop :=
    forall ft gt xt stpmax h, leb 0 (fst (dcs K (ft, gt, xt, stpmax) h)) = true /\ leb (fst (dcs K (ft, gt, xt, stpmax) h)) stpmax = true.
  Hypothesis contract : dcs_in_range.

  Definition range_ok (stpmax : float) (s : lss) : Prop :=
    forall a, l_best s = Some a -> leb 0 a = true /\ leb a stpmax = true.

  Lemma range_ls_loop n xk d ft gt xt stpmax s : range_ok stpmax s ->
    hoareT (ls_loop U K c n xk d (ft, gt, xt, stpmax) s) (fun s' _ => range_ok stpmax s').
  Proof.
    revert s. induction n as [|k IH]; intros s HR; cbn [ls_loop].
    - apply hoareT_ret. exact HR.
    - pose proof (contract ft gt xt stpmax (l_hist s ++ [(l_stp s, l_f s, l_dphi s)])) as Hc.
      destruct (dcs K (ft, gt, xt, stpmax) _) as [stp tk]. cbn [fst] in Hc.
      destruct tk; try (apply hoareT_ret; exact HR).
      eapply hoareT_bind with (R1 := fun _ _ => True); [intros ? ? ?; exact I|].
      intros [[f g] t1] tr1 _. eapply hoareT_weaken; [apply IH|auto].
      unfold range_ok. cbn [l_best]. intros a Ha. destruct (ltb f (l_bestf s)); [inversion Ha; subst; exact Hc|apply HR; exact Ha].
  Qed.

  Definition stpmax_of (xk d : vec) (nit : Z) : float :=
    if nit =? 0 then fone else maxstep xk d (lb c) (ub c) (max_steplength c).

  Theorem line_search_range xk f0 g0 d nit cap t a t1 tr :
    line_search U K c xk f0 g0 d nit cap t = (Ok (Some a, t1), tr) ->
    leb 0 a = true /\ leb a (stpmax_of xk d nit) = true.
  Proof.
    unfold line_search, stpmax_of. intros H. apply bind_ok_inv in H as (s & tr1 & tr2 & H1 & H2 & ->).
    assert (HR : range_ok (if nit =? 0 then fone else maxstep xk d (lb c) (ub c) (max_steplength c)) s).
    { eapply (range_ls_loop _ xk d (ftol_ls c) (gtol_ls c) (xtol_ls c) _ _); [|exact H1]. intros a0 Ha. cbn in Ha. discriminate. }
    destruct (negb _ || _); [unfold ret in H2; inversion H2|].
    destruct (l_task s); unfold ret in H2; inversion H2; subst; apply HR; auto.
  Qed.
End Range.
