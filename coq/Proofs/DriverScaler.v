(* C17 on the driver model: running with a gradient scaler that returns sigma is the same run - same points visited, same x,
   fun, jac, counters, correction pairs, message - as running without a scaler on the objective sigma*f with gradient
   sigma*grad f.  Simulation between the two runs of the model, with related (not equal) wrapper states and events. *)
From Coq Require Import List ZArith Bool String Lia Floats.PrimFloat FunctionalExtensionality.
From LBFGSB Require Import Base.Res Base.FloatOrd Model.SF Model.FloatVec Model.Driver Generated.StopTests Proofs.DriverShape Proofs.DriverValues.
Import ListNotations.
Open Scope Z_scope.

Section SimR.
  (* outcomes related by RV, traces related by the function img *)
  Variable img : list ev -> list ev.
  Hypothesis img_app : forall a b, img (a ++ b) = img a ++ img b.
  Hypothesis img_nil : img [] = [].
  Definition simR {A B} (RV : A -> B -> Prop) (m1 : M ev A) (m2 : M ev B) : Prop :=
    match fst m1, fst m2 with
    | Ok a, Ok b => RV a b
    | Raise e1, Raise e2 => e1 = e2
    | OutOfFuel, OutOfFuel => True
    | _, _ => False
    end /\ img (snd m1) = snd m2.

  Lemma simR_ret {A B} (RV : A -> B -> Prop) a b : RV a b -> simR RV (ret a) (ret b).
  Proof. intros H. split; [exact H|exact img_nil]. Qed.

  Lemma simR_bind {A B A' B'} (RV : A -> B -> Prop) (RW : A' -> B' -> Prop) m1 m2 (f1 : A -> M ev A') (f2 : B -> M ev B') :
    simR RV m1 m2 -> (forall a b, RV a b -> simR RW (f1 a) (f2 b)) -> simR RW (bind m1 f1) (bind m2 f2).
  Proof.
    intros [H1 H2] Hf. unfold bind. destruct m1 as [r1 t1], m2 as [r2 t2]. cbn [fst snd] in *.
    destruct r1 as [a|e1|], r2 as [b|e2|]; try contradiction.
    - specialize (Hf a b H1). destruct (f1 a) as [x1 u1], (f2 b) as [x2 u2]. destruct Hf as [F1 F2]. cbn [fst snd] in *.
      split; cbn [fst snd]; [exact F1|]. rewrite img_app, H2, F2. reflexivity.
    - split; cbn [fst snd]; [exact H1|exact H2].
    - split; cbn [fst snd]; [exact I|exact H2].
  Qed.

  Lemma simR_erased_call {A A' B'} (RW : A' -> B' -> Prop) (a : A) (e : ev) (f1 : A -> M ev A') (m2 : M ev B') :
    img [e] = [] -> simR RW (f1 a) m2 -> simR RW (bind (call (Ok a) e) f1) m2.
  Proof.
    intros He [F1 F2]. unfold bind, call. destruct (f1 a) as [x1 u1]. cbn [fst snd] in *. split; cbn [fst snd]; [exact F1|].
    rewrite img_app, He. exact F2.
  Qed.

  Lemma simR_weaken {A B} (RV RV' : A -> B -> Prop) m1 m2 : simR RV m1 m2 -> (forall a b, RV a b -> RV' a b) -> simR RV' m1 m2.
  Proof.
    intros [H1 H2] H. split; [|exact H2]. destruct (fst m1), (fst m2); auto.
  Qed.
End SimR.

Section Scaler.
  Variable U : user.
  Variable K : kern.
  Variable c : cfg.
  Variable sg : float.
  Hypothesis callable : fdmode U = false.
  Hypothesis no_upd : u_upd U = None.
  Hypothesis no_scaler : u_scaler U = None.
  Hypothesis no_target : ftarget c = None.
  Hypothesis no_checkpoint : checkpoint c = None.

  Definition scf (r : res float) : res float := match r with Ok v => Ok (mul v sg) | Raise e => Raise e | OutOfFuel => OutOfFuel end.
  Definition scg (r : res vec) : res vec := match r with Ok v => Ok (vscale v sg) | Raise e => Raise e | OutOfFuel => OutOfFuel end.
  (* run A: the scaler returns sg *)
  Definition UA : user :=
    mkuser (uf U) (ug U) (u_cb U) None (Some (fun _ _ _ _ => Ok sg)) (u_ftarget U) (u_gtol U) false (fd_stencil U) (fd_est U).
  (* run B: no scaler, objective sg*f with gradient sg*grad f *)
  Definition UB : user :=
    mkuser (fun p => scf (uf U p)) (fun p => scg (ug U p)) (u_cb U) None None (u_ftarget U) (u_gtol U) false (fd_stencil U) (fd_est U).

  (* events of run A seen from run B: the scaler call disappears, the values returned by the user's functions are scaled *)
  Definition conv (e : ev) : ev := match e with EvF p r => EvF p (scf r) | EvG p r => EvG p (scg r) | e => e end.
  Definition not_sc (e : ev) : bool := match e with EvScaler _ _ _ _ _ => false | _ => true end.
  Definition img (t : list ev) : list ev := map conv (filter not_sc t).
  Lemma img_app a b : img (a ++ b) = img a ++ img b.
  Proof. unfold img. rewrite filter_app, map_app. reflexivity. Qed.
  Notation SR := (simR img).

  Notation sfst := (SF.st vec float vec float).
  (* related wrapper states: same point and counters, cached values scaled *)
  Definition rel (tA tB : sfst) : Prop :=
    SF.sx _ _ _ _ tA = SF.sx _ _ _ _ tB /\ option_map (fun v => mul v sg) (SF.sf _ _ _ _ tA) = SF.sf _ _ _ _ tB /\
    option_map (fun g => vscale g sg) (SF.sg _ _ _ _ tA) = SF.sg _ _ _ _ tB /\
    SF.nfev _ _ _ _ tA = SF.nfev _ _ _ _ tB /\ SF.ngev _ _ _ _ tA = SF.ngev _ _ _ _ tB.

  Lemma rel_update_x p tA tB : rel tA tB ->
    rel (SF.update_x vec float vec float veqb p tA) (SF.update_x vec float vec float veqb p tB).
  Proof.
    intros (R1 & R2 & R3 & R4 & R5). unfold SF.update_x. rewrite R1. destruct (veqb p _); [repeat split; auto|]. repeat split; cbn; auto.
  Qed.

  (* one request for value and gradient, in terms of the RAW cached values: B's are A's times sg *)
  Definition raw_fg (u : user) (p : vec) (t : sfst) : M ev (float * vec * sfst) :=
    lift sfev ('(v, t1) <- SF.update_fun vec float vec float (uf u) (SF.update_x vec float vec float veqb p t) ;;
               '(g, t2) <- SF.update_grad vec float vec float (uf u) (ug u) (fd_stencil u) (fd_est u) (fdmode u) t1 ;;
               ret (v, g, t2)).

  Lemma raw_fg_sim p tA tB : rel tA tB ->
    SR (fun a b => fst (fst b) = mul (fst (fst a)) sg /\ snd (fst b) = vscale (snd (fst a)) sg /\ rel (snd a) (snd b) /\
                   SF.scale _ _ _ _ (snd a) = SF.scale _ _ _ _ tA /\ SF.scale _ _ _ _ (snd b) = SF.scale _ _ _ _ tB)
       (raw_fg UA p tA) (raw_fg UB p tB).
  Proof.
    intros HR. apply (rel_update_x p) in HR.
    assert (SA : SF.scale _ _ _ _ (SF.update_x vec float vec float veqb p tA) = SF.scale _ _ _ _ tA) by (unfold SF.update_x; destruct (veqb p _); reflexivity).
    assert (SB : SF.scale _ _ _ _ (SF.update_x vec float vec float veqb p tB) = SF.scale _ _ _ _ tB) by (unfold SF.update_x; destruct (veqb p _); reflexivity).
    unfold raw_fg. revert HR SA SB. generalize (SF.scale vec float vec float tA) (SF.scale vec float vec float tB).
    generalize (SF.update_x vec float vec float veqb p tA) (SF.update_x vec float vec float veqb p tB). clear tA tB.
    intros tA tB sA sB (R1 & R2 & R3 & R4 & R5) SA SB.
    unfold SF.update_fun, SF.update_grad. cbn [uf ug fdmode UA UB].
    destruct tA as [xa fa ga na ma sa], tB as [xb fb gb nb mb sb]. cbn in R1, R2, R3, R4, R5, SA, SB. subst xb nb mb.
    destruct fa as [va|]; destruct fb as [vb|]; cbn in R2; try discriminate.
    - inversion R2; subst vb. destruct ga as [g1|]; destruct gb as [g2|]; cbn in R3; try discriminate.
      + inversion R3; subst g2. cbn. unfold simR, img. cbn. repeat split; auto.
      + cbn. unfold SF.call_g, call, bind, ret, lift. cbn. destruct (ug U xa) as [gv|e|]; cbn; unfold simR, img; cbn; repeat split; auto.
    - destruct ga as [g1|]; destruct gb as [g2|]; cbn in R3; try discriminate.
      + inversion R3; subst g2. cbn. unfold SF.call_f, call, bind, ret, lift. cbn. destruct (uf U xa) as [v|e|]; cbn; unfold simR, img; cbn; repeat split; auto.
      + cbn. unfold SF.call_f, SF.call_g, call, bind, ret, lift. cbn.
        destruct (uf U xa) as [v|e|]; cbn; [|unfold simR, img; cbn; repeat split; auto|unfold simR, img; cbn; repeat split; auto].
        destruct (ug U xa) as [gv|e|]; cbn; unfold simR, img; cbn; repeat split; auto.
  Qed.

  Lemma lift_bind {A B} (m : M (SF.ev vec float vec) A) (k : A -> M (SF.ev vec float vec) B) :
    lift sfev (bind m k) = bind (lift sfev m) (fun a => lift sfev (k a)).
  Proof.
    unfold lift, bind. destruct m as [[a|e|] t]; cbn; try reflexivity. destruct (k a) as [r t2]. cbn. rewrite map_app. reflexivity.
  Qed.

  Lemma sf_fg_raw (u : user) p t : sf_fun_and_grad u p t =
    bind (raw_fg u p t) (fun r => ret (mul (fst (fst r)) (SF.scale _ _ _ _ (snd r)), vscale (snd (fst r)) (SF.scale _ _ _ _ (snd r)), snd r)).
  Proof.
    unfold sf_fun_and_grad, raw_fg, SF.sf_fun_and_grad, lift, bind, ret.
    destruct (SF.update_fun vec float vec float (uf u) _) as [[[v t1]|e|] tr1]; cbn; try reflexivity.
    destruct (SF.update_grad vec float vec float (uf u) (ug u) (fd_stencil u) (fd_est u) (fdmode u) t1) as [[[g t2]|e|] tr2]; cbn; try reflexivity.
    rewrite !app_nil_r. reflexivity.
  Qed.

  (* phase 2 (after the scaler): A has scaling factor sg, B has 1; the answers are EQUAL *)
  Definition rel2 (tA tB : sfst) : Prop := rel tA tB /\ SF.scale _ _ _ _ tA = sg /\ SF.scale _ _ _ _ tB = fone.

  Lemma fg_sim2 p tA tB : rel2 tA tB ->
    SR (fun a b => fst (fst a) = fst (fst b) /\ snd (fst a) = snd (fst b) /\ rel2 (snd a) (snd b))
       (sf_fun_and_grad UA p tA) (sf_fun_and_grad UB p tB).
  Proof.
    intros (HR & SA & SB). rewrite !sf_fg_raw.
    eapply (simR_bind img img_app); [apply raw_fg_sim; exact HR|].
    intros [[va ga] ta] [[vb gb] tb] (E1 & E2 & R & S1 & S2). cbn [fst snd] in *.
    apply (simR_ret img eq_refl). cbn [fst snd]. rewrite S1, S2, SA, SB, E1, E2.
    split; [unfold fone; rewrite mul_one_r; reflexivity|]. split; [rewrite vscale_one; reflexivity|].
    split; [exact R|]. split; congruence.
  Qed.

  (* ---------------------------------------------------------------- line search *)
  Definition lss_with (t : sfst) (s : lss) : lss :=
    mklss (l_stp s) (l_f s) (l_dphi s) (l_hist s) (l_best s) (l_bestf s) (l_task s) (l_last s) t.
  Definition lss_rel (sA sB : lss) : Prop := sB = lss_with (l_sf sB) sA /\ rel2 (l_sf sA) (l_sf sB).

  Lemma ls_loop_sim n xk d par sA sB : lss_rel sA sB -> SR lss_rel (ls_loop UA K c n xk d par sA) (ls_loop UB K c n xk d par sB).
  Proof.
    revert sA sB. induction n as [|k IH]; intros sA sB [E HR]; cbn [ls_loop].
    - apply (simR_ret img eq_refl). rewrite E. cbn. split; [reflexivity|exact HR].
    - rewrite E. cbn [l_hist l_stp l_f l_dphi lss_with l_best l_bestf l_sf].
      destruct (dcs K par _) as [stp tk].
      destruct tk; try (apply (simR_ret img eq_refl); split; [reflexivity|exact HR]).
      eapply (simR_bind img img_app); [apply fg_sim2; exact HR|].
      intros [[fa ga] ta] [[fb gb] tb] (E1 & E2 & R). cbn [fst snd] in *. subst fb gb.
      apply IH. split; [reflexivity|exact R].
  Qed.

  Lemma line_search_sim xk f0 g0 d nit cap tA tB : rel2 tA tB ->
    SR (fun a b => fst a = fst b /\ rel2 (snd a) (snd b)) (line_search UA K c xk f0 g0 d nit cap tA) (line_search UB K c xk f0 g0 d nit cap tB).
  Proof.
    intros HR. unfold line_search.
    eapply (simR_bind img img_app).
    { apply ls_loop_sim. split; [reflexivity|exact HR]. }
    intros sA sB [E R]. rewrite E. cbn [l_last l_task l_best l_sf lss_with].
    destruct (negb _ || _); [apply (simR_ret img eq_refl); split; [reflexivity|exact R]|].
    destruct (l_task sA); apply (simR_ret img eq_refl); (split; [reflexivity|exact R]).
  Qed.

  (* ---------------------------------------------------------------- outer loop *)
  Definition lst_with (t : sfst) (s : lst) : lst :=
    mklst (s_x s) (s_f s) (s_g s) (s_X s) (s_G s) (s_mats s) (s_nit s) (s_msg s) (s_succ s) (s_warn s) t.
  Definition lst_rel (sA sB : lst) : Prop := sB = lst_with (s_sf sB) sA /\ rel2 (s_sf sA) (s_sf sB).

  Lemma snapshot_rel sA sB n : lst_rel sA sB -> snapshot sA n = snapshot sB n.
  Proof.
    intros [E ((R1 & R2 & R3 & R4 & R5) & _)]. rewrite E. unfold snapshot. cbn. rewrite R4, R5. reflexivity.
  Qed.

  Lemma accept_step_sim sA sB a d tA tB : lst_rel sA sB -> rel2 tA tB ->
    SR (fun x y => fst x = fst y /\ lst_rel (snd x) (snd y)) (accept_step UA K c None sA a d tA) (accept_step UB K c None sB a d tB).
  Proof.
    intros [E HR0] HR. unfold accept_step. cbn [u_upd u_cb UA UB]. rewrite E. cbn [s_x s_f s_X s_G s_mats s_nit s_msg s_succ s_warn lst_with].
    eapply (simR_bind img img_app); [apply fg_sim2; exact HR|].
    intros [[fa ga] ta] [[fb gb] tb] (E1 & E2 & R). cbn [fst snd] in *. subst fb gb.
    rewrite !bind_ret_l. cbn beta iota. cbn [is_f0_target_reached].
    destruct (is_f0_min_change_reached _ _ _).
    { apply (simR_ret img eq_refl). cbn. split; [reflexivity|]. split; [reflexivity|exact R]. }
    destruct (update_mem_f K c _ _ _ _ _ _) as [[X2 G3] m2].
    destruct (u_cb U) as [cb|].
    - assert (Hsnap : snapshot (mklst (vclip (vaxpy (s_x sA) a d) (lb c) (ub c)) fa ga X2 G3 m2 (s_nit sA) (s_msg sA) (s_succ sA) (s_warn sA) ta) (s_nit sA + 1) =
                      snapshot (mklst (vclip (vaxpy (s_x sA) a d) (lb c) (ub c)) fa ga X2 G3 m2 (s_nit sA) (s_msg sA) (s_succ sA) (s_warn sA) tb) (s_nit sA + 1)).
      { apply snapshot_rel. split; [reflexivity|exact R]. }
      rewrite Hsnap.
      eapply (simR_bind img img_app) with (RV := eq).
      { unfold call, simR, img. cbn. split; [destruct (cb _); reflexivity|reflexivity]. }
      intros b b' <-. destruct b; apply (simR_ret img eq_refl); cbn; (split; [reflexivity|]); (split; [reflexivity|exact R]).
    - apply (simR_ret img eq_refl). cbn. split; [reflexivity|]. split; [reflexivity|exact R].
  Qed.

  Lemma body_sim sA sB : lst_rel sA sB ->
    SR (fun x y => fst x = fst y /\ lst_rel (snd x) (snd y)) (body UA K c None sA) (body UB K c None sB).
  Proof.
    intros HR. pose proof HR as [E ((R1 & R2 & R3 & R4 & R5) & S1 & S2)]. unfold body.
    assert (Ed : direction K sB = direction K sA) by (rewrite E; reflexivity).
    assert (Ec : ls_cap c sB = ls_cap c sA) by (unfold ls_cap; rewrite R4; reflexivity).
    rewrite Ed, Ec. replace (s_x sB) with (s_x sA) by (rewrite E; reflexivity). replace (s_f sB) with (s_f sA) by (rewrite E; reflexivity).
    replace (s_g sB) with (s_g sA) by (rewrite E; reflexivity). replace (s_nit sB) with (s_nit sA) by (rewrite E; reflexivity).
    eapply (simR_bind img img_app); [apply line_search_sim; destruct HR as [_ HR]; exact HR|].
    intros [stpa ta] [stpb tb] [E1 R]. cbn [fst snd] in *. subst stpb.
    destruct stpa as [a|]; [apply accept_step_sim; [exact HR|exact R]|].
    apply (simR_ret img eq_refl). unfold fail_step.
    assert (EX : s_X sB = s_X sA) by (rewrite E; reflexivity). assert (EG : s_G sB = s_G sA) by (rewrite E; reflexivity).
    assert (Ex : s_x sB = s_x sA) by (rewrite E; reflexivity). assert (Ef : s_f sB = s_f sA) by (rewrite E; reflexivity).
    assert (Eg' : s_g sB = s_g sA) by (rewrite E; reflexivity). assert (Em : s_mats sB = s_mats sA) by (rewrite E; reflexivity).
    assert (En : s_nit sB = s_nit sA) by (rewrite E; reflexivity). assert (Es : s_succ sB = s_succ sA) by (rewrite E; reflexivity).
    assert (Ew : s_warn sB = s_warn sA) by (rewrite E; reflexivity).
    rewrite EX, EG, Ex, Ef, Eg', Em, En, Es, Ew.
    destruct (_ =? _)%nat; cbn [fst snd]; (split; [reflexivity|]); (split; [reflexivity|exact R]).
  Qed.

  Lemma loop_sim fuel gt sA sB : lst_rel sA sB -> SR lst_rel (loop UA K c fuel None gt sA) (loop UB K c fuel None gt sB).
  Proof.
    revert sA sB. induction fuel as [|k IH]; intros sA sB HR; cbn [loop];
      (assert (Eg : guard c gt sB = guard c gt sA) by (destruct HR as [E ((R1 & R2 & R3 & R4 & R5) & _)]; unfold guard; rewrite R4, E; reflexivity));
      rewrite Eg; destruct (guard c gt sA); try (apply (simR_ret img eq_refl); exact HR).
    - split; cbn; [exact I|reflexivity].
    - eapply (simR_bind img img_app); [apply body_sim; exact HR|].
      intros [ca sa] [cb' sb] [E1 R]. cbn [fst snd] in *. subst cb'. destruct ca; [apply IH; exact R|apply (simR_ret img eq_refl); exact R].
  Qed.

  (* ---------------------------------------------------------------- the steps before the loop *)
  Lemma f_sim1 p tA tB : rel tA tB -> SF.scale _ _ _ _ tA = fone -> SF.scale _ _ _ _ tB = fone ->
    SR (fun a b => fst b = mul (fst a) sg /\ rel (snd a) (snd b) /\ SF.scale _ _ _ _ (snd a) = fone /\ SF.scale _ _ _ _ (snd b) = fone)
       (sf_fun UA p tA) (sf_fun UB p tB).
  Proof.
    intros HR SA SB. apply (rel_update_x p) in HR.
    assert (SA' : SF.scale _ _ _ _ (SF.update_x vec float vec float veqb p tA) = fone) by (unfold SF.update_x; destruct (veqb p _); exact SA).
    assert (SB' : SF.scale _ _ _ _ (SF.update_x vec float vec float veqb p tB) = fone) by (unfold SF.update_x; destruct (veqb p _); exact SB).
    unfold sf_fun, SF.sf_fun. revert HR SA' SB'.
    generalize (SF.update_x vec float vec float veqb p tA) (SF.update_x vec float vec float veqb p tB). clear tA tB SA SB.
    intros tA tB (R1 & R2 & R3 & R4 & R5) SA SB. unfold SF.update_fun. cbn [uf UA UB].
    destruct tA as [xa fa ga na ma sa], tB as [xb fb gb nb mb sb]. cbn in R1, R2, R3, R4, R5, SA, SB. subst xb nb mb sa sb.
    destruct fa as [va|]; destruct fb as [vb|]; cbn in R2; try discriminate.
    - inversion R2; subst vb. cbn. unfold simR, img. cbn. unfold fone. rewrite !mul_one_r. repeat split; auto.
    - cbn. unfold SF.call_f, call, bind, ret, lift. cbn. destruct (uf U xa) as [v|e|]; cbn; unfold simR, img; cbn; unfold fone; rewrite ?mul_one_r; repeat split; auto.
  Qed.

  Lemma g_sim1 p tA tB : rel tA tB -> SF.scale _ _ _ _ tA = fone -> SF.scale _ _ _ _ tB = fone ->
    SR (fun a b => fst b = vscale (fst a) sg /\ rel (snd a) (snd b) /\ SF.scale _ _ _ _ (snd a) = fone /\ SF.scale _ _ _ _ (snd b) = fone)
       (sf_grad UA p tA) (sf_grad UB p tB).
  Proof.
    intros HR SA SB. apply (rel_update_x p) in HR.
    assert (SA' : SF.scale _ _ _ _ (SF.update_x vec float vec float veqb p tA) = fone) by (unfold SF.update_x; destruct (veqb p _); exact SA).
    assert (SB' : SF.scale _ _ _ _ (SF.update_x vec float vec float veqb p tB) = fone) by (unfold SF.update_x; destruct (veqb p _); exact SB).
    unfold sf_grad, SF.sf_grad. revert HR SA' SB'.
    generalize (SF.update_x vec float vec float veqb p tA) (SF.update_x vec float vec float veqb p tB). clear tA tB SA SB.
    intros tA tB (R1 & R2 & R3 & R4 & R5) SA SB. unfold SF.update_grad. cbn [uf ug fdmode UA UB].
    destruct tA as [xa fa ga na ma sa], tB as [xb fb gb nb mb sb]. cbn in R1, R2, R3, R4, R5, SA, SB. subst xb nb mb sa sb.
    destruct ga as [g1|]; destruct gb as [g2|]; cbn in R3; try discriminate.
    - inversion R3; subst g2. cbn. unfold simR, img. cbn. rewrite !vscale_one. repeat split; auto.
    - cbn. unfold SF.call_g, call, bind, ret, lift. cbn. destruct (ug U xa) as [v|e|]; cbn; unfold simR, img; cbn; rewrite ?vscale_one; repeat split; auto.
  Qed.

  (* the two complete runs: EQUAL outcome (x, fun, jac, nfev, njev, nit, status, message, success, correction pairs - or the same
     exception), and B's trace is A's with the scaler call removed and the values returned by the user's functions scaled *)
  Theorem scaler_run : SR eq (run UA K c) (run UB K c).
  Proof.
    unfold run. destruct (bounds_error c); [split; [reflexivity|reflexivity]|].
    unfold ck_ok. rewrite no_checkpoint. rewrite !run_checked_steps. unfold run_steps.
    unfold step_f0, t_init, step_ft, step_gt, step_g, step_sc, step_upd, restored, nit_start, early_result. rewrite no_checkpoint, no_target.
    cbn [u_scaler u_upd u_gtol UA UB fst snd].
    set (x := vclip (x0 c) (lb c) (ub c)).
    eapply (simR_bind img img_app).
    { apply (f_sim1 x (SF.init vec float vec float x fone) (SF.init vec float vec float x fone)); [repeat split|reflexivity|reflexivity]. }
    intros [fa ta] [fb tb] (E1 & R1 & SA1 & SB1). cbn [fst snd] in *.
    rewrite !bind_ret_l.
    eapply (simR_bind img img_app) with (RV := eq).
    { destruct (gtol c); [apply (simR_ret img eq_refl); reflexivity|]. unfold call, simR, img. cbn. split; [destruct (u_gtol U); reflexivity|reflexivity]. }
    intros gt gt' <-. cbn [is_f0_target_reached].
    eapply (simR_bind img img_app); [apply (g_sim1 x ta tb R1 SA1 SB1)|].
    intros [ga ta2] [gb tb2] (E2 & R2 & SA2 & SB2). cbn [fst snd] in *.
    (* the scaler: an erased call on A's side *)
    rewrite bind_assoc. apply (simR_erased_call img img_app); [reflexivity|].
    rewrite !bind_ret_l. cbn [SF.set_scale SF.scale].
    assert (Ef : mul fa sg = mul fb (SF.scale _ _ _ _ tb2)).
    { rewrite SB2, E1. unfold fone. rewrite mul_one_r. reflexivity. }
    assert (Eg : vscale ga sg = vscale gb (SF.scale _ _ _ _ tb2)).
    { rewrite SB2, E2, vscale_one. reflexivity. }
    rewrite <- Ef, <- Eg.
    eapply (simR_bind img img_app) with (RV := lst_rel).
    - apply loop_sim. unfold first_state, restored, nit_start. rewrite no_checkpoint. cbn [u_upd UA UB fst snd].
      split; [reflexivity|]. cbn [s_sf]. split; [|split; [reflexivity|exact SB2]].
      destruct R2 as (Q1 & Q2 & Q3 & Q4 & Q5). repeat split; cbn; auto.
    - intros sA sB HR. apply (simR_ret img eq_refl).
      destruct HR as [E ((Q1 & Q2 & Q3 & Q4 & Q5) & _)].
      assert (Ecl : classify c gt sB = lst_with (s_sf sB) (classify c gt sA)).
      { rewrite E at 1. unfold classify. cbn [s_x s_g s_nit s_sf lst_with]. rewrite <- Q4.
        destruct (leb _ _); [reflexivity|]. destruct (_ >=? _); [reflexivity|]. destruct (_ >=? _); reflexivity. }
      rewrite Ecl. unfold snapshot. cbn [s_x s_f s_g s_sf s_warn s_msg s_succ s_X s_G s_nit lst_with].
      assert (Esf : s_sf (classify c gt sA) = s_sf sA).
      { unfold classify. destruct (leb _ _); [reflexivity|]. destruct (_ >=? _); [reflexivity|]. destruct (_ >=? _); reflexivity. }
      rewrite Esf, Q4, Q5. reflexivity.
  Qed.
End Scaler.

(* the scaler is invoked at most once per run, with the (clipped) start point, the unscaled gradient there and the bounds *)
From LBFGSB Require Import Base.Hoare Proofs.DriverReport.
Section ScalerOnce.
  Variable U : user.
  Variable K : kern.
  Variable c : cfg.

  Lemma cnt_quiet_step {A} (m : M ev A) r tr : hoare quiet m (fun _ => True) -> m = (r, tr) -> cntP isSc tr = 0.
  Proof. intros [H _] E. rewrite E in H. cbn in H. destruct (quiet_cnt _ H) as (_ & _ & H3). exact H3. Qed.

  Theorem scaler_once : forall r tr, run U K c = (Ok r, tr) ->
    cntP isSc tr <= 1 /\
    forall x g l u res, In (EvScaler x g l u res) tr ->
      x = vclip (x0 c) (lb c) (ub c) /\ l = lb c /\ u = ub c /\
      exists t1 t2 tr4, step_g U c x t1 = (Ok (g, t2), tr4) /\ SF.scale _ _ _ _ t1 = fone.
  Proof.
    intros r tr H. pose proof (run_shape_of U K c _ r tr H eq_refl) as S.
    set (x := vclip (x0 c) (lb c) (ub c)) in *.
    assert (Q0 : forall f t a (b : list ev), step_f0 U c x = (Ok (f, t), a) -> cntP isSc a = 0 /\ (forall e, In e a -> isSc e = false) /\ SF.scale _ _ _ _ t = fone).
    { intros f t a b E. unfold step_f0, t_init in E. destruct (checkpoint c).
      - unfold ret in E. inversion E; subst. repeat split; auto. intros e [].
      - split; [eapply cnt_quiet_step; [|exact E]; unfold sf_fun; eapply hoare_weaken; [apply quiet_lift|auto]|].
        split.
        + unfold sf_fun, lift in E. destruct (SF.sf_fun _ _ _ _ _ _ _ _ _) as [r0 t0]. cbn in E. inversion E; subst. intros e He.
          apply in_map_iff in He as (e0 & <- & _). destruct e0; reflexivity.
        + unfold sf_fun, lift in E. destruct (SF.sf_fun vec float vec float veqb mul (uf U) x _) as [r0 t0] eqn:E0. cbn in E. inversion E; subst.
          unfold SF.sf_fun, SF.update_x in E0. cbn in E0. destruct (veqb x x); cbn in E0;
            unfold bind, SF.call_f, call, ret in E0; destruct (uf U x); cbn in E0; inversion E0; reflexivity. }
    assert (Qft : forall ft a, step_ft U c = (Ok ft, a) -> forall e, In e a -> isSc e = false).
    { intros ft a E e He. unfold step_ft in E. destruct (ftarget c) as [[v|]|]; try (unfold ret in E; inversion E; subst; destruct He).
      unfold bind, call in E. destruct (u_ftarget U); cbn in E; inversion E; subst. destruct He as [<-|[]]. reflexivity. }
    assert (Qgt : forall gt a, step_gt U c = (Ok gt, a) -> forall e, In e a -> isSc e = false).
    { intros gt a E e He. unfold step_gt in E. destruct (gtol c); [unfold ret in E; inversion E; subst; destruct He|].
      unfold call in E. inversion E; subst. destruct He as [<-|[]]. reflexivity. }
    destruct S as [f0 t1 tr1 ft tr2 gt tr3 H1 H2 H3 Ht Hr Htr | f0 t1 tr1 ft tr2 gt tr3 g t2 tr4 t3 tr5 f1 g1 G1 tr6 s' tr7 H1 H2 H3 Ht H4 H5 H6 H7 Hr Htr].
    - destruct (Q0 _ _ _ [] H1) as (C1 & N1 & _).
      assert (Hno : forall e, In e tr -> isSc e = false).
      { intros e He. subst tr. rewrite !in_app_iff in He. destruct He as [He|[He|He]]; eauto. }
      split.
      + assert (cntP isSc tr = 0).
        { unfold cntP. clear - Hno. induction tr as [|e tr IH]; [reflexivity|]. cbn. rewrite (Hno e (or_introl eq_refl)). apply IH. intros; apply Hno; right; auto. }
        lia.
      + intros x' g' l u res He. specialize (Hno _ He). discriminate.
    - destruct (Q0 _ _ _ [] H1) as (C1 & N1 & S1).
      assert (N4 : forall e, In e tr4 -> isSc e = false).
      { intros e He. unfold step_g in H4. destruct (checkpoint c); [unfold ret in H4; inversion H4; subst; destruct He|].
        unfold sf_grad, lift in H4. destruct (SF.sf_grad _ _ _ _ _ _ _ _ _ _ _ _ _) as [r0 t0]. cbn in H4. inversion H4; subst.
        apply in_map_iff in He as (e0 & <- & _). destruct e0; reflexivity. }
      assert (N6 : forall e, In e tr6 -> isSc e = false).
      { intros e He. unfold step_upd in H6. destruct (u_upd U) as [u|]; [|unfold ret in H6; inversion H6; subst; destruct He].
        unfold bind, call in H6. destruct (u _ _ _ _ _ _) as [[[[a1 a2] a3] a4]| |]; cbn in H6; inversion H6; subst. destruct He as [<-|[]]. reflexivity. }
      assert (N7 : forall e, In e tr7 -> isSc e = false).
      { intros e He. pose proof (quiet_loop U K c (fuel0 c (nit_start c)) ft gt (first_state U K c x f1 g1 G1 t3)) as [Q _]. rewrite H7 in Q. cbn in Q.
        rewrite Forall_forall in Q. destruct (Q e He) as (_ & _ & Q3). exact Q3. }
      assert (N5 : tr5 = [] \/ exists res, tr5 = [EvScaler x g (lb c) (ub c) res]).
      { unfold step_sc in H5. destruct (u_scaler U) as [sc|]; [|unfold ret in H5; inversion H5; left; reflexivity].
        unfold bind, call in H5. destruct (sc x g (lb c) (ub c)) eqn:Es; cbn in H5; inversion H5; subst. right. eexists. reflexivity. }
      assert (Hcnt : forall l, (forall e, In e l -> isSc e = false) -> cntP isSc l = 0).
      { unfold cntP. induction l as [|e l IH]; intros Hl; [reflexivity|]. cbn. rewrite (Hl e (or_introl eq_refl)). apply IH. intros; apply Hl; right; auto. }
      split.
      + subst tr. rewrite !cntP_app, C1, (Hcnt tr2 (Qft _ _ H2)), (Hcnt tr3 (Qgt _ _ H3)), (Hcnt tr4 N4), (Hcnt tr6 N6), (Hcnt tr7 N7).
        destruct N5 as [->|(res & ->)]; [rewrite cntP_nil; lia|rewrite cntP_one; cbn; lia].
      + intros x' g' l u res He. subst tr. rewrite !in_app_iff in He.
        destruct He as [He|[He|[He|[He|[He|[He|He]]]]]];
          try (exfalso; first [specialize (N1 _ He)|specialize (Qft _ _ H2 _ He)|specialize (Qgt _ _ H3 _ He)|specialize (N4 _ He)|specialize (N6 _ He)|specialize (N7 _ He)]; discriminate).
        destruct N5 as [->|(res' & ->)]; [destruct He|]. destruct He as [He|[]]. inversion He; subst.
        repeat split; auto. exists t1, t2, tr4. split; [exact H4|exact S1].
  Qed.
End ScalerOnce.
