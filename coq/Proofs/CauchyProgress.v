(* ================================================================================================
   CauchyProgress.v -- progress of the generalized Cauchy point (model LBFGSB.Model.Cauchy.gcp).
   Exact rationals, every n, every memory size, every box; no axioms.

     P1  d0_zero_iff_kkt_at, stationary_iff_kkt     d0 = 0 on i < n  <->  x is a KKT point of the box problem
         stationary_gcp_stays                        ... and then x_cp == x
     P2  gcp_step_positive                           (a) 0 < t*
         gcp_moves                                   (b) x_cp differs from x
         gcp_linear_descent                          (c) g.(x_cp - x) < 0
         gcp_model_strict_decrease                   (d) m(x_cp) < m(x)
         gcp_progress                                (a)-(d) together
     P3  gcp_outward_bound_stays                     a variable on a bound with the gradient pushing outward:
                                                     d0 = 0, never fixed, x_cp == x
     Module ExP: a concrete run (n = 2) where the hypotheses of P2 hold and the conclusions are not trivial.
   ================================================================================================ *)
From Coq Require Import QArith Qabs List Bool Arith ZArith Lia Lqa Sorted.
Import ListNotations.
From LBFGSB Require Import Model.Cauchy Proofs.CauchyProofs.
Open Scope Q_scope.
Local Opaque Qred.

(* ------------------------------------------------------------------ scalars and sums *)
Lemma sq_nonneg : forall d : Q, 0 <= d * d.
Proof.
  intro d. destruct (Qlt_le_dec 0 d) as [H|H].
  - apply Qmult_le_0_compat; lra.
  - assert (E : d * d == (- d) * (- d)) by ring. rewrite E. apply Qmult_le_0_compat; lra.
Qed.

Lemma sq_pos : forall d : Q, ~ d == 0 -> 0 < d * d.
Proof.
  intros d Hd. destruct (Qlt_le_dec 0 d) as [H|H].
  - apply Qmult_lt_0_compat; assumption.
  - assert (d < 0) by (destruct (Qeq_dec d 0); [contradiction|lra]).
    assert (E : d * d == (- d) * (- d)) by ring. rewrite E. apply Qmult_lt_0_compat; lra.
Qed.

Lemma sumn_neg : forall k f,
  (forall i, (i < k)%nat -> f i <= 0) -> (exists i, (i < k)%nat /\ f i < 0) -> sumn k f < 0.
Proof.
  intros k f H [i [Hi Hn]].
  assert (P : 0 < sumn k (fun j => (-1) * f j)).
  { apply sumn_pos.
    - intros j Hj. specialize (H j Hj). lra.
    - exists i. split; [exact Hi|lra]. }
  rewrite sumn_scal in P. lra.
Qed.

(* on a segment of length D > 0 not longer than -f'/f'', starting with f' < 0, the quadratic decreases strictly *)
Lemma seg_neg : forall D f1 f2,
  f1 < 0 -> 0 < f2 -> 0 < D -> D * f2 <= - f1 -> D * f1 + (1 # 2) * (D * D) * f2 < 0.
Proof.
  intros D f1 f2 H1 H2 HD Hle.
  assert (A : 0 < D * (- f1)) by (apply Qmult_lt_0_compat; lra).
  assert (B : 0 <= D * (- f1 - D * f2)) by (apply Qmult_le_0_compat; lra).
  lra.
Qed.

Section Progress.
Variables (n m2 : nat) (x g : nat -> Q) (lb ub : nat -> option Q) (theta : Q).
Variables (W Mn : nat -> nat -> Q) (Md : Q) (use_factor : bool) (eps : Q).

Notation gcp := (gcp n m2 x g lb ub theta W Mn Md use_factor eps).
Notation bp := (bp x g lb ub).
Notation d0 := (d0 x g lb ub).
Notation tpos := (tpos x g lb ub).
Notation srt := (sorted_idx n x g lb ub).
Notation f1_0 := (f1_0 n x g lb ub).
Notation f2org := (f2org n x g lb ub theta).
Notation f2_0 := (f2_0 n m2 x g lb ub theta W Mn Md use_factor).
Notation st_init := (st0 n m2 x g lb ub W f1_0 f2_0).
Notation explored := (explored n m2 x g lb ub theta W Mn Md use_factor eps).
Notation Inv := (Inv n m2 x g lb ub W).
Notation zz := (zz x g lb ub).
Notation mval := (mval n m2 g theta W Mn Md use_factor).
Notation F1 := (F1 n m2 x g lb ub theta Mn Md use_factor).
Notation F2 := (F2 n m2 theta Mn Md use_factor).
Notation derivs_le := (derivs_le n m2 x g lb ub theta Mn Md use_factor).
Notation feasible := (feasible n lb ub).

(* ================================================================== P1: stationarity *)
(* x_i sits on its lower / upper bound *)
Definition on_lb (i : nat) : Prop := exists l, lb i = Some l /\ x i == l.
Definition on_ub (i : nat) : Prop := exists u, ub i = Some u /\ x i == u.

(* first-order (KKT) condition of  min f  s.t. lb <= x <= ub  at coordinate i, for the gradient g *)
Definition kkt_at (i : nat) : Prop :=
  g i == 0 \/ (0 < g i /\ on_lb i) \/ (g i < 0 /\ on_ub i).
Definition kkt : Prop := forall i, (i < n)%nat -> kkt_at i.

(* the projected steepest-descent direction vanishes *)
Definition stationary : Prop := forall i, (i < n)%nat -> d0 i == 0.

(* the bounds are given with Leibniz equality in the task statement: that form implies ours *)
Lemma on_lb_eq : forall i, lb i = Some (x i) -> on_lb i.
Proof. intros i H. exists (x i). split; [exact H|reflexivity]. Qed.
Lemma on_ub_eq : forall i, ub i = Some (x i) -> on_ub i.
Proof. intros i H. exists (x i). split; [exact H|reflexivity]. Qed.

(* breakpoint zero <-> on a bound with the gradient pushing outward *)
Lemma bp_zero_iff : forall i,
  (exists t, bp i = Some t /\ t == 0) <-> (0 < g i /\ on_lb i) \/ (g i < 0 /\ on_ub i).
Proof.
  intro i. split.
  - intros [t [E Ht]]. destruct (bp_Some_inv x g lb ub i t E) as [[Hg [u [Eu Et]]]|[Hg [l [El Et]]]].
    + right. split; [exact Hg|]. exists u. split; [exact Eu|].
      assert (A : t * g i == x i - u) by (rewrite Et; field; lra). rewrite Ht in A. lra.
    + left. split; [exact Hg|]. exists l. split; [exact El|].
      assert (A : t * g i == x i - l) by (rewrite Et; field; lra). rewrite Ht in A. lra.
  - intros [[Hg [l [El Hx]]]|[Hg [u [Eu Hx]]]].
    + exists (Qred ((x i - l) / g i)). split.
      * unfold Cauchy.bp.
        assert (E0 : Qeq_bool (g i) 0 = false) by (apply Qeqb_false; lra).
        assert (E1 : Qltb (g i) 0 = false) by (apply Qltb_false; lra).
        rewrite E0, E1, El. reflexivity.
      * rewrite Qred_correct. unfold Qdiv. setoid_replace (x i - l) with 0 by lra. ring.
    + exists (Qred ((x i - u) / g i)). split.
      * unfold Cauchy.bp.
        assert (E0 : Qeq_bool (g i) 0 = false) by (apply Qeqb_false; lra).
        assert (E1 : Qltb (g i) 0 = true) by (apply Qltb_true; lra).
        rewrite E0, E1, Eu. reflexivity.
      * rewrite Qred_correct. unfold Qdiv. setoid_replace (x i - u) with 0 by lra. ring.
Qed.

Lemma d0_zero_iff : forall i, d0 i == 0 <-> g i == 0 \/ (exists t, bp i = Some t /\ t == 0).
Proof.
  intro i. split.
  - intro H. destruct (bp i) as [t|] eqn:E.
    + destruct (Qeq_dec t 0) as [Ht|Ht].
      * right. exists t. split; [reflexivity|exact Ht].
      * left. rewrite (d0_Some_nz x g lb ub i t E Ht) in H. lra.
    + left. rewrite (d0_None x g lb ub i E) in H. lra.
  - intros [Hg|[t [E Ht]]].
    + unfold Cauchy.d0. destruct (bp i) as [t|]; [destruct (Qeq_bool t 0)|]; lra.
    + rewrite (d0_Some_z x g lb ub i t E Ht). reflexivity.
Qed.

(* P1, coordinate by coordinate (no feasibility needed) *)
Theorem d0_zero_iff_kkt_at : forall i, d0 i == 0 <-> kkt_at i.
Proof. intro i. unfold kkt_at. rewrite d0_zero_iff, bp_zero_iff. reflexivity. Qed.

(* P1 *)
Theorem stationary_iff_kkt : stationary <-> kkt.
Proof.
  split; intros H i Hi; [apply d0_zero_iff_kkt_at | apply d0_zero_iff_kkt_at]; apply H; exact Hi.
Qed.

(* P1 in the wording of the task: bounds attained with Leibniz equality are a special case *)
Corollary kkt_eq_stationary :
  (forall i, (i < n)%nat ->
     g i == 0 \/ (0 < g i /\ lb i = Some (x i)) \/ (g i < 0 /\ ub i = Some (x i))) -> stationary.
Proof.
  intros H. apply stationary_iff_kkt. intros i Hi.
  destruct (H i Hi) as [Hg|[[Hg E]|[Hg E]]].
  - left; exact Hg.
  - right; left. split; [exact Hg|apply on_lb_eq; exact E].
  - right; right. split; [exact Hg|apply on_ub_eq; exact E].
Qed.

(* not stationary <-> some coordinate violates the KKT condition (d0 i == 0 is decidable) *)
Theorem not_stationary_iff :
  (exists i, (i < n)%nat /\ ~ d0 i == 0) <-> (exists i, (i < n)%nat /\ ~ kkt_at i).
Proof.
  split; intros [i [Hi H]]; exists i; (split; [exact Hi|]); intro X; apply H; apply d0_zero_iff_kkt_at; exact X.
Qed.

(* a few facts on d0 *)
Lemma g_d0 : forall i, g i * d0 i == - (d0 i * d0 i).
Proof. intro i. unfold Cauchy.d0. destruct (bp i) as [t|]; [destruct (Qeq_bool t 0)|]; ring. Qed.

Lemma d0_nz_tpos : forall i, within (x i) (lb i) (ub i) -> ~ d0 i == 0 -> tpos i = true.
Proof.
  intros i Hw Hd. destruct (tpos i) eqn:E; [reflexivity|].
  exfalso. apply Hd. rewrite (d0_not_tpos x g lb ub i Hw E). reflexivity.
Qed.

(* ================================================================== under feasibility *)
Hypothesis Hfeas : feasible x.

Lemma nonstat_srt : (exists i, (i < n)%nat /\ ~ d0 i == 0) -> srt <> [].
Proof.
  intros [i [Hi Hd]] E.
  assert (Hin : In i srt).
  { apply (proj2 (sorted_idx_In n x g lb ub W Mn i)). split; [exact Hi|].
    apply d0_nz_tpos; [apply Hfeas; exact Hi|exact Hd]. }
  rewrite E in Hin. destruct Hin.
Qed.

(* a stationary point is returned unchanged *)
Theorem stationary_gcp_stays : stationary ->
  forall xcp c fx ts ns mg, gcp = Ok xcp c fx ts ns mg ->
  fx = [] /\ forall i, (i < n)%nat -> xcp i == x i.
Proof.
  intros Hst xcp c fx ts ns mg Hr.
  assert (Hnf : forall i, (i < n)%nat -> ~ In i fx).
  { intros i Hi. apply (gcp_never_fixed n m2 x g lb ub theta W Mn Md use_factor eps Hfeas _ _ _ _ _ _ i Hr).
    apply d0_zero_iff. apply Hst; exact Hi. }
  assert (Efx : fx = []).
  { destruct fx as [|b fx']; [reflexivity|]. exfalso.
    pose proof (gcp_post n m2 x g lb ub theta W Mn Md use_factor eps Hfeas) as HP. rewrite Hr in HP.
    destruct HP as [rest [Hs _]].
    assert (Hin : In b srt) by (rewrite Hs; left; reflexivity).
    apply (proj1 (sorted_idx_In n x g lb ub W Mn _)) in Hin. destruct Hin as [Hb _]. apply (Hnf b Hb). left; reflexivity. }
  split; [exact Efx|]. intros i Hi.
  destruct (gcp_pinned_feasible n m2 x g lb ub theta W Mn Md use_factor eps Hfeas _ _ _ _ _ _ Hr) as [_ [_ H3]].
  destruct (H3 i Hi (Hnf i Hi)) as [E _]. rewrite E, (Hst i Hi). ring.
Qed.

(* ================================================================== P3 *)
Theorem gcp_outward_bound_stays : forall i,
  (0 < g i /\ on_lb i) \/ (g i < 0 /\ on_ub i) ->
  d0 i = 0 /\
  forall xcp c fx ts ns mg, gcp = Ok xcp c fx ts ns mg ->
    ~ In i fx /\ ((i < n)%nat -> xcp i == x i).
Proof.
  intros i Hb. apply bp_zero_iff in Hb. destruct Hb as [t [E Ht]].
  assert (Hd : d0 i = 0) by (apply (d0_Some_z x g lb ub i t E Ht)).
  split; [exact Hd|]. intros xcp c fx ts ns mg Hr.
  assert (Hnf : ~ In i fx).
  { apply (gcp_never_fixed n m2 x g lb ub theta W Mn Md use_factor eps Hfeas _ _ _ _ _ _ i Hr).
    right. exists t. split; [exact E|exact Ht]. }
  split; [exact Hnf|]. intro Hi.
  destruct (gcp_pinned_feasible n m2 x g lb ub theta W Mn Md use_factor eps Hfeas _ _ _ _ _ _ Hr) as [_ [_ H3]].
  destruct (H3 i Hi Hnf) as [Ex _]. rewrite Ex, Hd. ring.
Qed.

(* P3 in the wording of the task *)
Corollary gcp_outward_bound_stays_eq : forall i,
  (lb i = Some (x i) /\ 0 < g i) \/ (ub i = Some (x i) /\ g i < 0) ->
  d0 i == 0 /\
  forall xcp c fx ts ns mg, gcp = Ok xcp c fx ts ns mg ->
    ~ In i fx /\ ((i < n)%nat -> xcp i == x i).
Proof.
  intros i H.
  assert (Hb : (0 < g i /\ on_lb i) \/ (g i < 0 /\ on_ub i)).
  { destruct H as [[E Hg]|[E Hg]]; [left; split; [exact Hg|apply on_lb_eq; exact E]
                                    |right; split; [exact Hg|apply on_ub_eq; exact E]]. }
  destruct (gcp_outward_bound_stays i Hb) as [Hd Hrest]. split; [rewrite Hd; reflexivity|exact Hrest].
Qed.

(* ================================================================== P2 *)
Hypothesis Hmove : exists i, (i < n)%nat /\ ~ d0 i == 0.     (* x is not stationary *)

(* the first stored derivative: f'_0 = - |d0|^2 < 0 *)
Lemma f1_0_neg : f1_0 < 0.
Proof.
  destruct Hmove as [i [Hi Hd]]. unfold Cauchy.f1_0. rewrite Qred_correct.
  assert (0 < sumn n (fun i => d0 i * d0 i)).
  { apply sumn_pos; [intros k _; apply sq_nonneg|]. exists i. split; [exact Hi|apply sq_pos; exact Hd]. }
  lra.
Qed.

Hypothesis Hf2 : 0 < f2_0.                                   (* positive curvature along d0 *)

(* the minimiser of the first segment is at a positive distance *)
Lemma dtm0_pos : 0 < s_dtm st_init /\ s_dtm st_init * f2_0 == - f1_0.
Proof.
  unfold Cauchy.st0; simpl. rewrite Qred_correct. pose proof f1_0_neg as H1. split.
  - unfold Qdiv. apply Qmult_lt_0_compat; [lra|]. apply Qinv_lt_0_compat. exact Hf2.
  - field. lra.
Qed.

Lemma explored_nil : forall rest st stk, explored rest st [] stk -> stk = st.
Proof. intros rest st stk H. inversion H; subst. reflexivity. Qed.

(* (a) the Cauchy step is strictly positive *)
Theorem gcp_step_positive : forall xcp c fx ts ns mg, gcp = Ok xcp c fx ts ns mg -> 0 < ts.
Proof.
  intros xcp c fx ts ns mg Hr. destruct fx as [|b fx'].
  - destruct (gcp_stop_first n m2 x g lb ub theta W Mn Md use_factor eps _ _ _ _ _ _ (nonstat_srt Hmove) Hr)
      as [stk [He [_ Hts]]].
    apply explored_nil in He. subst stk. destruct dtm0_pos as [Hp _].
    assert (E : Qltb (s_dtm st_init) 0 = false) by (apply Qltb_false; lra).
    rewrite E in Hts. change (s_told st_init) with 0 in Hts. lra.
  - pose proof (gcp_post n m2 x g lb ub theta W Mn Md use_factor eps Hfeas) as HP. rewrite Hr in HP.
    destruct HP as [rest [Hs [_ [_ [_ [Hfx _]]]]]].
    destruct (Hfx b (or_introl eq_refl)) as [t [E Hle]].
    assert (Hin : In b srt) by (rewrite Hs; left; reflexivity).
    apply (proj1 (sorted_idx_In n x g lb ub W Mn _)) in Hin. destruct Hin as [_ Hp].
    apply (tpos_Some x g lb ub b t E) in Hp. lra.
Qed.

(* the displacement of every variable is a positive multiple of d0 *)
Lemma disp_pos_multiple : forall xcp c fx ts ns mg, gcp = Ok xcp c fx ts ns mg ->
  forall i, (i < n)%nat -> exists tau, 0 < tau /\ xcp i - x i == tau * d0 i.
Proof.
  intros xcp c fx ts ns mg Hr i Hi.
  pose proof (gcp_step_positive _ _ _ _ _ _ Hr) as Hts.
  pose proof (disp_zz n m2 x g lb ub theta W Mn Md use_factor eps Hfeas _ _ _ _ _ _ Hr i Hi) as E0.
  unfold CauchyProofs.zz in E0. destruct (in_dec Nat.eq_dec i fx) as [Hin|Hnin].
  - pose proof (gcp_post n m2 x g lb ub theta W Mn Md use_factor eps Hfeas) as HP. rewrite Hr in HP.
    destruct HP as [rest [Hs [_ [_ [_ [Hfx _]]]]]].
    destruct (Hfx i Hin) as [t [E Hle]].
    assert (Hs' : In i srt) by (rewrite Hs; apply in_or_app; left; exact Hin).
    apply (proj1 (sorted_idx_In n x g lb ub W Mn _)) in Hs'. destruct Hs' as [_ Hp]. apply (tpos_Some x g lb ub i t E) in Hp.
    exists t. split; [exact Hp|]. unfold tval in E0. rewrite E in E0. exact E0.
  - exists ts. split; [exact Hts|exact E0].
Qed.

(* (b) the Cauchy point is not x *)
Theorem gcp_moves : forall xcp c fx ts ns mg, gcp = Ok xcp c fx ts ns mg ->
  exists i, (i < n)%nat /\ ~ xcp i == x i.
Proof.
  intros xcp c fx ts ns mg Hr. destruct Hmove as [i [Hi Hd]]. exists i. split; [exact Hi|].
  destruct (disp_pos_multiple _ _ _ _ _ _ Hr i Hi) as [tau [Htau E]].
  intro X. assert (Z : tau * d0 i == 0) by (rewrite <- E, X; ring).
  apply Qmult_integral in Z. destruct Z as [Z|Z]; [lra|contradiction].
Qed.

(* ... more precisely: every variable with d0 i <> 0 moves, in the direction of -g i *)
Theorem gcp_moves_each : forall xcp c fx ts ns mg, gcp = Ok xcp c fx ts ns mg ->
  forall i, (i < n)%nat -> ~ d0 i == 0 -> g i * (xcp i - x i) < 0.
Proof.
  intros xcp c fx ts ns mg Hr i Hi Hd.
  destruct (disp_pos_multiple _ _ _ _ _ _ Hr i Hi) as [tau [Htau E]].
  rewrite E. assert (A : g i * (tau * d0 i) == - (tau * (d0 i * d0 i))) by (setoid_replace (g i * (tau * d0 i)) with (tau * (g i * d0 i)) by ring; rewrite (g_d0 i); ring).
  rewrite A. assert (0 < tau * (d0 i * d0 i)) by (apply Qmult_lt_0_compat; [exact Htau|apply sq_pos; exact Hd]). lra.
Qed.

(* (c) the move is a strict descent direction for the linear part g.(x_cp - x) *)
Theorem gcp_linear_descent : forall xcp c fx ts ns mg, gcp = Ok xcp c fx ts ns mg ->
  sumn n (fun i => g i * (xcp i - x i)) < 0.
Proof.
  intros xcp c fx ts ns mg Hr. apply sumn_neg.
  - intros i Hi. destruct (disp_pos_multiple _ _ _ _ _ _ Hr i Hi) as [tau [Htau E]].
    rewrite E. assert (A : g i * (tau * d0 i) == - (tau * (d0 i * d0 i))) by (setoid_replace (g i * (tau * d0 i)) with (tau * (g i * d0 i)) by ring; rewrite (g_d0 i); ring).
    rewrite A. assert (0 <= tau * (d0 i * d0 i)) by (apply Qmult_le_0_compat; [lra|apply sq_nonneg]). lra.
  - destruct Hmove as [i [Hi Hd]]. exists i. split; [exact Hi|].
    apply (gcp_moves_each _ _ _ _ _ _ Hr i Hi Hd).
Qed.

(* ------------------------------------------------------------------ (d) strict decrease of the model *)
Hypothesis HMd : ~ Md == 0.
Hypothesis Hsym : Msym m2 Mn Md.
Hypothesis Hpos : 0 < eps * f2org.

(* [explored_decrease] relative to the starting value instead of 0 *)
Lemma explored_decrease_rel : forall rest st fxs stk,
  explored rest st fxs stk -> Inv rest st -> derivs_le st -> good st ->
  mval (zz (s_fixed stk) (s_told stk + (if Qltb (s_dtm stk) 0 then 0 else s_dtm stk)))
    <= mval (zz (s_fixed st) (s_told st)).
Proof.
  intros rest st fxs stk H.
  induction H as [rest st Hs|b rest st tc st' fxs stk Hb Hle Hst _ IH]; intros HI [L1 L2] [G1 G2].
  - set (D := if Qltb (s_dtm st) 0 then 0 else s_dtm st).
    rewrite (mval_ext n m2 g theta W Mn Md use_factor _ (fun i => zz (s_fixed st) (s_told st) i + D * s_d st i)).
    + rewrite (mval_move n m2 x g lb ub theta W Mn Md use_factor Hsym rest st D HI).
      assert (X : D * F1 st + (1 # 2) * (D * D) * F2 st <= 0).
      { unfold D. destruct (Qltb (s_dtm st) 0) eqn:E; [lra|]. apply Qltb_false in E.
        apply (seg_nonpos (s_dtm st) (s_f1 st) (s_f2 st)); try assumption.
        rewrite G2. assert (X : - s_f1 st / s_f2 st * s_f2 st == - s_f1 st) by (field; lra). lra. }
      lra.
    + intros i Hi. unfold CauchyProofs.zz. rewrite (I_d _ _ _ _ _ _ _ _ _ HI i Hi).
      destruct (in_dec Nat.eq_dec i (s_fixed st)); ring.
  - destruct (step_fields n m2 x g lb ub theta W Mn Md use_factor eps _ _ _ _ Hst) as [Hfx [Htold _]].
    pose proof (I_rest _ _ _ _ _ _ _ _ _ HI b (or_introl eq_refl)) as Hr. rewrite Hb in Hr. apply ele_Some in Hr.
    apply (Qle_trans _ (mval (zz (s_fixed st') (s_told st')))).
    + apply IH.
      * apply (step_inv n m2 x g lb ub theta W Mn Md use_factor eps b rest st tc st' HI Hb Hst).
      * apply (step_derivs_le n m2 x g lb ub theta W Mn Md use_factor eps HMd Hsym b rest st tc st' HI (conj L1 L2) Hb Hst).
      * apply (step_good n m2 x g lb ub theta W Mn Md use_factor eps Hpos _ _ _ _ Hst).
    + rewrite Hfx, Htold.
      rewrite (mval_ext n m2 g theta W Mn Md use_factor _
                 (fun i => zz (s_fixed st) (s_told st) i + (tc - s_told st) * s_d st i))
        by (intros i Hi; apply (zz_step n m2 x g lb ub W Mn b rest st tc i HI Hb Hi)).
      rewrite (mval_move n m2 x g lb ub theta W Mn Md use_factor Hsym (b :: rest) st (tc - s_told st) HI).
      assert (X : (tc - s_told st) * F1 st + (1 # 2) * ((tc - s_told st) * (tc - s_told st)) * F2 st <= 0).
      { apply (seg_nonpos (tc - s_told st) (s_f1 st) (s_f2 st)); try assumption; [lra|].
        assert (Y : (tc - s_told st) * s_f2 st <= s_dtm st * s_f2 st) by (apply Qmult_le_compat_r; lra).
        rewrite G2 in Y. assert (X : - s_f1 st / s_f2 st * s_f2 st == - s_f1 st) by (field; lra). lra. }
      lra.
Qed.

(* the model value at the end of a piece of length D of the first segment *)
Lemma first_segment : forall D, 0 < D -> D <= s_dtm st_init ->
  mval (fun i => zz (s_fixed st_init) (s_told st_init) i + D * s_d st_init i) < 0.
Proof.
  intros D HD Hle.
  rewrite (mval_move n m2 x g lb ub theta W Mn Md use_factor Hsym srt st_init D
             (Inv_init n m2 x g lb ub W Mn f1_0 f2_0)).
  destruct (derivs_init n m2 x g lb ub theta W Mn Md use_factor HMd) as [E1 E2].
  change (s_f1 st_init) with f1_0 in E1. change (s_f2 st_init) with f2_0 in E2.
  rewrite <- E1, <- E2.
  assert (Z : mval (zz (s_fixed st_init) (s_told st_init)) == 0).
  { apply mval_zero. intros i _. unfold CauchyProofs.zz; simpl. ring. }
  rewrite Z. destruct dtm0_pos as [_ Hd].
  assert (Y : D * f2_0 <= s_dtm st_init * f2_0) by (apply Qmult_le_compat_r; lra).
  pose proof (seg_neg D f1_0 f2_0 f1_0_neg Hf2 HD). lra.
Qed.

(* (d) *)
Theorem gcp_model_strict_decrease : forall xcp c fx ts ns mg, gcp = Ok xcp c fx ts ns mg ->
  mval (fun i => xcp i - x i) < 0.
Proof.
  intros xcp c fx ts ns mg Hr.
  rewrite (mval_ext n m2 g theta W Mn Md use_factor _ (zz fx ts)
             (disp_zz n m2 x g lb ub theta W Mn Md use_factor eps Hfeas _ _ _ _ _ _ Hr)).
  pose proof (nonstat_srt Hmove) as Hne.
  pose proof Hr as Hr'. unfold Cauchy.gcp in Hr'. destruct srt as [|b0 rest0] eqn:Es; [contradiction|].
  destruct (Qeq_bool f2_0 0); [discriminate|]. rewrite <- Es in Hr'.
  destruct (loop_explored n m2 x g lb ub theta W Mn Md use_factor eps _ _ _ _ _ _ _ _ Hr')
    as [fxs [stk [He [Hfx [Hk Hts]]]]].
  rewrite (mval_ext n m2 g theta W Mn Md use_factor _
             (zz (s_fixed stk) (s_told stk + (if Qltb (s_dtm stk) 0 then 0 else s_dtm stk))))
    by (intros i _; rewrite Hk; apply zz_compat; exact Hts).
  destruct dtm0_pos as [Hdp _].
  pose proof (Inv_init n m2 x g lb ub W Mn f1_0 f2_0) as HI0.
  inversion He as [rest st Hs|b rest st tc st' fxs' stk' Hb Hle Hst He']; subst.
  - (* the loop stops in the first segment: t* = -f'_0 / f''_0 *)
    assert (E : Qltb (s_dtm st_init) 0 = false) by (apply Qltb_false; lra). rewrite E.
    rewrite (mval_ext n m2 g theta W Mn Md use_factor _
               (fun i => zz (s_fixed st_init) (s_told st_init) i + s_dtm st_init * s_d st_init i)).
    + apply first_segment; lra.
    + intros i Hi. unfold CauchyProofs.zz; simpl. ring.
  - (* at least one breakpoint is passed: strict decrease on the first segment, no increase afterwards *)
    match goal with H : _ :: _ = srt |- _ => rewrite <- H in HI0 end.
    assert (Htc : 0 < tc).
    { destruct (Inv_head n m2 x g lb ub W Mn _ _ _ HI0) as [_ [Hp _]].
      apply (tpos_Some x g lb ub b tc Hb). exact Hp. }
    change (s_told st_init) with 0 in Hle.
    destruct (step_fields n m2 x g lb ub theta W Mn Md use_factor eps _ _ _ _ Hst) as [Hfx' [Htold _]].
    apply (Qle_lt_trans _ (mval (zz (s_fixed st') (s_told st')))).
    + apply (explored_decrease_rel _ _ _ _ He').
      * apply (step_inv n m2 x g lb ub theta W Mn Md use_factor eps b rest st_init tc st' HI0 Hb Hst).
      * apply (step_derivs_le n m2 x g lb ub theta W Mn Md use_factor eps HMd Hsym b rest st_init tc st' HI0); [|exact Hb|exact Hst].
        destruct (derivs_init n m2 x g lb ub theta W Mn Md use_factor HMd) as [E1 E2]. split; lra.
      * apply (step_good n m2 x g lb ub theta W Mn Md use_factor eps Hpos _ _ _ _ Hst).
    + rewrite Hfx', Htold.
      rewrite (mval_ext n m2 g theta W Mn Md use_factor _
                 (fun i => zz (s_fixed st_init) (s_told st_init) i + (tc - s_told st_init) * s_d st_init i))
        by (intros i Hi; apply (zz_step n m2 x g lb ub W Mn b rest st_init tc i HI0 Hb Hi)).
      change (s_told st_init) with 0.
      rewrite (mval_ext n m2 g theta W Mn Md use_factor _
                 (fun i => zz (s_fixed st_init) (s_told st_init) i + tc * s_d st_init i))
        by (intros i Hi; change (s_told st_init) with 0; ring).
      apply first_segment; lra.
Qed.

(* P2: all together *)
Theorem gcp_progress : forall xcp c fx ts ns mg, gcp = Ok xcp c fx ts ns mg ->
  0 < ts /\
  (exists i, (i < n)%nat /\ ~ xcp i == x i) /\
  sumn n (fun i => g i * (xcp i - x i)) < 0 /\
  mval (fun i => xcp i - x i) < 0.
Proof.
  intros xcp c fx ts ns mg Hr.
  split; [apply (gcp_step_positive _ _ _ _ _ _ Hr)|].
  split; [apply (gcp_moves _ _ _ _ _ _ Hr)|].
  split; [apply (gcp_linear_descent _ _ _ _ _ _ Hr)|apply (gcp_model_strict_decrease _ _ _ _ _ _ Hr)].
Qed.

End Progress.

(* ================================================================== non-vacuity: a concrete run
   n = 2.  Variable 0 sits on its lower bound with the gradient pushing outward (g_0 = 1 > 0, x_0 = lb_0 = 0);
   variable 1 is free to move (g_1 = -1, upper bound 1 reached at t = 1).  A 2-column memory.
   theta = 2  : the loop stops inside the first segment, t* = 4/7, nothing is fixed;
   theta = 1/2: the minimiser of the first segment (t = 4) is beyond the breakpoint t = 1: variable 1 is fixed
                on its upper bound, t* = 1 (the branch "at least one breakpoint passed" of the proof of (d)). *)
Module ExP.
Definition x := [0; 0].
Definition g := [1; -1].
Definition lb := [Some 0; Some (-1)].
Definition ub := [Some 1; Some 1].
Definition W := [[1;0];[0;1]].
Definition Mn := [[-1#2;0];[0;1#4]].
Definition eps := 1 # 4503599627370496.
Definition Xf := nthQ x.  Definition Gf := nthQ g.  Definition LBf := ntho lb.  Definition UBf := ntho ub.
Definition Wf := mat W.   Definition Mf := mat Mn.
Definition G (theta : Q) := gcp 2 2 Xf Gf LBf UBf theta Wf Mf 1 true eps.
Definition run (theta : Q) := gcp_list x g lb ub theta W Mn 1 true eps.

Example run_theta2 : run 2 = mkout true [0; 4#7] [0; 4#7] [] (4#7) 1 (1#6).
Proof. vm_compute. reflexivity. Qed.
Example run_theta_half : run (1#2) = mkout true [0; 1] [0; 1] [1%nat] 1 2 (1#2).
Proof. vm_compute. reflexivity. Qed.

(* the hypotheses *)
Lemma feasible_ex : feasible 2 LBf UBf Xf.
Proof. intros i Hi. do 2 (destruct i as [|i]; [vm_compute; split; discriminate|]). lia. Qed.

(* variable 0: on its lower bound, gradient outward; its component of d0 is 0 *)
Example var0_on_bound : LBf 0%nat = Some (Xf 0%nat) /\ 0 < Gf 0%nat /\ d0 Xf Gf LBf UBf 0 = 0.
Proof. vm_compute. repeat split. Qed.
(* variable 1 can move: x is not stationary, i.e. not a KKT point *)
Example nonstat_ex : exists i, (i < 2)%nat /\ ~ d0 Xf Gf LBf UBf i == 0.
Proof. exists 1%nat. split; [lia|]. vm_compute. discriminate. Qed.
Example not_kkt_ex : ~ kkt 2 Xf Gf LBf UBf.
Proof.
  intro H. apply stationary_iff_kkt in H. destruct nonstat_ex as [i [Hi Hd]]. apply Hd, H, Hi.
Qed.
Example Msym_ex : Msym 2 Mf 1.
Proof. intros j k Hj Hk. destruct j as [|[|j]], k as [|[|k]]; try lia; vm_compute; reflexivity. Qed.
Example Md_ex : ~ 1 == 0.
Proof. vm_compute. discriminate. Qed.
Example curvature_ex : forall theta, theta = 2 \/ theta = 1#2 ->
  0 < eps * f2org 2 Xf Gf LBf UBf theta /\ 0 < f2_0 2 2 Xf Gf LBf UBf theta Wf Mf 1 true.
Proof. intros theta [->| ->]; split; vm_compute; reflexivity. Qed.

(* the model does return a value (gcp_no_error), and P2 applies to it *)
Example returns_ex : forall theta, theta = 2 \/ theta = 1#2 ->
  exists xcp c fx ts ns mg, G theta = Ok xcp c fx ts ns mg.
Proof.
  intros theta Ht. destruct (curvature_ex theta Ht) as [_ Hf2].
  apply (gcp_no_error 2 2 Xf Gf LBf UBf theta Wf Mf 1 true eps).
  - destruct Ht as [->| ->]; vm_compute; reflexivity.
  - vm_compute; reflexivity.
  - exact nonstat_ex.
  - intro E. rewrite E in Hf2. apply (Qlt_irrefl 0). exact Hf2.
Qed.

Example progress_applies : forall theta, theta = 2 \/ theta = 1#2 ->
  forall xcp c fx ts ns mg, G theta = Ok xcp c fx ts ns mg ->
  0 < ts /\ (exists i, (i < 2)%nat /\ ~ xcp i == Xf i) /\
  sumn 2 (fun i => Gf i * (xcp i - Xf i)) < 0 /\
  mval 2 2 Gf theta Wf Mf 1 true (fun i => xcp i - Xf i) < 0.
Proof.
  intros theta Ht. destruct (curvature_ex theta Ht) as [Hpos Hf2].
  exact (gcp_progress 2 2 Xf Gf LBf UBf theta Wf Mf 1 true eps feasible_ex nonstat_ex Hf2 Md_ex Msym_ex Hpos).
Qed.

Example outward_applies : forall theta xcp c fx ts ns mg, G theta = Ok xcp c fx ts ns mg ->
  ~ In 0%nat fx /\ xcp 0%nat == Xf 0%nat.
Proof.
  intros theta xcp c fx ts ns mg Hr.
  destruct (gcp_outward_bound_stays_eq 2 2 Xf Gf LBf UBf theta Wf Mf 1 true eps feasible_ex 0%nat) as [_ H].
  - left. split; [reflexivity|vm_compute; reflexivity].
  - destruct (H _ _ _ _ _ _ Hr) as [H1 H2]. split; [exact H1|apply H2; lia].
Qed.

(* the values: t*, the move, g.(x_cp - x) and m(x_cp) - m(x) *)
Example values_theta2 :
  o_tstar (run 2) = 4#7 /\ o_xcp (run 2) = [0; 4#7] /\
  sumn 2 (fun i => Gf i * (nthQ (o_xcp (run 2)) i - Xf i)) == - (4#7) /\
  mval 2 2 Gf 2 Wf Mf 1 true (fun i => nthQ (o_xcp (run 2)) i - Xf i) == - (2#7).
Proof. vm_compute. repeat split. Qed.
Example values_theta_half :
  o_tstar (run (1#2)) = 1 /\ o_xcp (run (1#2)) = [0; 1] /\ o_fixed (run (1#2)) = [1%nat] /\
  sumn 2 (fun i => Gf i * (nthQ (o_xcp (run (1#2))) i - Xf i)) == - 1 /\
  mval 2 2 Gf (1#2) Wf Mf 1 true (fun i => nthQ (o_xcp (run (1#2))) i - Xf i) == - (7#8).
Proof. vm_compute. repeat split. Qed.
End ExP.

Print Assumptions d0_zero_iff_kkt_at.
Print Assumptions stationary_iff_kkt.
Print Assumptions kkt_eq_stationary.
Print Assumptions not_stationary_iff.
Print Assumptions stationary_gcp_stays.
Print Assumptions gcp_step_positive.
Print Assumptions gcp_moves.
Print Assumptions gcp_moves_each.
Print Assumptions gcp_linear_descent.
Print Assumptions gcp_model_strict_decrease.
Print Assumptions gcp_progress.
Print Assumptions gcp_outward_bound_stays.
Print Assumptions gcp_outward_bound_stays_eq.
Print Assumptions ExP.progress_applies.
Print Assumptions ExP.returns_ex.
