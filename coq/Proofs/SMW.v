(* C09 — the Sherman-Morrison-Woodbury step at the end of lbfgsb/subspacemin.py:subspace_minimization
   yields the exact reduced Newton direction.  MathComp matrices over an arbitrary field, all sizes.

   Source (t free variables, k = 2m):
       WTZ  = Z.T.dot(W).T                                   A   : k x t
       v    = WTZ.dot(rHat)                                  A r
       fallback branch : v = bmv(.,v) ; N = I - invThet*bmv(., WTZ WTZ^T) ; v = solve(N, v)
                                                              (1 - theta^-1 M A A^T) v = M A r
       main branch     : K = M^-1 (I - 1/theta M WTZ WTZ^T)  (form_k), LEL^T-solve K v = WTZ rHat
                                                              (Minv - theta^-1 A A^T) v = A r
       dHat = -invThet * (rHat + invThet * WTZ.T.dot(v))      d = -(theta^-1 (r + theta^-1 A^T v))
   Reduced Hessian  H = Z^T B Z = theta I - A^T M A   (B = theta I - W M W^T, Z^T Z = I). *)
From mathcomp Require Import all_ssreflect all_algebra.
Set Implicit Arguments.
Unset Strict Implicit.
Unset Printing Implicit Defensive.
Import GRing.Theory Num.Theory.
Local Open Scope ring_scope.

Section SMW.
Variables (F : fieldType) (t k : nat).
Variables (theta : F) (A : 'M[F]_(k, t)) (M : 'M[F]_k) (r : 'cV[F]_t) (v : 'cV[F]_k).
Hypothesis theta_neq0 : theta != 0.

Definition Nmat : 'M[F]_k := 1%:M - theta^-1 *: (M *m (A *m A^T)).
Definition Hred : 'M[F]_t := theta%:M - A^T *m M *m A.
Definition dhat : 'cV[F]_t := - (theta^-1 *: (r + theta^-1 *: (A^T *m v))).

(* fallback branch of the source: np.linalg.solve(N, M A r) *)
Theorem smw_direction (Hv : Nmat *m v = M *m (A *m r)) : Hred *m dhat = - r.
Proof.
have Ev : M *m (A *m r) + theta^-1 *: (M *m (A *m (A^T *m v))) = v.
  rewrite -Hv /Nmat mulmxBl mul1mx -scalemxAl -!mulmxA subrK //.
rewrite /Hred /dhat mulmxN mulmxBl mul_scalar_mx scalerA divff // scale1r.
rewrite -scalemxAr mulmxDr -scalemxAr -!mulmxA.
rewrite [theta^-1 *: (A^T *m (M *m _))]scalemxAr -mulmxDr Ev.
by rewrite addrK.
Qed.

(* main branch of the source: K v = A r with K = Minv - theta^-1 A A^T, Minv the inverse of M *)
Variable Minv : 'M[F]_k.
Definition Kmat : 'M[F]_k := Minv - theta^-1 *: (A *m A^T).

Lemma K_to_N (HM : Minv *m M = 1%:M) (Hk : Kmat *m v = A *m r) : Nmat *m v = M *m (A *m r).
Proof.
have HM' : M *m Minv = 1%:M by apply/mulmx1C.
rewrite -Hk mulmxA; congr (_ *m _).
by rewrite /Nmat /Kmat mulmxBr HM' -scalemxAr.
Qed.

Theorem smw_direction_K (HM : Minv *m M = 1%:M) (Hk : Kmat *m v = A *m r) : Hred *m dhat = - r.
Proof. exact: smw_direction (K_to_N HM Hk). Qed.

(* when the reduced Hessian is invertible, dhat is THE Newton direction -H^-1 r *)
Corollary smw_direction_unique (Hv : Nmat *m v = M *m (A *m r)) (Hu : Hred \in unitmx) :
  dhat = - (invmx Hred *m r).
Proof. by rewrite -mulmxN -(smw_direction Hv) mulKmx. Qed.
End SMW.

(* "the exact minimiser direction of the quadratic model restricted to the free variables":
   for a symmetric positive semi-definite reduced Hessian, H d = - r makes d a global minimiser of
   q(e) = r.e + 1/2 e^T H e  (real fields) *)
Section Minimiser.
Variables (R : realFieldType) (t : nat) (H : 'M[R]_t) (r d : 'cV[R]_t).
Hypothesis Hsym : H^T = H.
Hypothesis Hnewton : H *m d = - r.
Hypothesis Hpsd : forall z : 'cV[R]_t, 0 <= (z^T *m H *m z) 0 0.

Definition ip (a b : 'cV[R]_t) : R := (a^T *m b) 0 0.
Definition qf (e : 'cV[R]_t) : R := ip r e + 2%:R^-1 * ip e (H *m e).

Lemma ipC a b : ip a b = ip b a.
Proof. by rewrite /ip -[a^T *m b]trmxK trmx_mul trmxK mxE. Qed.
Lemma ipDl a b c : ip (a + b) c = ip a c + ip b c.
Proof. by rewrite /ip linearD /= mulmxDl mxE. Qed.
Lemma ipNl a c : ip (- a) c = - ip a c.
Proof. by rewrite /ip linearN /= mulNmx mxE. Qed.
Lemma ipDr a b c : ip a (b + c) = ip a b + ip a c.
Proof. by rewrite ipC ipDl ![ip _ a]ipC. Qed.
Lemma ipNr a c : ip a (- c) = - ip a c.
Proof. by rewrite ipC ipNl ipC. Qed.
Lemma ipH a b : ip a (H *m b) = ip (H *m a) b.
Proof. by rewrite /ip trmx_mul Hsym mulmxA. Qed.

Theorem newton_minimises e : qf d <= qf e.
Proof.
have := Hpsd (e - d).
rewrite -mulmxA -/(ip _ _) mulmxBr Hnewton opprK ipDr !ipDl !ipNl [ip d (H *m e)]ipH Hnewton ipNl opprK [ip e r]ipC [ip d r]ipC.
rewrite /qf [ip d (H *m d)]ipH Hnewton ipNl [ip r d]ipC.
set a := ip r e; set b := ip e (H *m e); set c := ip d r.
move=> h; rewrite -subr_ge0.
have e2 : (2%:R : R) != 0 by rewrite pnatr_eq0.
suff -> : a + 2%:R^-1 * b - (c + 2%:R^-1 * - c) = 2%:R^-1 * (b + a + (a - c)).
  by rewrite mulr_ge0 // invr_ge0 ler0n.
apply: (mulfI e2); rewrite mulrA divff // mul1r.
rewrite !mulrDr !mulrN !mulrDr !mulrN !mulrA divff // !mul1r !mulr_natl !mulr2n.
by rewrite addrK [a + a + b]addrC !addrA.
Qed.
End Minimiser.

(* non-vacuity: a concrete instance over the rationals (t = k = 1), hypotheses checked by computation
   on the matrix entries *)
Section Example.
Local Notation Q := rat.
Let th : Q := 2%:Q.
Let A0 : 'M[Q]_(1, 1) := 1%:M.
Let M0 : 'M[Q]_1 := 1%:M.
Let r0 : 'cV[Q]_1 := (3%:Q)%:M.
(* N = 1 - 1/2 = 1/2 ; rhs = 3 ; v = 6 ; d = -(1/2)(3 + 6/2) = -3 ; H = 2 - 1 = 1 ; H d = -3 = -r *)
Let v0 : 'cV[Q]_1 := (6%:Q)%:M.
Example smw_direction_ex : Hred th A0 M0 *m dhat th A0 r0 v0 = - r0.
Proof.
apply: smw_direction => //.
rewrite /Nmat /A0 /M0 /r0 /v0 /th trmx1 !mulmx1 !mul1mx scalemx1 -raddfB /= mul_scalar_mx scale_scalar_mx.
by congr (_%:M).
Qed.
Example smw_direction_K_ex : Hred th A0 M0 *m dhat th A0 r0 v0 = - r0.
Proof.
apply: (@smw_direction_K _ _ _ _ _ _ _ _ _ 1%:M) => //; first by rewrite mulmx1.
rewrite /Kmat /A0 /r0 /v0 /th trmx1 !mulmx1 !mul1mx scalemx1 -raddfB /= mul_scalar_mx scale_scalar_mx.
by congr (_%:M).
Qed.
(* newton_minimises is not vacuous: H = I, d = -r, any size, over the rationals *)
Example newton_minimises_ex (t : nat) (r e : 'cV[Q]_t) : qf 1%:M r (- r) <= qf 1%:M r e.
Proof.
apply: newton_minimises; [exact: trmx1 | by rewrite mul1mx |].
move=> z; rewrite mulmx1 mxE; apply: sumr_ge0 => i _.
by rewrite mxE -expr2 sqr_ge0.
Qed.
End Example.
