(* Proofs about the function-wrapper model (C15, used by C05 and C16). *)
From Coq Require Import List ZArith Bool Lia.
From LBFGSB Require Import Base.Res Model.SF.
Import ListNotations.
Open Scope Z_scope.

Section SFProofs.
  Variables (P F G S : Type).
  Variable peqb : P -> P -> bool.
  Variable fmul : F -> S -> F.
  Variable gmul : G -> S -> G.
  Variable uf : P -> res F.
  Variable ug : P -> res G.
  Variable stencil : P -> list P.
  Variable fdest : P -> F -> list F -> res G.
  Variable fdmode : bool.

  (* the user's functions do not distinguish points that np.array_equal identifies (+0.0 / -0.0) *)
  Hypothesis peqb_sound : forall p q, peqb p q = true -> uf p = uf q /\ ug p = ug q /\ stencil p = stencil q /\ fdest p = fdest q.

  Notation st := (SF.st P F G S).
  Notation ev := (SF.ev P F G).
  Notation update_x := (SF.update_x P F G S peqb).
  Notation update_fun := (SF.update_fun P F G S uf).
  Notation update_grad := (SF.update_grad P F G S uf ug stencil fdest fdmode).
  Notation eval_stencil := (SF.eval_stencil P F G uf).
  Notation sf_fun := (SF.sf_fun P F G S peqb fmul uf).
  Notation sf_grad := (SF.sf_grad P F G S peqb gmul uf ug stencil fdest fdmode).
  Notation sf_fun_and_grad := (SF.sf_fun_and_grad P F G S peqb fmul gmul uf ug stencil fdest fdmode).
  Notation step := (SF.step P F G S peqb fmul gmul uf ug stencil fdest fdmode).
  Notation run := (SF.run P F G S peqb fmul gmul uf ug stencil fdest fdmode).

  Fixpoint mapM_res (ps : list P) : res (list F) :=
    match ps with
    | [] => Ok []
    | p :: r => match uf p with
                | Ok v => match mapM_res r with Ok vs => Ok (v :: vs) | Raise e => Raise e | OutOfFuel => OutOfFuel end
                | Raise e => Raise e
                | OutOfFuel => OutOfFuel
                end
    end.

  (* the fresh gradient at p: the user's gradient, or the finite-difference estimate built from
     fresh objective values at p and at the stencil points *)
  Definition grad_of (p : P) : res G :=
    if fdmode then
      match uf p with
      | Ok v => match mapM_res (stencil p) with Ok vs => fdest p v vs | Raise e => Raise e | OutOfFuel => OutOfFuel end
      | Raise e => Raise e
      | OutOfFuel => OutOfFuel
      end
    else ug p.

  Definition count_f (t : list ev) : Z := Z.of_nat (length (filter (fun e => match e with EvF _ _ _ _ _ => true | _ => false end) t)).
  Definition count_g (t : list ev) : Z := Z.of_nat (length (filter (fun e => match e with EvG _ _ _ _ _ => true | _ => false end) t)).

  Lemma count_f_app a b : count_f (a ++ b) = count_f a + count_f b.
  Proof. unfold count_f. rewrite filter_app, app_length. lia. Qed.
  Lemma count_g_app a b : count_g (a ++ b) = count_g a + count_g b.
  Proof. unfold count_g. rewrite filter_app, app_length. lia. Qed.

  Lemma count_f_F p r t : count_f (EvF P F G p r :: t) = 1 + count_f t.
  Proof. unfold count_f. cbn [filter length]. lia. Qed.
  Lemma count_f_G p r t : count_f (EvG P F G p r :: t) = count_f t.
  Proof. reflexivity. Qed.
  Lemma count_g_F p r t : count_g (EvF P F G p r :: t) = count_g t.
  Proof. reflexivity. Qed.
  Lemma count_g_G p r t : count_g (EvG P F G p r :: t) = 1 + count_g t.
  Proof. unfold count_g. cbn [filter length]. lia. Qed.
  Lemma count_f_nil : count_f [] = 0. Proof. reflexivity. Qed.
  Lemma count_g_nil : count_g [] = 0. Proof. reflexivity. Qed.
  Ltac cnt := cbn [app length] in *; rewrite ?app_nil_r, ?count_f_app, ?count_g_app, ?count_f_F, ?count_f_G, ?count_g_F, ?count_g_G,
                ?count_f_nil, ?count_g_nil in *.

  (* every objective event in the trace is at point p *)
  Definition f_events_at (p : P) (t : list ev) : Prop :=
    forall q r, In (EvF P F G q r) t -> q = p.

  Definition Inv (t : st) : Prop :=
    (forall v, sf _ _ _ _ t = Some v -> uf (sx _ _ _ _ t) = Ok v) /\
    (forall g, sg _ _ _ _ t = Some g -> grad_of (sx _ _ _ _ t) = Ok g).

  Lemma Inv_init x0 s : Inv (SF.init P F G S x0 s).
  Proof. split; cbn; intros; discriminate. Qed.

  Lemma Inv_set_scale s t : Inv t -> Inv (SF.set_scale P F G S s t).
  Proof. intros [H1 H2]; split; cbn; auto. Qed.

  Lemma Inv_set_counters a b t : Inv t -> Inv (SF.set_counters P F G S a b t).
  Proof. intros [H1 H2]; split; cbn; auto. Qed.

  Lemma grad_of_peqb p q : peqb p q = true -> grad_of p = grad_of q.
  Proof.
    intros H. destruct (peqb_sound _ _ H) as (Hf & Hg & Hs & Hd).
    unfold grad_of. rewrite Hf, Hg, Hs, Hd. reflexivity.
  Qed.

  Lemma update_x_spec p t : Inv t ->
    let t1 := update_x p t in
    Inv t1 /\ uf (sx _ _ _ _ t1) = uf p /\ grad_of (sx _ _ _ _ t1) = grad_of p /\
    nfev _ _ _ _ t1 = nfev _ _ _ _ t /\ ngev _ _ _ _ t1 = ngev _ _ _ _ t /\ scale _ _ _ _ t1 = scale _ _ _ _ t /\
    (peqb p (sx _ _ _ _ t) = true -> t1 = t).
  Proof.
    intros HI. unfold SF.update_x. destruct (peqb p (sx _ _ _ _ t)) eqn:E; cbn.
    - destruct (peqb_sound _ _ E) as (Hf & _). repeat split; auto; try apply HI.
      symmetry; apply grad_of_peqb; exact E.
    - repeat split; cbn; auto; try discriminate.
  Qed.

  Lemma update_fun_spec t v t1 tr : Inv t -> update_fun t = (Ok (v, t1), tr) ->
    uf (sx _ _ _ _ t) = Ok v /\ Inv t1 /\ sx _ _ _ _ t1 = sx _ _ _ _ t /\ sf _ _ _ _ t1 = Some v /\ sg _ _ _ _ t1 = sg _ _ _ _ t /\
    nfev _ _ _ _ t1 = nfev _ _ _ _ t + count_f tr /\ ngev _ _ _ _ t1 = ngev _ _ _ _ t /\ count_g tr = 0 /\
    scale _ _ _ _ t1 = scale _ _ _ _ t /\ f_events_at (sx _ _ _ _ t) tr /\
    (forall w, sf _ _ _ _ t = Some w -> tr = []).
  Proof.
    intros [Hf Hg]. unfold SF.update_fun, f_events_at. destruct (sf _ _ _ _ t) as [w|] eqn:E.
    - unfold ret. intros H; inversion H; subst. rewrite E.
      repeat split; auto; try (cbn; lia); try (intros ? ? []).
      intros v0 H0. rewrite E in H0. auto.
    - unfold bind, SF.call_f, call, ret. destruct (uf (sx _ _ _ _ t)) as [w|e|] eqn:Eu; [|discriminate|discriminate].
      intros H; inversion H; subst; cbn. repeat split; auto; try lia.
      + intros v0 H0; inversion H0; subst; auto.
      + intros q r [H0|[]]. inversion H0; auto.
      + intros w0 H0; discriminate.
  Qed.

  Lemma eval_stencil_spec ps vs tr : eval_stencil ps = (Ok vs, tr) ->
    mapM_res ps = Ok vs /\ count_f tr = Z.of_nat (length vs) /\ count_g tr = 0 /\ length vs = length ps.
  Proof.
    revert vs tr. induction ps as [|p r IH]; intros vs tr; cbn [SF.eval_stencil mapM_res].
    - unfold ret. intros H; inversion H; subst. repeat split; reflexivity.
    - intros H. apply bind_ok_inv in H as (v & t1 & t2 & H1 & H2 & ->).
      unfold SF.call_f, call in H1. inversion H1; subst. rewrite H0.
      apply bind_ok_inv in H2 as (vs' & t3 & t4 & H3 & H4 & ->).
      unfold ret in H4. inversion H4; subst.
      destruct (IH _ _ H3) as (Hm & Hc & Hg & Hl). rewrite Hm.
      repeat split; auto.
      + cnt. lia.
      + cnt. lia.
      + cnt. lia.
  Qed.

  Lemma update_grad_spec t g t1 tr : Inv t -> update_grad t = (Ok (g, t1), tr) ->
    grad_of (sx _ _ _ _ t) = Ok g /\ Inv t1 /\ sx _ _ _ _ t1 = sx _ _ _ _ t /\ sg _ _ _ _ t1 = Some g /\
    (forall w, sf _ _ _ _ t = Some w -> sf _ _ _ _ t1 = Some w) /\
    nfev _ _ _ _ t1 = nfev _ _ _ _ t + count_f tr /\
    (fdmode = false -> ngev _ _ _ _ t1 = ngev _ _ _ _ t + count_g tr /\ count_f tr = 0) /\
    ngev _ _ _ _ t1 = ngev _ _ _ _ t + (match sg _ _ _ _ t with Some _ => 0 | None => 1 end) /\
    scale _ _ _ _ t1 = scale _ _ _ _ t /\
    (forall w, sg _ _ _ _ t = Some w -> tr = []).
  Proof.
    intros HI. pose proof HI as [Hf Hg]. unfold SF.update_grad. destruct (sg _ _ _ _ t) as [w|] eqn:E.
    - unfold ret. intros H; inversion H; subst. repeat split; auto; try (cbn; lia); try apply HI.
    - destruct fdmode eqn:Em.
      + intros H. apply bind_ok_inv in H as ([v t2] & tr1 & tr2 & H1 & H2 & ->).
        destruct (update_fun_spec _ _ _ _ HI H1) as (Hu & HI2 & Hx & Hs & Hsg & Hn & Hng & Hcg & Hsc & _ & _).
        apply bind_ok_inv in H2 as (vs & tr3 & tr4 & H3 & H4 & ->).
        destruct (eval_stencil_spec _ _ _ H3) as (Hm & Hc & Hcg3 & Hl).
        destruct (fdest (sx _ _ _ _ t2) v vs) as [g0|e|] eqn:Ed; [|discriminate|discriminate].
        unfold ret in H4. inversion H4; subst; cbn.
        assert (Hgo : grad_of (sx _ _ _ _ t) = Ok g).
        { unfold grad_of. rewrite Em, Hu. rewrite Hx in Hm, Ed. rewrite Hm. exact Ed. }
        repeat split; auto.
        * cbn. intros v0 H0. rewrite Hx. rewrite Hs in H0. inversion H0; subst. exact Hu.
        * cbn. intros g1 H1'. inversion H1'; subst. rewrite Hx. exact Hgo.
        * intros w0 H0. rewrite Hs. destruct HI2 as [HI2 _]. specialize (HI2 _ Hs). rewrite Hx in HI2.
          specialize (Hf _ H0). congruence.
        * rewrite Hn, !count_f_app, Hc. unfold count_f at 3. cbn. lia.
        * discriminate.
        * discriminate.
        * lia.
        * intros; discriminate.
      + intros H. apply bind_ok_inv in H as (g0 & tr1 & tr2 & H1 & H2 & ->).
        unfold SF.call_g, call in H1. inversion H1; subst. unfold ret in H2. inversion H2; subst; cbn.
        assert (Hgo : grad_of (sx _ _ _ _ t) = Ok g) by (unfold grad_of; rewrite Em; auto).
        repeat split; auto; try (cbn; lia).
        * cbn. intros g1 H1'. inversion H1'; subst. exact Hgo.
        * intros; discriminate.
  Qed.

  Ltac splits := repeat match goal with |- _ /\ _ => split end.
  (* ---- request-level specifications used by the driver proofs *)
  Lemma sf_fun_spec p t v t1 tr : Inv t -> sf_fun p t = (Ok (v, t1), tr) ->
    Inv t1 /\ (exists fv, uf p = Ok fv /\ v = fmul fv (scale _ _ _ _ t)) /\ scale _ _ _ _ t1 = scale _ _ _ _ t /\
    nfev _ _ _ _ t1 = nfev _ _ _ _ t + count_f tr /\ ngev _ _ _ _ t1 = ngev _ _ _ _ t /\ count_g tr = 0 /\
    0 <= count_f tr <= 1.
  Proof.
    intros HI H. unfold SF.sf_fun in H. apply bind_ok_inv in H as ([v2 t3] & tr3 & tr4 & H3 & H4 & ->).
    unfold ret in H4; inversion H4; subst; clear H4.
    destruct (update_x_spec p t HI) as (HI1 & Hu & Hg & Hn & Hng & Hsc & _).
    destruct (update_fun_spec _ _ _ _ HI1 H3) as (Hv & HI2 & Hx & Hs & Hsg & Hn2 & Hng2 & Hcg & Hsc2 & _).
    rewrite app_nil_r. splits; auto; try lia.
    - exists v2. rewrite <- Hu. split; auto. now rewrite Hsc2, Hsc.
    - congruence.
    - unfold count_f. lia.
    - unfold SF.update_fun in H3. destruct (sf _ _ _ _ (update_x p t)).
      + unfold ret in H3. inversion H3; subst. cnt. lia.
      + apply bind_ok_inv in H3 as (w & q1 & q2 & Q1 & Q2 & ->). unfold SF.call_f, call in Q1. inversion Q1; subst.
        unfold ret in Q2. inversion Q2; subst. cnt. lia.
  Qed.

  Lemma sf_grad_spec p t g t1 tr : Inv t -> sf_grad p t = (Ok (g, t1), tr) ->
    Inv t1 /\ (exists gv, grad_of p = Ok gv /\ g = gmul gv (scale _ _ _ _ t)) /\ scale _ _ _ _ t1 = scale _ _ _ _ t /\
    nfev _ _ _ _ t1 = nfev _ _ _ _ t + count_f tr /\
    (fdmode = false -> ngev _ _ _ _ t1 = ngev _ _ _ _ t + count_g tr /\ count_f tr = 0 /\ 0 <= count_g tr <= 1) /\
    ngev _ _ _ _ t <= ngev _ _ _ _ t1 <= ngev _ _ _ _ t + 1.
  Proof.
    intros HI H. unfold SF.sf_grad in H. apply bind_ok_inv in H as ([g2 t3] & tr3 & tr4 & H3 & H4 & ->).
    unfold ret in H4; inversion H4; subst; clear H4.
    destruct (update_x_spec p t HI) as (HI1 & Hu & Hg & Hn & Hng & Hsc & _).
    destruct (update_grad_spec _ _ _ _ HI1 H3) as (Hv & HI2 & Hx & Hs & _ & Hn2 & Hng2 & Hng3 & Hsc2 & Hnil).
    rewrite app_nil_r. splits; auto; try lia.
    - exists g2. rewrite <- Hg. split; auto. now rewrite Hsc2, Hsc.
    - congruence.
    - intros Hfd. destruct (Hng2 Hfd) as [E1 E2]. destruct (sg _ _ _ _ (update_x p t)); lia.
    - destruct (sg _ _ _ _ (update_x p t)); lia.
    - destruct (sg _ _ _ _ (update_x p t)); lia.
  Qed.

  Lemma sf_fun_and_grad_spec p t v g t1 tr : Inv t -> sf_fun_and_grad p t = (Ok (v, g, t1), tr) ->
    Inv t1 /\ (exists fv gv, uf p = Ok fv /\ grad_of p = Ok gv /\ v = fmul fv (scale _ _ _ _ t) /\ g = gmul gv (scale _ _ _ _ t)) /\
    scale _ _ _ _ t1 = scale _ _ _ _ t /\
    nfev _ _ _ _ t1 = nfev _ _ _ _ t + count_f tr /\
    (fdmode = false -> ngev _ _ _ _ t1 = ngev _ _ _ _ t + count_g tr /\ 0 <= count_f tr <= 1 /\ 0 <= count_g tr <= 1) /\
    ngev _ _ _ _ t <= ngev _ _ _ _ t1 <= ngev _ _ _ _ t + 1.
  Proof.
    intros HI H. unfold SF.sf_fun_and_grad in H.
    apply bind_ok_inv in H as ([v2 t3] & tr3 & tr4 & H3 & H4 & ->).
    apply bind_ok_inv in H4 as ([g2 t4] & tr5 & tr6 & H5 & H6 & ->). unfold ret in H6; inversion H6; subst; clear H6.
    destruct (update_x_spec p t HI) as (HI1 & Hu & Hg & Hn & Hng & Hsc & _).
    destruct (update_fun_spec _ _ _ _ HI1 H3) as (Hv & HI2 & Hx & Hs & Hsg & Hn2 & Hng2 & Hcg & Hsc2 & _).
    destruct (update_grad_spec _ _ _ _ HI2 H5) as (Hv3 & HI3 & Hx3 & Hs3 & _ & Hn3 & Hng3 & Hng4 & Hsc3 & _).
    assert (Hcf : 0 <= count_f tr3 <= 1).
    { unfold SF.update_fun in H3. destruct (sf _ _ _ _ (update_x p t)).
      + unfold ret in H3. inversion H3; subst. cnt. lia.
      + apply bind_ok_inv in H3 as (w & q1 & q2 & Q1 & Q2 & ->). unfold SF.call_f, call in Q1. inversion Q1; subst.
        unfold ret in Q2. inversion Q2; subst. cnt. lia. }
    rewrite app_nil_r. cnt. split; [exact HI3|]. split.
    { exists v2, g2. rewrite <- Hu, <- Hg. rewrite Hx in Hv3. repeat split; auto; now rewrite Hsc3, Hsc2, Hsc. }
    split; [congruence|]. split; [lia|]. split.
    { intros Hfd. destruct (Hng3 Hfd) as [E1 E2]. destruct (sg _ _ _ _ t3); lia. }
    destruct (sg _ _ _ _ t3); lia.
  Qed.


  (* what a fresh answer is *)
  Definition fresh (o : SF.op P S) (s : S) (a : SF.ans F G) : Prop :=
    match o, a with
    | OFun _ _ p, AFun _ _ v => exists fv, uf p = Ok fv /\ v = fmul fv s
    | OGrad _ _ p, AGrad _ _ g => exists gv, grad_of p = Ok gv /\ g = gmul gv s
    | OBoth _ _ p, ABoth _ _ v g => exists fv gv, uf p = Ok fv /\ grad_of p = Ok gv /\ v = fmul fv s /\ g = gmul gv s
    | OScale _ _ _, ANone _ _ => True
    | _, _ => False
    end.

  Definition scale_after (o : SF.op P S) (s : S) : S := match o with OScale _ _ s' => s' | _ => s end.

  (* gradient computations performed by a request, in terms of the state before it *)
  Definition is_grad_op (o : SF.op P S) := match o with OGrad _ _ _ | OBoth _ _ _ => true | _ => false end.

  Lemma step_spec o t a t1 tr : Inv t -> step o t = (Ok (a, t1), tr) ->
    Inv t1 /\ fresh o (scale _ _ _ _ t) a /\ scale _ _ _ _ t1 = scale_after o (scale _ _ _ _ t) /\
    nfev _ _ _ _ t1 = nfev _ _ _ _ t + count_f tr /\
    (fdmode = false -> ngev _ _ _ _ t1 = ngev _ _ _ _ t + count_g tr).
  Proof.
    intros HI. destruct o as [p|p|p|s]; cbn [SF.step].
    - intros H. apply bind_ok_inv in H as ([v t2] & tr1 & tr2 & H1 & H2 & ->). unfold ret in H2; inversion H2; subst; clear H2.
      unfold SF.sf_fun in H1. apply bind_ok_inv in H1 as ([v2 t3] & tr3 & tr4 & H3 & H4 & ->). unfold ret in H4; inversion H4; subst; clear H4.
      destruct (update_x_spec p t HI) as (HI1 & Hu & Hg & Hn & Hng & Hsc & _).
      destruct (update_fun_spec _ _ _ _ HI1 H3) as (Hv & HI2 & Hx & Hs & Hsg & Hn2 & Hng2 & Hcg & Hsc2 & _).
      repeat split; try apply HI2.
      + cbn. exists v2. rewrite <- Hu. split; auto. now rewrite Hsc2, Hsc.
      + cbn. congruence.
      + rewrite !app_nil_r. lia.
      + intros _. rewrite !app_nil_r. lia.
    - intros H. apply bind_ok_inv in H as ([g t2] & tr1 & tr2 & H1 & H2 & ->). unfold ret in H2; inversion H2; subst; clear H2.
      unfold SF.sf_grad in H1. apply bind_ok_inv in H1 as ([g2 t3] & tr3 & tr4 & H3 & H4 & ->). unfold ret in H4; inversion H4; subst; clear H4.
      destruct (update_x_spec p t HI) as (HI1 & Hu & Hg & Hn & Hng & Hsc & _).
      destruct (update_grad_spec _ _ _ _ HI1 H3) as (Hv & HI2 & Hx & Hs & _ & Hn2 & Hng2 & _ & Hsc2 & _).
      repeat split; try apply HI2.
      + cbn. exists g2. rewrite <- Hg. split; auto. now rewrite Hsc2, Hsc.
      + cbn. congruence.
      + rewrite !app_nil_r. lia.
      + intros Hm. rewrite !app_nil_r. destruct (Hng2 Hm). lia.
    - intros H. apply bind_ok_inv in H as ([[v g] t2] & tr1 & tr2 & H1 & H2 & ->). unfold ret in H2; inversion H2; subst; clear H2.
      unfold SF.sf_fun_and_grad in H1.
      apply bind_ok_inv in H1 as ([v2 t3] & tr3 & tr4 & H3 & H4 & ->).
      apply bind_ok_inv in H4 as ([g2 t4] & tr5 & tr6 & H5 & H6 & ->). unfold ret in H6; inversion H6; subst; clear H6.
      destruct (update_x_spec p t HI) as (HI1 & Hu & Hg & Hn & Hng & Hsc & _).
      destruct (update_fun_spec _ _ _ _ HI1 H3) as (Hv & HI2 & Hx & Hs & Hsg & Hn2 & Hng2 & Hcg & Hsc2 & _).
      destruct (update_grad_spec _ _ _ _ HI2 H5) as (Hv3 & HI3 & Hx3 & Hs3 & _ & Hn3 & Hng3 & _ & Hsc3 & _).
      repeat split; try apply HI3.
      + cbn. exists v2, g2. rewrite <- Hu, <- Hg. rewrite Hx in Hv3. repeat split; auto; now rewrite Hsc3, Hsc2, Hsc.
      + cbn. congruence.
      + rewrite !app_nil_r, !count_f_app. lia.
      + intros Hm. rewrite !app_nil_r, !count_g_app. destruct (Hng3 Hm). lia.
    - unfold ret. intros H; inversion H; subst; cbn. repeat split; try apply HI; auto; intros; lia.
  Qed.

  Fixpoint answers_ok (os : list (SF.op P S)) (s : S) (l : list (SF.ans F G)) : Prop :=
    match os, l with
    | [], [] => True
    | o :: r, a :: ar => fresh o s a /\ answers_ok r (scale_after o s) ar
    | _, _ => False
    end.

  (* C15, answers and counters, every history of any length *)
  Theorem run_spec : forall os t l t1 tr, Inv t -> run os t = (Ok (l, t1), tr) ->
    answers_ok os (scale _ _ _ _ t) l /\ Inv t1 /\
    nfev _ _ _ _ t1 = nfev _ _ _ _ t + count_f tr /\
    (fdmode = false -> ngev _ _ _ _ t1 = ngev _ _ _ _ t + count_g tr).
  Proof.
    induction os as [|o r IH]; intros t l t1 tr HI; cbn [SF.run].
    - unfold ret. intros H; inversion H; subst. cbn. repeat split; try apply HI; intros; lia.
    - intros H. apply bind_ok_inv in H as ([a t2] & tr1 & tr2 & H1 & H2 & ->).
      apply bind_ok_inv in H2 as ([ar t3] & tr3 & tr4 & H3 & H4 & ->). unfold ret in H4; inversion H4; subst; clear H4.
      destruct (step_spec _ _ _ _ _ HI H1) as (HI2 & Hfr & Hsc & Hn & Hg).
      destruct (IH _ _ _ _ HI2 H3) as (Ha & HI3 & Hn3 & Hg3).
      repeat split; try apply HI3.
      + exact Hfr.
      + rewrite <- Hsc. exact Ha.
      + rewrite !app_nil_r, !count_f_app. lia.
      + intros Hm. rewrite !app_nil_r, !count_g_app. specialize (Hg Hm). specialize (Hg3 Hm). lia.
  Qed.

  (* C15, memoisation: a request at the cached point whose value (gradient) is there makes no user call *)
  Theorem no_reevaluation_fun p t : Inv t -> peqb p (sx _ _ _ _ t) = true -> (exists v, sf _ _ _ _ t = Some v) ->
    exists a, step (OFun _ _ p) t = (Ok (a, t), []).
  Proof.
    intros HI He [v Hv]. cbn [SF.step]. unfold SF.sf_fun, SF.update_x. rewrite He. unfold SF.update_fun. rewrite Hv.
    rewrite !bind_ret_l. eexists. reflexivity.
  Qed.

  Theorem no_reevaluation_grad p t : Inv t -> peqb p (sx _ _ _ _ t) = true -> (exists g, sg _ _ _ _ t = Some g) ->
    exists a, step (OGrad _ _ p) t = (Ok (a, t), []).
  Proof.
    intros HI He [g Hg]. cbn [SF.step]. unfold SF.sf_grad, SF.update_x. rewrite He. unfold SF.update_grad. rewrite Hg.
    rewrite !bind_ret_l. eexists. reflexivity.
  Qed.

  Theorem no_reevaluation_both p t : Inv t -> peqb p (sx _ _ _ _ t) = true ->
    (exists v, sf _ _ _ _ t = Some v) -> (exists g, sg _ _ _ _ t = Some g) ->
    exists a, step (OBoth _ _ p) t = (Ok (a, t), []).
  Proof.
    intros HI He [v Hv] [g Hg]. cbn [SF.step]. unfold SF.sf_fun_and_grad, SF.update_x. rewrite He.
    unfold SF.update_fun. rewrite Hv. rewrite !bind_ret_l. unfold SF.update_grad. rewrite Hg. rewrite !bind_ret_l.
    eexists. reflexivity.
  Qed.

  (* after any successful value request the value is cached at the request: the very next value request
     at an equal point is answered from the cache (so the objective is never evaluated twice in a row
     at the point it was last requested at) *)
  Theorem fun_then_cached p t v t1 tr : Inv t -> sf_fun p t = (Ok (v, t1), tr) ->
    (exists w, sf _ _ _ _ t1 = Some w) /\ (peqb p (sx _ _ _ _ t1) = true \/ sx _ _ _ _ t1 = p) /\ f_events_at (sx _ _ _ _ t1) tr.
  Proof.
    intros HI H. unfold SF.sf_fun in H. apply bind_ok_inv in H as ([v2 t3] & tr3 & tr4 & H3 & H4 & ->). unfold ret in H4; inversion H4; subst; clear H4.
    destruct (update_x_spec p t HI) as (HI1 & _).
    destruct (update_fun_spec _ _ _ _ HI1 H3) as (Hv & HI2 & Hx & Hs & _ & _ & _ & _ & _ & Hat & _).
    split; [eauto|]. rewrite Hx. rewrite app_nil_r. split; [|exact Hat].
    unfold SF.update_x. destruct (peqb p (sx _ _ _ _ t)) eqn:E; cbn; auto.
  Qed.
End SFProofs.
