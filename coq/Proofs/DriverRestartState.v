(* The state a restarted run enters its loop with, compared with the state the uninterrupted run had at that iteration.
   When the checkpoint's history is rebuilt exactly (true over any abelian group: Proofs/RestoreProofs.v; in binary64 when
   the differences are exact) AND the newest stored point of the interrupted run was its current iterate (the last update was
   accepted), the two states agree on every field except the message placeholder and the memo cell of the function wrapper
   (a restart does not know which point was evaluated last).  The second hypothesis is exactly what the open finding
   `memory-newest-entry-not-x` violates: after a rejected update the newest stored point is an older iterate, the checkpoint
   cannot say so, and the rebuilt state differs. *)
From Coq Require Import List ZArith Bool String Lia Floats.PrimFloat.
From LBFGSB Require Import Base.Res Base.FloatOrd Model.SF Model.FloatVec Model.Driver Generated.StopTests Proofs.DriverShape Proofs.DriverValues.
Import ListNotations.
Open Scope Z_scope.

Section RestartState.
  Variable U : user.
  Variable K : kern.
  Variable c : cfg.                 (* the configuration of the RESTARTED run *)
  Variable s : lst.                 (* the loop state of the interrupted run when it stopped on maxiter *)
  Variable ck : result.
  Hypothesis Hck : checkpoint c = Some ck.
  Hypothesis Hnit : r_nit ck = s_nit s.                               (* the checkpoint carries the iteration count of that state *)
  Hypothesis no_update_function : u_upd U = None.

  (* the interrupted run's memory: at least two points, newest point = current iterate, its newest pair passes the curvature test,
     not more than maxcor + 1 points, matrices built from the current history *)
  Variables (X0 G0 : list vec).
  Hypothesis HX : s_X s = X0 ++ [s_x s].
  Hypothesis HG : s_G s = G0 ++ [s_g s].
  Hypothesis HX0 : X0 <> [].
  Hypothesis Hlen : Z.of_nat (List.length (s_X s)) <= maxcor c + 1.
  Hypothesis Hlen' : List.length G0 = List.length X0.
  Hypothesis Hcurv : curvature_ok K c (s_x s) (s_g s) (last X0 []) (last G0 []) = true.
  Hypothesis Hmats : s_mats s = Some (s_X s, s_G s).
  (* exact reconstruction of the stored points from the checkpoint's differences *)
  Hypothesis Hrestore : restore c ck = (X0, G0).

  Lemma trim_noop (l : list vec) : Z.of_nat (List.length l) <= maxcor c + 1 -> trim c l = l.
  Proof. intros H. unfold trim. destruct (_ >? _) eqn:E; [apply Z.gtb_lt in E; lia|reflexivity]. Qed.

  (* the state with which the restarted run enters its loop: the interrupted state, with the START placeholders and the
     wrapper state t3 of the restart *)
  Theorem restart_state : forall t3,
    first_state U K c (s_x s) (s_f s) (s_g s) (snd (restored c)) t3 =
    mklst (s_x s) (s_f s) (s_g s) (s_X s) (s_G s) (s_mats s) (s_nit s) MStart false 2 t3.
  Proof.
    intros t3. unfold first_state, restored, nit_start. rewrite Hck, no_update_function, Hrestore. cbn [fst snd].
    destruct X0 as [|p X0'] eqn:EX; [congruence|]. rewrite <- EX in *.
    unfold update_mem_f. unfold last_or. rewrite Hcurv.
    assert (L1 : Z.of_nat (List.length (X0 ++ [s_x s])) <= maxcor c + 1) by (rewrite <- HX; exact Hlen).
    assert (L2 : Z.of_nat (List.length (G0 ++ [s_g s])) <= maxcor c + 1) by (rewrite !app_length in *; cbn [List.length] in *; lia).
    rewrite (trim_noop _ L1), (trim_noop _ L2), <- HX, <- HG, Hmats.
    rewrite Hnit. reflexivity.
  Qed.

End RestartState.

(* the result a run returns is built from its last loop state: these are the fields a restart reads *)
Lemma result_fields c gt (s : lst) : let r := snapshot (classify c gt s) (s_nit (classify c gt s)) in
  r_x r = s_x s /\ r_fun r = s_f s /\ r_jac r = s_g s /\ r_nit r = s_nit s /\
  r_nfev r = SF.nfev _ _ _ _ (s_sf s) /\ r_njev r = SF.ngev _ _ _ _ (s_sf s) /\ r_sk r = diffs (s_X s) /\ r_yk r = diffs (s_G s).
Proof. cbv zeta. unfold classify. destruct (leb _ _); [cbn; auto 10|]. destruct (_ >=? _); [cbn; auto 10|]. destruct (_ >=? _); cbn; auto 10. Qed.

(* Why the second hypothesis cannot be dropped: the checkpoint format cannot tell whether the newest stored point is the current
   iterate.  Two loop states with different memories - in the first the newest stored point is x, in the second (as after an
   update rejected by the curvature test) it is an older iterate - have the same result / checkpoint. *)
Definition mk_state (X G : list vec) (x g : vec) : lst :=
  mklst x 0%float g X G None 1 MStart false 2 (SF.init vec float vec float x fone).
Example checkpoint_cannot_tell :
  let s1 := mk_state [[0%float]; [1%float]] [[2%float]; [4%float]] [1%float] [4%float] in
  let s2 := mk_state [[3%float]; [4%float]] [[5%float]; [7%float]] [1%float] [4%float] in
  snapshot s1 1 = snapshot s2 1 /\ s_X s1 <> s_X s2 /\ last (s_X s1) [] = s_x s1 /\ last (s_X s2) [] <> s_x s2.
Proof.
  cbv zeta. split; [vm_compute; reflexivity|]. split; [|split; [reflexivity|]].
  - intros H. apply (f_equal (fun X => eqb (hd 0%float (hd [] X)) 0%float)) in H. vm_compute in H. discriminate.
  - intros H. apply (f_equal (fun v => eqb (hd 0%float v) 1%float)) in H. vm_compute in H. discriminate.
Qed.

(* ---------------------------------------------------------------- the continuation
   The restarted loop state differs from the interrupted one only in the memo cell of the function wrapper (and the
   message placeholder).  As soon as the next line search evaluates a point other than the restart point - its first trial,
   whenever the line-search routine accepts the START call - the two wrapper states coincide, and from there on the two runs
   are the same computation: same events, same states. *)
Section Continuation.
  Variable U : user.
  Variable K : kern.
  Variable c : cfg.
  Notation sfst := (SF.st vec float vec float).

  Definition with_sf (t : sfst) (s : lst) : lst :=
    mklst (s_x s) (s_f s) (s_g s) (s_X s) (s_G s) (s_mats s) (s_nit s) (s_msg s) (s_succ s) (s_warn s) t.

  (* same counters and scaling factor, any memo *)
  Definition same_counts (t t' : sfst) : Prop :=
    SF.nfev _ _ _ _ t' = SF.nfev _ _ _ _ t /\ SF.ngev _ _ _ _ t' = SF.ngev _ _ _ _ t /\ SF.scale _ _ _ _ t' = SF.scale _ _ _ _ t.

  Lemma update_x_fresh p (t t' : sfst) : same_counts t t' ->
    veqb p (SF.sx _ _ _ _ t) = false -> veqb p (SF.sx _ _ _ _ t') = false ->
    SF.update_x vec float vec float veqb p t' = SF.update_x vec float vec float veqb p t.
  Proof. intros (E1 & E2 & E3) H1 H2. unfold SF.update_x. rewrite H1, H2, E1, E2, E3. reflexivity. Qed.

  Lemma sf_fun_and_grad_fresh p t t' : same_counts t t' ->
    veqb p (SF.sx _ _ _ _ t) = false -> veqb p (SF.sx _ _ _ _ t') = false ->
    sf_fun_and_grad U p t' = sf_fun_and_grad U p t.
  Proof. intros Hc H1 H2. unfold sf_fun_and_grad, SF.sf_fun_and_grad. rewrite (update_x_fresh p t t' Hc H1 H2). reflexivity. Qed.

  Variable s : lst.
  Variable t' : sfst.
  Hypothesis Hcounts : same_counts (s_sf s) t'.
  (* the line-search routine accepts the START call of the next line search and proposes a first trial step stp1 ... *)
  Let d := direction K s.
  Let stpmax := if s_nit s =? 0 then fone else maxstep (s_x s) d (lb c) (ub c) (max_steplength c).
  Let stp0 := if (s_nit s =? 0) && negb (is_boxed c) then StopTests.pymin (div fone (sqrt (vdot K d d))) stpmax else fone.
  Variable stp1 : float.
  Hypothesis Hstart : dcs K (ftol_ls c, gtol_ls c, xtol_ls c, stpmax) [(stp0, s_f s, vdot K (s_g s) d)] = (stp1, TFG).
  Hypothesis Hcap : (0 < Z.to_nat (ls_cap c s))%nat.
  (* ... and that first trial point is neither the memo point of the interrupted wrapper nor of the restarted one *)
  Let p1 := vclip (vaxpy (s_x s) stp1 d) (lb c) (ub c).
  Hypothesis Hp : veqb p1 (SF.sx _ _ _ _ (s_sf s)) = false.
  Hypothesis Hp' : veqb p1 (SF.sx _ _ _ _ t') = false.

  Lemma line_search_fresh :
    line_search U K c (s_x s) (s_f s) (s_g s) d (s_nit s) (ls_cap c s) t' =
    line_search U K c (s_x s) (s_f s) (s_g s) d (s_nit s) (ls_cap c s) (s_sf s).
  Proof.
    unfold line_search. fold stpmax. fold stp0.
    destruct (Z.to_nat (ls_cap c s)) as [|k] eqn:Ek; [lia|].
    cbn [ls_loop l_hist l_stp l_f l_dphi app]. rewrite Hstart. cbn [l_sf]. fold p1.
    rewrite (sf_fun_and_grad_fresh p1 (s_sf s) t' Hcounts Hp Hp'). reflexivity.
  Qed.

  Theorem body_fresh ft : body U K c ft (with_sf t' s) = body U K c ft s.
  Proof.
    unfold body. change (direction K (with_sf t' s)) with d. change (direction K s) with d.
    assert (Ec : ls_cap c (with_sf t' s) = ls_cap c s).
    { unfold ls_cap, with_sf. cbn [s_sf]. destruct Hcounts as (E1 & _). rewrite E1. reflexivity. }
    rewrite Ec. cbn [with_sf s_x s_f s_g s_nit s_sf]. rewrite line_search_fresh.
    destruct (line_search U K c (s_x s) (s_f s) (s_g s) d (s_nit s) (ls_cap c s) (s_sf s)) as [[[[a|] t1]|e|] tr]; cbn [bind]; try reflexivity.
  Qed.

  (* hence the loops coincide: same events, same final state *)
  Theorem loop_fresh fuel ft gt : guard c gt s = true ->
    loop U K c fuel ft gt (with_sf t' s) = loop U K c fuel ft gt s.
  Proof.
    intros Hg. assert (Hg' : guard c gt (with_sf t' s) = true).
    { unfold guard, with_sf in *. cbn [s_x s_g s_nit s_sf s_succ]. destruct Hcounts as (E1 & _). rewrite E1. exact Hg. }
    destruct fuel as [|k]; cbn [loop]; rewrite Hg, Hg'; [reflexivity|]. rewrite body_fresh. reflexivity.
  Qed.
End Continuation.

(* the restarted run's loop is the interrupted run's loop continued: same events, same final state *)
Theorem restart_continues U K c (s : lst) ck (X0 G0 : list vec) t3 stp1 fuel ft gt :
  checkpoint c = Some ck -> r_nit ck = s_nit s -> u_upd U = None ->
  s_X s = X0 ++ [s_x s] -> s_G s = G0 ++ [s_g s] -> X0 <> [] ->
  Z.of_nat (List.length (s_X s)) <= maxcor c + 1 -> List.length G0 = List.length X0 ->
  curvature_ok K c (s_x s) (s_g s) (last X0 []) (last G0 []) = true -> s_mats s = Some (s_X s, s_G s) ->
  restore c ck = (X0, G0) ->
  (* the interrupted state carries the placeholders of a run that is still going on *)
  s_msg s = MStart -> s_succ s = false -> s_warn s = 2 ->
  same_counts (s_sf s) t3 ->
  let d := direction K s in
  let stpmax := if s_nit s =? 0 then fone else maxstep (s_x s) d (lb c) (ub c) (max_steplength c) in
  let stp0 := if (s_nit s =? 0) && negb (is_boxed c) then StopTests.pymin (div fone (sqrt (vdot K d d))) stpmax else fone in
  dcs K (ftol_ls c, gtol_ls c, xtol_ls c, stpmax) [(stp0, s_f s, vdot K (s_g s) d)] = (stp1, TFG) ->
  (0 < Z.to_nat (ls_cap c s))%nat ->
  veqb (vclip (vaxpy (s_x s) stp1 d) (lb c) (ub c)) (SF.sx _ _ _ _ (s_sf s)) = false ->
  veqb (vclip (vaxpy (s_x s) stp1 d) (lb c) (ub c)) (SF.sx _ _ _ _ t3) = false ->
  guard c gt s = true ->
  loop U K c fuel ft gt (first_state U K c (s_x s) (s_f s) (s_g s) (snd (restored c)) t3) = loop U K c fuel ft gt s.
Proof.
  intros Hck Hsnap Hupd HX HG HX0 Hlen Hlen' Hcurv Hmats Hres Hm Hs Hw Hcnt d stpmax stp0 Hstart Hcap Hp Hp' Hg.
  rewrite (restart_state U K c s ck Hck Hsnap Hupd X0 G0 HX HG HX0 Hlen Hlen' Hcurv Hmats Hres t3).
  rewrite <- Hm, <- Hs, <- Hw. change (mklst (s_x s) (s_f s) (s_g s) (s_X s) (s_G s) (s_mats s) (s_nit s) (s_msg s) (s_succ s) (s_warn s) t3) with (with_sf t3 s).
  exact (loop_fresh U K c s t3 Hcnt stp1 Hstart Hcap Hp Hp' fuel ft gt Hg).
Qed.
