(* Splitting a run at an iteration count: (i) the loop of the driver model reads only some fields of the configuration (not x0,
   not the checkpoint, not the tolerances resolved before the loop); (ii) a loop under maxiter N that passes through iteration k
   is the loop under maxiter k followed by the loop under maxiter N from the state reached. *)
From Coq Require Import List ZArith Bool String Lia Floats.PrimFloat.
From LBFGSB Require Import Base.Res Model.SF Model.FloatVec Model.Driver Generated.StopTests Proofs.DriverSnapshot.
Import ListNotations.
Open Scope Z_scope.

Lemma bind_ext {E A B} (m : M E A) (f g : A -> M E B) : (forall a, f a = g a) -> bind m f = bind m g.
Proof. intros H. unfold bind. destruct m as [[a| |] t]; [rewrite H|..]; reflexivity. Qed.

Section Norm.
  Variable U : user.
  Variable K : kern.

  (* the configuration with the fields the loop does not read erased *)
  Definition norm (c : cfg) : cfg :=
    mkcfg [] (lb c) (ub c) (maxcor c) None (ftol c) (TolConst 0%float) (maxiter c) (maxfun c) (maxls c) (max_steplength c)
          (ftol_ls c) (gtol_ls c) (xtol_ls c) (eps_sy c) None.

  Variable c : cfg.

  (* projections of [norm c] reduce to projections of [c]: the two loops are convertible *)
  Lemma loop_norm fuel ft gt s : loop U K (norm c) fuel ft gt s = loop U K c fuel ft gt s.
  Proof. reflexivity. Qed.
End Norm.

(* two configurations that agree on the fields the loop reads give the same loop *)
Definition same_loop_cfg (c c' : cfg) : Prop := norm c' = norm c.
Lemma loop_same_cfg U K c c' fuel ft gt s : same_loop_cfg c c' -> loop U K c' fuel ft gt s = loop U K c fuel ft gt s.
Proof. intros H. rewrite <- (loop_norm U K c'), <- (loop_norm U K c), H. reflexivity. Qed.

Section Split.
  Variable U : user.
  Variable K : kern.
  Variable c : cfg.

  Definition prepend {A} (t1 : list ev) (m : M ev A) : M ev A := (fst m, t1 ++ snd m).

  (* a pass of the loop that stops the run leaves a state that is marked successful or abnormal *)
  Lemma body_stop ft s s1 tr : body U K c ft s = (Ok (false, s1), tr) -> s_succ s1 = true \/ s_msg s1 = MAbnormal.
  Proof.
    unfold body. intros H. apply bind_ok_inv in H as ([stp t1] & tr1 & tr2 & _ & H & _). destruct stp as [a|].
    - unfold accept_step in H. apply bind_ok_inv in H as ([[f0 g] t2] & ? & ? & _ & H & _).
      apply bind_ok_inv in H as ([[[[f1 fo] g1] G] filt] & ? & ? & _ & H & _).
      destruct (if filt then _ else _) as [X1 G1].
      destruct (is_f0_target_reached _ _); [unfold ret in H; inversion H; subst; left; reflexivity|].
      destruct (is_f0_min_change_reached _ _ _); [unfold ret in H; inversion H; subst; left; reflexivity|].
      destruct (update_mem_f K c _ _ _ _ _ _) as [[X2 G2] m2].
      destruct (u_cb U) as [cb|].
      + apply bind_ok_inv in H as (b & ? & ? & _ & H & _). destruct b; unfold ret in H; inversion H.
      + unfold ret in H. inversion H.
    - unfold ret, fail_step in H. destruct (_ =? _)%nat; inversion H; subst. right. reflexivity.
  Qed.

  Lemma guard_weaken k gt s : k <= maxiter c -> guard (with_maxiter k c) gt s = true -> guard c gt s = true.
  Proof.
    intros Hk. unfold guard. cbn [with_maxiter maxiter lb ub maxfun]. intros H.
    apply andb_true_iff in H as [H E4]. apply andb_true_iff in H as [H E3]. apply andb_true_iff in H as [E1 E2].
    apply Z.ltb_lt in E2. rewrite E1, E3, E4. assert (E : s_nit s <? maxiter c = true) by (apply Z.ltb_lt; lia). rewrite E. reflexivity.
  Qed.

  (* the loop under the larger maxiter passes through the state in which the loop under maxiter = k stopped because of maxiter *)
  Lemma loop_split k ft gt : forall n s0 s_k tr1,
    Z.to_nat (k - s_nit s0) = n ->
    loop U K (with_maxiter k c) n ft gt s0 = (Ok s_k, tr1) ->
    s_nit s_k = k -> guard c gt s_k = true -> s_msg s_k <> MAbnormal ->
    loop U K c (Z.to_nat (maxiter c - s_nit s0)) ft gt s0 = prepend tr1 (loop U K c (Z.to_nat (maxiter c - k)) ft gt s_k).
  Proof.
    assert (HkN : forall s, guard c gt s = true -> s_nit s < maxiter c).
    { intros s H. unfold guard in H. apply andb_true_iff in H as [H _]. apply andb_true_iff in H as [H _].
      apply andb_true_iff in H as [_ H]. apply Z.ltb_lt in H. exact H. }
    induction n as [|n IH]; intros s0 s_k tr1 Hn H Hk Hg Hm; cbn [loop] in H.
    - destruct (guard (with_maxiter k c) gt s0) eqn:Eg; [inversion H|]. unfold ret in H. inversion H; subst s_k tr1.
      rewrite Hk. unfold prepend. cbn [app]. destruct (loop U K c (Z.to_nat (maxiter c - k)) ft gt s0); reflexivity.
    - destruct (guard (with_maxiter k c) gt s0) eqn:Eg.
      + assert (Hlt : s_nit s0 < k).
        { unfold guard in Eg. cbn [with_maxiter maxiter] in Eg. apply andb_true_iff in Eg as [Eg _]. apply andb_true_iff in Eg as [Eg _].
          apply andb_true_iff in Eg as [_ Eg]. apply Z.ltb_lt in Eg. exact Eg. }
        pose proof (HkN _ Hg) as HN. rewrite Hk in HN.
        change (body U K (with_maxiter k c) ft s0) with (body U K c ft s0) in H.
        apply bind_ok_inv in H as ([cont s1] & tb & t2 & Eb & E2 & ->).
        destruct cont.
        * pose proof (body_nit U K c ft s0 true s1 tb Eb eq_refl) as Hn1.
          assert (Hn' : Z.to_nat (k - s_nit s1) = n) by lia.
          specialize (IH s1 s_k t2 Hn' E2 Hk Hg Hm).
          replace (Z.to_nat (maxiter c - s_nit s0)) with (S (Z.to_nat (maxiter c - s_nit s1))) by lia.
          cbn [loop]. rewrite (guard_weaken k gt s0 ltac:(lia) Eg). rewrite Eb. unfold bind. rewrite IH. unfold prepend.
          destruct (loop U K c (Z.to_nat (maxiter c - k)) ft gt s_k) as [r t3]. cbn [fst snd]. rewrite app_assoc. reflexivity.
        * unfold ret in E2. inversion E2; subst s1 t2. destruct (body_stop ft s0 s_k tb Eb) as [Hs|Ha]; [|contradiction].
          exfalso. unfold guard in Hg. rewrite Hs in Hg. rewrite andb_false_r in Hg. discriminate.
      + unfold ret in H. inversion H; subst s_k tr1. lia.
  Qed.
End Split.

From LBFGSB Require Import Proofs.DriverShape Proofs.DriverRestartState.

(* The uninterrupted loop IS the interrupted loop followed by the loop of the restarted run:
   - c   : the configuration of the uninterrupted run (maxiter N);  with_maxiter k c : the interrupted run;
   - c'  : the configuration of the restarted run: same loop-relevant fields as c, the interrupted run's result as checkpoint;
   - s_k : the state in which the interrupted loop stopped because of maxiter (nit = k, still running under c);
   under the hypotheses of restart_continues (history rebuilt exactly, newest stored point = current iterate, first trial point
   of the next line search different from the restart point). *)
Theorem split_then_restart U K c c' (k : Z) ft gt (s0 s_k : lst) tr1 ck (X0 G0 : list vec) t3 stp1 :
  loop U K (with_maxiter k c) (Z.to_nat (k - s_nit s0)) ft gt s0 = (Ok s_k, tr1) ->
  s_nit s_k = k -> guard c gt s_k = true ->
  same_loop_cfg c c' ->
  checkpoint c' = Some ck -> r_nit ck = s_nit s_k -> u_upd U = None ->
  s_X s_k = X0 ++ [s_x s_k] -> s_G s_k = G0 ++ [s_g s_k] -> X0 <> [] ->
  Z.of_nat (List.length (s_X s_k)) <= maxcor c' + 1 -> List.length G0 = List.length X0 ->
  curvature_ok K c' (s_x s_k) (s_g s_k) (last X0 []) (last G0 []) = true -> s_mats s_k = Some (s_X s_k, s_G s_k) ->
  restore c' ck = (X0, G0) ->
  s_msg s_k = MStart -> s_succ s_k = false -> s_warn s_k = 2 ->
  same_counts (s_sf s_k) t3 ->
  let d := direction K s_k in
  let stpmax := if s_nit s_k =? 0 then fone else maxstep (s_x s_k) d (lb c') (ub c') (max_steplength c') in
  let stp0 := if (s_nit s_k =? 0) && negb (is_boxed c') then StopTests.pymin (div fone (sqrt (vdot K d d))) stpmax else fone in
  dcs K (ftol_ls c', gtol_ls c', xtol_ls c', stpmax) [(stp0, s_f s_k, vdot K (s_g s_k) d)] = (stp1, TFG) ->
  (0 < Z.to_nat (ls_cap c' s_k))%nat ->
  veqb (vclip (vaxpy (s_x s_k) stp1 d) (lb c') (ub c')) (SF.sx _ _ _ _ (s_sf s_k)) = false ->
  veqb (vclip (vaxpy (s_x s_k) stp1 d) (lb c') (ub c')) (SF.sx _ _ _ _ t3) = false ->
  loop U K c (Z.to_nat (maxiter c - s_nit s0)) ft gt s0 =
  prepend tr1 (loop U K c' (Z.to_nat (maxiter c - k)) ft gt
                 (first_state U K c' (s_x s_k) (s_f s_k) (s_g s_k) (snd (restored c')) t3)).
Proof.
  intros Hl Hk Hg Hsame Hck Hnit Hupd HX HG HX0 Hlen Hlen' Hcurv Hmats Hres Hm Hs Hw Hcnt d stpmax stp0 Hstart Hcap Hp Hp'.
  assert (Hg' : guard c' gt s_k = true).
  { unfold guard in *. assert (E : norm c' = norm c) by exact Hsame.
    assert (E1 : lb c' = lb c) by (apply (f_equal lb) in E; exact E). assert (E2 : ub c' = ub c) by (apply (f_equal ub) in E; exact E).
    assert (E3 : maxiter c' = maxiter c) by (apply (f_equal maxiter) in E; exact E). assert (E4 : maxfun c' = maxfun c) by (apply (f_equal maxfun) in E; exact E).
    rewrite E1, E2, E3, E4. exact Hg. }
  rewrite (restart_continues U K c' s_k ck X0 G0 t3 stp1 (Z.to_nat (maxiter c - k)) ft gt Hck Hnit Hupd HX HG HX0 Hlen Hlen' Hcurv Hmats Hres Hm Hs Hw Hcnt
             Hstart Hcap Hp Hp' Hg').
  rewrite (loop_same_cfg U K c c' _ ft gt s_k Hsame).
  apply (loop_split U K c k ft gt (Z.to_nat (k - s_nit s0)) s0 s_k tr1 eq_refl Hl Hk Hg). rewrite Hm. discriminate.
Qed.
