(* The quantity the caller recomputes - the projected gradient  P(x - g) - x  - and first-order optimality of the box problem,
   over exact rationals, every dimension, every kind of side (finite, one-sided, infinite, degenerate lb = ub).
   [clip] is the np.clip of Model/Cauchy.v (None = no bound on that side). *)
From Coq Require Import QArith Qabs Qminmax List Bool Arith Lqa Lia.
From LBFGSB Require Import Model.Cauchy Proofs.CauchyProofs.
Open Scope Q_scope.

Notation within1 := within.

(* one coordinate of the projected gradient *)
Definition pg1 (x g : Q) (lo hi : option Q) : Q := clip (x - g) lo hi - x.

(* first-order optimality of one coordinate: the gradient vanishes, or it pushes outward against a bound the variable rests on *)
Definition kkt1 (x g : Q) (lo hi : option Q) : Prop :=
  g == 0 \/ (0 < g /\ match lo with Some l => l == x | None => False end)
         \/ (g < 0 /\ match hi with Some u => u == x | None => False end).

(* approximate version: the gradient is small, or it pushes outward and the variable is within e of that bound *)
Definition kkt1_eps (e x g : Q) (lo hi : option Q) : Prop :=
  Qabs g <= e \/ (0 < g /\ match lo with Some l => x - l <= e | None => False end)
              \/ (g < 0 /\ match hi with Some u => u - x <= e | None => False end).

Ltac cases_clip :=
  unfold pg1, clip, within in *;
  repeat match goal with
         | |- context [Qltb ?a ?b] => let E := fresh "E" in destruct (Qltb a b) eqn:E; [apply Qltb_true in E|apply Qltb_false in E]
         | H : context [Qltb ?a ?b] |- _ => let E := fresh "E" in destruct (Qltb a b) eqn:E; [apply Qltb_true in E|apply Qltb_false in E]
         end.

(* at a feasible point the projected gradient of a coordinate vanishes exactly at first-order optimality *)
Theorem pg1_zero_iff x g lo hi : within1 x lo hi -> (pg1 x g lo hi == 0 <-> kkt1 x g lo hi).
Proof.
  intros [Hl Hu]. unfold kkt1. destruct lo as [l|], hi as [u|]; cases_clip; split; intros H; lra.
Qed.

(* |pg1| <= e  implies approximate optimality with the same e *)
Theorem pg1_small x g lo hi e : within1 x lo hi -> Qabs (pg1 x g lo hi) <= e -> kkt1_eps e x g lo hi.
Proof.
  intros [Hl Hu] H. apply Qabs_Qle_condition in H. unfold kkt1_eps.
  assert (Hg : Qabs g <= e <-> - e <= g <= e) by apply Qabs_Qle_condition.
  destruct lo as [l|], hi as [u|]; cases_clip; lra.
Qed.

(* the move P(x - g) - x is feasible-bounded: it never exceeds the gradient in size and has the opposite sign *)
Theorem pg1_sign x g lo hi : within1 x lo hi -> (0 <= g -> - g <= pg1 x g lo hi <= 0) /\ (g <= 0 -> 0 <= pg1 x g lo hi <= - g).
Proof.
  intros [Hl Hu]. destruct lo as [l|], hi as [u|]; cases_clip; lra.
Qed.

(* ---------------------------------------------------------------- all coordinates *)
Section Vector.
  Variables (n : nat) (x g : nat -> Q) (lb ub : nat -> option Q).

  Notation feasible_box := (feasible n lb ub x).
  Definition pgv (i : nat) : Q := pg1 (x i) (g i) (lb i) (ub i).
  (* np.max(np.abs(...)) as a fold; 0 for n = 0 (the package's projgr is never called with n = 0: x0 has at least one entry) *)
  Fixpoint maxabs (k : nat) (f : nat -> Q) : Q :=
    match k with O => 0 | S k' => Qmax (maxabs k' f) (Qabs (f k')) end.
  Definition projgrQ : Q := maxabs n pgv.
  Definition kkt : Prop := forall i, (i < n)%nat -> kkt1 (x i) (g i) (lb i) (ub i).
  Definition kkt_eps (e : Q) : Prop := forall i, (i < n)%nat -> kkt1_eps e (x i) (g i) (lb i) (ub i).

  Lemma maxabs_nonneg k f : 0 <= maxabs k f.
  Proof. induction k as [|k IH]; cbn [maxabs]; [lra|]. eapply Qle_trans; [exact IH|apply Q.le_max_l]. Qed.
  Lemma maxabs_ge k f i : (i < k)%nat -> Qabs (f i) <= maxabs k f.
  Proof.
    induction k as [|k IH]; intros H; [lia|]. cbn [maxabs].
    destruct (Nat.eq_dec i k) as [->|Hne]; [apply Q.le_max_r|].
    eapply Qle_trans; [apply IH; lia|apply Q.le_max_l].
  Qed.
  Lemma maxabs_le k f e : 0 <= e -> (forall i, (i < k)%nat -> Qabs (f i) <= e) -> maxabs k f <= e.
  Proof.
    intros He. induction k as [|k IH]; intros H; cbn [maxabs]; [exact He|].
    apply Q.max_lub; [apply IH; intros i Hi; apply H; lia|apply H; lia].
  Qed.

  (* projgr = 0  <->  first-order optimality (KKT) of the box problem *)
  Theorem projgr_zero_iff_kkt : feasible_box -> (projgrQ == 0 <-> kkt).
  Proof.
    intros Hf. unfold projgrQ, kkt. split.
    - intros H i Hi. apply pg1_zero_iff; [apply Hf; exact Hi|].
      pose proof (maxabs_ge n pgv i Hi) as H1. rewrite H in H1. fold (pgv i).
      pose proof (Qabs_nonneg (pgv i)) as H2. apply Qabs_Qle_condition in H1. lra.
    - intros H. apply Qle_antisym; [|apply maxabs_nonneg].
      apply maxabs_le; [lra|]. intros i Hi. pose proof (proj2 (pg1_zero_iff _ _ _ _ (Hf i Hi)) (H i Hi)) as H1.
      fold (pgv i) in H1. rewrite H1. cbn. lra.
  Qed.

  (* projgr <= e  ->  approximate first-order optimality with the same e *)
  Theorem projgr_small_kkt_eps e : feasible_box -> projgrQ <= e -> kkt_eps e.
  Proof.
    intros Hf H i Hi. apply pg1_small; [apply Hf; exact Hi|].
    eapply Qle_trans; [apply (maxabs_ge n pgv i Hi)|exact H].
  Qed.

  (* a variable resting on a bound with the gradient pushing outward contributes nothing to the projected gradient *)
  Theorem pg_outward_zero i : (i < n)%nat -> feasible_box ->
    ((0 < g i /\ exists l, lb i = Some l /\ l == x i) \/ (g i < 0 /\ exists u, ub i = Some u /\ u == x i)) -> pgv i == 0.
  Proof.
    intros Hi Hf H. apply pg1_zero_iff; [apply Hf; exact Hi|]. unfold kkt1.
    destruct H as [(H & l & -> & E)|(H & u & -> & E)]; [right; left; auto|right; right; auto].
  Qed.
End Vector.

Example kkt_example :
  let x := fun i : nat => match i with O => 0 | _ => 3 end in
  let g := fun i : nat => match i with O => 2 | _ => 0 end in
  let lb := fun i : nat => match i with O => Some 0 | _ => None end in
  let ub := fun _ : nat => @None Q in
  projgrQ 2 x g lb ub == 0 /\ kkt 2 x g lb ub.
Proof.
  cbv zeta. split; [vm_compute; reflexivity|].
  intros i Hi. destruct i as [|[|i]]; [right; left; cbn; split; [lra|reflexivity]|left; cbn; reflexivity|lia].
Qed.
