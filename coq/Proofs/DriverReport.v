(* C04 / C05 (counters) on the driver model: the termination report is truthful, the budgets are respected,
   the counters equal the user calls made.  Everything is proved for every user, every kernel behaviour. *)
From Coq Require Import List ZArith Bool String Lia Floats.PrimFloat.
From LBFGSB Require Import Base.Res Base.Hoare Base.FloatOrd Model.SF Model.FloatVec Model.Driver Generated.StopTests
  Proofs.SFProofs Proofs.SFCount.
Import ListNotations.
Open Scope Z_scope.

(* ------------------------------------------------------------------ counting events of the driver trace *)
Definition isF (e : ev) : bool := match e with EvF _ _ => true | _ => false end.
Definition isG (e : ev) : bool := match e with EvG _ _ => true | _ => false end.
Definition isFt (e : ev) : bool := match e with EvFt _ => true | _ => false end.
Definition isGt (e : ev) : bool := match e with EvGt _ => true | _ => false end.
Definition isSc (e : ev) : bool := match e with EvScaler _ _ _ _ _ => true | _ => false end.
Definition cntP (p : ev -> bool) (t : list ev) : Z := Z.of_nat (List.length (filter p t)).
Notation cntF := (cntP isF).
Notation cntG := (cntP isG).

Lemma cntP_app p a b : cntP p (a ++ b) = cntP p a + cntP p b.
Proof. unfold cntP. rewrite filter_app, app_length. lia. Qed.
Lemma cntP_nil p : cntP p [] = 0. Proof. reflexivity. Qed.
Lemma cntP_nonneg p t : 0 <= cntP p t. Proof. unfold cntP. lia. Qed.
Lemma cntP_one p e : cntP p [e] = if p e then 1 else 0.
Proof. unfold cntP. cbn. destruct (p e); reflexivity. Qed.

Lemma cntF_lift t : cntF (map sfev t) = count_f vec float vec t.
Proof.
  unfold cntP, count_f. induction t as [|e t IH]; [reflexivity|]. destruct e; cbn [map filter sfev isF List.length]; lia.
Qed.
Lemma cntG_lift t : cntG (map sfev t) = count_g vec float vec t.
Proof.
  unfold cntP, count_g. induction t as [|e t IH]; [reflexivity|]. destruct e; cbn [map filter sfev isG List.length]; lia.
Qed.
Lemma cnt_other_lift p t : (forall x r, p (EvF x r) = false) -> (forall x r, p (EvG x r) = false) -> cntP p (map sfev t) = 0.
Proof.
  intros H1 H2. unfold cntP. induction t as [|e t IH]; [reflexivity|].
  destruct e; cbn [map filter sfev]; rewrite ?H1, ?H2; exact IH.
Qed.

Section Report.
  Variable U : user.
  Variable K : kern.
  Variable c : cfg.

  Notation sfst := (SF.st vec float vec float).
  Notation nfev := (SF.nfev vec float vec float).
  Notation ngev := (SF.ngev vec float vec float).
  Notation scale := (SF.scale vec float vec float).
  Notation callable := (fdmode U = false).

  (* additive bookkeeping relation between two wrapper states and the trace in between *)
  Definition CN (t t1 : sfst) (tr : list ev) : Prop :=
    scale t1 = scale t /\ nfev t1 = nfev t + cntF tr /\ ngev t <= ngev t1 /\ (callable -> ngev t1 = ngev t + cntG tr).

  Lemma CN_refl t : CN t t [].
  Proof. unfold CN. rewrite !cntP_nil. repeat split; lia. Qed.
  Lemma CN_trans t t1 t2 a b : CN t t1 a -> CN t1 t2 b -> CN t t2 (a ++ b).
  Proof.
    unfold CN. intros (A1 & A2 & A3 & A4) (B1 & B2 & B3 & B4). rewrite !cntP_app.
    repeat split; try congruence; try lia. intros H. specialize (A4 H). specialize (B4 H). lia.
  Qed.
  Lemma CN_silent t e : isF e = false -> isG e = false -> CN t t [e].
  Proof. intros H1 H2. unfold CN. rewrite !cntP_one, H1, H2. repeat split; lia. Qed.

  Lemma of_cnt t t1 tr : cnt vec float vec float (fdmode U) t t1 tr ->
    CN t t1 (map sfev tr) /\ 0 <= cntF (map sfev tr) /\ (callable -> cntF (map sfev tr) <= 1).
  Proof.
    unfold cnt, CN. intros (A1 & A2 & A3 & A4 & A5 & A6). rewrite cntF_lift, cntG_lift.
    repeat split; try lia; try assumption; intros H; destruct (A6 H); lia.
  Qed.

  Lemma rep_sf_fun p t : hoareT (sf_fun U p t) (fun r tr => CN t (snd r) tr /\ cntF tr <= 1).
  Proof.
    unfold sf_fun.
    apply (hoareT_lift sfev _ (fun r tr => cnt vec float vec float (fdmode U) t (snd r) tr /\ count_f vec float vec tr <= 1)).
    - intros [v t1] tr (Hc & H1). cbn in *. destruct (of_cnt _ _ _ Hc) as (C1 & _ & _). split; [exact C1|]. rewrite cntF_lift. exact H1.
    - intros [v t1] tr H. destruct (sf_fun_cnt _ _ _ _ _ _ _ (fdmode U) _ _ _ _ _ H) as (Hc & H1 & _). cbn. auto.
  Qed.
  Lemma rep_sf_grad p t : hoareT (sf_grad U p t) (fun r tr => CN t (snd r) tr /\ (callable -> cntF tr = 0)).
  Proof.
    unfold sf_grad.
    apply (hoareT_lift sfev _ (fun r tr => cnt vec float vec float (fdmode U) t (snd r) tr /\ (callable -> count_f vec float vec tr = 0))).
    - intros [g t1] tr (Hc & Hz). cbn in *. destruct (of_cnt _ _ _ Hc) as (C1 & _ & _). split; [exact C1|]. rewrite cntF_lift. exact Hz.
    - intros [g t1] tr H. cbn. eapply sf_grad_cnt; exact H.
  Qed.
  Lemma rep_sf_fun_and_grad p t : hoareT (sf_fun_and_grad U p t) (fun r tr => CN t (snd r) tr /\ (callable -> cntF tr <= 1)).
  Proof.
    unfold sf_fun_and_grad.
    apply (hoareT_lift sfev _ (fun r tr => cnt vec float vec float (fdmode U) t (snd r) tr)).
    - intros [[v g] t1] tr Hc. cbn in *. destruct (of_cnt _ _ _ Hc) as (C1 & _ & C3). auto.
    - intros [[v g] t1] tr H. cbn. eapply sf_fun_and_grad_cnt; exact H.
  Qed.

  (* ---------------------------------------------------------------- line search *)
  Lemma rep_ls_loop n xk d par s :
    hoareT (ls_loop U K c n xk d par s) (fun s' tr => CN (l_sf s) (l_sf s') tr /\ (callable -> cntF tr <= Z.of_nat n)).
  Proof.
    revert s. induction n as [|k IH]; intros s; cbn [ls_loop].
    - apply hoareT_ret. split; [apply CN_refl|]. intros _. rewrite cntP_nil. lia.
    - destruct (dcs K par _) as [stp tk].
      destruct tk; try (apply hoareT_ret; split; [apply CN_refl|intros _; rewrite cntP_nil; lia]).
      eapply hoareT_bind; [apply rep_sf_fun_and_grad|]. intros [[f g] t1] tr1 [C1 B1]. cbn in C1.
      eapply hoareT_weaken; [apply IH|]. cbn. intros s' tr2 [C2 B2].
      split; [eapply CN_trans; eauto|]. intros H. rewrite cntP_app. specialize (B1 H). specialize (B2 H). lia.
  Qed.

  Lemma rep_line_search xk f0 g0 d nit cap t :
    hoareT (line_search U K c xk f0 g0 d nit cap t) (fun r tr => CN t (snd r) tr /\ (callable -> cntF tr <= Z.max 0 cap)).
  Proof.
    unfold line_search. eapply hoareT_bind; [apply rep_ls_loop|]. intros s tr1 [C1 B1]. cbn in C1.
    assert (HB : callable -> cntF (tr1 ++ []) <= Z.max 0 cap).
    { intros H. rewrite app_nil_r. specialize (B1 H). assert (Z.of_nat (Z.to_nat cap) = Z.max 0 cap) by lia. lia. }
    assert (HC : CN t (l_sf s) (tr1 ++ [])) by (rewrite app_nil_r; exact C1).
    destruct (negb _ || _); [apply hoareT_ret; split; assumption|].
    destruct (l_task s); apply hoareT_ret; split; assumption.
  Qed.

  (* gradient evaluations of the line search: one per objective evaluation *)
  Lemma rep_sf_fun_and_grad_g p t : hoareT (sf_fun_and_grad U p t) (fun r tr => callable -> cntG tr <= 1).
  Proof.
    unfold sf_fun_and_grad.
    apply (hoareT_lift sfev _ (fun r tr => cnt vec float vec float (fdmode U) t (snd r) tr)).
    - intros [[v g] t1] tr (_ & _ & _ & _ & _ & E) Hc. rewrite cntG_lift. destruct (E Hc) as (_ & _ & E3). exact E3.
    - intros [[v g] t1] tr H. cbn. eapply sf_fun_and_grad_cnt; exact H.
  Qed.
  Lemma rep_ls_loop_g n xk d par s : hoareT (ls_loop U K c n xk d par s) (fun s' tr => callable -> cntG tr <= Z.of_nat n).
  Proof.
    revert s. induction n as [|k IH]; intros s; cbn [ls_loop].
    - apply hoareT_ret. intros _. rewrite cntP_nil. lia.
    - destruct (dcs K par _) as [stp tk].
      destruct tk; try (apply hoareT_ret; intros _; rewrite cntP_nil; lia).
      eapply hoareT_bind; [apply rep_sf_fun_and_grad_g|]. intros [[f g] t1] tr1 B1.
      eapply hoareT_weaken; [apply IH|]. cbn. intros s' tr2 B2 H. rewrite cntP_app. specialize (B1 H). specialize (B2 H). lia.
  Qed.
  Lemma rep_line_search_g xk f0 g0 d nit cap t :
    hoareT (line_search U K c xk f0 g0 d nit cap t) (fun r tr => callable -> cntG tr <= Z.max 0 cap).
  Proof.
    unfold line_search. eapply hoareT_bind; [apply rep_ls_loop_g|]. intros s tr1 B1.
    assert (HB : callable -> cntG (tr1 ++ []) <= Z.max 0 cap).
    { intros H. rewrite app_nil_r. specialize (B1 H). assert (Z.of_nat (Z.to_nat cap) = Z.max 0 cap) by lia. lia. }
    destruct (negb _ || _); [apply hoareT_ret; assumption|].
    destruct (l_task s); apply hoareT_ret; assumption.
  Qed.

  (* ---------------------------------------------------------------- kinds of loop state *)
  Definition nfevS (s : lst) : Z := nfev (s_sf s).
  Definition running (s : lst) : Prop := s_succ s = false /\ (s_msg s = MStart \/ s_msg s = MRestart).
  Definition cbstop (s : lst) (tr : list ev) : Prop :=
    s_succ s = true /\ s_msg s = MCallback /\ exists snap, In (EvCb snap (Ok true)) tr.
  Definition tgstop (ft : option float) (s : lst) : Prop :=
    s_succ s = true /\ s_msg s = MTarget /\ is_f0_target_reached (div (s_f s) (scale (s_sf s))) ft = true.
  Definition ftstop (s : lst) : Prop :=
    s_succ s = true /\ s_msg s = MFtol /\ exists fo, is_f0_min_change_reached (s_f s) fo (ftol c) = true.
  Definition abstop (s : lst) : Prop := s_succ s = false /\ s_msg s = MAbnormal.
  Definition stopped (ft : option float) (s : lst) : Prop := tgstop ft s \/ ftstop s \/ abstop s.

  Lemma rep_fail_step s t1 : running s ->
    let r := fail_step s t1 in
    s_sf (snd r) = t1 /\ s_f (snd r) = s_f s /\
    (fst r = true -> s_nit (snd r) = s_nit s + 1 /\ running (snd r)) /\
    (fst r = false -> s_nit (snd r) = s_nit s /\ abstop (snd r)).
  Proof.
    intros [R1 R2]. unfold fail_step. destruct (_ =? _)%nat; cbn; repeat split; auto; try discriminate.
  Qed.

  Lemma rep_accept_step ft s a d t1 : running s ->
    hoareT (accept_step U K c ft s a d t1) (fun r tr =>
      CN t1 (s_sf (snd r)) tr /\ (callable -> cntF tr <= 1) /\
      (fst r = true -> s_nit (snd r) = s_nit s + 1 /\ (running (snd r) \/ cbstop (snd r) tr)) /\
      (fst r = false -> s_nit (snd r) = s_nit s /\ (tgstop ft (snd r) \/ ftstop (snd r)))).
  Proof.
    intros [R1 R2]. unfold accept_step.
    eapply hoareT_bind; [apply rep_sf_fun_and_grad|]. intros [[f0 g] t2] tr1 [C1 B1]. cbn in C1.
    eapply hoareT_bind with (R1 := fun _ tr => (tr = [] \/ exists e, tr = [e] /\ isF e = false /\ isG e = false /\ forall s0, e <> EvCb s0 (Ok true))).
    { destruct (u_upd U) as [u|]; [|apply hoareT_ret; left; reflexivity].
      eapply hoareT_bind with (R1 := fun _ tr => exists e, tr = [e] /\ isF e = false /\ isG e = false /\ forall s0, e <> EvCb s0 (Ok true)).
      - apply hoareT_call. intros [[[a1 a2] a3] a4] _. eexists. split; [reflexivity|]. repeat split; try reflexivity. intros; discriminate.
      - intros [[[a1 a2] a3] a4] tr (e & -> & E1 & E2 & E3). apply hoareT_ret. right. exists e. rewrite app_nil_r. auto. }
    intros [[[[f1 fo] g1] G1] filt] tr2 Htr2.
    assert (C2 : CN t1 t2 (tr1 ++ tr2)).
    { destruct Htr2 as [->|(e & -> & E1 & E2 & _)]; [rewrite app_nil_r; exact C1|].
      eapply CN_trans; [exact C1|apply CN_silent; assumption]. }
    assert (B2 : callable -> cntF (tr1 ++ tr2) <= 1).
    { intros H. rewrite cntP_app. specialize (B1 H). destruct Htr2 as [->|(e & -> & E1 & _)]; [rewrite cntP_nil; lia|].
      rewrite cntP_one, E1. lia. }
    destruct (if filt then _ else _) as [X1 G2].
    destruct (is_f0_target_reached _ _) eqn:Et.
    { apply hoareT_ret. cbn. rewrite !app_nil_r. split; [exact C2|]. split; [exact B2|]. split; [discriminate|].
      intros _. split; [reflexivity|]. left. unfold tgstop. cbn. auto. }
    destruct (is_f0_min_change_reached _ _ _) eqn:Em.
    { apply hoareT_ret. cbn. rewrite !app_nil_r. split; [exact C2|]. split; [exact B2|]. split; [discriminate|].
      intros _. split; [reflexivity|]. right. unfold ftstop. cbn. repeat split; auto. exists fo. exact Em. }
    destruct (update_mem_f K c _ _ _ _ _ _) as [[X2 G3] m2].
    destruct (u_cb U) as [cb|].
    - eapply hoareT_bind with (R1 := fun b tr => exists snap, tr = [EvCb snap (cb snap)] /\ cb snap = Ok b).
      { apply hoareT_call. intros b Hb. eexists. split; [reflexivity|exact Hb]. }
      intros b tr3 (snap & -> & Hb).
      assert (C3 : CN t1 t2 (tr1 ++ tr2 ++ [EvCb snap (cb snap)] ++ [])).
      { rewrite app_nil_r, app_assoc. eapply CN_trans; [exact C2|apply CN_silent; reflexivity]. }
      assert (B3 : callable -> cntF (tr1 ++ tr2 ++ [EvCb snap (cb snap)] ++ []) <= 1).
      { intros H. rewrite app_nil_r, app_assoc, cntP_app, cntP_one. cbn. specialize (B2 H). lia. }
      destruct b; apply hoareT_ret; cbn; (split; [exact C3|]); (split; [exact B3|]); (split; [|discriminate]); intros _;
        (split; [reflexivity|]).
      + right. unfold cbstop. cbn. repeat split; auto. exists snap. rewrite Hb.
        apply in_or_app. right. apply in_or_app. right. left. reflexivity.
      + left. unfold running. cbn. auto.
    - apply hoareT_ret. cbn. rewrite !app_nil_r. split; [exact C2|]. split; [exact B2|]. split; [|discriminate].
      intros _. split; [reflexivity|]. left. unfold running. cbn. auto.
  Qed.

  (* ---------------------------------------------------------------- the loop *)
  Definition post (ft : option float) (gt : float) (s0 s' : lst) (tr : list ev) : Prop :=
    CN (s_sf s0) (s_sf s') tr /\
    s_nit s0 <= s_nit s' <= Z.max (maxiter c) (s_nit s0) /\
    (callable -> nfevS s' = nfevS s0 \/ nfevS s' <= maxfun c + 1) /\
    ((running s' /\ guard c gt s' = false) \/ cbstop s' tr \/ stopped ft s').

  Lemma guard_true gt s : guard c gt s = true ->
    ltb gt (projgr (s_x s) (s_g s) (lb c) (ub c)) = true /\ s_nit s < maxiter c /\ nfevS s < maxfun c /\ s_succ s = false.
  Proof.
    unfold guard. intros H. apply andb_true_iff in H as [H H4]. apply andb_true_iff in H as [H H3]. apply andb_true_iff in H as [H1 H2].
    apply Z.ltb_lt in H2. apply Z.ltb_lt in H3. apply negb_true_iff in H4. auto.
  Qed.

  Lemma rep_body ft s : running s -> nfevS s < maxfun c ->
    hoareT (body U K c ft s) (fun r tr =>
      CN (s_sf s) (s_sf (snd r)) tr /\ (callable -> nfevS (snd r) <= maxfun c + 1) /\
      (fst r = true -> s_nit (snd r) = s_nit s + 1 /\ (running (snd r) \/ cbstop (snd r) tr)) /\
      (fst r = false -> s_nit (snd r) = s_nit s /\ stopped ft (snd r))).
  Proof.
    intros HR Hn. unfold body.
    eapply hoareT_bind; [apply rep_line_search|]. intros [stp t1] tr1 [C1 B1]. cbn in C1.
    assert (N1 : callable -> nfev t1 <= maxfun c).
    { intros H. specialize (B1 H). destruct C1 as (_ & C1 & _). unfold ls_cap, nfevS in *. lia. }
    destruct stp as [a|].
    - eapply hoareT_weaken; [apply rep_accept_step; exact HR|]. cbn. intros [cont s1] tr2 (C2 & B2 & H1 & H2). cbn in *.
      split; [eapply CN_trans; eauto|]. split.
      { intros H. specialize (N1 H). specialize (B2 H). destruct C2 as (_ & C2 & _). unfold nfevS. lia. }
      split.
      + intros Hc. destruct (H1 Hc) as [E [R|R]]; split; auto. right.
        destruct R as (R1 & R2 & snap & Hin). repeat split; auto. exists snap. apply in_or_app. right. exact Hin.
      + intros Hc. destruct (H2 Hc) as [E R]. split; auto. unfold stopped. tauto.
    - apply hoareT_ret. destruct (rep_fail_step s t1 HR) as (F1 & F2 & F3 & F4). rewrite app_nil_r.
      split; [rewrite F1; exact C1|]. split; [intros H; unfold nfevS; rewrite F1; specialize (N1 H); lia|]. split.
      + intros Hc. destruct (F3 Hc). auto.
      + intros Hc. destruct (F4 Hc). split; auto. unfold stopped. tauto.
  Qed.

  Lemma loop_stopped fuel ft gt s : s_succ s = true -> loop U K c fuel ft gt s = ret s.
  Proof. intros H. destruct fuel; cbn [loop]; unfold guard; rewrite H, andb_false_r; reflexivity. Qed.

  Lemma rep_loop fuel ft gt s : running s -> hoareT (loop U K c fuel ft gt s) (post ft gt s).
  Proof.
    revert s. induction fuel as [|k IH]; intros s HR; cbn [loop]; destruct (guard c gt s) eqn:Eg.
    - apply hoareT_fuel.
    - apply hoareT_ret. unfold post. split; [apply CN_refl|]. split; [lia|]. split; [auto|]. left. auto.
    - destruct (guard_true _ _ Eg) as (G1 & G2 & G3 & G4).
      eapply hoareT_bind; [apply rep_body; assumption|]. intros [cont s1] tr1 (C1 & N1 & H1 & H2). cbn in *.
      destruct cont.
      + destruct (H1 eq_refl) as [E [R|R]].
        * eapply hoareT_weaken; [apply IH; exact R|]. intros s' tr2 (C2 & I2 & N2 & K2).
          unfold post. split; [eapply CN_trans; eauto|]. split; [lia|]. split.
          { intros H. right. specialize (N1 H). destruct (N2 H) as [->|]; lia. }
          destruct K2 as [K2|[K2|K2]]; [left; exact K2| |right; right; exact K2].
          right; left. destruct K2 as (K21 & K22 & snap & Hin). repeat split; auto. exists snap. apply in_or_app; right; exact Hin.
        * destruct R as (R1 & R2 & R3). rewrite loop_stopped by exact R1. apply hoareT_ret. rewrite app_nil_r.
          unfold post. split; [exact C1|]. split; [lia|]. split; [intros H; right; auto|]. right; left. unfold cbstop. auto.
      + destruct (H2 eq_refl) as [E R]. apply hoareT_ret. rewrite app_nil_r.
        unfold post. split; [exact C1|]. split; [lia|]. split; [intros H; right; auto|]. right; right. exact R.
    - apply hoareT_ret. unfold post. split; [apply CN_refl|]. split; [lia|]. split; [auto|]. left. auto.
  Qed.

  (* ---------------------------------------------------------------- the report *)
  Definition eff_ft : option float :=
    match ftarget c with
    | None => None
    | Some (TolConst v) => Some v
    | Some TolCall => match u_ftarget U with Ok v => Some v | _ => None end
    end.
  Definition eff_gt : float :=
    match gtol c with TolConst v => v | TolCall => match u_gtol U with Ok v => v | _ => nan end end.
  Definition nit0 : Z := match checkpoint c with None => 0 | Some ck => r_nit ck end.
  Definition nfev0 : Z := match checkpoint c with None => 0 | Some ck => r_nfev ck end.
  Definition njev0 : Z := match checkpoint c with None => 0 | Some ck => r_njev ck end.
  (* the evaluation count when iterating starts: 1, or the checkpoint's *)
  Definition n0 : Z := match checkpoint c with None => 1 | Some ck => r_nfev ck end.

  Definition documented (m : msg) : Prop := m <> MStart /\ m <> MRestart.
  (* the scaling factor in force: 1, or the value the scaler returned *)
  Definition scale_in (sg : float) (tr : list ev) : Prop := sg = fone \/ exists x g l u, In (EvScaler x g l u (Ok sg)) tr.

  Record report_ok (r : result) (tr : list ev) : Prop := {
    rp_pgtol : r_msg r = MPgtol -> leb (projgr (r_x r) (r_jac r) (lb c) (ub c)) eff_gt = true;
    rp_target : r_msg r = MTarget -> exists sg, scale_in sg tr /\ is_f0_target_reached (div (r_fun r) sg) eff_ft = true;
    rp_maxiter : r_msg r = MMaxiter -> r_nit r >= maxiter c;
    rp_maxfun : r_msg r = MMaxfun -> r_nfev r >= maxfun c;
    rp_callback : r_msg r = MCallback -> exists s, In (EvCb s (Ok true)) tr;
    rp_ftol : r_msg r = MFtol -> exists fo, is_f0_min_change_reached (r_fun r) fo (ftol c) = true;
    rp_abnormal : r_msg r = MAbnormal -> r_success r = false;
    rp_success : r_success r = false -> r_msg r = MAbnormal \/
                 (* only when a comparison with the projected gradient involves NaN *)
                 ((r_msg r = MStart \/ r_msg r = MRestart) /\ ltb eff_gt (projgr (r_x r) (r_jac r) (lb c) (ub c)) = false /\
                  leb (projgr (r_x r) (r_jac r) (lb c) (ub c)) eff_gt = false);
    rp_doc : documented (r_msg r) \/
             (ltb eff_gt (projgr (r_x r) (r_jac r) (lb c) (ub c)) = false /\ leb (projgr (r_x r) (r_jac r) (lb c) (ub c)) eff_gt = false);
    rp_nit : nit0 <= r_nit r <= Z.max (maxiter c) nit0;
    rp_nfev : callable -> r_nfev r <= Z.max (maxfun c) n0 + 1;
    rp_counters : r_nfev r = nfev0 + cntF tr /\ (callable -> r_njev r = njev0 + cntG tr);
    rp_once : cntP isFt tr = (match ftarget c with Some TolCall => 1 | _ => 0 end) /\
              cntP isGt tr = (match gtol c with TolCall => 1 | _ => 0 end)
  }.

  (* events of the iteration phase are never ftarget() / gtol() / scaler calls *)
  Definition quiet (e : ev) : Prop := isFt e = false /\ isGt e = false /\ isSc e = false.
  Lemma quiet_lift {A} (m : M (SF.ev vec float vec) A) : hoare quiet (lift sfev m) (fun _ => True).
  Proof.
    split; [|auto]. cbn. destruct m as [r t]. cbn. induction t as [|e t IH]; constructor; auto.
    destruct e; repeat split.
  Qed.
  Lemma quiet_cnt t : Forall quiet t -> cntP isFt t = 0 /\ cntP isGt t = 0 /\ cntP isSc t = 0.
  Proof.
    unfold cntP. induction 1 as [|e t (H1 & H2 & H3) _ IH]; [auto|]. cbn [filter]. rewrite H1, H2, H3. exact IH.
  Qed.
  Ltac qt := first [apply hoare_ret; exact I | eapply hoare_weaken; [apply quiet_lift|auto]].
  Lemma quiet_ls_loop n xk d par s : hoare quiet (ls_loop U K c n xk d par s) (fun _ => True).
  Proof.
    revert s. induction n as [|k IH]; intros s; cbn [ls_loop]; [qt|].
    destruct (dcs K par _) as [stp tk]. destruct tk; try qt.
    eapply hoare_bind with (R1 := fun _ => True); [unfold sf_fun_and_grad; qt|]. intros [[f g] t1] _. apply IH.
  Qed.
  Lemma quiet_body ft s : hoare quiet (body U K c ft s) (fun _ => True).
  Proof.
    unfold body. eapply hoare_bind with (R1 := fun _ => True).
    { unfold line_search. eapply hoare_bind with (R1 := fun _ => True); [apply quiet_ls_loop|]. intros s1 _.
      destruct (negb _ || _); [qt|]. destruct (l_task s1); qt. }
    intros [stp t1] _. destruct stp as [a|]; [|qt]. unfold accept_step.
    eapply hoare_bind with (R1 := fun _ => True); [unfold sf_fun_and_grad; qt|]. intros [[f0 g] t2] _.
    eapply hoare_bind with (R1 := fun _ => True).
    { destruct (u_upd U) as [u|]; [|qt]. eapply hoare_bind with (R1 := fun _ => True).
      - apply hoare_call; [repeat split|auto].
      - intros [[[a1 a2] a3] a4] _. qt. }
    intros [[[[f1 fo] g1] G1] filt] _.
    destruct (if filt then _ else _) as [X1 G2].
    destruct (is_f0_target_reached _ _); [qt|]. destruct (is_f0_min_change_reached _ _ _); [qt|].
    destruct (update_mem_f K c _ _ _ _ _ _) as [[X2 G3] m2].
    destruct (u_cb U) as [cb|]; [|qt].
    eapply hoare_bind with (R1 := fun _ => True); [apply hoare_call; [repeat split|auto]|]. intros b _. destruct b; qt.
  Qed.
  Lemma quiet_loop fuel ft gt s : hoare quiet (loop U K c fuel ft gt s) (fun _ => True).
  Proof.
    revert s. induction fuel as [|k IH]; intros s; cbn [loop]; destruct (guard c gt s); try qt; try apply hoare_fuel.
    eapply hoare_bind with (R1 := fun _ => True); [apply quiet_body|]. intros [cont s1] _. destruct cont; [apply IH|qt].
  Qed.

  Lemma classify_spec gt s :
    let s' := classify c gt s in
    s_x s' = s_x s /\ s_f s' = s_f s /\ s_g s' = s_g s /\ s_nit s' = s_nit s /\ s_sf s' = s_sf s /\ s_X s' = s_X s /\ s_G s' = s_G s /\
    ((s_msg s' = MPgtol /\ s_succ s' = true /\ leb (projgr (s_x s) (s_g s) (lb c) (ub c)) gt = true) \/
     (s_msg s' = MMaxiter /\ s_succ s' = true /\ s_nit s >= maxiter c) \/
     (s_msg s' = MMaxfun /\ s_succ s' = true /\ nfevS s >= maxfun c) \/
     (s' = s /\ leb (projgr (s_x s) (s_g s) (lb c) (ub c)) gt = false /\ s_nit s < maxiter c /\ nfevS s < maxfun c)).
  Proof.
    unfold classify. destruct (leb _ gt) eqn:E1; cbn.
    - repeat split; auto.
    - destruct (s_nit s >=? maxiter c) eqn:E2; cbn.
      + repeat split; auto. right; left. repeat split; auto. apply Z.geb_le in E2. lia.
      + destruct (nfev (s_sf s) >=? maxfun c) eqn:E3; cbn.
        * repeat split; auto. right; right; left. repeat split; auto. apply Z.geb_le in E3. unfold nfevS. lia.
        * repeat split; auto. right; right; right. rewrite Z.geb_leb in E2, E3. apply Z.leb_gt in E2, E3. unfold nfevS. auto.
  Qed.

  Lemma hoareT_with {A} (Pev : ev -> Prop) (m : M ev A) R (R' : A -> list ev -> Prop) :
    hoare Pev m R -> hoareT m R' -> hoareT m (fun a t => R' a t /\ Forall Pev t).
  Proof. intros [H1 _] H2 a t Hm. split; [apply H2; exact Hm|]. rewrite Hm in H1. exact H1. Qed.

  Lemma snapshot_fields s n : let r := snapshot s n in
    r_x r = s_x s /\ r_fun r = s_f s /\ r_jac r = s_g s /\ r_nfev r = nfevS s /\ r_njev r = ngev (s_sf s) /\ r_nit r = n /\
    r_msg r = s_msg s /\ r_success r = s_succ s.
  Proof. cbn. repeat split. Qed.

  (* the final classification applied to what the loop returns *)
  Lemma report_of_post ft gt s0 s tr0 tr :
    post ft gt s0 s tr -> running s0 -> ft = eff_ft -> gt = eff_gt ->
    s_nit s0 = nit0 -> (callable -> nfevS s0 <= n0) ->
    nfevS s0 = nfev0 + cntF tr0 -> (callable -> ngev (s_sf s0) = njev0 + cntG tr0) ->
    scale_in (scale (s_sf s0)) tr0 ->
    cntP isFt tr0 = (match ftarget c with Some TolCall => 1 | _ => 0 end) ->
    cntP isGt tr0 = (match gtol c with TolCall => 1 | _ => 0 end) ->
    Forall quiet tr ->
    let s' := classify c gt s in
    report_ok (snapshot s' (s_nit s')) (tr0 ++ tr ++ []).
  Proof.
    intros (C & I & N & Kd) HR -> -> Hn0 Hf0 Hc0 Hg0 Hsc Hft Hgt Hq.
    destruct (classify_spec eff_gt s) as (Ex & Ef & Eg & En & Esf & _ & _ & Cl).
    destruct (quiet_cnt _ Hq) as (Q1 & Q2 & Q3).
    set (s' := classify c eff_gt s) in *. cbn zeta. rewrite app_nil_r.
    destruct (snapshot_fields s' (s_nit s')) as (Fx & Ff & Fj & Fn & Fg & Fi & Fm & Fs).
    destruct C as (C1 & C2 & C3 & C4).
    assert (Hscale : scale (s_sf s') = scale (s_sf s0)) by (rewrite Esf; exact C1).
    assert (Hnf : nfevS s' = nfevS s) by (unfold nfevS; rewrite Esf; reflexivity).
    constructor; rewrite ?Fx, ?Ff, ?Fj, ?Fn, ?Fg, ?Fi, ?Fm, ?Fs, ?Ex, ?Ef, ?Eg, ?En.
    - (* pgtol *) intros Hm. destruct Cl as [(M & _ & L)|[(M & _)|[(M & _)|(E & _)]]]; try congruence.
      rewrite E in Hm. destruct Kd as [[(_ & [R|R]) _]|[(_ & R & _)|[(_ & R & _)|[(_ & R & _)|(_ & R)]]]]; congruence.
    - (* target *) intros Hm. destruct Cl as [(M & _)|[(M & _)|[(M & _)|(E & _)]]]; try congruence.
      rewrite E in Hm. destruct Kd as [[(_ & [R|R]) _]|[(_ & R & _)|[(_ & R & T)|[(_ & R & _)|(_ & R)]]]]; try congruence.
      exists (scale (s_sf s0)). split.
      + destruct Hsc as [H|(x & g & l & u & H)]; [left; exact H|right]. exists x, g, l, u. apply in_or_app. left. exact H.
      + rewrite <- C1. exact T.
    - (* maxiter *) intros Hm. destruct Cl as [(M & _)|[(M & _ & L)|[(M & _)|(E & _)]]]; try congruence.
      rewrite E in Hm. destruct Kd as [[(_ & [R|R]) _]|[(_ & R & _)|[(_ & R & _)|[(_ & R & _)|(_ & R)]]]]; congruence.
    - (* maxfun *) intros Hm. rewrite Hnf. destruct Cl as [(M & _)|[(M & _)|[(M & _ & L)|(E & _)]]]; try congruence.
      rewrite E in Hm. destruct Kd as [[(_ & [R|R]) _]|[(_ & R & _)|[(_ & R & _)|[(_ & R & _)|(_ & R)]]]]; congruence.
    - (* callback *) intros Hm. destruct Cl as [(M & _)|[(M & _)|[(M & _)|(E & _)]]]; try congruence.
      rewrite E in Hm. destruct Kd as [[(_ & [R|R]) _]|[(_ & R & snap & Hin)|[(_ & R & _)|[(_ & R & _)|(_ & R)]]]]; try congruence.
      exists snap. apply in_or_app. right. exact Hin.
    - (* ftol *) intros Hm. destruct Cl as [(M & _)|[(M & _)|[(M & _)|(E & _)]]]; try congruence.
      rewrite E in Hm. destruct Kd as [[(_ & [R|R]) _]|[(_ & R & _)|[(_ & R & _)|[(_ & R & T)|(_ & R)]]]]; try congruence; try exact T.
    - (* abnormal -> not success *) intros Hm. destruct Cl as [(M & _)|[(M & _)|[(M & _)|(E & _)]]]; try congruence.
      rewrite E in Hm |- *. destruct Kd as [[(_ & [R|R]) _]|[(_ & R & _)|[(_ & R & _)|[(_ & R & _)|(R' & R)]]]]; congruence.
    - (* not success *) intros Hs. destruct Cl as [(_ & M & _)|[(_ & M & _)|[(_ & M & _)|(E & L1 & L2 & L3)]]]; try congruence.
      rewrite E in Hs |- *. destruct Kd as [[(_ & R) Gd]|[(R & _)|[(R & _)|[(R & _)|(_ & R)]]]]; try congruence; [|left; exact R].
      right. split; [exact R|]. split; [|exact L1].
      unfold guard in Gd. apply Z.ltb_lt in L2. apply Z.ltb_lt in L3. unfold nfevS in L3. rewrite L2, L3, Hs in Gd.
      cbn in Gd. rewrite !andb_true_r in Gd. exact Gd.
    - (* documented *)
      destruct Cl as [(M & _)|[(M & _)|[(M & _)|(E & L1 & L2 & L3)]]]; try (left; split; congruence).
      rewrite E. destruct Kd as [[(Hs & R) Gd]|[(_ & R & _)|[(_ & R & _)|[(_ & R & _)|(_ & R)]]]]; try (left; split; congruence).
      right. split; [|exact L1].
      unfold guard in Gd. apply Z.ltb_lt in L2. apply Z.ltb_lt in L3. unfold nfevS in L3. rewrite L2, L3, Hs in Gd.
      cbn in Gd. rewrite !andb_true_r in Gd. exact Gd.
    - (* nit *) rewrite Hn0 in I. lia.
    - (* nfev *) intros H. rewrite Hnf. specialize (N H). specialize (Hf0 H). destruct N as [->|N]; lia.
    - (* counters *) rewrite Hnf. unfold nfevS in *. rewrite Esf. rewrite !cntP_app. split; [lia|].
      intros H. specialize (C4 H). specialize (Hg0 H). lia.
    - (* once *) rewrite !cntP_app, Q1, Q2, Hft, Hgt. split; lia.
  Qed.
End Report.
