(* ================================================================================================
   FSubspaceProofs.v -- float-level safety facts of the bit-exact model Model/FSubspace.v of
   lbfgsb.subspacemin.get_freev / subspace_minimization, for ALL inputs: any n, any binary64 values (NaN,
   infinities, signed zeros, subnormals), any answers of the two BLAS/LAPACK oracles, any theta, use_factor.

   (S1) feasibility       fsub_feasible, fsub_feasible_moved
   (S2) shapes, free set  fsub_length, ffree_spec, findices_spec, findices_sorted, nan_is_free, fsub_free_is_ffree
   (S3) variables at rest fsub_nonfree, fsub_nonfree_eqb, fsub_nonfree_bits (+ counterexamples of the naive statement),
                          fsub_free_component (what a free variable becomes), fsub_free_zero_step(_eqb) (zero step)
   (S4) alpha_star        alpha_le_one, alpha_not_nan, alpha_cases, alpha_minimal, alpha_nonneg, alpha_pos
                          (+ counterexample: 0 < alpha_star fails by underflow; alpha_star = 0 and an infinite step: NaN)
   (S5) no free variable  fsub_no_free, has_free_false_iff, fsub_all_on_bounds
   robustness             fsub_alpha_zero_sign: xbar does not depend on the sign of a zero alpha_star
   ================================================================================================ *)
From Coq Require Import List Bool Arith Lia Sorted Floats.PrimFloat.
From LBFGSB Require Import Base.FloatOrd Model.FloatVec Model.FCauchy Model.FSubspace Proofs.DriverBox Proofs.FCauchyFloat
  Proofs.FSubspaceFloat.
Import ListNotations.
Local Open Scope nat_scope.

(* ---------------------------------------------------------------------------------------------- *)
(* A. element access and shapes of the vector primitives                                           *)
(* ---------------------------------------------------------------------------------------------- *)
Lemma vmap2_length f a b : length (vmap2 f a b) = Nat.min (length a) (length b).
Proof. revert b. induction a as [|h a IH]; intros [|y b]; simpl; auto. Qed.

Lemma nth_vmap2 f a b i dflt : i < length a -> i < length b ->
  nth i (vmap2 f a b) dflt = f (nth i a dflt) (nth i b dflt).
Proof.
  revert b i. induction a as [|h a IH]; intros [|y b] [|i] Ha Hb; simpl in *; try lia; auto; try (apply IH; lia).
Qed.

Lemma vip_length f a b : length (vip f a b) = length a.
Proof. revert b. induction a as [|h a IH]; intros [|y b]; simpl; auto. Qed.

Lemma nth_vip f a b i dflt : i < length a -> i < length b -> nth i (vip f a b) dflt = f (nth i a dflt) (nth i b dflt).
Proof.
  revert b i. induction a as [|h a IH]; intros [|y b] [|i] Ha Hb; simpl in *; try lia; auto; try (apply IH; lia).
Qed.

Lemma vclip_length v lb ub : length (vclip v lb ub) = Nat.min (length v) (Nat.min (length lb) (length ub)).
Proof. revert lb ub. induction v as [|h v IH]; intros [|l lb] [|u ub]; simpl; auto. Qed.

Lemma nth_vclip v lb ub i dflt : i < length v -> i < length lb -> i < length ub ->
  nth i (vclip v lb ub) dflt = fclip (nth i v dflt) (nth i lb dflt) (nth i ub dflt).
Proof.
  revert lb ub i. induction v as [|h v IH]; intros [|l lb] [|u ub] [|i]; simpl; intros; try lia; auto; try (apply IH; lia).
Qed.

Lemma ffree_length xc lb ub : length (ffree xc lb ub) = Nat.min (length xc) (Nat.min (length lb) (length ub)).
Proof. revert lb ub. induction xc as [|h v IH]; intros [|l lb] [|u ub]; simpl; auto. Qed.

Lemma nth_ffree xc lb ub i : i < length xc -> i < length lb -> i < length ub ->
  nth i (ffree xc lb ub) false = is_free (nth i xc nan) (nth i lb nan) (nth i ub nan).
Proof.
  revert lb ub i. induction xc as [|h v IH]; intros [|l lb] [|u ub] [|i]; simpl; intros; try lia; auto; try (apply IH; lia).
Qed.

Lemma scatter_length a m d : length (scatter a m d) = length m.
Proof.
  revert d. induction m as [|b m IH]; intros d; simpl; auto. destruct b; [destruct d|]; simpl; rewrite IH; reflexivity.
Qed.

(* a row of Z without stored entry: +0.0, whatever alpha_star and dHat are *)
Lemma nth_scatter_nonfree a m d i : i < length m -> nth i m false = false -> nth i (scatter a m d) nan = 0%float.
Proof.
  revert d i. induction m as [|b m IH]; intros d [|i] Hi Hb; simpl in *; try lia.
  - subst b. reflexivity.
  - destruct b; [destruct d|]; simpl; apply IH; auto; lia.
Qed.

(* number of free variables before position i: the column of Z whose entry is in row i *)
Fixpoint rank (i : nat) (m : list bool) : nat :=
  match i, m with
  | S k, b :: m' => (if b then 1 else 0) + rank k m'
  | _, _ => 0
  end.
Definition count_free (m : list bool) : nat := rank (length m) m.

Lemma nth_scatter_free a m d i : i < length m -> nth i m false = true -> rank i m < length d ->
  nth i (scatter a m d) nan = add 0 (mul a (nth (rank i m) d nan)).
Proof.
  revert d i. induction m as [|b m IH]; intros d [|i] Hi Hb Hr; simpl in *; try lia.
  - subst b. destruct d as [|dj d]; simpl in *; [lia|reflexivity].
  - destruct b.
    + destruct d as [|dj d]; simpl in *; [lia|]. apply IH; auto; lia.
    + simpl. apply IH; auto; lia.
Qed.

Lemma rank_lt_count i m : i < length m -> nth i m false = true -> rank i m < count_free m.
Proof.
  unfold count_free. revert i. induction m as [|b m IH]; intros [|i] Hi Hb; simpl in *; try lia.
  - subst b. lia.
  - specialize (IH i). destruct b; simpl; assert (rank i m < rank (length m) m) by (apply IH; auto; lia); lia.
Qed.

Lemma gather_length m v : length m <= length v -> length (gather m v) = count_free m.
Proof.
  unfold count_free. revert v. induction m as [|b m IH]; intros [|x v] H; simpl in *; try lia; auto.
  destruct b; simpl; rewrite IH; auto; lia.
Qed.

Lemma nth_gather m v i : i < length m -> i < length v -> nth i m false = true -> nth (rank i m) (gather m v) nan = nth i v nan.
Proof.
  revert v i. induction m as [|b m IH]; intros [|x v] [|i] Hi Hv Hb; simpl in *; try lia.
  - subst b. reflexivity.
  - destruct b; simpl; apply IH; auto; lia.
Qed.

Lemma gather_Forall (P : float -> Prop) m v :
  (forall i, i < length m -> i < length v -> nth i m false = true -> P (nth i v nan)) -> Forall P (gather m v).
Proof.
  revert v. induction m as [|b m IH]; intros [|x v] H; simpl; try constructor.
  assert (Hr : Forall P (gather m v)).
  { apply IH. intros i Hi Hv Hb. apply (H (S i)); simpl; auto; lia. }
  destruct b; [constructor; [apply (H 0); simpl; auto; lia|exact Hr]|exact Hr].
Qed.

(* ---------------------------------------------------------------------------------------------- *)
(* B. the free set                                                                                 *)
(* ---------------------------------------------------------------------------------------------- *)
Lemma is_free_false_iff x l u : is_free x l u = false <-> (eqb x u = true \/ eqb x l = true).
Proof. unfold is_free. destruct (eqb x u), (eqb x l); simpl; split; intros; auto; try discriminate; destruct H; discriminate. Qed.

Lemma is_free_true_iff x l u : is_free x l u = true <-> (eqb x u = false /\ eqb x l = false).
Proof. unfold is_free. destruct (eqb x u), (eqb x l); simpl; split; intros; auto; try discriminate; destruct H; discriminate. Qed.

Lemma is_free_nan x l u : is_nan x = true -> is_free x l u = true.
Proof.
  intros N. apply is_free_true_iff. split.
  - destruct (eqb x u) eqn:E; [|reflexivity]. destruct (eqb_not_nan _ _ E). congruence.
  - destruct (eqb x l) eqn:E; [|reflexivity]. destruct (eqb_not_nan _ _ E). congruence.
Qed.

Lemma not_free_not_nan x l u : is_free x l u = false -> is_nan x = false.
Proof. intros H. destruct (is_nan x) eqn:N; [|reflexivity]. rewrite (is_free_nan _ l u N) in H. discriminate. Qed.

Lemma In_indices_from k m i : In i (indices_from k m) <-> (k <= i /\ i - k < length m /\ nth (i - k) m false = true).
Proof.
  revert k. induction m as [|b m IH]; intros k; simpl.
  - split; [tauto|intros (_ & H & _); lia].
  - assert (Hr : In i (indices_from (S k) m) <-> (S k <= i /\ i - S k < length m /\ nth (i - S k) m false = true)) by apply IH.
    destruct (Nat.eq_dec i k) as [->|Hne].
    + rewrite Nat.sub_diag. destruct b; simpl; split; intros H.
      * repeat split; auto; lia.
      * left; reflexivity.
      * apply Hr in H. lia.
      * destruct H as (_ & _ & H). discriminate.
    + assert (Hs : k <= i -> i - k = S (i - S k)) by lia.
      destruct b; simpl; split; intros H.
      * destruct H as [H|H]; [lia|]. apply Hr in H. destruct H as (H1 & H2 & H3). rewrite Hs by lia. repeat split; auto; lia.
      * right. apply Hr. destruct H as (H1 & H2 & H3). rewrite Hs in H2, H3 by lia. repeat split; auto; lia.
      * apply Hr in H. destruct H as (H1 & H2 & H3). rewrite Hs by lia. repeat split; auto; lia.
      * apply Hr. destruct H as (H1 & H2 & H3). rewrite Hs in H2, H3 by lia. repeat split; auto; lia.
Qed.

Lemma indices_from_sorted k m : StronglySorted lt (indices_from k m) /\ Forall (fun i => k <= i) (indices_from k m).
Proof.
  revert k. induction m as [|b m IH]; intros k; simpl; [split; constructor|].
  destruct (IH (S k)) as [H1 H2].
  assert (H3 : Forall (fun i => k <= i) (indices_from (S k) m)).
  { eapply Forall_impl; [|exact H2]. simpl; intros; lia. }
  destruct b; [|split; assumption].
  split; constructor; auto.
Qed.

Lemma has_free_false_iff m : has_free m = false <-> (forall i, nth i m false = false).
Proof.
  unfold has_free. induction m as [|b m IH]; simpl.
  - split; auto. intros _ [|i]; reflexivity.
  - destruct b; simpl.
    + split; [discriminate|]. intros H. exact (H 0).
    + rewrite IH. split; intros H; [intros [|i]; auto|intros i; exact (H (S i))].
Qed.

Lemma has_free_true_iff m : has_free m = true <-> (exists i, i < length m /\ nth i m false = true).
Proof.
  unfold has_free. rewrite existsb_exists. split.
  - intros [b [Hin ->]]. destruct (In_nth _ _ false Hin) as [i [Hi E]]. eauto.
  - intros [i [Hi E]]. exists true. split; [|reflexivity]. rewrite <- E. apply nth_In. exact Hi.
Qed.

(* ---------------------------------------------------------------------------------------------- *)
(* C. np.fmin, np.nanmin, Python's min                                                             *)
(* ---------------------------------------------------------------------------------------------- *)
Lemma fmin_cases a b : fmin a b = a \/ fmin a b = b.
Proof. unfold fmin. destruct (leb a b || is_nan b); auto. Qed.

Lemma fmin_nan a b : is_nan (fmin a b) = true -> is_nan a = true /\ is_nan b = true.
Proof.
  unfold fmin. destruct (leb a b) eqn:E1; simpl.
  - intros H. destruct (leb_not_nan _ _ E1). congruence.
  - destruct (is_nan b) eqn:E2; auto. intros H. congruence.
Qed.

Lemma fmin_lower m a b : leb m (fmin a b) = true ->
  (is_nan a = true \/ leb m a = true) /\ (is_nan b = true \/ leb m b = true).
Proof.
  unfold fmin. destruct (leb a b) eqn:E1; simpl.
  - intros H. split; [right; exact H|right; eapply leb_trans; eauto].
  - destruct (is_nan b) eqn:E2.
    + intros H. split; [right; exact H|left; reflexivity].
    + intros H. split; [|right; exact H].
      destruct (is_nan a) eqn:E3; [left; reflexivity|right].
      eapply leb_trans; [exact H|]. apply ltb_leb. apply leb_false_ltb; assumption.
Qed.

(* the reduction returns NaN iff every entry is NaN; otherwise an entry that is not NaN and below every non-NaN entry *)
Lemma fold_fmin_spec r : forall x,
  (is_nan (fold_left fmin r x) = true /\ forall c, In c (x :: r) -> is_nan c = true) \/
  (is_nan (fold_left fmin r x) = false /\ In (fold_left fmin r x) (x :: r) /\
   forall c, In c (x :: r) -> is_nan c = true \/ leb (fold_left fmin r x) c = true).
Proof.
  induction r as [|y r IH]; intros x.
  - simpl. destruct (is_nan x) eqn:N; [left|right].
    + split; auto. intros c [<-|[]]; auto.
    + split; [auto|split; [left; auto|]]. intros c [<-|[]]. right. apply leb_refl; auto.
  - change (fold_left fmin (y :: r) x) with (fold_left fmin r (fmin x y)).
    destruct (IH (fmin x y)) as [[Hn Ha]|[Hn [Hi Hm]]].
    + left. split; auto. intros c Hc.
      destruct (fmin_nan x y (Ha _ (or_introl eq_refl))) as [Nx Ny].
      destruct Hc as [<-|[<-|Hc]]; auto. apply Ha. right; exact Hc.
    + right. split; auto. split.
      * destruct Hi as [Hi|Hi]; [|right; right; exact Hi].
        destruct (fmin_cases x y) as [E|E]; [left|right; left]; (etransitivity; [symmetry; exact E|exact Hi]).
      * intros c Hc. destruct (Hm _ (or_introl eq_refl)) as [Hf|Hf].
        -- apply fmin_nan in Hf as [Nx Ny]. destruct Hc as [<-|[<-|Hc]]; auto. apply Hm. right; exact Hc.
        -- apply fmin_lower in Hf as [Hx Hy]. destruct Hc as [<-|[<-|Hc]]; auto. apply Hm. right; exact Hc.
Qed.

Lemma nanmin_spec l :
  (l = [] /\ nanmin l = 1%float) \/
  (l <> [] /\ is_nan (nanmin l) = true /\ forall c, In c l -> is_nan c = true) \/
  (is_nan (nanmin l) = false /\ In (nanmin l) l /\ forall c, In c l -> is_nan c = true \/ leb (nanmin l) c = true).
Proof.
  destruct l as [|x r]; [left; split; reflexivity|right]. simpl.
  destruct (fold_fmin_spec r x) as [[H1 H2]|H]; [left; split; [discriminate|split; assumption]|right; exact H].
Qed.

Lemma pymin_one_le v : leb (pymin 1 v) 1 = true.
Proof. unfold pymin. destruct (ltb v 1) eqn:E; [apply ltb_leb; exact E|reflexivity]. Qed.

Lemma pymin_one_cases v : pymin 1 v = 1%float \/ (pymin 1 v = v /\ ltb v 1 = true).
Proof. unfold pymin. destruct (ltb v 1) eqn:E; auto. Qed.

(* ---------------------------------------------------------------------------------------------- *)
(* D. the candidates                                                                               *)
(* ---------------------------------------------------------------------------------------------- *)
Definition nan_or_nonneg_f (q : float) : Prop := is_nan q = true \/ leb 0 q = true.

Lemma cand_nonneg d ux lx : eqb d 0 = false -> ltb 0 ux = true -> ltb lx 0 = true -> nan_or_nonneg_f (cand d ux lx).
Proof.
  intros Hd Hu Hl. unfold cand, nan_or_nonneg_f. destruct (ltb 0 d) eqn:E.
  - apply div_pos_pos; assumption.
  - destruct (not_pos_nonzero d E Hd) as [N|N]; [left; apply div_nan_r; exact N|apply div_neg_neg; assumption].
Qed.

Lemma cands_Forall (P : float -> Prop) d ubx lbx :
  (forall dj uj lj, eqb dj 0 = false -> In uj ubx -> In lj lbx -> P (cand dj uj lj)) -> Forall P (cands d ubx lbx).
Proof.
  revert ubx lbx. induction d as [|dj d IH]; intros [|uj ubx] [|lj lbx] H; simpl; try constructor.
  assert (Hr : Forall P (cands d ubx lbx)).
  { apply IH. intros a b c' Ha Hb Hc. apply H; simpl; auto. }
  destruct (eqb dj 0) eqn:E; [exact Hr|]. constructor; [apply H; simpl; auto|exact Hr].
Qed.

(* ---------------------------------------------------------------------------------------------- *)
(* E. np.clip of a variable resting on a bound                                                     *)
(* ---------------------------------------------------------------------------------------------- *)
Lemma fclip_cases y l u : fclip y l u = y \/ fclip y l u = l \/ fclip y l u = u.
Proof.
  unfold fclip. destruct (is_nan y) eqn:Ny.
  - rewrite Ny. auto.
  - destruct (ltb l y); [rewrite Ny; destruct (ltb y u); auto|].
    destruct (is_nan l); auto. destruct (ltb l u); auto.
Qed.

Lemma fclip_on_bound y x l u : eqb y x = true -> (eqb x u = true \/ eqb x l = true) -> leb l u = true ->
  eqb (fclip y l u) x = true.
Proof.
  intros Hy Hb Hlu. destruct (eqb_not_nan _ _ Hy) as [Ny Nx]. destruct (leb_not_nan _ _ Hlu) as [Nl Nu].
  unfold fclip. rewrite Ny. destruct (ltb l y) eqn:E1.
  - rewrite Ny. destruct (ltb y u) eqn:E2; [exact Hy|].
    destruct Hb as [Hb|Hb]; [rewrite eqb_sym; exact Hb|].
    revert Hy Hb Hlu E1 E2. clear. key_tac.
  - rewrite Nl. destruct (ltb l u) eqn:E2.
    + destruct Hb as [Hb|Hb]; [|rewrite eqb_sym; exact Hb].
      revert Hy Hb Hlu E1 E2. clear. key_tac.
    + destruct Hb as [Hb|Hb]; [rewrite eqb_sym; exact Hb|].
      revert Hy Hb Hlu E1 E2. clear. key_tac.
Qed.

Lemma fclip_inside y x l u : eqb y x = true -> leb l x = true -> leb x u = true -> eqb (fclip y l u) x = true.
Proof.
  intros Hy Hl Hu. destruct (eqb_not_nan _ _ Hy) as [Ny Nx]. destruct (leb_not_nan _ _ Hl) as [Nl _].
  unfold fclip. rewrite Ny. destruct (ltb l y) eqn:E1.
  - rewrite Ny. destruct (ltb y u) eqn:E2; [exact Hy|]. revert Hy Hl Hu E1 E2. clear. key_tac.
  - rewrite Nl. destruct (ltb l u) eqn:E2.
    + revert Hy Hl Hu E1 E2. clear. key_tac.
    + revert Hy Hl Hu E1 E2. clear. key_tac.
Qed.

(* ---------------------------------------------------------------------------------------------- *)
(* F. the sign of a zero alpha_star is irrelevant                                                  *)
(* ---------------------------------------------------------------------------------------------- *)
Lemma scatter_eqb a a' m d : eqb a a' = true -> scatter a m d = scatter a' m d.
Proof.
  intros E. revert d. induction m as [|b m IH]; intros d; simpl; auto.
  destruct b; [destruct d as [|dj d]|]; rewrite IH; auto. rewrite (addmul_zero_sign a a' dj E). reflexivity.
Qed.

(* ================================================================================================ *)
(* The theorems                                                                                     *)
(* ================================================================================================ *)
Section Theorems.
Variable O : sub_oracles.
Variables x xc c g lb ub : vec.
Variable theta : float.
Variable use_factor : bool.

Notation free := (ffree xc lb ub).
Notation R := (fsubspace_full O x xc c g lb ub theta use_factor).
Notation xbar := (fsubspace O x xc c g lb ub theta use_factor).
Notation dH := (dhat O x xc c g theta use_factor free).
Notation alpha := (alpha_star O x xc c g lb ub theta use_factor free).
Notation cnds := (step_cands O x xc c g lb ub theta use_factor free).

Lemma R_unfold :
  R = if has_free free
      then mkSR (xbar_of O x xc c g lb ub theta use_factor free alpha) free false (rvec O x xc c g theta use_factor)
                (rhat O x xc c g theta use_factor free) dH cnds alpha
      else mkSR xc free true [] [] [] [] 1%float.
Proof. reflexivity. Qed.

Lemma early_iff : sr_early R = negb (has_free free).
Proof. rewrite R_unfold. destruct (has_free free); reflexivity. Qed.

(* the quantities of the _full variant are the ones the statements below are about *)
Lemma fsub_free_is_ffree : sr_free R = free.
Proof. rewrite R_unfold. destruct (has_free free); reflexivity. Qed.

Lemma fsub_alpha_is : sr_early R = false -> sr_alpha R = alpha /\ sr_dhat R = dH /\ sr_cands R = cnds.
Proof. rewrite R_unfold. destruct (has_free free); simpl; [auto|discriminate]. Qed.

Lemma xbar_moved : sr_early R = false -> xbar = vclip (vadd xc (scatter (mul 1 alpha) free dH)) lb ub.
Proof. unfold fsubspace. rewrite R_unfold. destruct (has_free free); simpl; [reflexivity|discriminate]. Qed.

(* ---------------------------------------------------------------------------------------------- *)
(* (S5) no free variable: the Cauchy point itself is returned                                      *)
(* ---------------------------------------------------------------------------------------------- *)
Theorem fsub_no_free : has_free free = false -> xbar = xc.
Proof. intros H. unfold fsubspace. rewrite R_unfold, H. reflexivity. Qed.

Theorem fsub_all_on_bounds : length lb = length xc -> length ub = length xc ->
  (forall i, i < length xc -> eqb (nth i xc nan) (nth i ub nan) = true \/ eqb (nth i xc nan) (nth i lb nan) = true) ->
  xbar = xc /\ sr_early R = true.
Proof.
  intros Ll Lu H.
  assert (Hf : has_free free = false).
  { apply has_free_false_iff. intros i. destruct (Nat.lt_ge_cases i (length xc)) as [Hi|Hi].
    - rewrite nth_ffree by lia. apply is_free_false_iff. apply H. exact Hi.
    - apply nth_overflow. rewrite ffree_length. lia. }
  split; [apply fsub_no_free; exact Hf|rewrite early_iff, Hf; reflexivity].
Qed.

(* ---------------------------------------------------------------------------------------------- *)
(* (S1) feasibility under exact binary64 comparisons (okc: inside [l, u], or NaN)                  *)
(* ---------------------------------------------------------------------------------------------- *)
Theorem fsub_feasible_moved : wfb lb ub -> sr_early R = false -> inbox xbar lb ub.
Proof. intros Hw He. rewrite (xbar_moved He). apply vclip_inbox. exact Hw. Qed.

Theorem fsub_feasible : wfb lb ub -> inbox xc lb ub -> inbox xbar lb ub.
Proof.
  intros Hw Hx. destruct (sr_early R) eqn:He; [|apply fsub_feasible_moved; assumption].
  rewrite early_iff in He. rewrite fsub_no_free; [exact Hx|]. destruct (has_free free); [discriminate|reflexivity].
Qed.

(* a NaN component of xbar: only through NaN arithmetic, np.clip never creates one when lb <= ub *)
Theorem fsub_nan_origin : length lb = length xc -> length ub = length xc -> sr_early R = false ->
  forall i, i < length xc -> leb (nth i lb nan) (nth i ub nan) = true -> is_nan (nth i xbar nan) = true ->
  is_nan (add (nth i xc nan) (nth i (scatter (mul 1 alpha) free dH) nan)) = true.
Proof.
  intros Ll Lu He i Hi Hlu Hn. rewrite (xbar_moved He) in Hn.
  assert (Ls : length (scatter (mul 1 alpha) free dH) = length xc) by (rewrite scatter_length, ffree_length; lia).
  rewrite nth_vclip in Hn; try lia; [|unfold vadd; rewrite vmap2_length; lia].
  apply fclip_nan in Hn; [|exact Hlu]. unfold vadd in Hn. rewrite nth_vmap2 in Hn by lia. exact Hn.
Qed.

(* ---------------------------------------------------------------------------------------------- *)
(* (S2) shapes and the free set                                                                    *)
(* ---------------------------------------------------------------------------------------------- *)
Theorem fsub_length : length lb = length xc -> length ub = length xc -> length xbar = length xc.
Proof.
  intros Ll Lu. destruct (sr_early R) eqn:He.
  - rewrite early_iff in He. rewrite fsub_no_free; [reflexivity|]. destruct (has_free free); [discriminate|reflexivity].
  - rewrite (xbar_moved He). rewrite vclip_length. unfold vadd. rewrite vmap2_length, scatter_length, ffree_length. lia.
Qed.

(* free_i  <->  xc_i != ub_i and xc_i != lb_i  (binary64 !=: a NaN component is free, -0.0 on a +0.0 bound is not) *)
Theorem ffree_spec : length lb = length xc -> length ub = length xc ->
  length free = length xc /\
  forall i, i < length xc ->
    nth i free false = negb (eqb (nth i xc nan) (nth i ub nan)) && negb (eqb (nth i xc nan) (nth i lb nan)).
Proof. intros Ll Lu. split; [rewrite ffree_length; lia|]. intros i Hi. rewrite nth_ffree by lia. reflexivity. Qed.

(* free_vars = mask.nonzero()[0]: exactly the indices of the free variables, in increasing order *)
Theorem findices_spec i : In i (findices xc lb ub) <-> (i < length free /\ nth i free false = true).
Proof. unfold findices. rewrite In_indices_from, Nat.sub_0_r. split; intros H; [tauto|split; [lia|tauto]]. Qed.

Theorem findices_sorted : StronglySorted lt (findices xc lb ub).
Proof. apply indices_from_sorted. Qed.

Theorem findices_iff : length lb = length xc -> length ub = length xc -> forall i,
  In i (findices xc lb ub) <->
  (i < length xc /\ eqb (nth i xc nan) (nth i ub nan) = false /\ eqb (nth i xc nan) (nth i lb nan) = false).
Proof.
  intros Ll Lu i. rewrite findices_spec, ffree_length. split.
  - intros [Hi Hf]. rewrite nth_ffree in Hf by lia. apply is_free_true_iff in Hf. split; [lia|exact Hf].
  - intros [Hi Hf]. split; [lia|]. rewrite nth_ffree by lia. apply is_free_true_iff. exact Hf.
Qed.

Theorem nan_is_free : length lb = length xc -> length ub = length xc -> forall i, i < length xc ->
  is_nan (nth i xc nan) = true -> nth i free false = true.
Proof. intros Ll Lu i Hi N. rewrite nth_ffree by lia. apply is_free_nan. exact N. Qed.

(* the early return happens exactly when no variable is free *)
Theorem early_return_iff : sr_early R = true <-> findices xc lb ub = [].
Proof.
  rewrite early_iff. split.
  - intros H. destruct (findices xc lb ub) as [|i r] eqn:E; [reflexivity|exfalso].
    assert (Hi : In i (findices xc lb ub)) by (rewrite E; left; reflexivity).
    apply findices_spec in Hi. destruct Hi as [_ Hi].
    assert (Hf : has_free free = false) by (destruct (has_free free); [discriminate|reflexivity]).
    rewrite (proj1 (has_free_false_iff _) Hf i) in Hi. discriminate.
  - intros E. destruct (has_free free) eqn:Hf; [|reflexivity]. exfalso.
    apply has_free_true_iff in Hf. destruct Hf as [i Hi]. apply findices_spec in Hi. rewrite E in Hi. destruct Hi.
Qed.

(* ---------------------------------------------------------------------------------------------- *)
(* (S3) a variable that is not free is not moved                                                   *)
(* ---------------------------------------------------------------------------------------------- *)
Section Component.
Hypothesis Ll : length lb = length xc.
Hypothesis Lu : length ub = length xc.
Variable i : nat.
Hypothesis Hi : i < length xc.

Lemma xbar_component : sr_early R = false ->
  nth i xbar nan = fclip (add (nth i xc nan) (nth i (scatter (mul 1 alpha) free dH) nan)) (nth i lb nan) (nth i ub nan).
Proof.
  intros He. rewrite (xbar_moved He).
  assert (Ls : length (scatter (mul 1 alpha) free dH) = length xc) by (rewrite scatter_length, ffree_length; lia).
  rewrite nth_vclip; try lia; [|unfold vadd; rewrite vmap2_length; lia].
  unfold vadd. rewrite nth_vmap2 by lia. reflexivity.
Qed.

(* the row of Z of a variable at rest has no stored entry: (alpha_star * Z) @ dHat is +0.0 there, whatever alpha_star and
   dHat are (NaN and infinities included), and xbar_i = clip(xc_i + 0.0) *)
Theorem fsub_nonfree : sr_early R = false -> nth i free false = false ->
  nth i xbar nan = fclip (add (nth i xc nan) 0) (nth i lb nan) (nth i ub nan).
Proof.
  intros He Hf. rewrite (xbar_component He). rewrite nth_scatter_nonfree; auto. rewrite ffree_length. lia.
Qed.

(* TRUE statement 1: with lb_i <= ub_i the component compares equal (IEEE ==) to xc_i, also after the early return *)
Theorem fsub_nonfree_eqb : nth i free false = false -> leb (nth i lb nan) (nth i ub nan) = true ->
  eqb (nth i xbar nan) (nth i xc nan) = true.
Proof.
  intros Hf Hlu. rewrite nth_ffree in Hf by lia. pose proof (not_free_not_nan _ _ _ Hf) as Nx.
  destruct (sr_early R) eqn:He.
  - rewrite early_iff in He. rewrite fsub_no_free by (destruct (has_free free); [discriminate|reflexivity]).
    apply eqb_refl_not_nan. exact Nx.
  - rewrite fsub_nonfree; auto; [|rewrite nth_ffree by lia; exact Hf].
    apply fclip_on_bound; [apply add_zero_r_eqb; exact Nx|apply is_free_false_iff; exact Hf|exact Hlu].
Qed.

(* the component is, bit for bit, xc_i + 0.0 or the bound it rests on *)
Theorem fsub_nonfree_value : sr_early R = false -> nth i free false = false ->
  nth i xbar nan = add (nth i xc nan) 0 \/ nth i xbar nan = nth i lb nan \/ nth i xbar nan = nth i ub nan.
Proof. intros He Hf. rewrite fsub_nonfree; auto. apply fclip_cases. Qed.

(* TRUE statement 2: when xc_i is not a zero, the component is xc_i bit for bit *)
Theorem fsub_nonfree_bits : nth i free false = false -> leb (nth i lb nan) (nth i ub nan) = true ->
  eqb (nth i xc nan) 0 = false -> nth i xbar nan = nth i xc nan.
Proof.
  intros Hf Hlu Hz. symmetry. apply eqb_nonzero_eq; [|exact Hz]. rewrite eqb_sym. apply fsub_nonfree_eqb; assumption.
Qed.

(* what a free variable becomes: the entry of row i of Z is in column j = rank i (number of free variables before i) *)
Theorem fsub_free_component : sr_early R = false -> nth i free false = true -> rank i free < length dH ->
  nth i xbar nan =
  fclip (add (nth i xc nan) (add 0 (mul (mul 1 alpha) (nth (rank i free) dH nan)))) (nth i lb nan) (nth i ub nan).
Proof.
  intros He Hf Hr. rewrite (xbar_component He). rewrite nth_scatter_free; auto. rewrite ffree_length. lia.
Qed.

(* a free variable whose step component is zero (dHat_j = +-0.0), when 0 <= alpha_star: the product is +-0.0, the row of
   (alpha_star * Z) @ dHat is 0.0 + +-0.0 = +0.0, exactly as for a variable at rest *)
Theorem fsub_free_zero_step : sr_early R = false -> nth i free false = true -> rank i free < length dH ->
  eqb (nth (rank i free) dH nan) 0 = true -> leb 0 alpha = true ->
  nth i xbar nan = fclip (add (nth i xc nan) 0) (nth i lb nan) (nth i ub nan).
Proof.
  intros He Hf Hr Hd Ha. rewrite fsub_free_component; auto. rewrite mul_one_l.
  rewrite (zero_step _ _ Hd Ha (pymin_one_le _)). reflexivity.
Qed.

(* ... and it is not moved (IEEE ==) when xc_i is inside its bounds; its bits can change: -0.0 becomes +0.0 *)
Theorem fsub_free_zero_step_eqb : sr_early R = false -> nth i free false = true -> rank i free < length dH ->
  eqb (nth (rank i free) dH nan) 0 = true -> leb 0 alpha = true ->
  leb (nth i lb nan) (nth i xc nan) = true -> leb (nth i xc nan) (nth i ub nan) = true ->
  eqb (nth i xbar nan) (nth i xc nan) = true.
Proof.
  intros He Hf Hr Hd Ha Hl Hu. rewrite fsub_free_zero_step; auto.
  apply fclip_inside; auto. apply add_zero_r_eqb. exact (proj2 (leb_not_nan _ _ Hl)).
Qed.
End Component.

(* dHat has one entry per free variable (for any oracle answers) *)
Theorem dhat_length : length lb = length xc -> length ub = length xc -> length x = length xc -> length g = length xc ->
  length dH = count_free free.
Proof.
  intros Ll Lu Lx Lg. unfold dhat. rewrite vip_length. unfold rhat. apply gather_length.
  rewrite ffree_length. unfold rvec. destruct use_factor; [rewrite vip_length|]; unfold rvec0, vsub; rewrite !vmap2_length; lia.
Qed.

(* ---------------------------------------------------------------------------------------------- *)
(* (S4) alpha_star                                                                                 *)
(* ---------------------------------------------------------------------------------------------- *)
(* unconditionally: alpha_star <= 1, hence never NaN (Python: min(1.0, nan) = 1.0) *)
Theorem alpha_le_one : leb alpha 1 = true.
Proof. apply pymin_one_le. Qed.

Theorem alpha_not_nan : is_nan alpha = false.
Proof. exact (proj1 (leb_not_nan _ _ alpha_le_one)). Qed.

(* alpha_star is 1.0 or one of the quotients, and then it is below 1 *)
Theorem alpha_cases : alpha = 1%float \/ (In alpha cnds /\ ltb alpha 1 = true).
Proof.
  unfold alpha_star. destruct (pymin_one_cases (nanmin cnds)) as [E|[E L]]; [left; exact E|right].
  rewrite E. split; [|exact L].
  destruct (nanmin_spec cnds) as [[_ H]|[[_ [H _]]|[_ [H _]]]]; auto.
  - rewrite H in L. discriminate.
  - destruct (ltb_not_nan _ _ L). congruence.
Qed.

(* alpha_star is below every quotient that is not NaN *)
Theorem alpha_minimal q : In q cnds -> is_nan q = true \/ leb alpha q = true.
Proof.
  intros Hq. unfold alpha_star.
  destruct (nanmin_spec cnds) as [[E _]|[[_ [_ H]]|[Nn [_ H]]]].
  - rewrite E in Hq. destruct Hq.
  - left. apply H. exact Hq.
  - destruct (H q Hq) as [Hn|Hl]; [left; exact Hn|right].
    destruct (pymin_one_cases (nanmin cnds)) as [E|[E L]]; rewrite E; [|exact Hl].
    eapply leb_trans; [|exact Hl]. apply ltb_false_leb; auto.
    unfold pymin in E. destruct (ltb (nanmin cnds) 1) eqn:L; [|reflexivity].
    rewrite E in L. discriminate.
Qed.

(* a property of 1.0 and of every non-NaN quotient is a property of alpha_star *)
Lemma alpha_ind (P : float -> Prop) : P 1%float -> (forall q, In q cnds -> is_nan q = false -> P q) -> P alpha.
Proof.
  intros H1 Hq. destruct alpha_cases as [E|[Hi L]]; [rewrite E; exact H1|].
  apply Hq; [exact Hi|]. exact (proj1 (ltb_not_nan _ _ L)).
Qed.

(* every free variable strictly inside its bounds (exact comparisons: no NaN among xc_i, lb_i, ub_i; dHat, theta, the oracle
   answers are arbitrary, NaN / inf included): every quotient is NaN or >= 0, and 0 <= alpha_star <= 1 *)
Definition strictly_inside : Prop :=
  forall i, i < length xc -> nth i free false = true ->
    ltb (nth i lb nan) (nth i xc nan) = true /\ ltb (nth i xc nan) (nth i ub nan) = true.

Lemma cands_nonneg : length lb = length xc -> length ub = length xc -> strictly_inside ->
  Forall nan_or_nonneg_f cnds.
Proof.
  intros Ll Lu Hin. unfold step_cands.
  assert (Hu : Forall (fun u => ltb 0 u = true) (gather free (vsub ub xc))).
  { apply gather_Forall. intros i Hi Hv Hf. unfold vsub in *. rewrite vmap2_length in Hv.
    rewrite nth_vmap2 by lia. apply sub_pos. apply Hin; auto; lia. }
  assert (Hl : Forall (fun l => ltb l 0 = true) (gather free (vsub lb xc))).
  { apply gather_Forall. intros i Hi Hv Hf. unfold vsub in *. rewrite vmap2_length in Hv.
    rewrite nth_vmap2 by lia. apply sub_neg. apply Hin; auto; lia. }
  apply cands_Forall. intros dj uj lj Hd Huj Hlj. rewrite Forall_forall in Hu, Hl. apply cand_nonneg; auto.
Qed.

Theorem alpha_nonneg : length lb = length xc -> length ub = length xc -> strictly_inside ->
  leb 0 alpha = true /\ leb alpha 1 = true.
Proof.
  intros Ll Lu Hin. split; [|apply alpha_le_one].
  apply alpha_ind; [reflexivity|]. intros q Hq Nq.
  pose proof (cands_nonneg Ll Lu Hin) as H. rewrite Forall_forall in H. destruct (H q Hq) as [N|L]; [congruence|exact L].
Qed.

(* 0 < alpha_star holds exactly when no quotient underflows to zero or is negative: *)
Theorem alpha_pos : (forall q, In q cnds -> is_nan q = true \/ ltb 0 q = true) -> ltb 0 alpha = true.
Proof.
  intros H. apply alpha_ind; [reflexivity|]. intros q Hq Nq. destruct (H q Hq) as [N|L]; [congruence|exact L].
Qed.

(* ---------------------------------------------------------------------------------------------- *)
(* robustness: the sign of a zero alpha_star (lane order of np.fmin.reduce) does not reach xbar      *)
(* ---------------------------------------------------------------------------------------------- *)
Theorem fsub_alpha_zero_sign a a' : eqb a a' = true ->
  xbar_of O x xc c g lb ub theta use_factor free a = xbar_of O x xc c g lb ub theta use_factor free a'.
Proof. intros E. unfold xbar_of. rewrite !mul_one_l. rewrite (scatter_eqb a a' _ _ E). reflexivity. Qed.

(* the data of alpha_star * Z is alpha_star itself *)
Theorem fsub_xbar_alpha : sr_early R = false -> xbar = vclip (vadd xc (scatter alpha free dH)) lb ub.
Proof. intros He. rewrite (xbar_moved He), mul_one_l. reflexivity. Qed.

End Theorems.

(* ================================================================================================ *)
(* Counterexamples (by computation) of the naive statements                                         *)
(* ================================================================================================ *)
Local Open Scope float_scope.

(* first iteration: no memory, W = zeros(n, 1): the correction np.transpose(WTZ).dot(v) is a vector of +0.0 *)
Definition ex_sub_oracles : sub_oracles := mkSO (fun _ => []) (fun _ r => map (fun _ => 0) r).
Definition ex_run (x xc g lb ub : vec) (theta : float) : sub_result := fsubspace_full ex_sub_oracles x xc [0] g lb ub theta false.

(* (S3) "a non-free variable keeps its bits" is FALSE: xc_0 = -0.0 rests on the bound ub_0 = +0.0; xc_0 + 0.0 = +0.0 *)
Example nonfree_negative_zero_changes_sign :
  let r := ex_run [-0; 0x1p-1] [-0; 0x1p-1] [1; 1] [-1; -1] [0; 1] 1 in
  sr_free r = [false; true] /\ sr_early r = false /\
  fbits (nth 0 (sr_xbar r) nan) (-0) = false /\ fbits (nth 0 (sr_xbar r) nan) 0 = true.
Proof. vm_compute. repeat split. Qed.

(* xc_0 = +0.0 rests on the bound lb_0 = -0.0: np.clip returns the bound, -0.0 *)
Example nonfree_takes_the_bits_of_the_bound :
  let r := ex_run [0; 0x1p-1] [0; 0x1p-1] [1; 1] [-0; -1] [1; 1] 1 in
  sr_free r = [false; true] /\ sr_early r = false /\
  fbits (nth 0 (sr_xbar r) nan) 0 = false /\ fbits (nth 0 (sr_xbar r) nan) (-0) = true.
Proof. vm_compute. repeat split. Qed.

(* without lb_i <= ub_i a variable at rest IS moved: xc_0 = lb_0 = 1 > ub_0 = 0 gives xbar_0 = 0 *)
Example nonfree_moved_when_bounds_are_inverted :
  let r := ex_run [1; 0x1p-1] [1; 0x1p-1] [1; 1] [1; -1] [0; 1] 1 in
  sr_free r = [false; true] /\ sr_early r = false /\ fbits (nth 0 (sr_xbar r) nan) 0 = true.
Proof. vm_compute. repeat split. Qed.

(* the same loss of sign for a FREE variable whose step is zero: xc_0 = -0.0 strictly inside, g_0 = 0: dHat_0 = -0.0,
   0.0 + 1.0 * -0.0 = +0.0 and xbar_0 = -0.0 + 0.0 = +0.0 *)
Example free_negative_zero_changes_sign :
  let r := ex_run [-0; 0] [-0; 0] [0; -1] [-1; -1] [1; 1] 1 in
  sr_free r = [true; true] /\ fbits (nth 0 (sr_dhat r) nan) (-0) = true /\ fbits (sr_alpha r) 1 = true /\
  fbits (nth 0 (sr_xbar r) nan) (-0) = false /\ fbits (nth 0 (sr_xbar r) nan) 0 = true.
Proof. vm_compute. repeat split. Qed.

(* (S2) a NaN component of xc is free (NaN != bound) *)
Example nan_component_is_free :
  sr_free (ex_run [0; 0x1p-1] [nan; 1] [1; 1] [-1; -1] [1; 1] 1) = [true; false].
Proof. vm_compute. reflexivity. Qed.

(* (S4) "0 < alpha_star when xc is strictly inside" is FALSE by underflow: lb = -1 < xc = 0 < ub = 1e-300, g = -1e300,
   dHat = 1e300, (ub - xc) / dHat = 1e-600 rounds to +0.0: alpha_star = 0 *)
Example alpha_zero_by_underflow :
  let r := ex_run [0] [0] [(-0x1.7e43c8800759cp+996)] [-1] [0x1.56e1fc2f8f359p-997] 1 in
  sr_free r = [true] /\ ltb (-1) 0 = true /\ ltb 0 0x1.56e1fc2f8f359p-997 = true /\
  fbits (sr_alpha r) 0 = true /\ ltb 0 (sr_alpha r) = false /\ vbits (sr_xbar r) [0] = true.
Proof. vm_compute. repeat split. Qed.

(* finite inputs, xc strictly inside, and a NaN result: g = -1.797e308, theta = 1/2: dHat = +inf, the quotient 1 / inf = 0,
   alpha_star = 0 and 0 * inf = NaN, which np.clip keeps *)
Example nan_from_finite_inputs :
  let r := ex_run [0] [0] [(-0x1.fffffffffffffp+1023)] [-1] [1] 0x1p-1 in
  sr_free r = [true] /\ vbits (sr_dhat r) [infinity] = true /\ fbits (sr_alpha r) 0 = true /\ vbits (sr_xbar r) [nan] = true.
Proof. vm_compute. repeat split. Qed.

(* xc outside the box: alpha_star is negative *)
Example alpha_negative_outside_the_box :
  let r := ex_run [2] [2] [-1] [-1] [1] 1 in
  sr_free r = [true] /\ fbits (sr_alpha r) (-1) = true /\ vbits (sr_xbar r) [1] = true.
Proof. vm_compute. repeat split. Qed.

(* every quotient NaN (NaN gradient): nanmin gives NaN, Python's min(1.0, nan) gives 1.0 *)
Example alpha_one_when_all_quotients_are_nan :
  let r := ex_run [0] [0] [nan] [-1] [1] 1 in
  vbits (sr_cands r) [nan] = true /\ fbits (sr_alpha r) 1 = true /\ vbits (sr_xbar r) [nan] = true.
Proof. vm_compute. repeat split. Qed.

Print Assumptions fsub_feasible.
Print Assumptions fsub_feasible_moved.
Print Assumptions fsub_length.
Print Assumptions ffree_spec.
Print Assumptions findices_iff.
Print Assumptions findices_sorted.
Print Assumptions nan_is_free.
Print Assumptions early_return_iff.
Print Assumptions fsub_nonfree.
Print Assumptions fsub_nonfree_eqb.
Print Assumptions fsub_nonfree_bits.
Print Assumptions fsub_free_component.
Print Assumptions fsub_free_zero_step_eqb.
Print Assumptions alpha_le_one.
Print Assumptions alpha_cases.
Print Assumptions alpha_minimal.
Print Assumptions alpha_nonneg.
Print Assumptions alpha_pos.
Print Assumptions fsub_no_free.
Print Assumptions fsub_all_on_bounds.
Print Assumptions fsub_alpha_zero_sign.
Print Assumptions nan_from_finite_inputs.
