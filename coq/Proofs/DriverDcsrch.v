(* The line search of the driver model with the line-search routine instantiated by the bit-exact model of SciPy's DCSRCH
   (Model/Dcsrch.v): the range clause of C11 without an assumed contract.  The routine can return a NaN step even for finite
   inputs (DcsrchProofs.nan_step_example), so the conclusion is "NaN or in [0, stpmax]". *)
From Coq Require Import List ZArith Bool String Lia Floats.PrimFloat.
From LBFGSB Require Import Base.Res Base.Hoare Base.FloatOrd Model.SF Model.FloatVec Model.Driver Model.Dcsrch Model.DriverDcs
  Proofs.DcsrchProofs Proofs.DriverLineSearch.
Import ListNotations.
Open Scope Z_scope.

Lemma snoc_split {A} (h h1 h2 : list A) (x e : A) :
  h ++ [x] = h1 ++ e :: h2 -> (h2 = [] /\ h1 = h /\ e = x) \/ (exists h2', h2 = h2' ++ [x] /\ h = h1 ++ e :: h2').
Proof.
  intros H. destruct h2 as [|z h2' _] using rev_ind.
  - left. apply app_inj_tail in H. destruct H; subst; auto.
  - right. exists h2'.
    assert (H' : h ++ [x] = (h1 ++ e :: h2') ++ [z]) by (rewrite H, <- app_assoc; reflexivity).
    apply app_inj_tail in H'. destruct H' as [-> ->]. split; reflexivity.
Qed.

Section WithModel.
  Variable U : user.
  Variable K : kern.
  Variable c : cfg.
  Variable sq : float -> float.    (* ANY behaviour of the C library's pow(x, 2.0) inside dcstep *)
  Hypothesis HK : forall q h, dcs K q h = dcs_model sq q h.

  Section Loop.
    Variables (ft gt xt stpmax : float).
    Hypothesis Hmax : leb 0 stpmax = true.
    Let q := (ft, gt, xt, stpmax).

    Definition cur (s : lss) : list (float * float * float) := l_hist s ++ [(l_stp s, l_f s, l_dphi s)].

    Definition J (s : lss) : Prop :=
      chained sq q (cur s) /\ first_ok stpmax (cur s) /\ (forall a, l_best s = Some a -> okr 0%float stpmax a).

    Definition best_ok (s : lss) : Prop := forall a, l_best s = Some a -> okr 0%float stpmax a.

    Lemma J_loop n xk d s : J s -> hoareT (ls_loop U K c n xk d q s) (fun s' _ => best_ok s').
    Proof.
      revert s. induction n as [|k IH]; intros s HJ; cbn [ls_loop].
      - apply hoareT_ret. exact (proj2 (proj2 HJ)).
      - fold (cur s). rewrite HK. unfold dcs_model.
        destruct HJ as (Hc & Hf & Hb).
        pose proof (run_dcsrch_chained_nan_or_in_range sq ft gt xt stpmax (cur s) Hmax Hf Hc) as Hok.
        fold q in Hok. destruct (run_dcsrch sq q (cur s)) as [stp t] eqn:Er. cbn [fst snd] in *.
        destruct t; cbn [conv_task]; try (apply hoareT_ret; exact Hb).
        eapply hoareT_bind with (R1 := fun _ _ => True); [intros ? ? ?; exact I|].
        intros [[f g] t1] tr1 _. eapply hoareT_weaken; [apply IH|auto].
        unfold J, cur. cbn [l_hist l_stp l_f l_dphi l_best]. fold (cur s). split; [|split].
        + intros h1 e h2 E Hne. apply snoc_split in E as [(-> & -> & ->) | (h2' & -> & E)].
          * unfold stp_of. cbn [fst]. fold q. rewrite Er. reflexivity.
          * apply (Hc h1 e h2' E Hne).
        + intros e r E. unfold cur in E. destruct (l_hist s) as [|e0 r0] eqn:Eh.
          * cbn in E. inversion E; subst. apply (Hf (l_stp s, l_f s, l_dphi s) []). unfold cur. rewrite Eh. reflexivity.
          * cbn in E. inversion E; subst. apply (Hf e (r0 ++ [(l_stp s, l_f s, l_dphi s)])). unfold cur. rewrite Eh. reflexivity.
        + intros a Ha. destruct (ltb f (l_bestf s)); [inversion Ha; subst; exact Hok|apply Hb; exact Ha].
    Qed.

    (* a first step outside [0, stpmax] (and not NaN) is refused by the START checks: no trial point is ever accepted *)
    Lemma bad_first_step n xk d s : l_hist s = [] -> l_best s = None -> ~ okr 0%float stpmax (l_stp s) ->
      hoareT (ls_loop U K c n xk d q s) (fun s' _ => l_best s' = None).
    Proof.
      intros Hh Hb Hbad. destruct n as [|k]; cbn [ls_loop].
      - apply hoareT_ret. exact Hb.
      - rewrite HK, Hh. unfold dcs_model. cbn [app].
        destruct (start_err (par_of q) (l_stp s) (l_dphi s)) as [e|] eqn:Es.
        + unfold q in *. rewrite (run_dcsrch_start_error sq ft gt xt stpmax _ _ _ [] e Es). cbn [fst snd conv_task].
          apply hoareT_ret. exact Hb.
        + exfalso. apply Hbad. apply start_err_none_iff in Es. destruct Es as (E1 & E2 & _).
          unfold q, par_of in E1, E2. cbn [p_stpmin p_stpmax] in E1, E2.
          destruct (is_nan (l_stp s)) eqn:En; [left; exact En|right].
          destruct (leb_not_nan _ _ Hmax) as [Hz Hm].
          split; apply ltb_false_leb; assumption.
    Qed.
  End Loop.

  Theorem line_search_range_dcsrch xk f0 g0 d nit cap t a t1 tr :
    leb 0 (stpmax_of c xk d nit) = true ->
    line_search U K c xk f0 g0 d nit cap t = (Ok (Some a, t1), tr) ->
    okr 0%float (stpmax_of c xk d nit) a.
  Proof.
    unfold line_search, stpmax_of. set (stpmax := if nit =? 0 then fone else maxstep xk d (lb c) (ub c) (max_steplength c)).
    set (stp0 := if (nit =? 0) && negb (is_boxed c) then _ else fone).
    intros Hmax H. apply bind_ok_inv in H as (s & tr1 & tr2 & H1 & H2 & ->).
    assert (Hbest : forall a0, l_best s = Some a0 -> okr 0%float stpmax a0).
    { destruct (is_nan stp0) eqn:En; [|destruct (leb 0 stp0 && leb stp0 stpmax) eqn:El].
      1,2: change (best_ok stpmax s);
        eapply (J_loop (ftol_ls c) (gtol_ls c) (xtol_ls c) stpmax Hmax _ xk d); [|exact H1];
         unfold J, cur; cbn [l_hist l_stp l_f l_dphi l_best app]; split; [|split];
         [intros h1 e h2 E Hne; destruct h1 as [|? [|? ?]]; [congruence|discriminate E|discriminate E]
         |intros e r E; inversion E; subst; unfold stp_of; cbn [fst]
         |intros ? Hd; discriminate Hd].
      - left. exact En.
      - apply andb_true_iff in El. right. exact El.
      - assert (Hn : l_best s = None).
        { eapply (bad_first_step (ftol_ls c) (gtol_ls c) (xtol_ls c) stpmax Hmax _ xk d); [| | |exact H1]; cbn [l_hist l_best l_stp]; auto.
          intros [Hn | [Ha Hb]]; [congruence|]. rewrite Ha, Hb in El. discriminate. }
        intros a0 Ha0. congruence. }
    destruct (negb _ || _); [unfold ret in H2; inversion H2|].
    destruct (l_task s); unfold ret in H2; inversion H2; subst; apply Hbest; auto.
  Qed.

  (* ... and a step that is a number lies in [0, stpmax] *)
  Corollary line_search_in_range_dcsrch xk f0 g0 d nit cap t a t1 tr :
    leb 0 (stpmax_of c xk d nit) = true ->
    line_search U K c xk f0 g0 d nit cap t = (Ok (Some a, t1), tr) -> is_nan a = false ->
    leb 0 a = true /\ leb a (stpmax_of c xk d nit) = true.
  Proof.
    intros Hm H Hn. destruct (line_search_range_dcsrch _ _ _ _ _ _ _ _ _ _ Hm H) as [E | E]; [congruence|exact E].
  Qed.
End WithModel.
