(* ================================================================================================
   CauchyProofs.v -- theorems about the model LBFGSB.Cauchy.gcp of lbfgsb.cauchy.get_cauchy_point.
   All statements are for every n, every memory size m2, every box; exact rationals, no axioms.

     T1  gcp_order, gcp_never_fixed, sorted_unique   order of the fixed variables (stable sort, t_i > 0)
     T2  gcp_on_path                                  x_cp = P(x - t* g), t* >= 0
     T3  gcp_pinned_feasible                          feasible, fixed variables ON their bound, others x + t* d
     T7  gcp_c                                        c = W^T (x_cp - x)
         gcp_no_error                                 the error value is excluded by the preconditions
     T5s gcp_stop_first, explored_unique              the loop stops at the FIRST segment with -f'/f'' < delta_t
     T4  gcp_derivs (step_derivs_diff)                stored f', f'' = g.d + d'Bz, d'Bd  (B = theta I - W M W^T)
     T5  gcp_first_local_min                          phi' < 0 before the stopping point, >= 0 just after
     T6  gcp_model_decrease                           m(x_cp) <= m(x)
     list level: gcp_list_order / _on_path / _pinned_feasible / _c   (for Cauchy.gcp_list)
     Module Ex: concrete runs (vm_compute) next to each statement.
   ================================================================================================ *)
From Coq Require Import QArith Qabs List Bool Arith ZArith Lia Lqa Sorted.
Import ListNotations.
From LBFGSB Require Import Model.Cauchy.
Open Scope Q_scope.
Local Opaque Qred.

(* ------------------------------------------------------------------ booleans on Q *)
Lemma Qltb_true : forall a b, Qltb a b = true <-> a < b.
Proof.
  intros a b. unfold Qltb. rewrite negb_true_iff. split; intro H.
  - apply Qnot_le_lt. intro Hle. apply Qle_bool_iff in Hle. congruence.
  - destruct (Qle_bool b a) eqn:E; [|reflexivity]. apply Qle_bool_iff in E. lra.
Qed.

Lemma Qltb_false : forall a b, Qltb a b = false <-> b <= a.
Proof.
  intros a b. unfold Qltb. rewrite negb_false_iff. apply Qle_bool_iff.
Qed.

Lemma Qeqb_true : forall a b, Qeq_bool a b = true <-> a == b.
Proof. intros; apply Qeq_bool_iff. Qed.

Lemma Qeqb_false : forall a b, Qeq_bool a b = false <-> ~ a == b.
Proof.
  intros a b. split; intro H.
  - intro E. apply Qeq_bool_iff in E. congruence.
  - destruct (Qeq_bool a b) eqn:E; [|reflexivity]. apply Qeq_bool_iff in E. contradiction.
Qed.

Lemma ele_Some : forall u v, ele (Some u) (Some v) = true <-> u <= v.
Proof. intros; simpl; apply Qle_bool_iff. Qed.

Lemma elt_Some : forall u v, elt (Some u) (Some v) = true <-> u < v.
Proof.
  intros u v. unfold elt. simpl. rewrite negb_true_iff. split; intro H.
  - apply Qnot_le_lt. intro Hle. apply Qle_bool_iff in Hle. congruence.
  - destruct (Qle_bool v u) eqn:E; [|reflexivity]. apply Qle_bool_iff in E. lra.
Qed.

Lemma ele_refl : forall a, ele a a = true.
Proof. intros [a|]; simpl; [apply Qle_bool_iff; lra | reflexivity]. Qed.

Lemma ele_trans : forall a b c, ele a b = true -> ele b c = true -> ele a c = true.
Proof.
  intros [a|] [b|] [c|]; simpl; intros H1 H2; try reflexivity; try discriminate.
  apply Qle_bool_iff in H1. apply Qle_bool_iff in H2. apply Qle_bool_iff. lra.
Qed.

Lemma ele_total : forall a b, ele a b = false -> ele b a = true.
Proof.
  intros [a|] [b|]; simpl; intros H; try reflexivity; try discriminate.
  destruct (Qle_bool a b) eqn:E; [discriminate|]. apply Qle_bool_iff.
  destruct (Qle_bool b a) eqn:E2; [apply Qle_bool_iff in E2; exact E2|].
  exfalso. assert (~ a <= b) by (intro X; apply Qle_bool_iff in X; congruence).
  assert (~ b <= a) by (intro X; apply Qle_bool_iff in X; congruence). lra.
Qed.

Lemma elt_ele : forall a b, elt a b = true -> ele a b = true.
Proof. intros a b H. unfold elt in H. apply negb_true_iff in H. apply ele_total; exact H. Qed.

(* ------------------------------------------------------------------ sums and tables *)
Lemma sumn_S : forall k f, sumn (S k) f == sumn k f + f k.
Proof. intros k f. change (sumn (S k) f) with (Qred (sumn k f + f k)). apply Qred_correct. Qed.

Lemma sumn_ext : forall k f h, (forall i, (i < k)%nat -> f i == h i) -> sumn k f == sumn k h.
Proof.
  induction k; intros f h H; [reflexivity|].
  rewrite !sumn_S. rewrite (IHk f h), (H k); [reflexivity | lia | intros; apply H; lia].
Qed.

Lemma sumn_plus : forall k f h, sumn k (fun i => f i + h i) == sumn k f + sumn k h.
Proof. induction k; intros; [reflexivity|]. rewrite !sumn_S, IHk. ring. Qed.

Lemma sumn_scal : forall k a f, sumn k (fun i => a * f i) == a * sumn k f.
Proof. induction k; intros; [simpl; ring|]. rewrite !sumn_S, IHk. ring. Qed.

Lemma sumn_zero : forall k f, (forall i, (i < k)%nat -> f i == 0) -> sumn k f == 0.
Proof.
  induction k; intros f H; [reflexivity|]. rewrite sumn_S, IHk, (H k); [ring | lia | intros; apply H; lia].
Qed.

Lemma sumn_nonneg : forall k f, (forall i, (i < k)%nat -> 0 <= f i) -> 0 <= sumn k f.
Proof.
  induction k; intros f H; [simpl; lra|]. rewrite sumn_S.
  assert (0 <= sumn k f) by (apply IHk; intros; apply H; lia). assert (0 <= f k) by (apply H; lia). lra.
Qed.

Lemma sumn_pos : forall k f, (forall i, (i < k)%nat -> 0 <= f i) -> (exists i, (i < k)%nat /\ 0 < f i) -> 0 < sumn k f.
Proof.
  induction k; intros f H [i [Hi Hp]]; [lia|]. rewrite sumn_S.
  assert (0 <= f k) by (apply H; lia).
  assert (0 <= sumn k f) by (apply sumn_nonneg; intros; apply H; lia).
  destruct (Nat.eq_dec i k) as [->|Hne]; [lra|].
  assert (0 < sumn k f) by (apply IHk; [intros; apply H; lia | exists i; split; [lia|exact Hp]]). lra.
Qed.

(* sum where one term is replaced *)
Lemma sumn_upd : forall k b (u v : nat -> Q), (b < k)%nat ->
  sumn k (fun i => if Nat.eqb i b then u i else v i) == sumn k v + (u b - v b).
Proof.
  induction k; intros b u v Hb; [lia|]. rewrite !sumn_S.
  destruct (Nat.eq_dec b k) as [->|Hne].
  - rewrite Nat.eqb_refl.
    rewrite (sumn_ext k _ v); [ring|]. intros i Hi. destruct (Nat.eqb_spec i k); [lia|reflexivity].
  - rewrite IHk by lia. destruct (Nat.eqb_spec k b); [lia|]. ring.
Qed.

Lemma tab_spec : forall k f i, (i < k)%nat -> tab k f i = f i.
Proof.
  intros k f i H. unfold tab.
  rewrite (nth_indep _ 0 (f 0%nat)) by (rewrite map_length, seq_length; exact H).
  rewrite map_nth. rewrite seq_nth by exact H. reflexivity.
Qed.
(* ================================================================== the model's data *)
Section Proofs.
Variables (n m2 : nat).
Variables (x g : nat -> Q) (lb ub : nat -> option Q).
Variable theta : Q.
Variables (W Mn : nat -> nat -> Q) (Md : Q).
Variable use_factor : bool.
Variable eps : Q.

Notation bp := (bp x g lb ub).
Notation d0 := (d0 x g lb ub).
Notation tpos := (tpos x g lb ub).
Notation insert := (insert x g lb ub).
Notation isort := (isort x g lb ub).
Notation sorted_idx := (sorted_idx n x g lb ub).

(* ------------------------------------------------------------------ T1: the order of the breakpoints *)
(* strict lexicographic order on (t_i, i): the order a STABLE sort by t produces *)
Definition lexlt (i j : nat) : Prop :=
  elt (bp i) (bp j) = true \/ (elt (bp j) (bp i) = false /\ (i < j)%nat).

Lemma elt_false_ele : forall a b, elt a b = false <-> ele b a = true.
Proof. intros a b. unfold elt. rewrite negb_false_iff. reflexivity. Qed.

Lemma elt_true_ele : forall a b, elt a b = true <-> ele b a = false.
Proof. intros a b. unfold elt. rewrite negb_true_iff. reflexivity. Qed.

Lemma elt_ele_trans : forall a b c, elt a b = true -> ele b c = true -> elt a c = true.
Proof.
  intros a b c H1 H2. apply elt_true_ele. apply elt_true_ele in H1.
  destruct (ele c a) eqn:E; [|reflexivity]. rewrite (ele_trans _ _ _ H2 E) in H1. discriminate.
Qed.

Lemma ele_elt_trans : forall a b c, ele a b = true -> elt b c = true -> elt a c = true.
Proof.
  intros a b c H1 H2. apply elt_true_ele. apply elt_true_ele in H2.
  destruct (ele c a) eqn:E; [|reflexivity]. rewrite (ele_trans _ _ _ E H1) in H2. discriminate.
Qed.

Lemma lexlt_trans : forall i j k, lexlt i j -> lexlt j k -> lexlt i k.
Proof.
  intros i j k [H1|[H1 L1]] [H2|[H2 L2]].
  - left. apply (elt_ele_trans _ _ _ H1). apply elt_ele; exact H2.
  - left. apply (elt_ele_trans _ _ _ H1). apply elt_false_ele; exact H2.
  - left. apply elt_false_ele in H1. apply (ele_elt_trans _ _ _ H1 H2).
  - right. split; [|lia]. apply elt_false_ele. apply elt_false_ele in H1. apply elt_false_ele in H2.
    apply (ele_trans _ _ _ H1 H2).
Qed.

Lemma lexlt_irrefl : forall i, ~ lexlt i i.
Proof.
  intros i [H|[_ H]]; [|lia]. apply elt_true_ele in H. rewrite ele_refl in H. discriminate.
Qed.

Lemma lexlt_ele : forall i j, lexlt i j -> ele (bp i) (bp j) = true.
Proof. intros i j [H|[H _]]; [apply elt_ele; exact H | apply elt_false_ele; exact H]. Qed.

Lemma lexlt_total : forall i j, i <> j -> lexlt i j \/ lexlt j i.
Proof.
  intros i j Hne. destruct (elt (bp i) (bp j)) eqn:E1; [left; left; exact E1|].
  destruct (elt (bp j) (bp i)) eqn:E2; [right; left; exact E2|].
  destruct (Nat.lt_ge_cases i j); [left; right; split; assumption|].
  right; right; split; [assumption|lia].
Qed.

Lemma insert_In : forall a l i, In i (insert a l) <-> i = a \/ In i l.
Proof.
  intros a l i. induction l as [|y l IH]; simpl; [intuition|].
  destruct (elt (bp y) (bp a)); simpl; rewrite ?IH; intuition.
Qed.

Lemma isort_In : forall l i, In i (isort l) <-> In i l.
Proof.
  induction l as [|a l IH]; intro i; simpl; [reflexivity|].
  rewrite insert_In, IH. intuition.
Qed.

Lemma insert_sorted : forall a l,
  StronglySorted lexlt l -> Forall (fun y => (a < y)%nat) l -> StronglySorted lexlt (insert a l).
Proof.
  intros a l. induction l as [|y l IH]; intros Hs Hlt; simpl.
  - constructor; constructor.
  - inversion Hs as [|? ? Hs' Hy]; subst. inversion Hlt as [|? ? Hay Hlt']; subst.
    destruct (elt (bp y) (bp a)) eqn:E.
    + constructor; [apply IH; assumption|].
      apply Forall_forall. intros z Hz. apply insert_In in Hz. destruct Hz as [->|Hz].
      * left; exact E.
      * rewrite Forall_forall in Hy. apply Hy; exact Hz.
    + assert (Hya : lexlt a y) by (right; split; assumption).
      constructor; [exact Hs|]. constructor; [exact Hya|].
      apply Forall_forall. intros z Hz. rewrite Forall_forall in Hy.
      apply (lexlt_trans _ _ _ Hya). apply Hy; exact Hz.
Qed.

Lemma isort_sorted : forall l, StronglySorted lt l -> StronglySorted lexlt (isort l).
Proof.
  induction l as [|a l IH]; intro Hs; simpl; [constructor|].
  inversion Hs as [|? ? Hs' Ha]; subst.
  apply insert_sorted; [apply IH; exact Hs'|].
  apply Forall_forall. intros y Hy. apply (proj1 (isort_In _ _)) in Hy. rewrite Forall_forall in Ha. apply Ha; exact Hy.
Qed.

Lemma seq_sorted : forall k s, StronglySorted lt (seq s k).
Proof.
  induction k; intro s; simpl; constructor; [apply IHk|].
  apply Forall_forall. intros y Hy. apply in_seq in Hy. lia.
Qed.

Lemma filter_sorted : forall (R : nat -> nat -> Prop) f l,
  StronglySorted R l -> StronglySorted R (filter f l).
Proof.
  intros R f l. induction l as [|a l IH]; intro Hs; simpl; [constructor|].
  inversion Hs as [|? ? Hs' Ha]; subst. destruct (f a); [|apply IH; exact Hs'].
  constructor; [apply IH; exact Hs'|].
  apply Forall_forall. intros y Hy. apply filter_In in Hy. rewrite Forall_forall in Ha. apply Ha, Hy.
Qed.

Lemma sorted_idx_sorted : StronglySorted lexlt sorted_idx.
Proof. apply filter_sorted, isort_sorted, seq_sorted. Qed.

Lemma sorted_idx_In : forall i, In i sorted_idx <-> (i < n)%nat /\ tpos i = true.
Proof.
  intro i. unfold Cauchy.sorted_idx. rewrite filter_In, isort_In, in_seq. intuition lia.
Qed.

Lemma sorted_NoDup : forall l, StronglySorted lexlt l -> NoDup l.
Proof.
  induction l as [|a l IH]; intro Hs; [constructor|].
  inversion Hs as [|? ? Hs' Ha]; subst. constructor; [|apply IH; exact Hs'].
  intro Hin. rewrite Forall_forall in Ha. apply (lexlt_irrefl a). apply Ha; exact Hin.
Qed.

(* a list strictly sorted for lexlt is determined by its elements: the sorted list is THE stable sort *)
Lemma sorted_unique : forall l1 l2,
  StronglySorted lexlt l1 -> StronglySorted lexlt l2 -> (forall i, In i l1 <-> In i l2) -> l1 = l2.
Proof.
  induction l1 as [|a l1 IH]; intros l2 H1 H2 Hin.
  - destruct l2 as [|b l2]; [reflexivity|]. exfalso. apply (proj2 (Hin b)). left; reflexivity.
  - destruct l2 as [|b l2]; [exfalso; apply (proj1 (Hin a)); left; reflexivity|].
    inversion H1 as [|? ? H1' Ha]; subst. inversion H2 as [|? ? H2' Hb]; subst.
    rewrite Forall_forall in Ha, Hb.
    assert (a = b) as ->.
    { destruct (Nat.eq_dec a b) as [|Hne]; [assumption|]. exfalso.
      assert (Ia : In a l2) by (destruct (proj1 (Hin a) (or_introl eq_refl)) as [E|I]; [congruence|exact I]).
      assert (Ib : In b l1) by (destruct (proj2 (Hin b) (or_introl eq_refl)) as [E|I]; [congruence|exact I]).
      apply (lexlt_irrefl a). apply (lexlt_trans a b a); [apply Ha, Ib | apply Hb, Ia]. }
    f_equal. apply IH; [exact H1'|exact H2'|].
    intro i. split; intro Hi.
    + destruct (proj1 (Hin i) (or_intror Hi)) as [E|I]; [|exact I]. subst i.
      exfalso. apply (lexlt_irrefl b). apply Ha, Hi.
    + destruct (proj2 (Hin i) (or_intror Hi)) as [E|I]; [|exact I]. subst i.
      exfalso. apply (lexlt_irrefl b). apply Hb, Hi.
Qed.

(* ------------------------------------------------------------------ boxes, clip, breakpoints *)
Definition within (v : Q) (lo hi : option Q) : Prop :=
  match lo with Some l => l <= v | None => True end /\
  match hi with Some u => v <= u | None => True end.

Definition feasible (v : nat -> Q) : Prop := forall i, (i < n)%nat -> within (v i) (lb i) (ub i).

Ltac qb :=
  repeat match goal with |- context [Qltb ?a ?b] => is_var a; is_var b;
         let E := fresh "E" in destruct (Qltb a b) eqn:E; [apply Qltb_true in E | apply Qltb_false in E] end;
  repeat match goal with |- context [Qltb ?a ?b] =>
         let E := fresh "E" in destruct (Qltb a b) eqn:E; [apply Qltb_true in E | apply Qltb_false in E] end.

Lemma clip_id : forall v lo hi, within v lo hi -> clip v lo hi = v.
Proof.
  intros v lo hi [Hl Hu]. unfold clip.
  assert (E1 : match lo with Some l => if Qltb v l then l else v | None => v end = v).
  { destruct lo as [l|]; [|reflexivity]. destruct (Qltb v l) eqn:E; [|reflexivity].
    apply Qltb_true in E. lra. }
  rewrite E1. destruct hi as [u|]; [|reflexivity].
  destruct (Qltb u v) eqn:E; [|reflexivity]. apply Qltb_true in E. lra.
Qed.

Lemma clip_within : forall v lo hi,
  match lo, hi with Some l, Some u => l <= u | _, _ => True end -> within (clip v lo hi) lo hi.
Proof.
  intros v lo hi Hbox. unfold clip, within.
  destruct lo as [l|], hi as [u|]; simpl in *;
    qb; split; trivial; lra.
Qed.

Lemma clip_compat : forall v v' lo hi, v == v' -> clip v lo hi == clip v' lo hi.
Proof.
  intros v v' lo hi E. unfold clip.
  destruct lo as [l|], hi as [u|]; simpl;
    qb; lra.
Qed.

Lemma clip_hi : forall v lo u, match lo with Some l => l <= u | None => True end -> u <= v ->
  clip v lo (Some u) == u.
Proof.
  intros v lo u Hbox Hv. unfold clip.
  destruct lo as [l|]; simpl in *;
    qb; lra.
Qed.

Lemma clip_lo : forall v l hi, match hi with Some u => l <= u | None => True end -> v <= l ->
  clip v (Some l) hi == l.
Proof.
  intros v l hi Hbox Hv. unfold clip.
  destruct hi as [u|]; simpl in *;
    qb; lra.
Qed.

(* breakpoints *)
Lemma bp_Some_inv : forall i t, bp i = Some t ->
  (g i < 0 /\ exists u, ub i = Some u /\ t == (x i - u) / g i) \/
  (0 < g i /\ exists l, lb i = Some l /\ t == (x i - l) / g i).
Proof.
  intros i t H. unfold Cauchy.bp in H.
  destruct (Qeq_bool (g i) 0) eqn:E0; [discriminate|]. apply Qeqb_false in E0.
  destruct (Qltb (g i) 0) eqn:E1.
  - apply Qltb_true in E1. left. split; [exact E1|]. destruct (ub i) as [u|]; [|discriminate].
    exists u. split; [reflexivity|]. injection H as H. subst t. apply Qred_correct.
  - apply Qltb_false in E1. right. split; [lra|]. destruct (lb i) as [l|]; [|discriminate].
    exists l. split; [reflexivity|]. injection H as H. subst t. apply Qred_correct.
Qed.

Lemma bp_None_inv : forall i, bp i = None ->
  g i == 0 \/ (g i < 0 /\ ub i = None) \/ (0 < g i /\ lb i = None).
Proof.
  intros i H. unfold Cauchy.bp in H.
  destruct (Qeq_bool (g i) 0) eqn:E0; [left; apply Qeqb_true; exact E0|]. apply Qeqb_false in E0.
  destruct (Qltb (g i) 0) eqn:E1.
  - apply Qltb_true in E1. right; left. split; [exact E1|]. destruct (ub i); [discriminate|reflexivity].
  - apply Qltb_false in E1. right; right. split; [lra|]. destruct (lb i); [discriminate|reflexivity].
Qed.

Lemma d0_None : forall i, bp i = None -> d0 i = - g i.
Proof. intros i H. unfold Cauchy.d0. rewrite H. reflexivity. Qed.

Lemma d0_Some_nz : forall i t, bp i = Some t -> ~ t == 0 -> d0 i = - g i.
Proof.
  intros i t H Hnz. unfold Cauchy.d0. rewrite H. apply Qeqb_false in Hnz. rewrite Hnz. reflexivity.
Qed.

Lemma d0_Some_z : forall i t, bp i = Some t -> t == 0 -> d0 i = 0.
Proof.
  intros i t H Hz. unfold Cauchy.d0. rewrite H. apply Qeqb_true in Hz. rewrite Hz. reflexivity.
Qed.

Lemma tpos_Some : forall i t, bp i = Some t -> (tpos i = true <-> 0 < t).
Proof. intros i t H. unfold Cauchy.tpos. rewrite H. apply elt_Some. Qed.

Lemma tpos_None : forall i, bp i = None -> tpos i = true.
Proof. intros i H. unfold Cauchy.tpos. rewrite H. reflexivity. Qed.

(* a feasible point has no negative breakpoint *)
Lemma bp_nonneg : forall i t, within (x i) (lb i) (ub i) -> bp i = Some t -> 0 <= t.
Proof.
  intros i t [Hl Hu] H. destruct (bp_Some_inv i t H) as [[Hg [u [Eu Et]]]|[Hg [l [El Et]]]].
  - rewrite Eu in Hu. rewrite Et. assert (E : (x i - u) / g i == (u - x i) * / (- g i)) by (field; lra).
    rewrite E. apply Qmult_le_0_compat; [lra|]. apply Qlt_le_weak, Qinv_lt_0_compat. lra.
  - rewrite El in Hl. rewrite Et. unfold Qdiv. apply Qmult_le_0_compat; [lra|].
    apply Qlt_le_weak, Qinv_lt_0_compat. exact Hg.
Qed.

(* a variable whose breakpoint is not positive does not move: d0 = 0 (feasible x) *)
Lemma d0_not_tpos : forall i, within (x i) (lb i) (ub i) -> tpos i = false -> d0 i = 0.
Proof.
  intros i Hw Hp. destruct (bp i) as [t|] eqn:E.
  - apply (d0_Some_z i t E). assert (0 <= t) by (apply (bp_nonneg i t Hw E)).
    assert (~ 0 < t) by (intro X; apply (tpos_Some i t E) in X; congruence). lra.
  - rewrite (tpos_None i E) in Hp. discriminate.
Qed.

(* value the loop pins a variable to: computed from the initial x_cp = x and d = d0 *)
Definition pinval (i : nat) : Q := pin lb ub x d0 i.

Lemma pin_ext : forall xc xc' d d' b, xc b = xc' b -> d b = d' b -> pin lb ub xc d b = pin lb ub xc' d' b.
Proof. intros xc xc' d d' b E1 E2. unfold pin. rewrite E1, E2. reflexivity. Qed.

(* the pinned value is the bound reached: x + t d0, equal to ub (g<0) / lb (g>0) *)
Lemma pinval_reach : forall i t, bp i = Some t -> 0 < t ->
  pinval i == x i + t * d0 i /\
  ((g i < 0 /\ ub i = Some (pinval i)) \/ (0 < g i /\ lb i = Some (pinval i))).
Proof.
  intros i t H Ht. assert (Hd : d0 i = - g i) by (apply (d0_Some_nz i t H); lra).
  unfold pinval, pin. rewrite Hd.
  destruct (bp_Some_inv i t H) as [[Hg [u [Eu Et]]]|[Hg [l [El Et]]]].
  - assert (E1 : Qltb 0 (- g i) = true) by (apply Qltb_true; lra). rewrite E1, Eu.
    split; [|left; split; [exact Hg|reflexivity]]. rewrite Et. field. lra.
  - assert (E1 : Qltb 0 (- g i) = false) by (apply Qltb_false; lra).
    assert (E2 : Qltb (- g i) 0 = true) by (apply Qltb_true; lra). rewrite E1, E2, El.
    split; [|right; split; [exact Hg|reflexivity]]. rewrite Et. field. lra.
Qed.

(* ------------------------------------------------------------------ the loop invariant *)
Notation step := (step n m2 x g lb ub theta W Mn Md use_factor eps).
Notation loop := (loop n m2 x g lb ub theta W Mn Md use_factor eps).
Notation finish := (finish n m2 x lb ub).
Notation gcp := (gcp n m2 x g lb ub theta W Mn Md use_factor eps).

Definition tval (i : nat) : Q := match bp i with Some t => t | None => 0 end.

(* displacement of variable i when the path has been followed up to [told] and [fx] are fixed *)
Definition zz (fx : list nat) (told : Q) (i : nat) : Q :=
  if in_dec Nat.eq_dec i fx then tval i * d0 i else told * d0 i.

Record Inv (rest : list nat) (st : state) : Prop := mkInv {
  I_split : sorted_idx = s_fixed st ++ rest;
  I_d : forall i, (i < n)%nat -> s_d st i = if in_dec Nat.eq_dec i (s_fixed st) then 0 else d0 i;
  I_x : forall i, (i < n)%nat -> s_xcp st i = if in_dec Nat.eq_dec i (s_fixed st) then pinval i else x i;
  I_told : 0 <= s_told st;
  I_fix : forall i, In i (s_fixed st) -> exists t, bp i = Some t /\ t <= s_told st;
  I_rest : forall i, In i rest -> ele (Some (s_told st)) (bp i) = true;
  I_c : forall j, (j < m2)%nat -> s_c st j == sumn n (fun i => W i j * zz (s_fixed st) (s_told st) i);
  I_p : forall j, (j < m2)%nat -> s_p st j == sumn n (fun i => W i j * s_d st i);
  I_nseg : s_nseg st = S (length (s_fixed st))
}.

Lemma sorted_app_r : forall (R : nat -> nat -> Prop) l1 l2, StronglySorted R (l1 ++ l2) -> StronglySorted R l2.
Proof.
  induction l1 as [|a l1 IH]; intros l2 H; [exact H|]. simpl in H. inversion H; subst. apply IH; assumption.
Qed.

Lemma Inv_head : forall b rest st, Inv (b :: rest) st ->
  (b < n)%nat /\ tpos b = true /\ ~ In b (s_fixed st) /\ Forall (lexlt b) rest.
Proof.
  intros b rest st H. pose proof (I_split _ _ H) as Hs.
  assert (Hin : In b sorted_idx) by (rewrite Hs; apply in_or_app; right; left; reflexivity).
  apply sorted_idx_In in Hin. destruct Hin as [Hn Hp].
  pose proof sorted_idx_sorted as Hso. rewrite Hs in Hso.
  pose proof (sorted_NoDup _ Hso) as Hnd. apply NoDup_remove_2 in Hnd.
  apply sorted_app_r in Hso. inversion Hso; subst.
  repeat split; try assumption. intro X. apply Hnd. apply in_or_app; left; exact X.
Qed.

Lemma in_dec_app_last : forall (i b : nat) fx (A : Type) (u v : A),
  (if in_dec Nat.eq_dec i (fx ++ [b]) then u else v) =
  (if Nat.eqb i b then u else if in_dec Nat.eq_dec i fx then u else v).
Proof.
  intros i b fx A u v. destruct (Nat.eqb_spec i b) as [->|Hne].
  - destruct (in_dec Nat.eq_dec b (fx ++ [b])) as [|Hn]; [reflexivity|].
    exfalso; apply Hn; apply in_or_app; right; left; reflexivity.
  - destruct (in_dec Nat.eq_dec i (fx ++ [b])) as [Hi|Hn], (in_dec Nat.eq_dec i fx) as [Hj|Hm]; try reflexivity.
    + apply in_app_or in Hi. destruct Hi as [Hi|[Hi|[]]]; [contradiction|congruence].
    + exfalso; apply Hn; apply in_or_app; left; exact Hj.
Qed.

Lemma step_inv : forall b rest st tc st',
  Inv (b :: rest) st -> bp b = Some tc -> step st b tc = Some st' -> Inv rest st'.
Proof.
  intros b rest st tc st' HI Hb Hst.
  destruct (Inv_head _ _ _ HI) as [Hbn [Hbp [Hbf Hlex]]].
  assert (Htc : 0 < tc) by (apply (tpos_Some b tc Hb); exact Hbp).
  assert (Hdb : s_d st b = d0 b).
  { rewrite (I_d _ _ HI b Hbn). destruct (in_dec Nat.eq_dec b (s_fixed st)); [contradiction|reflexivity]. }
  assert (Hxb : s_xcp st b = x b).
  { rewrite (I_x _ _ HI b Hbn). destruct (in_dec Nat.eq_dec b (s_fixed st)); [contradiction|reflexivity]. }
  assert (Hd0b : d0 b = - g b) by (apply (d0_Some_nz b tc Hb); lra).
  unfold Cauchy.step in Hst.
  match type of Hst with (if ?c then _ else _) = _ => destruct c; [discriminate|] end.
  injection Hst as Hst. subst st'. constructor; simpl.
  - rewrite <- app_assoc. exact (I_split _ _ HI).
  - intros i Hi. unfold step_d. rewrite tab_spec by exact Hi. unfold upd.
    rewrite in_dec_app_last. destruct (Nat.eqb i b); [reflexivity|]. apply (I_d _ _ HI i Hi).
  - intros i Hi. unfold step_xcp. rewrite tab_spec by exact Hi. unfold upd.
    rewrite in_dec_app_last. destruct (Nat.eqb_spec i b) as [->|Hne]; [|apply (I_x _ _ HI i Hi)].
    unfold step_xb, pinval. apply pin_ext; assumption.
  - lra.
  - intros i Hi. apply in_app_or in Hi. destruct Hi as [Hi|[<-|[]]].
    + destruct (I_fix _ _ HI i Hi) as [t [E Ht]]. exists t. split; [exact E|].
      pose proof (I_rest _ _ HI b (or_introl eq_refl)) as Hr. rewrite Hb in Hr. apply ele_Some in Hr. lra.
    + exists tc. split; [exact Hb|lra].
  - intros i Hi. rewrite Forall_forall in Hlex. pose proof (lexlt_ele _ _ (Hlex i Hi)) as Hle.
    rewrite Hb in Hle. exact Hle.
  - intros j Hj. unfold step_c. rewrite tab_spec by exact Hj. rewrite Qred_correct.
    rewrite (I_c _ _ HI j Hj), (I_p _ _ HI j Hj). rewrite <- sumn_scal, <- sumn_plus.
    apply sumn_ext. intros i Hi. unfold step_dt. rewrite Qred_correct. unfold zz.
    rewrite in_dec_app_last. rewrite (I_d _ _ HI i Hi).
    destruct (Nat.eqb_spec i b) as [->|Hne].
    + destruct (in_dec Nat.eq_dec b (s_fixed st)); [contradiction|]. unfold tval. rewrite Hb. ring.
    + destruct (in_dec Nat.eq_dec i (s_fixed st)); ring.
  - intros j Hj. unfold step_p, step_d. rewrite tab_spec by exact Hj. rewrite Qred_correct.
    rewrite (I_p _ _ HI j Hj).
    rewrite (sumn_ext n (fun i => W i j * tab n (upd (s_d st) b 0) i)
                        (fun i => if Nat.eqb i b then W i j * 0 else W i j * s_d st i)).
    + rewrite (sumn_upd n b (fun i => W i j * 0) (fun i => W i j * s_d st i) Hbn).
      rewrite Hdb, Hd0b. ring.
    + intros i Hi. rewrite tab_spec by exact Hi. unfold upd. destruct (Nat.eqb i b); reflexivity.
  - rewrite app_length. simpl. rewrite (I_nseg _ _ HI). lia.
Qed.

(* ------------------------------------------------------------------ what holds on exit *)
Definition Post (r : result) : Prop :=
  match r with
  | Err _ => True
  | Ok xcp c fx ts ns mg =>
      exists rest,
        sorted_idx = fx ++ rest /\
        0 <= ts /\
        (forall i, (i < n)%nat -> In i fx -> xcp i = pinval i) /\
        (forall i, (i < n)%nat -> ~ In i fx -> xcp i == clip (x i + ts * d0 i) (lb i) (ub i)) /\
        (forall i, In i fx -> exists t, bp i = Some t /\ t <= ts) /\
        (forall i, In i rest -> ele (Some ts) (bp i) = true) /\
        (forall j, (j < m2)%nat -> c j == sumn n (fun i => W i j * zz fx ts i)) /\
        (ns = S (length fx) \/ (sorted_idx = [] /\ ns = 0%nat))
  end.

Hypothesis Hfeas : feasible x.

Lemma fin_dtm_nonneg : forall st, 0 <= fin_dtm st.
Proof.
  intro st. unfold fin_dtm. destruct (Qltb (s_dtm st) 0) eqn:E; [lra|]. apply Qltb_false in E. exact E.
Qed.

Lemma finish_post : forall rest st,
  Inv rest st -> (forall i, In i rest -> ele (Some (fin_ts st)) (bp i) = true) -> Post (finish st).
Proof.
  intros rest st HI Hrest. unfold Cauchy.finish, Post. exists rest.
  pose proof (fin_dtm_nonneg st) as Hdt. pose proof (I_told _ _ HI) as Ht0.
  assert (Ets : fin_ts st == s_told st + fin_dtm st) by (unfold fin_ts; apply Qred_correct).
  split; [exact (I_split _ _ HI)|]. split; [lra|]. split; [|split; [|split; [|split; [|split]]]].
  - intros i Hi Hfx. unfold fin_xcp. rewrite tab_spec by exact Hi. unfold fin_mask.
    rewrite (I_d _ _ HI i Hi), (I_x _ _ HI i Hi).
    destruct (in_dec Nat.eq_dec i (s_fixed st)); [|contradiction]. reflexivity.
  - intros i Hi Hfx. unfold fin_xcp. rewrite tab_spec by exact Hi. unfold fin_mask.
    rewrite (I_d _ _ HI i Hi), (I_x _ _ HI i Hi).
    destruct (in_dec Nat.eq_dec i (s_fixed st)); [contradiction|].
    destruct (Qeq_bool (d0 i) 0) eqn:E; simpl; [|reflexivity].
    apply Qeqb_true in E. rewrite (clip_compat (x i + fin_ts st * d0 i) (x i)) by (rewrite E; ring).
    rewrite clip_id by (apply Hfeas; exact Hi). reflexivity.
  - intros i Hi. destruct (I_fix _ _ HI i Hi) as [t [E Ht]]. exists t. split; [exact E|lra].
  - exact Hrest.
  - intros j Hj. unfold fin_c. rewrite tab_spec by exact Hj. rewrite Qred_correct.
    rewrite (I_c _ _ HI j Hj), (I_p _ _ HI j Hj). rewrite <- sumn_scal, <- sumn_plus.
    apply sumn_ext. intros i Hi. unfold zz. rewrite (I_d _ _ HI i Hi).
    destruct (in_dec Nat.eq_dec i (s_fixed st)); [ring|]. rewrite Ets. ring.
  - left. exact (I_nseg _ _ HI).
Qed.

Lemma Inv_mg : forall rest st mg,
  Inv rest st ->
  Inv rest (mkst (s_xcp st) (s_d st) (s_p st) (s_c st) (s_f1 st) (s_f2 st) (s_dtm st)
                 (s_told st) (s_nseg st) (s_fixed st) mg).
Proof. intros rest st mg [H1 H2 H3 H4 H5 H6 H7 H8 H9]. constructor; simpl; assumption. Qed.

Lemma loop_post : forall rest st, Inv rest st -> Post (loop rest st).
Proof.
  induction rest as [|b rest IH]; intros st HI; simpl.
  - apply (finish_post [] st HI). intros i [].
  - destruct (Inv_head _ _ _ HI) as [Hbn [Hbp [Hbf Hlex]]]. rewrite Forall_forall in Hlex.
    destruct (bp b) as [tc|] eqn:Hb.
    + destruct (Qltb (s_dtm st) (step_dt st tc)) eqn:Ex.
      * apply (finish_post (b :: rest)); [apply Inv_mg; exact HI|].
        apply Qltb_true in Ex. unfold step_dt in Ex. rewrite Qred_correct in Ex.
        pose proof (I_rest _ _ HI b (or_introl eq_refl)) as Hr. rewrite Hb in Hr. apply ele_Some in Hr.
        assert (Hts : fin_ts (mkst (s_xcp st) (s_d st) (s_p st) (s_c st) (s_f1 st) (s_f2 st) (s_dtm st)
                 (s_told st) (s_nseg st) (s_fixed st)
                 (qmin (s_mg st) (relm (s_dtm st) (Qred (tc - s_told st))))) <= tc).
        { unfold fin_ts, fin_dtm; simpl. rewrite Qred_correct.
          destruct (Qltb (s_dtm st) 0) eqn:E0; [lra|]. lra. }
        intros i [<-|Hi].
        -- rewrite Hb. apply ele_Some. exact Hts.
        -- apply (ele_trans _ (Some tc)); [apply ele_Some; exact Hts|].
           rewrite <- Hb. apply lexlt_ele. apply Hlex; exact Hi.
      * destruct (step st b tc) as [st'|] eqn:Hst; [|exact I].
        apply IH. apply (step_inv b rest st tc st' HI Hb Hst).
    + apply (finish_post (b :: rest) st HI).
      intros i [<-|Hi]; [rewrite Hb; reflexivity|].
      pose proof (lexlt_ele _ _ (Hlex i Hi)) as Hle. rewrite Hb in Hle.
      destruct (bp i); [discriminate|reflexivity].
Qed.

Lemma Inv_init : forall f1 f2, Inv sorted_idx (st0 n m2 x g lb ub W f1 f2).
Proof.
  intros f1 f2. unfold st0. constructor; simpl.
  - reflexivity.
  - intros; reflexivity.
  - intros; reflexivity.
  - lra.
  - intros i [].
  - intros i Hi. apply sorted_idx_In in Hi. destruct Hi as [_ Hp]. unfold Cauchy.tpos in Hp. apply elt_ele; exact Hp.
  - intros j Hj. symmetry. apply sumn_zero. intros i Hi. unfold zz; simpl. ring.
  - intros j Hj. unfold p0. rewrite tab_spec by exact Hj. reflexivity.
  - reflexivity.
Qed.

Theorem gcp_post : Post gcp.
Proof.
  unfold Cauchy.gcp. destruct sorted_idx as [|b rest] eqn:Es.
  - exists []. simpl. split; [exact Es|]. split; [lra|]. repeat split.
    + intros i Hi [].
    + intros i Hi _. rewrite (clip_compat (x i + 0 * d0 i) (x i)) by ring.
      rewrite clip_id by (apply Hfeas; exact Hi). reflexivity.
    + intros i [].
    + intros i [].
    + intros j Hj. symmetry. apply sumn_zero. intros i Hi. unfold zz; simpl. ring.
    + right. split; [exact Es|reflexivity].
  - destruct (Qeq_bool _ 0); [exact I|]. rewrite <- Es. apply loop_post. apply Inv_init.
Qed.

(* ------------------------------------------------------------------ consequences of Post *)
Lemma firstn_app_length : forall (A : Type) (l1 l2 : list A), firstn (length l1) (l1 ++ l2) = l1.
Proof. induction l1 as [|a l1 IH]; intro l2; simpl; [reflexivity|]. rewrite IH. reflexivity. Qed.

Lemma within_compat : forall v v' lo hi, v == v' -> within v lo hi -> within v' lo hi.
Proof.
  intros v v' lo hi E [H1 H2]. split; [destruct lo|destruct hi]; trivial; lra.
Qed.

Lemma box_nonempty : forall i, (i < n)%nat ->
  match lb i, ub i with Some l, Some u => l <= u | _, _ => True end.
Proof.
  intros i Hi. destruct (Hfeas i Hi) as [H1 H2]. destruct (lb i), (ub i); trivial. lra.
Qed.

(* a fixed variable: its breakpoint is finite, positive, passed, and the gradient is not zero *)
Lemma fixed_facts : forall fx rest ts i,
  sorted_idx = fx ++ rest ->
  (forall i, In i fx -> exists t, bp i = Some t /\ t <= ts) ->
  In i fx -> (i < n)%nat /\ exists t, bp i = Some t /\ 0 < t /\ t <= ts.
Proof.
  intros fx rest ts i Hs Hfx Hi.
  assert (Hin : In i sorted_idx) by (rewrite Hs; apply in_or_app; left; exact Hi).
  apply sorted_idx_In in Hin. destruct Hin as [Hn Hp]. split; [exact Hn|].
  destruct (Hfx i Hi) as [t [E Ht]]. exists t. split; [exact E|]. split; [|exact Ht].
  apply (tpos_Some i t E). exact Hp.
Qed.

(* a variable that is not fixed stays inside the box when moved by t* d0: t* does not exceed its breakpoint *)
Lemma move_within : forall fx rest ts i,
  sorted_idx = fx ++ rest -> 0 <= ts ->
  (forall i, In i rest -> ele (Some ts) (bp i) = true) ->
  (i < n)%nat -> ~ In i fx -> within (x i + ts * d0 i) (lb i) (ub i).
Proof.
  intros fx rest ts i Hs Hts Hrest Hi Hnf. pose proof (Hfeas i Hi) as Hw.
  destruct (tpos i) eqn:Hp.
  - assert (Hin : In i rest).
    { assert (X : In i sorted_idx) by (apply sorted_idx_In; split; assumption).
      rewrite Hs in X. apply in_app_or in X. destruct X; [contradiction|assumption]. }
    pose proof (Hrest i Hin) as Hle. destruct Hw as [Hl Hu].
    destruct (bp i) as [t|] eqn:E.
    + apply ele_Some in Hle. assert (Ht : 0 < t) by (apply (tpos_Some i t E); exact Hp).
      rewrite (d0_Some_nz i t E) by lra.
      destruct (bp_Some_inv i t E) as [[Hg [u [Eu Et]]]|[Hg [l [El Et]]]].
      * assert (A : t * g i == x i - u) by (rewrite Et; field; lra).
        assert (B : 0 <= (t - ts) * (- g i)) by (apply Qmult_le_0_compat; lra).
        assert (C : 0 <= ts * (- g i)) by (apply Qmult_le_0_compat; lra).
        split; [destruct (lb i); trivial; lra | rewrite Eu; lra].
      * assert (A : t * g i == x i - l) by (rewrite Et; field; lra).
        assert (B : 0 <= (t - ts) * g i) by (apply Qmult_le_0_compat; lra).
        assert (C : 0 <= ts * g i) by (apply Qmult_le_0_compat; lra).
        split; [rewrite El; lra | destruct (ub i); trivial; lra].
    + rewrite (d0_None i E). destruct (bp_None_inv i E) as [Hg|[[Hg Eu]|[Hg El]]].
      * apply (within_compat (x i)); [rewrite Hg; ring | split; assumption].
      * assert (C : 0 <= ts * (- g i)) by (apply Qmult_le_0_compat; lra).
        split; [destruct (lb i); trivial; lra | rewrite Eu; trivial].
      * assert (C : 0 <= ts * g i) by (apply Qmult_le_0_compat; lra).
        split; [rewrite El; trivial | destruct (ub i); trivial; lra].
  - rewrite (d0_not_tpos i Hw Hp). apply (within_compat (x i)); [ring | exact Hw].
Qed.

(* P(x - t g)_i for a variable whose breakpoint is not positive: it stays at x_i *)
Lemma path_not_tpos : forall ts i, 0 <= ts -> (i < n)%nat -> tpos i = false ->
  clip (x i - ts * g i) (lb i) (ub i) == x i.
Proof.
  intros ts i Hts Hi Hp. pose proof (Hfeas i Hi) as Hw. pose proof (box_nonempty i Hi) as Hbox.
  destruct (bp i) as [t|] eqn:E; [|rewrite (tpos_None i E) in Hp; discriminate].
  assert (Ht : t == 0).
  { assert (0 <= t) by (apply (bp_nonneg i t Hw E)).
    assert (~ 0 < t) by (intro X; apply (tpos_Some i t E) in X; congruence). lra. }
  destruct Hw as [Hl Hu].
  destruct (bp_Some_inv i t E) as [[Hg [u [Eu Et]]]|[Hg [l [El Et]]]].
  - assert (A : x i == u) by (assert (t * g i == x i - u) by (rewrite Et; field; lra); rewrite Ht in *; lra).
    assert (C : 0 <= ts * (- g i)) by (apply Qmult_le_0_compat; lra).
    rewrite Eu in *. rewrite clip_hi; [lra | destruct (lb i); trivial | lra].
  - assert (A : x i == l) by (assert (t * g i == x i - l) by (rewrite Et; field; lra); rewrite Ht in *; lra).
    assert (C : 0 <= ts * g i) by (apply Qmult_le_0_compat; lra).
    rewrite El in *. rewrite clip_lo; [lra | destruct (ub i); trivial | lra].
Qed.

(* ================================================================== the theorems *)

(* T1 *)
Theorem gcp_order : forall xcp c fx ts ns mg, gcp = Ok xcp c fx ts ns mg ->
  (exists k, fx = firstn k sorted_idx) /\
  StronglySorted lexlt sorted_idx /\
  (forall i, In i sorted_idx <-> (i < n)%nat /\ tpos i = true) /\
  (forall i, In i fx -> exists t, bp i = Some t /\ 0 < t /\ ~ g i == 0).
Proof.
  intros xcp c fx ts ns mg Hr. pose proof gcp_post as HP. rewrite Hr in HP.
  destruct HP as [rest [Hs [Hts [Hpin [Hmov [Hfx [Hrest [Hc Hns]]]]]]]].
  split; [exists (length fx); rewrite Hs; symmetry; apply firstn_app_length|].
  split; [exact sorted_idx_sorted|]. split; [exact sorted_idx_In|].
  intros i Hi. destruct (fixed_facts fx rest ts i Hs Hfx Hi) as [Hn [t [E [Ht Hle]]]].
  exists t. split; [exact E|]. split; [exact Ht|].
  destruct (bp_Some_inv i t E) as [[Hg _]|[Hg _]]; lra.
Qed.

(* ... in particular a variable sitting on a bound with the gradient pointing outward (t_i = 0)
   or with g_i = 0 is never fixed *)
Corollary gcp_never_fixed : forall xcp c fx ts ns mg i, gcp = Ok xcp c fx ts ns mg ->
  (g i == 0 \/ (exists t, bp i = Some t /\ t == 0)) -> ~ In i fx.
Proof.
  intros xcp c fx ts ns mg i Hr Hz Hi.
  destruct (gcp_order _ _ _ _ _ _ Hr) as [_ [_ [_ H]]]. destruct (H i Hi) as [t [E [Ht Hg]]].
  destruct Hz as [Hz|[t' [E' Hz]]]; [contradiction|]. rewrite E in E'. injection E' as <-. lra.
Qed.

(* T2 *)
Theorem gcp_on_path : forall xcp c fx ts ns mg, gcp = Ok xcp c fx ts ns mg ->
  0 <= ts /\ forall i, (i < n)%nat -> xcp i == clip (x i - ts * g i) (lb i) (ub i).
Proof.
  intros xcp c fx ts ns mg Hr. pose proof gcp_post as HP. rewrite Hr in HP.
  destruct HP as [rest [Hs [Hts [Hpin [Hmov [Hfx [Hrest [Hc Hns]]]]]]]].
  split; [exact Hts|]. intros i Hi. pose proof (Hfeas i Hi) as [Hl Hu]. pose proof (box_nonempty i Hi) as Hbox.
  destruct (in_dec Nat.eq_dec i fx) as [Hin|Hnin].
  - rewrite (Hpin i Hi Hin). destruct (fixed_facts fx rest ts i Hs Hfx Hin) as [_ [t [E [Ht Hle]]]].
    destruct (pinval_reach i t E Ht) as [Hval Hbd].
    rewrite (d0_Some_nz i t E) in Hval by lra.
    destruct Hbd as [[Hg Eu]|[Hg El]].
    + assert (B : 0 <= (ts - t) * (- g i)) by (apply Qmult_le_0_compat; lra).
      rewrite Eu in *. rewrite clip_hi; [reflexivity | destruct (lb i); trivial; lra | lra].
    + assert (B : 0 <= (ts - t) * g i) by (apply Qmult_le_0_compat; lra).
      rewrite El in *. rewrite clip_lo; [reflexivity | destruct (ub i); trivial; lra | lra].
  - rewrite (Hmov i Hi Hnin). destruct (tpos i) eqn:Hp.
    + apply clip_compat. destruct (bp i) as [t|] eqn:E.
      * assert (Ht : 0 < t) by (apply (tpos_Some i t E); exact Hp).
        rewrite (d0_Some_nz i t E) by lra. ring.
      * rewrite (d0_None i E). ring.
    + rewrite (path_not_tpos ts i Hts Hi Hp). rewrite (d0_not_tpos i (Hfeas i Hi) Hp).
      rewrite (clip_compat (x i + ts * 0) (x i)) by ring. rewrite clip_id by (apply Hfeas; exact Hi).
      reflexivity.
Qed.

(* T3 *)
Theorem gcp_pinned_feasible : forall xcp c fx ts ns mg, gcp = Ok xcp c fx ts ns mg ->
  feasible xcp /\
  (forall i, In i fx -> (g i < 0 /\ ub i = Some (xcp i)) \/ (0 < g i /\ lb i = Some (xcp i))) /\
  (forall i, (i < n)%nat -> ~ In i fx -> xcp i == x i + ts * d0 i /\ within (x i + ts * d0 i) (lb i) (ub i)).
Proof.
  intros xcp c fx ts ns mg Hr. pose proof gcp_post as HP. rewrite Hr in HP.
  destruct HP as [rest [Hs [Hts [Hpin [Hmov [Hfx [Hrest [Hc Hns]]]]]]]].
  assert (Hfixed : forall i, In i fx -> (g i < 0 /\ ub i = Some (xcp i)) \/ (0 < g i /\ lb i = Some (xcp i))).
  { intros i Hin. destruct (fixed_facts fx rest ts i Hs Hfx Hin) as [Hi [t [E [Ht Hle]]]].
    rewrite (Hpin i Hi Hin). destruct (pinval_reach i t E Ht) as [_ Hbd]. exact Hbd. }
  assert (Hfree : forall i, (i < n)%nat -> ~ In i fx ->
            xcp i == x i + ts * d0 i /\ within (x i + ts * d0 i) (lb i) (ub i)).
  { intros i Hi Hnin. pose proof (move_within fx rest ts i Hs Hts Hrest Hi Hnin) as Hw.
    split; [|exact Hw]. rewrite (Hmov i Hi Hnin). rewrite clip_id by exact Hw. reflexivity. }
  split; [|split; assumption].
  intros i Hi. pose proof (Hfeas i Hi) as [Hl Hu].
  destruct (in_dec Nat.eq_dec i fx) as [Hin|Hnin].
  - destruct (Hfixed i Hin) as [[Hg Eu]|[Hg El]].
    + split; [|rewrite Eu; lra]. rewrite Eu in Hu. destruct (lb i); trivial. lra.
    + split; [rewrite El; lra|]. rewrite El in Hl. destruct (ub i); trivial. lra.
  - destruct (Hfree i Hi Hnin) as [E Hw]. apply (within_compat (x i + ts * d0 i)); [symmetry; exact E|exact Hw].
Qed.

(* T7 *)
Theorem gcp_c : forall xcp c fx ts ns mg, gcp = Ok xcp c fx ts ns mg ->
  forall j, (j < m2)%nat -> c j == sumn n (fun i => W i j * (xcp i - x i)).
Proof.
  intros xcp c fx ts ns mg Hr. pose proof gcp_post as HP. rewrite Hr in HP.
  destruct HP as [rest [Hs [Hts [Hpin [Hmov [Hfx [Hrest [Hc Hns]]]]]]]].
  intros j Hj. rewrite (Hc j Hj). apply sumn_ext. intros i Hi. unfold zz.
  destruct (in_dec Nat.eq_dec i fx) as [Hin|Hnin].
  - destruct (fixed_facts fx rest ts i Hs Hfx Hin) as [_ [t [E [Ht Hle]]]].
    rewrite (Hpin i Hi Hin). destruct (pinval_reach i t E Ht) as [Hval _]. rewrite Hval.
    unfold tval. rewrite E. ring.
  - rewrite (Hmov i Hi Hnin).
    rewrite clip_id by (apply (move_within fx rest ts i Hs Hts Hrest Hi Hnin)). ring.
Qed.

(* ------------------------------------------------------------------ no error under the preconditions
   theta > 0, eps > 0, a non-zero projected direction, and positive curvature of the model along the
   initial direction (f2_0 = d^T B d, which is > 0 when B is positive definite) *)
Notation f2org := (f2org n x g lb ub theta).
Notation f2_0 := (f2_0 n m2 x g lb ub theta W Mn Md use_factor).

Lemma f2org_pos : 0 < theta -> (exists i, (i < n)%nat /\ ~ d0 i == 0) -> 0 < f2org.
Proof.
  intros Hth [i [Hi Hd]]. unfold Cauchy.f2org, f1_0. rewrite !Qred_correct.
  assert (0 < sumn n (fun i => d0 i * d0 i)).
  { apply sumn_pos.
    - intros k _. nra.
    - exists i. split; [exact Hi|]. destruct (Qlt_le_dec 0 (d0 i)) as [H|H].
      + apply Qmult_lt_0_compat; assumption.
      + assert (d0 i < 0) by (destruct (Qeq_dec (d0 i) 0); [contradiction|lra]).
        assert (E : d0 i * d0 i == (- d0 i) * (- d0 i)) by ring. rewrite E. apply Qmult_lt_0_compat; lra. }
  assert (E : - theta * - sumn n (fun i => d0 i * d0 i) == theta * sumn n (fun i => d0 i * d0 i)) by ring.
  rewrite E. apply Qmult_lt_0_compat; assumption.
Qed.

Lemma qmaxpy_ge : forall a b, b <= qmaxpy a b.
Proof.
  intros a b. unfold qmaxpy. destruct (Qltb a b) eqn:E; [lra|]. apply Qltb_false in E. exact E.
Qed.

Lemma loop_no_err : 0 < eps * f2org -> forall rest st k, loop rest st <> Err k.
Proof.
  intros Hpos. induction rest as [|b rest IH]; intros st k; simpl; [discriminate|].
  destruct (bp b) as [tc|]; [|discriminate].
  destruct (Qltb (s_dtm st) (step_dt st tc)); [discriminate|].
  destruct (step st b tc) as [st'|] eqn:Hst; [apply IH|].
  exfalso. unfold Cauchy.step in Hst.
  match type of Hst with (if Qeq_bool ?a 0 then _ else _) = _ => destruct (Qeq_bool a 0) eqn:E;
    [|discriminate]; apply Qeqb_true in E; pose proof (qmaxpy_ge (step_f2raw m2 g theta W Mn Md use_factor st b) (eps * f2org)) end.
  lra.
Qed.

Theorem gcp_no_error :
  0 < theta -> 0 < eps -> (exists i, (i < n)%nat /\ ~ d0 i == 0) -> ~ f2_0 == 0 ->
  exists xcp c fx ts ns mg, gcp = Ok xcp c fx ts ns mg.
Proof.
  intros Hth Heps Hd Hf2.
  assert (Hpos : 0 < eps * f2org) by (apply Qmult_lt_0_compat; [exact Heps | apply f2org_pos; assumption]).
  destruct gcp as [k|xcp c fx ts ns mg] eqn:E; [|repeat eexists].
  exfalso. unfold Cauchy.gcp in E. destruct sorted_idx; [discriminate|].
  apply Qeqb_false in Hf2. rewrite Hf2 in E. apply (loop_no_err Hpos _ _ _ E).
Qed.

(* ------------------------------------------------------------------ T5, scalar half: the loop stops at the
   FIRST segment whose stationary point -f'/f'' lies before the next breakpoint.
   [explored rest st fxs stk]: starting in state st with the breakpoints [rest] ahead, the segments ending at
   the breakpoints [fxs] are walked through (each of them has  delta_t <= -f'/f''), and the walk stops in
   state stk where the next breakpoint is at infinity, or there is none, or  -f'/f'' < delta_t. *)
Definition stops (rest : list nat) (st : state) : Prop :=
  match rest with
  | [] => True
  | b :: _ => match bp b with None => True | Some tc => s_dtm st < tc - s_told st end
  end.

Inductive explored : list nat -> state -> list nat -> state -> Prop :=
| ex_stop : forall rest st, stops rest st -> explored rest st [] st
| ex_step : forall b rest st tc st' fxs stk,
    bp b = Some tc -> tc - s_told st <= s_dtm st -> step st b tc = Some st' ->
    explored rest st' fxs stk -> explored (b :: rest) st (b :: fxs) stk.

Lemma step_fields : forall st b tc st', step st b tc = Some st' ->
  s_fixed st' = s_fixed st ++ [b] /\ s_told st' = tc /\
  s_dtm st' == - s_f1 st' / s_f2 st' /\ ~ s_f2 st' == 0.
Proof.
  intros st b tc st' H. unfold Cauchy.step in H.
  match type of H with (if Qeq_bool ?a 0 then _ else _) = _ => destruct (Qeq_bool a 0) eqn:E; [discriminate|] end.
  injection H as <-. simpl. apply Qeqb_false in E.
  split; [reflexivity|]. split; [reflexivity|]. split; [apply Qred_correct|exact E].
Qed.

Lemma loop_explored : forall rest st xcp c fx ts ns mg,
  loop rest st = Ok xcp c fx ts ns mg ->
  exists fxs stk, explored rest st fxs stk /\ fx = s_fixed st ++ fxs /\ s_fixed stk = fx /\
    ts == s_told stk + (if Qltb (s_dtm stk) 0 then 0 else s_dtm stk).
Proof.
  induction rest as [|b rest IH]; intros st xcp c fx ts ns mg H; simpl in H.
  - unfold Cauchy.finish in H. injection H as _ _ Hfx Hts _ _. exists [], st.
    split; [constructor; exact I|]. rewrite app_nil_r. split; [congruence|]. split; [exact Hfx|].
    rewrite <- Hts. unfold fin_ts, fin_dtm. apply Qred_correct.
  - destruct (bp b) as [tc|] eqn:Hb.
    + destruct (Qltb (s_dtm st) (step_dt st tc)) eqn:Ex.
      * unfold Cauchy.finish in H. simpl in H. injection H as _ _ Hfx Hts _ _. exists [], st.
        split; [constructor; simpl; rewrite Hb; apply Qltb_true in Ex; unfold step_dt in Ex;
                rewrite Qred_correct in Ex; exact Ex|].
        rewrite app_nil_r. split; [congruence|]. split; [exact Hfx|].
        rewrite <- Hts. unfold fin_ts, fin_dtm; simpl. apply Qred_correct.
      * destruct (step st b tc) as [st'|] eqn:Hst; [|discriminate].
        destruct (IH st' _ _ _ _ _ _ H) as [fxs [stk [He [Hfx [Hk Hts]]]]].
        destruct (step_fields _ _ _ _ Hst) as [Hf _].
        exists (b :: fxs), stk. split.
        -- apply (ex_step b rest st tc st' fxs stk Hb); [|exact Hst|exact He].
           apply Qltb_false in Ex. unfold step_dt in Ex. rewrite Qred_correct in Ex. exact Ex.
        -- split; [rewrite Hfx, Hf, <- app_assoc; reflexivity|]. split; assumption.
    + unfold Cauchy.finish in H. injection H as _ _ Hfx Hts _ _. exists [], st.
      split; [constructor; simpl; rewrite Hb; exact I|].
      rewrite app_nil_r. split; [congruence|]. split; [exact Hfx|].
      rewrite <- Hts. unfold fin_ts, fin_dtm. apply Qred_correct.
Qed.

(* the walk is determined: no earlier segment satisfied the stopping test *)
Lemma explored_unique : forall rest st f1 s1 f2 s2,
  explored rest st f1 s1 -> explored rest st f2 s2 -> f1 = f2 /\ s1 = s2.
Proof.
  intros rest st f1 s1 f2 s2 H1. revert f2 s2. induction H1 as [rest st Hs|b rest st tc st' fxs stk Hb Hle Hst _ IH];
    intros f2 s2 H2; inversion H2; subst.
  - split; reflexivity.
  - simpl in Hs. match goal with Hb' : bp _ = Some _ |- _ => rewrite Hb' in Hs end. lra.
  - match goal with Hs : stops _ _ |- _ => simpl in Hs; rewrite Hb in Hs end. lra.
  - match goal with Hb' : bp b = Some ?t |- _ => rewrite Hb in Hb'; injection Hb' as <- end.
    match goal with Hst' : step st b tc = Some ?s |- _ => rewrite Hst in Hst'; injection Hst' as <- end.
    match goal with He : explored rest st' _ _ |- _ => destruct (IH _ _ He) as [-> ->] end.
    split; reflexivity.
Qed.

Notation st0 := (st0 n m2 x g lb ub W).
Notation f1_0 := (f1_0 n x g lb ub).

(* T5 (scalar half) *)
Theorem gcp_stop_first : forall xcp c fx ts ns mg,
  sorted_idx <> [] -> gcp = Ok xcp c fx ts ns mg ->
  exists stk, explored sorted_idx (st0 f1_0 f2_0) fx stk /\ s_fixed stk = fx /\
    ts == s_told stk + (if Qltb (s_dtm stk) 0 then 0 else s_dtm stk).
Proof.
  intros xcp c fx ts ns mg Hne H. unfold Cauchy.gcp in H.
  destruct sorted_idx as [|b rest] eqn:Es; [contradiction|].
  destruct (Qeq_bool f2_0 0); [discriminate|].
  destruct (loop_explored _ _ _ _ _ _ _ _ H) as [fxs [stk [He [Hfx [Hk Hts]]]]].
  simpl in Hfx. subst fx. exists stk. split; [exact He|]. split; assumption.
Qed.

(* ------------------------------------------------------------------ T4: the stored f', f'' are the derivatives
   of the model along the current segment.  M = Mn / Md is the middle matrix,  B = theta I - W M W^T. *)
Definition Mx (j k : nat) : Q := Mn j k / Md.
Definition MvS (v : nat -> Q) (j : nat) : Q := sumn m2 (fun k => Mx j k * v k).      (* (M v)_j *)
Definition QM (u v : nat -> Q) : Q := sumn m2 (fun j => u j * MvS v j).              (* u^T M v *)
Definition dotn (u v : nat -> Q) : Q := sumn n (fun i => u i * v i).
Definition Msym : Prop := forall j k, (j < m2)%nat -> (k < m2)%nat -> Mx j k == Mx k j.

Lemma sumn_swap : forall a b (f : nat -> nat -> Q),
  sumn a (fun i => sumn b (fun j => f i j)) == sumn b (fun j => sumn a (fun i => f i j)).
Proof.
  induction a; intros b f.
  - simpl. symmetry. apply sumn_zero. intros; reflexivity.
  - rewrite sumn_S, IHa. rewrite <- sumn_plus. apply sumn_ext. intros j Hj. rewrite sumn_S. reflexivity.
Qed.

Lemma sumraw_sumn : forall k f, sumraw k f == sumn k f.
Proof. induction k; intro f; [reflexivity|]. rewrite sumn_S. simpl. rewrite IHk. reflexivity. Qed.

Hypothesis HMd : ~ Md == 0.

Lemma Mv_spec : forall v j, (j < m2)%nat -> Mv m2 Mn Md v j == MvS v j.
Proof.
  intros v j Hj. unfold Mv. rewrite tab_spec by exact Hj. rewrite Qred_correct, sumraw_sumn.
  set (vd := Z.pos (cden m2 v) # 1).
  assert (Hvd : ~ vd == 0) by (unfold vd, Qeq; simpl; lia).
  unfold MvS.
  rewrite (sumn_ext m2 _ (fun k => vd * (Mn j k * v k))).
  - rewrite sumn_scal.
    rewrite (sumn_ext m2 (fun k => Mx j k * v k) (fun k => / Md * (Mn j k * v k))).
    + rewrite sumn_scal. field. split; assumption.
    + intros k Hk. unfold Mx. field. exact HMd.
  - intros k Hk. rewrite tab_spec by exact Hk. rewrite Qred_correct. ring.
Qed.

Lemma dotm_Mv : forall u v, dotm m2 u (Mv m2 Mn Md v) == QM u v.
Proof. intros u v. unfold dotm, QM. apply sumn_ext. intros j Hj. rewrite (Mv_spec v j Hj). reflexivity. Qed.

Lemma MvS_ext : forall v v' j, (forall k, (k < m2)%nat -> v k == v' k) -> MvS v j == MvS v' j.
Proof. intros v v' j H. unfold MvS. apply sumn_ext. intros k Hk. rewrite (H k Hk). reflexivity. Qed.

Lemma QM_ext : forall u u' v v', (forall j, (j < m2)%nat -> u j == u' j) -> (forall j, (j < m2)%nat -> v j == v' j) ->
  QM u v == QM u' v'.
Proof.
  intros u u' v v' Hu Hv. unfold QM. apply sumn_ext. intros j Hj.
  rewrite (Hu j Hj), (MvS_ext v v' j Hv). reflexivity.
Qed.

Lemma QM_add_l : forall u w v a, QM (fun j => u j + a * w j) v == QM u v + a * QM w v.
Proof.
  intros u w v a. unfold QM. rewrite <- sumn_scal, <- sumn_plus. apply sumn_ext. intros j _. ring.
Qed.

Lemma MvS_add : forall v w a j, MvS (fun k => v k + a * w k) j == MvS v j + a * MvS w j.
Proof.
  intros v w a j. unfold MvS. rewrite <- sumn_scal, <- sumn_plus. apply sumn_ext. intros k _. ring.
Qed.

Lemma QM_add_r : forall u v w a, QM u (fun j => v j + a * w j) == QM u v + a * QM u w.
Proof.
  intros u v w a. unfold QM. rewrite <- sumn_scal, <- sumn_plus. apply sumn_ext. intros j _.
  rewrite MvS_add. ring.
Qed.

Lemma QM_sym : Msym -> forall u v, QM u v == QM v u.
Proof.
  intros Hs u v. unfold QM, MvS.
  rewrite (sumn_ext m2 _ (fun j => sumn m2 (fun k => u j * (Mx j k * v k))))
    by (intros j _; rewrite sumn_scal; reflexivity).
  rewrite sumn_swap. apply sumn_ext. intros k Hk. rewrite <- sumn_scal. apply sumn_ext. intros j Hj.
  rewrite (Hs j k Hj Hk). ring.
Qed.

Definition ufq (q : Q) : Q := if use_factor then q else 0.

(* f' = g.d + theta d.z - p^T M c,   f'' = theta d.d - p^T M p   (p = W^T d, c = W^T z by Inv) *)
Definition F1 (st : state) : Q :=
  dotn g (s_d st) + theta * dotn (s_d st) (zz (s_fixed st) (s_told st)) - ufq (QM (s_p st) (s_c st)).
Definition F2 (st : state) : Q :=
  theta * dotn (s_d st) (s_d st) - ufq (QM (s_p st) (s_p st)).
Definition derivs_ok (st : state) : Prop := s_f1 st == F1 st /\ s_f2 st == F2 st.

Lemma derivs_init : derivs_ok (st0 f1_0 f2_0).
Proof.
  unfold derivs_ok, F1, F2, Cauchy.st0; simpl. split.
  - unfold Cauchy.f1_0. rewrite Qred_correct. unfold dotn, ufq.
    assert (E0 : QM (p0 n m2 x g lb ub W) (fun _ => 0) == 0).
    { unfold QM. apply sumn_zero. intros j _. unfold MvS.
      rewrite (sumn_zero m2 (fun k => Mx j k * 0)) by (intros; ring). ring. }
    assert (E1 : sumn n (fun i => d0 i * zz [] 0 i) == 0) by (apply sumn_zero; intros i _; unfold zz; simpl; ring).
    assert (E2 : sumn n (fun i => g i * d0 i) == - sumn n (fun i => d0 i * d0 i)).
    { rewrite <- (Qmult_1_l (sumn n (fun i => d0 i * d0 i))).
      assert (X : - (1 * sumn n (fun i => d0 i * d0 i)) == (-1) * sumn n (fun i => d0 i * d0 i)) by ring.
      rewrite X, <- sumn_scal. apply sumn_ext. intros i _. unfold Cauchy.d0.
      destruct (bp i) as [t|]; [destruct (Qeq_bool t 0)|]; ring. }
    rewrite E1, E2. destruct use_factor; [rewrite E0|]; ring.
  - unfold Cauchy.f2_0, Cauchy.f2org, Cauchy.f1_0, dotn, ufq.
    destruct use_factor; rewrite !Qred_correct; [rewrite dotm_Mv|]; ring.
Qed.

Lemma zz_step : forall b rest st tc i, Inv (b :: rest) st -> bp b = Some tc -> (i < n)%nat ->
  zz (s_fixed st ++ [b]) tc i == zz (s_fixed st) (s_told st) i + (tc - s_told st) * s_d st i.
Proof.
  intros b rest st tc i HI Hb Hi. destruct (Inv_head _ _ _ HI) as [Hbn [Hbp [Hbf Hlex]]].
  unfold zz. rewrite in_dec_app_last. rewrite (I_d _ _ HI i Hi).
  destruct (Nat.eqb_spec i b) as [->|Hne].
  - destruct (in_dec Nat.eq_dec b (s_fixed st)); [contradiction|]. unfold tval. rewrite Hb. ring.
  - destruct (in_dec Nat.eq_dec i (s_fixed st)); ring.
Qed.

(* one pass through the loop: the errors (stored - true) of f' and f'' evolve linearly; the only source of a
   difference is the safeguard f'' <- max(f'', eps f''_0) *)
Lemma step_derivs_diff : Msym -> forall b rest st tc st',
  Inv (b :: rest) st -> bp b = Some tc -> step st b tc = Some st' ->
  s_f1 st' - F1 st' == (s_f1 st - F1 st) + (tc - s_told st) * (s_f2 st - F2 st) /\
  step_f2raw m2 g theta W Mn Md use_factor st b - F2 st' == s_f2 st - F2 st /\
  s_f2 st' = qmaxpy (step_f2raw m2 g theta W Mn Md use_factor st b) (eps * f2org).
Proof.
  intros Hsym b rest st tc st' HI Hb Hst.
  destruct (Inv_head _ _ _ HI) as [Hbn [Hbp [Hbf Hlex]]].
  assert (Htc : 0 < tc) by (apply (tpos_Some b tc Hb); exact Hbp).
  assert (Hdb : s_d st b = d0 b).
  { rewrite (I_d _ _ HI b Hbn). destruct (in_dec Nat.eq_dec b (s_fixed st)); [contradiction|reflexivity]. }
  assert (Hxb : s_xcp st b = x b).
  { rewrite (I_x _ _ HI b Hbn). destruct (in_dec Nat.eq_dec b (s_fixed st)); [contradiction|reflexivity]. }
  assert (Hd0b : d0 b = - g b) by (apply (d0_Some_nz b tc Hb); lra).
  assert (Hzb : step_xb lb ub st b - x b == tc * d0 b).
  { unfold step_xb. rewrite (pin_ext (s_xcp st) x (s_d st) d0 b Hxb Hdb).
    destruct (pinval_reach b tc Hb Htc) as [E _]. unfold pinval in E. rewrite E. ring. }
  unfold Cauchy.step in Hst.
  match type of Hst with (if ?c then _ else _) = _ => destruct c; [discriminate|] end.
  injection Hst as Hst. subst st'. unfold F1, F2; simpl.
  set (dt := step_dt st tc). assert (Edt : dt == tc - s_told st) by (unfold dt, step_dt; apply Qred_correct).
  (* the new vectors *)
  assert (Ed : forall i, (i < n)%nat -> step_d n st b i = if Nat.eqb i b then 0 else s_d st i).
  { intros i Hi. unfold step_d. rewrite tab_spec by exact Hi. reflexivity. }
  assert (Ec : forall j, (j < m2)%nat -> step_c m2 st dt j == s_c st j + dt * s_p st j).
  { intros j Hj. unfold step_c. rewrite tab_spec by exact Hj. apply Qred_correct. }
  assert (Ep : forall j, (j < m2)%nat -> step_p m2 g W st b j == s_p st j + g b * W b j).
  { intros j Hj. unfold step_p. rewrite tab_spec by exact Hj. apply Qred_correct. }
  (* n-side sums *)
  assert (S1 : dotn g (step_d n st b) == dotn g (s_d st) + g b * g b).
  { unfold dotn. rewrite (sumn_ext n _ (fun i => if Nat.eqb i b then g i * 0 else g i * s_d st i)).
    - rewrite (sumn_upd n b (fun i => g i * 0) (fun i => g i * s_d st i) Hbn). rewrite Hdb, Hd0b. ring.
    - intros i Hi. rewrite (Ed i Hi). destruct (Nat.eqb i b); reflexivity. }
  assert (S2 : dotn (step_d n st b) (zz (s_fixed st ++ [b]) tc) ==
               dotn (s_d st) (zz (s_fixed st) (s_told st)) + dt * dotn (s_d st) (s_d st) + g b * (tc * d0 b)).
  { unfold dotn.
    rewrite (sumn_ext n _ (fun i => if Nat.eqb i b then 0 * (tc * d0 b)
                                    else s_d st i * (zz (s_fixed st) (s_told st) i + dt * s_d st i))).
    - rewrite (sumn_upd n b (fun i => 0 * (tc * d0 b))
                 (fun i => s_d st i * (zz (s_fixed st) (s_told st) i + dt * s_d st i)) Hbn).
      rewrite (sumn_ext n _ (fun i => s_d st i * zz (s_fixed st) (s_told st) i + dt * (s_d st i * s_d st i)))
        by (intros; ring).
      rewrite sumn_plus, sumn_scal.
      assert (Ez : zz (s_fixed st) (s_told st) b == s_told st * d0 b).
      { unfold zz. destruct (in_dec Nat.eq_dec b (s_fixed st)); [contradiction|reflexivity]. }
      rewrite Ez, Hdb, Hd0b, Edt. ring.
    - intros i Hi. rewrite (Ed i Hi). destruct (Nat.eqb_spec i b) as [->|Hne].
      + ring.
      + rewrite (zz_step b rest st tc i HI Hb Hi), Edt. reflexivity. }
  assert (S3 : dotn (step_d n st b) (step_d n st b) == dotn (s_d st) (s_d st) - g b * g b).
  { unfold dotn. rewrite (sumn_ext n _ (fun i => if Nat.eqb i b then 0 * 0 else s_d st i * s_d st i)).
    - rewrite (sumn_upd n b (fun i => 0 * 0) (fun i => s_d st i * s_d st i) Hbn). rewrite Hdb, Hd0b. ring.
    - intros i Hi. rewrite (Ed i Hi). destruct (Nat.eqb i b); reflexivity. }
  (* m-side forms *)
  assert (Q1 : QM (step_p m2 g W st b) (step_c m2 st dt) ==
               QM (s_p st) (s_c st) + dt * QM (s_p st) (s_p st) + g b * QM (W b) (step_c m2 st dt)).
  { rewrite (QM_ext _ (fun j => s_p st j + g b * W b j) _ (step_c m2 st dt) Ep (fun j _ => Qeq_refl _)).
    rewrite QM_add_l.
    rewrite (QM_ext (s_p st) (s_p st) _ (fun j => s_c st j + dt * s_p st j) (fun j _ => Qeq_refl _) Ec).
    rewrite QM_add_r. ring. }
  assert (Q2 : QM (step_p m2 g W st b) (step_p m2 g W st b) ==
               QM (s_p st) (s_p st) + g b * (2 * QM (W b) (s_p st) + g b * QM (W b) (W b))).
  { rewrite (QM_ext _ (fun j => s_p st j + g b * W b j) _ (fun j => s_p st j + g b * W b j) Ep Ep).
    rewrite QM_add_l, !QM_add_r. rewrite (QM_sym Hsym (s_p st) (W b)). ring. }
  assert (Q3 : QM (W b) (fun j => 2 * s_p st j + g b * W b j) == 2 * QM (W b) (s_p st) + g b * QM (W b) (W b)).
  { rewrite (QM_ext (W b) (W b) _ (fun j => (fun _ => 0) j + 2 * s_p st j + g b * W b j)
               (fun j _ => Qeq_refl _)) by (intros; ring).
    rewrite (QM_add_r (W b) (fun j => (fun _ => 0) j + 2 * s_p st j) (W b) (g b)).
    rewrite (QM_add_r (W b) (fun _ => 0) (s_p st) 2).
    assert (Z : QM (W b) (fun _ => 0) == 0).
    { unfold QM. apply sumn_zero. intros j _. unfold MvS.
      rewrite (sumn_zero m2 (fun k => Mx j k * 0)) by (intros; ring). ring. }
    rewrite Z. ring. }
  split; [|split; [|reflexivity]].
  - unfold step_f1. rewrite Qred_correct. fold dt. unfold ufq. destruct use_factor.
    + rewrite Hzb, S1, S2, dotm_Mv, Q1, <- Edt. ring.
    + rewrite Hzb, S1, S2, <- Edt. ring.
  - unfold step_f2raw. rewrite Qred_correct. unfold ufq. destruct use_factor.
    + rewrite S3, dotm_Mv, Q2, Q3. ring.
    + rewrite S3. ring.
Qed.

(* exact form (T4): as long as the safeguard does not change f'' the stored values ARE the derivatives *)
Lemma step_derivs : Msym -> forall b rest st tc st',
  Inv (b :: rest) st -> derivs_ok st -> bp b = Some tc -> step st b tc = Some st' ->
  eps * f2org <= step_f2raw m2 g theta W Mn Md use_factor st b ->        (* safeguard inactive *)
  derivs_ok st'.
Proof.
  intros Hsym b rest st tc st' HI [Hf1 Hf2] Hb Hst Hsg.
  destruct (step_derivs_diff Hsym b rest st tc st' HI Hb Hst) as [D1 [D2 D3]].
  assert (Em : s_f2 st' = step_f2raw m2 g theta W Mn Md use_factor st b).
  { rewrite D3. unfold qmaxpy. destruct (Qltb _ _) eqn:E; [apply Qltb_true in E; lra|reflexivity]. }
  assert (X : (tc - s_told st) * (s_f2 st - F2 st) == 0) by (rewrite Hf2; ring).
  split; [|rewrite Em]; lra.
Qed.

(* inequality form: in all cases the stored values over-estimate the true derivatives *)
Definition derivs_le (st : state) : Prop := F1 st <= s_f1 st /\ F2 st <= s_f2 st.

Lemma step_derivs_le : Msym -> forall b rest st tc st',
  Inv (b :: rest) st -> derivs_le st -> bp b = Some tc -> step st b tc = Some st' ->
  derivs_le st'.
Proof.
  intros Hsym b rest st tc st' HI [Hf1 Hf2] Hb Hst.
  destruct (step_derivs_diff Hsym b rest st tc st' HI Hb Hst) as [D1 [D2 D3]].
  pose proof (I_rest _ _ HI b (or_introl eq_refl)) as Hr. rewrite Hb in Hr. apply ele_Some in Hr.
  assert (0 <= (tc - s_told st) * (s_f2 st - F2 st)) by (apply Qmult_le_0_compat; lra).
  split; [lra|]. rewrite D3.
  assert (step_f2raw m2 g theta W Mn Md use_factor st b <= qmaxpy (step_f2raw m2 g theta W Mn Md use_factor st b) (eps * f2org)).
  { unfold qmaxpy. destruct (Qltb _ _) eqn:E; [apply Qltb_true in E; lra|lra]. }
  lra.
Qed.

(* the walk of [explored], with a property attached to every visited state *)
Inductive walk (P : list nat -> state -> Prop) : list nat -> state -> list nat -> state -> Prop :=
| w_stop : forall rest st, P rest st -> stops rest st -> walk P rest st [] st
| w_step : forall b rest st tc st' fxs stk,
    P (b :: rest) st -> bp b = Some tc -> tc - s_told st <= s_dtm st -> step st b tc = Some st' ->
    walk P rest st' fxs stk -> walk P (b :: rest) st (b :: fxs) stk.

(* [explored] where, moreover, the safeguard never changed f'' *)
Inductive explored_ns : list nat -> state -> list nat -> state -> Prop :=
| exn_stop : forall rest st, stops rest st -> explored_ns rest st [] st
| exn_step : forall b rest st tc st' fxs stk,
    bp b = Some tc -> tc - s_told st <= s_dtm st -> step st b tc = Some st' ->
    eps * f2org <= step_f2raw m2 g theta W Mn Md use_factor st b ->
    explored_ns rest st' fxs stk -> explored_ns (b :: rest) st (b :: fxs) stk.

Lemma explored_ns_explored : forall rest st fxs stk, explored_ns rest st fxs stk -> explored rest st fxs stk.
Proof. intros rest st fxs stk H. induction H; econstructor; eassumption. Qed.

Lemma explored_ns_walk : Msym -> forall rest st fxs stk,
  explored_ns rest st fxs stk -> Inv rest st -> derivs_ok st ->
  walk (fun r s => Inv r s /\ derivs_ok s) rest st fxs stk.
Proof.
  intros Hsym rest st fxs stk H. induction H as [rest st Hs|b rest st tc st' fxs stk Hb Hle Hst Hsg _ IH]; intros HI HD.
  - apply w_stop; [split; assumption|exact Hs].
  - apply (w_step _ b rest st tc st' fxs stk); [split; assumption|exact Hb|exact Hle|exact Hst|].
    apply IH; [apply (step_inv b rest st tc st' HI Hb Hst)|].
    apply (step_derivs Hsym b rest st tc st' HI HD Hb Hst Hsg).
Qed.

(* T4 *)
Theorem gcp_derivs : Msym -> forall fx stk,
  explored_ns sorted_idx (st0 f1_0 f2_0) fx stk ->
  walk (fun r s => Inv r s /\ derivs_ok s) sorted_idx (st0 f1_0 f2_0) fx stk.
Proof.
  intros Hsym fx stk H. apply (explored_ns_walk Hsym _ _ _ _ H); [apply Inv_init|apply derivs_init].
Qed.

(* ------------------------------------------------------------------ T6: the model does not increase *)
Definition Wt (s : nat -> Q) (j : nat) : Q := sumn n (fun i => W i j * s i).      (* W^T s *)
(* m(x + s) - m(x) = g.s + s^T B s / 2,  B = theta I - W M W^T *)
Definition mval (s : nat -> Q) : Q :=
  dotn g s + (1 # 2) * (theta * dotn s s - ufq (QM (Wt s) (Wt s))).

Lemma mval_ext : forall s s', (forall i, (i < n)%nat -> s i == s' i) -> mval s == mval s'.
Proof.
  intros s s' H. unfold mval, dotn.
  assert (E1 : sumn n (fun i => g i * s i) == sumn n (fun i => g i * s' i))
    by (apply sumn_ext; intros i Hi; rewrite (H i Hi); reflexivity).
  assert (E2 : sumn n (fun i => s i * s i) == sumn n (fun i => s' i * s' i))
    by (apply sumn_ext; intros i Hi; rewrite (H i Hi); reflexivity).
  assert (E3 : QM (Wt s) (Wt s) == QM (Wt s') (Wt s')).
  { apply QM_ext; intros j _; unfold Wt; apply sumn_ext; intros i Hi; rewrite (H i Hi); reflexivity. }
  rewrite E1, E2. unfold ufq. destruct use_factor; [rewrite E3|]; reflexivity.
Qed.

Lemma mval_move : Msym -> forall rest st D,
  Inv rest st ->
  mval (fun i => zz (s_fixed st) (s_told st) i + D * s_d st i) ==
  mval (zz (s_fixed st) (s_told st)) + D * F1 st + (1 # 2) * (D * D) * F2 st.
Proof.
  intros Hsym rest st D HI. set (z := zz (s_fixed st) (s_told st)). set (d := s_d st).
  unfold mval, F1, F2. fold z d.
  assert (A1 : dotn g (fun i => z i + D * d i) == dotn g z + D * dotn g d).
  { unfold dotn. rewrite <- sumn_scal, <- sumn_plus. apply sumn_ext. intros; ring. }
  assert (A2 : dotn (fun i => z i + D * d i) (fun i => z i + D * d i) ==
               dotn z z + 2 * D * dotn d z + D * D * dotn d d).
  { unfold dotn. rewrite <- !sumn_scal, <- !sumn_plus. apply sumn_ext. intros; ring. }
  assert (A3 : QM (Wt (fun i => z i + D * d i)) (Wt (fun i => z i + D * d i)) ==
               QM (s_c st) (s_c st) + 2 * D * QM (s_p st) (s_c st) + D * D * QM (s_p st) (s_p st)).
  { assert (E : forall j, (j < m2)%nat -> Wt (fun i => z i + D * d i) j == s_c st j + D * s_p st j).
    { intros j Hj. rewrite (I_c _ _ HI j Hj), (I_p _ _ HI j Hj). unfold Wt. fold z d.
      rewrite <- sumn_scal, <- sumn_plus. apply sumn_ext. intros; ring. }
    rewrite (QM_ext _ (fun j => s_c st j + D * s_p st j) _ (fun j => s_c st j + D * s_p st j) E E).
    rewrite QM_add_l, !QM_add_r. rewrite (QM_sym Hsym (s_c st) (s_p st)). ring. }
  assert (A4 : QM (Wt z) (Wt z) == QM (s_c st) (s_c st)).
  { apply QM_ext; intros j Hj; rewrite (I_c _ _ HI j Hj); reflexivity. }
  rewrite A1, A2. unfold ufq. destruct use_factor; [rewrite A3, A4|]; ring.
Qed.

(* on a segment of length D <= -f'/f'' the quadratic does not increase, also with over-estimated f', f'' *)
Lemma seg_nonpos : forall D f1 f2 T1 T2,
  0 <= D -> 0 < f2 -> D * f2 <= - f1 -> T1 <= f1 -> T2 <= f2 ->
  D * T1 + (1 # 2) * (D * D) * T2 <= 0.
Proof.
  intros D f1 f2 T1 T2 HD Hf2 Hle H1 H2.
  assert (B1 : 0 <= D * (f1 - T1)) by (apply Qmult_le_0_compat; lra).
  assert (B2 : 0 <= (D * D) * (f2 - T2)) by (apply Qmult_le_0_compat; [apply Qmult_le_0_compat|]; lra).
  assert (B3 : 0 <= D * (- f1 - D * f2)) by (apply Qmult_le_0_compat; lra).
  assert (B4 : 0 <= D * (- f1)).
  { apply Qmult_le_0_compat; [lra|]. assert (0 <= D * f2) by (apply Qmult_le_0_compat; lra). lra. }
  lra.
Qed.

Lemma zz_compat : forall fx t t' i, t == t' -> zz fx t i == zz fx t' i.
Proof. intros fx t t' i E. unfold zz. destruct (in_dec Nat.eq_dec i fx); [reflexivity|rewrite E; reflexivity]. Qed.

Definition good (st : state) : Prop := 0 < s_f2 st /\ s_dtm st == - s_f1 st / s_f2 st.

Lemma step_good : 0 < eps * f2org -> forall st b tc st', step st b tc = Some st' -> good st'.
Proof.
  intros Hpos st b tc st' H. unfold Cauchy.step in H.
  match type of H with (if Qeq_bool ?a 0 then _ else _) = _ => destruct (Qeq_bool a 0); [discriminate|] end.
  injection H as <-. unfold good; simpl. split; [|apply Qred_correct].
  pose proof (qmaxpy_ge (step_f2raw m2 g theta W Mn Md use_factor st b) (eps * f2org)). lra.
Qed.

Lemma explored_decrease : Msym -> 0 < eps * f2org -> forall rest st fxs stk,
  explored rest st fxs stk -> Inv rest st -> derivs_le st -> good st ->
  mval (zz (s_fixed st) (s_told st)) <= 0 ->
  mval (zz (s_fixed stk) (s_told stk + (if Qltb (s_dtm stk) 0 then 0 else s_dtm stk))) <= 0.
Proof.
  intros Hsym Hpos rest st fxs stk H.
  induction H as [rest st Hs|b rest st tc st' fxs stk Hb Hle Hst _ IH]; intros HI [L1 L2] [G1 G2] Hm.
  - set (D := if Qltb (s_dtm st) 0 then 0 else s_dtm st).
    rewrite (mval_ext _ (fun i => zz (s_fixed st) (s_told st) i + D * s_d st i)).
    + rewrite (mval_move Hsym rest st D HI).
      assert (X : D * F1 st + (1 # 2) * (D * D) * F2 st <= 0).
      { unfold D. destruct (Qltb (s_dtm st) 0) eqn:E; [lra|]. apply Qltb_false in E.
        apply (seg_nonpos (s_dtm st) (s_f1 st) (s_f2 st)); try assumption.
        rewrite G2. assert (X : - s_f1 st / s_f2 st * s_f2 st == - s_f1 st) by (field; lra). lra. }
      lra.
    + intros i Hi. unfold zz. rewrite (I_d _ _ HI i Hi).
      destruct (in_dec Nat.eq_dec i (s_fixed st)); ring.
  - destruct (step_fields _ _ _ _ Hst) as [Hfx [Htold _]].
    pose proof (I_rest _ _ HI b (or_introl eq_refl)) as Hr. rewrite Hb in Hr. apply ele_Some in Hr.
    apply IH.
    + apply (step_inv b rest st tc st' HI Hb Hst).
    + apply (step_derivs_le Hsym b rest st tc st' HI (conj L1 L2) Hb Hst).
    + apply (step_good Hpos _ _ _ _ Hst).
    + rewrite Hfx, Htold.
      rewrite (mval_ext _ (fun i => zz (s_fixed st) (s_told st) i + (tc - s_told st) * s_d st i))
        by (intros i Hi; apply (zz_step b rest st tc i HI Hb Hi)).
      rewrite (mval_move Hsym (b :: rest) st (tc - s_told st) HI).
      assert (X : (tc - s_told st) * F1 st + (1 # 2) * ((tc - s_told st) * (tc - s_told st)) * F2 st <= 0).
      { apply (seg_nonpos (tc - s_told st) (s_f1 st) (s_f2 st)); try assumption; [lra|].
        assert (Y : (tc - s_told st) * s_f2 st <= s_dtm st * s_f2 st) by (apply Qmult_le_compat_r; lra).
        rewrite G2 in Y. assert (X : - s_f1 st / s_f2 st * s_f2 st == - s_f1 st) by (field; lra). lra. }
      lra.
Qed.

Lemma mval_zero : forall s, (forall i, (i < n)%nat -> s i == 0) -> mval s == 0.
Proof.
  intros s H. rewrite (mval_ext s (fun _ => 0) H). unfold mval, dotn.
  rewrite (sumn_zero n (fun i => g i * 0)) by (intros; ring).
  rewrite (sumn_zero n (fun i => 0 * 0)) by (intros; ring).
  assert (Z : QM (Wt (fun _ => 0)) (Wt (fun _ => 0)) == 0).
  { unfold QM. apply sumn_zero. intros j _. unfold Wt at 1. rewrite (sumn_zero n (fun i => W i j * 0)) by (intros; ring). ring. }
  unfold ufq. destruct use_factor; [rewrite Z|]; ring.
Qed.

(* displacement to the Cauchy point *)
Lemma disp_zz : forall xcp c fx ts ns mg, gcp = Ok xcp c fx ts ns mg ->
  forall i, (i < n)%nat -> xcp i - x i == zz fx ts i.
Proof.
  intros xcp c fx ts ns mg Hr i Hi. pose proof gcp_post as HP. rewrite Hr in HP.
  destruct HP as [rest [Hs [Hts [Hpin [Hmov [Hfx [Hrest [Hc Hns]]]]]]]]. unfold zz.
  destruct (in_dec Nat.eq_dec i fx) as [Hin|Hnin].
  - destruct (fixed_facts fx rest ts i Hs Hfx Hin) as [_ [t [E [Ht Hle]]]].
    rewrite (Hpin i Hi Hin). destruct (pinval_reach i t E Ht) as [Hval _]. rewrite Hval.
    unfold tval. rewrite E. ring.
  - rewrite (Hmov i Hi Hnin).
    rewrite clip_id by (apply (move_within fx rest ts i Hs Hts Hrest Hi Hnin)). ring.
Qed.

(* T6 *)
Theorem gcp_model_decrease : Msym -> 0 < eps * f2org -> 0 < f2_0 ->
  forall xcp c fx ts ns mg, gcp = Ok xcp c fx ts ns mg ->
  mval (fun i => xcp i - x i) <= 0.
Proof.
  intros Hsym Hpos Hf2 xcp c fx ts ns mg Hr.
  rewrite (mval_ext _ (zz fx ts) (disp_zz _ _ _ _ _ _ Hr)).
  pose proof Hr as Hr'. unfold Cauchy.gcp in Hr'. destruct sorted_idx as [|b0 rest0] eqn:Es.
  - injection Hr' as _ _ <- <- _ _. rewrite mval_zero; [lra|]. intros i _. unfold zz; simpl. ring.
  - destruct (Qeq_bool f2_0 0); [discriminate|]. rewrite <- Es in Hr'.
    destruct (loop_explored _ _ _ _ _ _ _ _ Hr') as [fxs [stk [He [Hfx [Hk Hts]]]]].
    rewrite (mval_ext _ (zz (s_fixed stk) (s_told stk + (if Qltb (s_dtm stk) 0 then 0 else s_dtm stk)))).
    + apply (explored_decrease Hsym Hpos _ _ _ _ He).
      * apply Inv_init.
      * destruct derivs_init as [E1 E2]. split; lra.
      * split; [exact Hf2|]. unfold Cauchy.st0; simpl. apply Qred_correct.
      * unfold Cauchy.st0; simpl. rewrite mval_zero; [lra|]. intros i _. unfold zz; simpl. ring.
    + intros i _. rewrite Hk. apply zz_compat. exact Hts.
Qed.

(* ------------------------------------------------------------------ T5: first local minimiser.
   By [mval_move], along the segment that starts in state st the model is
       phi(told + D) = phi(told) + D F1 st + D^2 F2 st / 2      (0 <= D <= length of the segment),
   so phi'(told + D) = F1 st + D F2 st.  With exact derivatives (T4) and f'' > 0:  phi' < 0 on every
   explored segment and up to the stopping point, and phi' >= 0 just after it. *)
Lemma seg_descent : forall st, derivs_ok st -> good st ->
  forall D, 0 <= D -> D < s_dtm st -> F1 st + D * F2 st < 0.
Proof.
  intros st [E1 E2] [G1 G2] D HD Hlt. rewrite <- E1, <- E2.
  assert (Y : D * s_f2 st < s_dtm st * s_f2 st) by (apply Qmult_lt_compat_r; lra).
  rewrite G2 in Y. assert (X : - s_f1 st / s_f2 st * s_f2 st == - s_f1 st) by (field; lra). lra.
Qed.

Lemma stop_stationary : forall st, derivs_ok st -> good st ->
  0 <= F1 st + (if Qltb (s_dtm st) 0 then 0 else s_dtm st) * F2 st.
Proof.
  intros st [E1 E2] [G1 G2]. rewrite <- E1, <- E2.
  assert (X : - s_f1 st / s_f2 st * s_f2 st == - s_f1 st) by (field; lra).
  destruct (Qltb (s_dtm st) 0) eqn:E.
  - apply Qltb_true in E. assert (Y : s_dtm st * s_f2 st < 0 * s_f2 st) by (apply Qmult_lt_compat_r; lra).
    rewrite G2 in Y. lra.
  - rewrite G2. lra.
Qed.

Definition descent_state (r : list nat) (st : state) : Prop :=
  Inv r st /\ derivs_ok st /\ good st /\ (forall D, 0 <= D -> D < s_dtm st -> F1 st + D * F2 st < 0).

Theorem gcp_first_local_min : Msym -> 0 < eps * f2org -> 0 < f2_0 -> forall fx stk,
  explored_ns sorted_idx (st0 f1_0 f2_0) fx stk ->
  walk descent_state sorted_idx (st0 f1_0 f2_0) fx stk /\
  0 <= F1 stk + (if Qltb (s_dtm stk) 0 then 0 else s_dtm stk) * F2 stk.
Proof.
  intros Hsym Hpos Hf2 fx stk H.
  assert (G0 : good (st0 f1_0 f2_0)) by (split; [exact Hf2|unfold Cauchy.st0; simpl; apply Qred_correct]).
  assert (Hgen : forall rest st fxs sk, explored_ns rest st fxs sk -> Inv rest st -> derivs_ok st -> good st ->
            walk descent_state rest st fxs sk /\ derivs_ok sk /\ good sk).
  { intros rest st fxs sk He.
    induction He as [rest st Hs|b rest st tc st' fxs sk Hb Hle Hst Hsg _ IH]; intros HI HD HG.
    - split; [|split; assumption]. apply w_stop; [|exact Hs].
      split; [exact HI|split; [exact HD|split; [exact HG|apply (seg_descent st HD HG)]]].
    - destruct (IH (step_inv b rest st tc st' HI Hb Hst)
                   (step_derivs Hsym b rest st tc st' HI HD Hb Hst Hsg)
                   (step_good Hpos _ _ _ _ Hst)) as [Hw [HDk HGk]].
      split; [|split; assumption].
      apply (w_step _ b rest st tc st' fxs sk); [|exact Hb|exact Hle|exact Hst|exact Hw].
      split; [exact HI|split; [exact HD|split; [exact HG|apply (seg_descent st HD HG)]]]. }
  destruct (Hgen _ _ _ _ H (Inv_init _ _) derivs_init G0) as [Hw [HDk HGk]].
  split; [exact Hw|apply (stop_stationary stk HDk HGk)].
Qed.

End Proofs.

(* ================================================================== list-level entry point [gcp_list]
   (what the correspondence harness runs) *)
Section ListLevel.
Variables (x g : list Q) (lb ub : list (option Q)) (theta : Q) (W Mn : list (list Q)) (Md : Q).
Variables (use_factor : bool) (eps : Q).

Let n := length x.
Let m2 := length Mn.
Let o := gcp_list x g lb ub theta W Mn Md use_factor eps.
Let G := gcp n m2 (nthQ x) (nthQ g) (ntho lb) (ntho ub) theta (mat W) (mat Mn) Md use_factor eps.

Definition feasible_list : Prop := feasible n (ntho lb) (ntho ub) (nthQ x).

Lemma gcp_list_ok : o_ok o = true ->
  exists xcp c ts,
    G = Ok xcp c (o_fixed o) ts (o_nseg o) (o_margin o) /\ o_tstar o == ts /\
    (forall i, (i < n)%nat -> nthQ (o_xcp o) i == xcp i) /\
    (forall j, (j < m2)%nat -> nthQ (o_c o) j == c j).
Proof.
  unfold o, gcp_list. fold n m2 G. destruct G as [k|xcp c fx ts ns mg]; simpl; [discriminate|].
  intros _. exists xcp, c, ts. split; [reflexivity|]. split; [reflexivity|]. split.
  - intros i Hi. unfold nthQ. change (tab n (fun i => Qred (xcp i)) i == xcp i).
    rewrite tab_spec by exact Hi. apply Qred_correct.
  - intros j Hj. unfold nthQ. change (tab m2 c j == c j).
    rewrite tab_spec by exact Hj. reflexivity.
Qed.

Theorem gcp_list_order : feasible_list -> o_ok o = true ->
  let srt := sorted_idx n (nthQ x) (nthQ g) (ntho lb) (ntho ub) in
  (exists k, o_fixed o = firstn k srt) /\
  StronglySorted (lexlt (nthQ x) (nthQ g) (ntho lb) (ntho ub)) srt /\
  (forall i, In i srt <-> (i < n)%nat /\ tpos (nthQ x) (nthQ g) (ntho lb) (ntho ub) i = true) /\
  (forall i, In i (o_fixed o) ->
     exists t, bp (nthQ x) (nthQ g) (ntho lb) (ntho ub) i = Some t /\ 0 < t /\ ~ nthQ g i == 0).
Proof.
  intros Hf Hok. destruct (gcp_list_ok Hok) as [xcp [c [ts [HG _]]]].
  exact (gcp_order n m2 _ _ _ _ theta _ _ Md use_factor eps Hf _ _ _ _ _ _ HG).
Qed.

Theorem gcp_list_on_path : feasible_list -> o_ok o = true ->
  0 <= o_tstar o /\
  forall i, (i < n)%nat ->
    nthQ (o_xcp o) i == clip (nthQ x i - o_tstar o * nthQ g i) (ntho lb i) (ntho ub i).
Proof.
  intros Hf Hok. destruct (gcp_list_ok Hok) as [xcp [c [ts [HG [Hts [Hx _]]]]]].
  destruct (gcp_on_path n m2 _ _ _ _ theta _ _ Md use_factor eps Hf _ _ _ _ _ _ HG) as [H0 Hp].
  split; [rewrite Hts; exact H0|]. intros i Hi. rewrite (Hx i Hi), (Hp i Hi).
  apply clip_compat. rewrite Hts. reflexivity.
Qed.

Theorem gcp_list_pinned_feasible : feasible_list -> o_ok o = true ->
  feasible n (ntho lb) (ntho ub) (nthQ (o_xcp o)) /\
  (forall i, In i (o_fixed o) ->
     (nthQ g i < 0 /\ exists u, ntho ub i = Some u /\ nthQ (o_xcp o) i == u) \/
     (0 < nthQ g i /\ exists l, ntho lb i = Some l /\ nthQ (o_xcp o) i == l)) /\
  (forall i, (i < n)%nat -> ~ In i (o_fixed o) ->
     nthQ (o_xcp o) i == nthQ x i + o_tstar o * d0 (nthQ x) (nthQ g) (ntho lb) (ntho ub) i).
Proof.
  intros Hf Hok. destruct (gcp_list_ok Hok) as [xcp [c [ts [HG [Hts [Hx _]]]]]].
  destruct (gcp_pinned_feasible n m2 _ _ _ _ theta _ _ Md use_factor eps Hf _ _ _ _ _ _ HG) as [H1 [H2 H3]].
  destruct (gcp_order n m2 _ _ _ _ theta _ _ Md use_factor eps Hf _ _ _ _ _ _ HG) as [_ [_ [Hin Hfx]]].
  assert (Hlt : forall i, In i (o_fixed o) -> (i < n)%nat).
  { intros i Hi. pose proof (gcp_post n m2 (nthQ x) (nthQ g) (ntho lb) (ntho ub) theta (mat W) (mat Mn) Md use_factor eps Hf) as HP.
    fold G in HP. rewrite HG in HP. destruct HP as [rest [Hs _]].
    apply (proj1 (Hin i)). rewrite Hs. apply in_or_app; left; exact Hi. }
  split; [|split].
  - intros i Hi. apply (within_compat (xcp i)); [symmetry; apply Hx; exact Hi | apply H1; exact Hi].
  - intros i Hi. pose proof (Hlt i Hi) as Hn. destruct (H2 i Hi) as [[Hg E]|[Hg E]].
    + left. split; [exact Hg|]. exists (xcp i). split; [exact E|apply Hx; exact Hn].
    + right. split; [exact Hg|]. exists (xcp i). split; [exact E|apply Hx; exact Hn].
  - intros i Hi Hnf. destruct (H3 i Hi Hnf) as [E _]. rewrite (Hx i Hi), E, Hts. reflexivity.
Qed.

Theorem gcp_list_c : feasible_list -> o_ok o = true ->
  forall j, (j < m2)%nat ->
    nthQ (o_c o) j == sumn n (fun i => mat W i j * (nthQ (o_xcp o) i - nthQ x i)).
Proof.
  intros Hf Hok j Hj. destruct (gcp_list_ok Hok) as [xcp [c [ts [HG [Hts [Hx Hc]]]]]].
  rewrite (Hc j Hj).
  rewrite (gcp_c n m2 _ _ _ _ theta _ _ Md use_factor eps Hf _ _ _ _ _ _ HG j Hj).
  apply sumn_ext. intros i Hi. rewrite (Hx i Hi). reflexivity.
Qed.

End ListLevel.

(* ================================================================== non-vacuity: concrete runs
   3 variables; variable 0 sits on its lower bound with the gradient pointing outward (t_0 = 0);
   variables 1 and 2 reach their upper bounds at the same t = 1/2 (tie); a 2-column memory.
   With theta = 2 the loop fixes variable 1 and then exits ON the tied breakpoint of variable 2
   (the pattern of the repaired mask defect); with theta = 1 it fixes 1 then 2, in index order. *)
Module Ex.
Definition x := [0; 0; 0].
Definition g := [1; -1; -2].
Definition lb := [Some 0; Some (-1); Some (-1)].
Definition ub := [Some 1; Some (1#2); Some 1].
Definition W := [[1;0];[0;1];[1;1]].
Definition Mn := [[-1#2;0];[0;1#4]].
Definition eps := 1 # 4503599627370496.
Definition run (theta : Q) := gcp_list x g lb ub theta W Mn 1 true eps.
Definition srt := sorted_idx 3 (nthQ x) (nthQ g) (ntho lb) (ntho ub).

Example run_theta2 : run 2 = mkout true [0; 1#2; 1] [1; 3#2] [1%nat] (1#2) 2 (1#157).
Proof. vm_compute. reflexivity. Qed.
Example run_theta1 : run 1 = mkout true [0; 1#2; 1] [1; 3#2] [1%nat; 2%nat] (1#2) 3 (21#97).
Proof. vm_compute. reflexivity. Qed.

Lemma feasible_ex : feasible_list x lb ub.
Proof.
  intros i Hi. do 3 (destruct i as [|i]; [vm_compute; split; discriminate|]). simpl in Hi. lia.
Qed.

(* T1: the breakpoints with t > 0 in stable order are [1; 2] (0 is excluded: t_0 = 0); the fixed variables
   are a prefix of it *)
Example order_sorted : srt = [1%nat; 2%nat] /\ bp (nthQ x) (nthQ g) (ntho lb) (ntho ub) 0 = Some 0.
Proof. vm_compute. split; reflexivity. Qed.
Example order_theta2 : o_fixed (run 2) = firstn 1 srt /\ o_fixed (run 1) = firstn 2 srt.
Proof. vm_compute. split; reflexivity. Qed.
Example order_applies : exists k, o_fixed (run 2) = firstn k srt.
Proof. exact (proj1 (gcp_list_order x g lb ub 2 W Mn 1 true eps feasible_ex eq_refl)). Qed.

(* T2: x_cp = P(x - t* g) with t* = 1/2 *)
Example on_path_theta2 :
  forallb (fun i => Qeq_bool (nthQ (o_xcp (run 2)) i)
                             (clip (nthQ x i - o_tstar (run 2) * nthQ g i) (ntho lb i) (ntho ub i)))
          (seq 0 3) = true.
Proof. vm_compute. reflexivity. Qed.
Example on_path_applies : nthQ (o_xcp (run 2)) 2 == clip (nthQ x 2 - o_tstar (run 2) * nthQ g 2) (ntho lb 2) (ntho ub 2).
Proof. apply (proj2 (gcp_list_on_path x g lb ub 2 W Mn 1 true eps feasible_ex eq_refl)). simpl. lia. Qed.

(* T3: variable 1 is pinned exactly on its upper bound; variable 0 has not moved *)
Example pinned_theta2 : ntho ub 1 = Some (nthQ (o_xcp (run 2)) 1) /\ nthQ (o_xcp (run 2)) 0 = nthQ x 0.
Proof. vm_compute. split; reflexivity. Qed.

(* T7: c = W^T (x_cp - x) *)
Example c_theta2 :
  forallb (fun j => Qeq_bool (nthQ (o_c (run 2)) j)
                             (sumn 3 (fun i => mat W i j * (nthQ (o_xcp (run 2)) i - nthQ x i))))
          (seq 0 2) = true.
Proof. vm_compute. reflexivity. Qed.

(* T4/T5: the walk of the loop for theta = 2 (one explored segment, safeguard inactive) exists, so the
   hypotheses of gcp_derivs / gcp_first_local_min are satisfiable; M is symmetric, Md <> 0, f''_0 > 0 *)
Definition Xf := nthQ x.  Definition Gf := nthQ g.  Definition LBf := ntho lb.  Definition UBf := ntho ub.
Definition Wf := mat W.   Definition Mf := mat Mn.
Definition s0 := st0 3 2 Xf Gf LBf UBf Wf (f1_0 3 Xf Gf LBf UBf) (f2_0 3 2 Xf Gf LBf UBf 2 Wf Mf 1 true).

Example Msym_ex : Msym 2 Mf 1.
Proof.
  intros j k Hj Hk. destruct j as [|[|j]], k as [|[|k]]; try lia; vm_compute; reflexivity.
Qed.
Example curvature_ex : 0 < eps * f2org 3 Xf Gf LBf UBf 2 /\ 0 < f2_0 3 2 Xf Gf LBf UBf 2 Wf Mf 1 true.
Proof. split; vm_compute; reflexivity. Qed.

Example walk_theta2 : exists stk, explored_ns 3 2 Xf Gf LBf UBf 2 Wf Mf 1 true eps srt s0 [1%nat] stk.
Proof.
  eexists. eapply (exn_step 3 2 Xf Gf LBf UBf 2 Wf Mf 1 true eps 1%nat [2%nat] s0 (1#2)).
  - vm_compute. reflexivity.
  - vm_compute. discriminate.
  - vm_compute. reflexivity.
  - vm_compute. discriminate.
  - apply exn_stop. vm_compute. reflexivity.
Qed.

(* T6: the model value at the Cauchy point is not larger than at x (here -41/32) *)
Example decrease_theta2 :
  mval 3 2 Gf 2 Wf Mf 1 true (fun i => nthQ (o_xcp (run 2)) i - Xf i) == - (41 # 32).
Proof. vm_compute. reflexivity. Qed.
End Ex.
